package main

// C08 — responses are checked against the entry chosen for their status code.
// Real code exercised: openapi3filter.ValidateResponse (Responses.Status/Default, Content.Get,
// validateResponseHeader, decodeBody, Schema.VisitJSON with VisitAsResponse) on operations, responses and
// option sets built from the case; the header decoding claimed by a case is cross-checked through the
// verif hook openapi3filter.VerifDecodeHeader.

import (
	"bytes"
	"context"
	"encoding/json"
	"errors"
	"fmt"
	"io"
	"net/http"
	"strconv"
	"strings"

	"github.com/getkin/kin-openapi/openapi3"
	"github.com/getkin/kin-openapi/openapi3filter"
	"github.com/getkin/kin-openapi/routers"

	"kinverif/internal/hx"
)

func init() {
	hx.Register(&hx.Prop{
		ID: "C08",
		Rule: "exhaustive blocks: (1) all 64 subsets of the response keys {200,201,2XX,4XX,404,default} × 18 status codes (incl. 99,100,599,600,0,-1 and the four skipped codes) × strict × GET/HEAD, " +
			"each entry tagged by its own required header so that the entry chosen is observable (response without headers, and response carrying every tag header but one: rejected exactly when that entry is selected), other class keys (1XX,3XX,5XX,6XX,2xx,XXX) × boundary codes; " +
			"(2) 20 header kinds (string, integer, boolean, untyped, arrays of integer/string/boolean/untyped/object/array items, array without items, objects with write-only / read-only properties, described by content) × raw texts chosen for the decoder (signs, leading zeros, base prefixes, underscores, blanks, int64 bounds, the twelve ParseBool words and near-misses, empty and unparsable array items in every position) × required × present/absent × options, a second value of the same header, a header key present without any value, an unresolved response entry, pairs of failing headers in both name orders, the ignored Content-Type header, a non-canonical declared name; " +
			"(3) 12 content maps × 17 Content-Type values (registered JSON types, the two text decoders, unregistered types, parameters, a blank before ';', upper case, no slash, empty) × 7 bodies × ExcludeResponseBody; failing body reader; (4) object schemas with all subsets of required ⊆ {a,ro,wo,z} × all key subsets of {a,ro,wo,x} × null/non-null write-only value × additionalProperties {absent,false,schema} × options, at top level, nested under a property, inside an array and under additionalProperties; " +
			"then a seeded random stream of methods (only the exact HEAD is skipped), option sets (incl. Options == nil and a custom schema-error function), response maps, headers (kind × listed or free text over the decoder's alphabet), schemas of depth ≤ 3 and schema-directed values (valid and mutated). " +
			"A case is non-trivial when the model reports at least one non-default branch (skip, selection kind, option in effect, header decoding outcome, header/body outcome, decoder kind, schema flags).",
		Exhaustive: true,
		Gen:        genC08,
		Run:        runC08,
		Compare:    cmpC08,
		Shrink:     shrinkC08,
		Assumptions: []string{
			"the JSON body decoder (encoding/json, C06) is an input of the model: each case states its outcome, computed by encoding/json in the generator and tied by the comparison itself",
			"the decoding of every header (untyped, primitive, array, flat object; plain and exploded) is computed by the model (decodeHeader) and compared with the real decoder (verif hook) on every case; the one corner left as an input (a schema applied to the empty property name) is never generated",
			"numbers in schemas and bodies are small integers (no float rounding); header integers range over int64 and beyond; strings are ASCII",
			"schemas and headers are resolved (no nil SchemaRef.Value / HeaderRef.Value; an unresolved ResponseRef is generated and modelled); headers use the default (simple, not exploded) serialization; only the first value of a header is decoded; keys present without any value are generated and modelled",
			"no Content-Type whose registered decoder is YAML, CSV, urlencoded, multipart or zip is generated (their outcome would be an input of the model as well)",
		},
	})
}

// ---------- case → library objects ----------

func c08Int(v any) int64 {
	switch x := v.(type) {
	case int:
		return int64(x)
	case int64:
		return x
	case float64:
		return int64(x)
	case json.Number:
		n, _ := x.Int64()
		return n
	}
	return 0
}

func c08Map(v any) map[string]any { m, _ := v.(map[string]any); return m }

func c08Schema(v any) *openapi3.Schema {
	m := c08Map(v)
	s := &openapi3.Schema{}
	if t := jstr(m, "type"); t != "" {
		s.Type = &openapi3.Types{t}
	}
	s.Nullable = jbool(m, "nullable")
	s.ReadOnly = jbool(m, "readOnly")
	s.WriteOnly = jbool(m, "writeOnly")
	if x, ok := m["maxLength"]; ok && x != nil {
		n := uint64(c08Int(x))
		s.MaxLength = &n
	}
	if x, ok := m["maximum"]; ok && x != nil {
		f := float64(c08Int(x))
		s.Max = &f
	}
	s.Required = toStrs(m["required"])
	if len(s.Required) == 0 {
		s.Required = nil
	}
	switch a := m["addl"].(type) {
	case bool:
		b := a
		s.AdditionalProperties = openapi3.AdditionalProperties{Has: &b}
	case map[string]any:
		s.AdditionalProperties = openapi3.AdditionalProperties{Schema: c08Schema(a).NewRef()}
	}
	if ps := jlist(m["properties"]); len(ps) > 0 {
		s.Properties = openapi3.Schemas{}
		for _, p := range ps {
			kv := jlist(p)
			if len(kv) == 2 {
				k, _ := kv[0].(string)
				if _, dup := s.Properties[k]; !dup {
					s.Properties[k] = c08Schema(kv[1]).NewRef()
				}
			}
		}
	}
	if it, ok := m["items"].(map[string]any); ok {
		s.Items = c08Schema(it).NewRef()
	}
	return s
}

type c08FailingReader struct{}

func (c08FailingReader) Read([]byte) (int, error) { return 0, errors.New("boom") }
func (c08FailingReader) Close() error             { return nil }

// canonical JSON text of a decoded Go value (int64, json.Number, float64 all print as integers here)
func c08Canon(v any) string {
	b, _ := json.Marshal(v)
	var x any
	d := json.NewDecoder(bytes.NewReader(b))
	d.UseNumber()
	_ = d.Decode(&x)
	return hx.Canon(x)
}

func c08ErrClass(err error) any {
	if err == nil {
		return nil
	}
	var re *openapi3filter.ResponseError
	if !errors.As(err, &re) {
		return "other:" + err.Error()
	}
	r := re.Reason
	quoted := func(prefix, suffix string) (string, bool) {
		if strings.HasPrefix(r, prefix) && strings.HasSuffix(r, suffix) {
			if n, e := strconv.Unquote(r[len(prefix) : len(r)-len(suffix)]); e == nil {
				return n, true
			}
		}
		return "", false
	}
	switch {
	case r == "status is not supported":
		return "status"
	case r == "response has not been resolved":
		return "unresolved"
	case r == "failed to read response body":
		return "bodyRead"
	case r == "failed to decode response body":
		return "bodyDecode"
	case strings.HasPrefix(r, "response body doesn't match schema"):
		return "bodySchema"
	case strings.HasPrefix(r, "response header Content-Type has unexpected value"):
		return "ct"
	}
	if n, ok := quoted("response header ", " missing"); ok {
		return "hdrMissing:" + n
	}
	if n, ok := quoted("unable to decode header ", " value"); ok {
		return "hdrDecode:" + n
	}
	if n, ok := quoted("response header ", " doesn't match schema"); ok {
		return "hdrSchema:" + n
	}
	return "other:" + r
}

func runC08(c hx.Case) any {
	responses := openapi3.NewResponsesWithCapacity(4)
	hdr := http.Header{}
	for _, p := range jlist(c["hdrs"]) {
		kv := jlist(p)
		if len(kv) >= 1 { // [name] alone: the key is present with no value at all
			k, _ := kv[0].(string)
			if _, dup := hdr[http.CanonicalHeaderKey(k)]; !dup {
				vals := []string{}
				for _, x := range kv[1:] { // further values of the same header: only the first one is ever decoded
					v, _ := x.(string)
					vals = append(vals, v)
				}
				hdr[http.CanonicalHeaderKey(k)] = vals
			}
		}
	}
	hdrDec := map[string]any{} // "<response key>/<header name>" -> what the real header decoder makes of a present header
	for _, rv := range jlist(c["responses"]) {
		rm := c08Map(rv)
		key := jstr(rm, "key")
		if responses.Value(key) != nil {
			continue // a Go map holds one entry per key: the first one, as in the model's lookup
		}
		if jbool(rm, "unresolved") { // a reference that was never resolved: the entry exists, its Value is nil
			responses.Set(key, &openapi3.ResponseRef{Ref: "#/components/responses/Missing"})
			continue
		}
		desc := ""
		resp := &openapi3.Response{Description: &desc}
		if hs := jlist(rm["headers"]); len(hs) > 0 {
			resp.Headers = openapi3.Headers{}
			for _, hv := range hs {
				hm := c08Map(hv)
				h := &openapi3.Header{}
				h.Required = jbool(hm, "required")
				if jbool(hm, "explode") {
					t := true
					h.Explode = &t
				}
				if hm["schema"] != nil {
					h.Schema = c08Schema(hm["schema"]).NewRef()
				} else {
					h.Content = openapi3.NewContentWithJSONSchema(openapi3.NewStringSchema())
				}
				name := jstr(hm, "name")
				if _, dup := resp.Headers[name]; dup {
					continue
				}
				resp.Headers[name] = &openapi3.HeaderRef{Value: h}
				// what the real decoder (decodeValue with the header decoder) makes of a present header
				if _, ok := hdr[http.CanonicalHeaderKey(name)]; ok && h.Schema != nil {
					hdrDec[key+"/"+name] = c08RealDecode(hdr, name, h)
				}
			}
		}
		if cs := jlist(rm["content"]); len(cs) > 0 {
			resp.Content = openapi3.Content{}
			for _, cv := range cs {
				cm := c08Map(cv)
				mt := openapi3.NewMediaType()
				if cm["schema"] != nil {
					mt.Schema = c08Schema(cm["schema"]).NewRef()
				}
				if _, dup := resp.Content[jstr(cm, "mime")]; !dup {
					resp.Content[jstr(cm, "mime")] = mt
				}
			}
		}
		responses.Set(key, &openapi3.ResponseRef{Value: resp})
	}
	op := &openapi3.Operation{Responses: responses}
	method := jstr(c, "method")
	req, _ := http.NewRequest(method, "http://example.com/x", nil)
	opts := &openapi3filter.Options{
		IncludeResponseStatus:       jbool(c, "strict"),
		ExcludeResponseBody:         jbool(c, "excludeBody"),
		ExcludeWriteOnlyValidations: jbool(c, "woOff"),
		MultiError:                  jbool(c, "multi"),
	}
	if jbool(c, "customErr") { // changes the wording of schema errors only
		opts.WithCustomSchemaErrorFunc(func(err *openapi3.SchemaError) string { return "custom" })
	}
	if !jbool(c, "strict") && !jbool(c, "excludeBody") && !jbool(c, "woOff") && !jbool(c, "multi") && !jbool(c, "customErr") && jbool(c, "nilOptions") {
		opts = nil // input.Options == nil means the defaults
	}
	body := jstr(c, "body")
	in := &openapi3filter.ResponseValidationInput{
		RequestValidationInput: &openapi3filter.RequestValidationInput{Request: req,
			Route: &routers.Route{Path: "/x", Method: method, Operation: op}},
		Status: int(c08Int(c["status"])), Header: hdr, Options: opts,
	}
	if jbool(c, "readFails") {
		in.Body = c08FailingReader{}
	} else {
		in.Body = io.NopCloser(strings.NewReader(body))
	}
	errClass := c08Validate(in)
	var after any
	if in.Body != nil {
		if b, e := io.ReadAll(in.Body); e == nil {
			after = string(b)
		} else {
			after = "unreadable:" + e.Error()
		}
		if jbool(c, "readFails") {
			after = "unread" // the failing reader was not touched
		}
	}
	return map[string]any{"err": errClass, "bodyAfter": after, "hdrDec": hdrDec}
}

// ValidateResponse with a nil dereference observed as the outcome "panic" (the body is still inspected afterwards)
func c08Validate(in *openapi3filter.ResponseValidationInput) (class any) {
	defer func() {
		if r := recover(); r != nil {
			class = "panic"
		}
	}()
	return c08ErrClass(openapi3filter.ValidateResponse(context.Background(), in))
}

func c08RealDecode(hdr http.Header, name string, h *openapi3.Header) (got string) {
	defer func() {
		if r := recover(); r != nil {
			got = "panic"
		}
	}()
	sm, _ := h.SerializationMethod()
	val, found, err := openapi3filter.VerifDecodeHeader(hdr, name, sm, h.Schema, h.Required)
	switch {
	case err != nil:
		got = "err"
	case val == nil:
		got = "nil"
	case c08NilMap(val):
		got = "val:{}" // DecodeObject's nil map inside a non-nil interface: the validator sees an object without keys
	default:
		got = "val:" + c08Canon(val)
	}
	if !found {
		got += " (not found)"
	}
	return got
}

func c08NilMap(v any) bool { m, ok := v.(map[string]any); return ok && m == nil }

// the model's decoding outcome in the same notation
func c08DecString(d map[string]any) string {
	k := jstr(d, "k")
	if k == "val" {
		return "val:" + c08Canon(d["v"])
	}
	return k
}

func cmpC08(c hx.Case, impl any, reply map[string]any) hx.Verdict {
	im, _ := impl.(map[string]any)
	model, _ := reply["model"].(map[string]any)
	spec, _ := reply["spec"].(map[string]any)
	if im == nil || model == nil || spec == nil {
		return hx.Verdict{IM: false, IS: im != nil && im["panic"] == nil, Detail: "missing observation"}
	}
	if _, p := im["panic"]; p {
		return hx.Verdict{IM: false, IS: false, Detail: "implementation panicked: " + fmt.Sprint(im["panic"])}
	}
	v := hx.Verdict{IM: true, IS: true}
	// header decoding: the model's decodeHeader (for object headers: the decoding the case states) against the real decoder
	modelDec := map[string]string{}
	for _, e := range jlist(model["hdrDec"]) {
		kv := jlist(e)
		if len(kv) == 2 {
			k, _ := kv[0].(string)
			if _, dup := modelDec[k]; !dup {
				modelDec[k] = c08DecString(c08Map(kv[1]))
			}
		}
	}
	implDec := c08Map(im["hdrDec"])
	for k, g := range implDec {
		if w, ok := modelDec[k]; !ok || w != fmt.Sprint(g) {
			v.IM = false
			v.Detail = fmt.Sprintf("header decoding %s: real decoder gives %v, model %q", k, g, w)
		}
	}
	for k := range modelDec {
		if _, ok := implDec[k]; !ok {
			v.IM = false
			v.Detail = fmt.Sprintf("header decoding %s: the model decodes a header the run did not", k)
		}
	}
	mAfter := model["bodyAfter"]
	if jbool(c, "readFails") && mAfter != nil {
		mAfter = "unread"
	}
	if hx.Canon(im["err"]) != hx.Canon(model["err"]) || hx.Canon(im["bodyAfter"]) != hx.Canon(mAfter) {
		v.IM = false
		v.Detail = fmt.Sprintf("impl err=%v bodyAfter=%v vs model err=%v bodyAfter=%v", im["err"], im["bodyAfter"], model["err"], mAfter)
	}
	accepted := im["err"] == nil
	if im["err"] == "panic" {
		v.IS = false // a nil dereference is neither an acceptance nor a rejection
		v.Detail = "implementation panicked (nil dereference inside ValidateResponse)"
	} else if accepted != jbool(spec, "accept") {
		v.IS = false
		v.Detail = fmt.Sprintf("verdict: impl err=%v, spec accept=%v", im["err"], jbool(spec, "accept"))
	} else if !jbool(c, "readFails") && hx.Canon(im["bodyAfter"]) != hx.Canon(spec["bodyAfter"]) {
		v.IS = false
		v.Detail = fmt.Sprintf("body afterwards: impl %v, spec %v", im["bodyAfter"], spec["bodyAfter"])
	}
	return v
}

// ---------- generators ----------

type c08J = map[string]any

func c08S(kv ...any) c08J {
	m := c08J{}
	for i := 0; i+1 < len(kv); i += 2 {
		m[kv[i].(string)] = kv[i+1]
	}
	return m
}
func c08Val(v any) c08J { return c08J{"k": "val", "v": v} }

var c08Nil = c08J{"k": "nil"}
var c08Err = c08J{"k": "err"}

// the fourth argument is unused since the model decodes every header itself (kept for the older corpus files' shape)
func c08Hdr(name string, required bool, schema any, _ any) c08J {
	return c08J{"name": name, "required": required, "schema": schema}
}
func c08HdrX(name string, required bool, schema any, explode bool) c08J {
	return c08J{"name": name, "required": required, "schema": schema, "explode": explode}
}
func c08Resp(key string, headers []any, content []any) c08J {
	return c08J{"key": key, "headers": headers, "content": content}
}
func c08MT(mime string, schema any) c08J { return c08J{"mime": mime, "schema": schema} }

func c08Case(method string, status int, responses []any, hdrs []any, body string, bodyDec any, o int) hx.Case {
	return hx.Case{"method": method, "status": status, "responses": responses, "hdrs": hdrs, "body": body,
		"readFails": false, "bodyDec": bodyDec,
		"strict": o&1 != 0, "excludeBody": o&2 != 0, "woOff": o&4 != 0, "multi": o&8 != 0}
}

// a header kind: schema + raw values with the decoding each must give
type c08HK struct {
	schema any
	raws   []struct {
		raw string
		dec any
	}
}

func c08HeaderKinds() []c08HK {
	type rd = struct {
		raw string
		dec any
	}
	pw := c08S("type", "string", "writeOnly", true)
	objWO := c08S("type", "object", "properties", []any{[]any{"n", c08S("type", "string")}, []any{"pw", pw}})
	objWOReq := c08S("type", "object", "required", []any{"pw"}, "properties", []any{[]any{"n", c08S("type", "string")}, []any{"pw", pw}})
	objPlain := c08S("type", "object", "required", []any{"n"}, "properties", []any{[]any{"m", c08S("type", "integer")}, []any{"n", c08S("type", "string", "readOnly", true)}})
	// the model decodes every header itself; `dec` of the raw/dec pairs is unused (the run compares the model's
	// decoding with the real decoder on every case)
	t := func(raws ...string) []rd {
		out := []rd{}
		for _, r := range raws {
			out = append(out, rd{r, c08Err})
		}
		return out
	}
	ints := []string{"5", "50", "abc", "", "-3", "+5", "-0", "007", "1_0", "0x10", "0x5", "0b11", "0o7", "0_7", "07", " 5", "5 ", "-", "+", "1e3", "1.0", "5.0",
		"9223372036854775807", "9223372036854775808", "-9223372036854775808", "-9223372036854775809", "99999999999999999999999"}
	bools := []string{"true", "x", "1", "t", "T", "TRUE", "True", "tRue", "0", "f", "F", "FALSE", "False", "false", "yes", " true", ""}
	arrs := []string{"1,2", "5", "1,50", "1,x", "", "1,,2", ",1", "1,", "x,", ",x", "1,x,", ",", "+1,-0,007", "1, 2"}
	return []c08HK{
		{c08S("type", "string", "maxLength", 3), t("abc", "abcdef", "", "a,b", ",", " ")},
		{c08S("type", "string", "nullable", true), t("abc", "")},
		{c08S("type", "integer", "maximum", 9), t(ints...)},
		{c08S("type", "integer", "nullable", true), t("5", "", "x")},
		{c08S("type", "boolean"), t(bools...)},
		{c08S(), t("abc", "")},
		{c08S("nullable", true), t("abc")},
		{c08S("maxLength", 2), t("abcdef")},
		{c08S("type", "array", "items", c08S("type", "integer", "maximum", 9)), t(arrs...)},
		{c08S("type", "array", "nullable", true, "items", c08S("type", "integer")), t("1,2", "1,,2", "", "x")},
		{c08S("type", "array", "items", c08S("type", "string", "maxLength", 2)), t("ab,c", "ab,cdef", "ab,,c", "")},
		{c08S("type", "array", "items", c08S("type", "boolean")), t("true,0", "true,no", "T,")},
		{c08S("type", "array", "items", c08S()), t("1,2", "", "a")},                  // untyped items: no value
		{c08S("type", "array", "items", c08S("type", "object")), t("1,2", "", ",a")}, // non-primitive items: decode error
		{c08S("type", "array", "items", c08S("type", "array", "items", c08S("type", "integer"))), t("1")},
		{c08S("type", "array"), t("1,2", "", ",1", "a")}, // no items: nil dereference (F-C08-5)
		{c08S("type", "array", "nullable", true), t("1", "")},
		{objWO, t("pw,x", "n,x", "n,x,pw,y", "n", "", "n,x,n,y", "pw,x,pw,", "q,1", "n,,pw,", ",", "n,x,", "n=x", "n=x,pw=y")},
		{objWOReq, t("pw,x", "n,x", "n,x,pw,y", "pw,")},
		{objPlain, t("n,x", "m,4", "m,4,n,x", "m,zz", "", "q,1", "m,4,m,zz", "m,zz,m,4", "m,,n,x", "m,+4", "n,x,q", "m=4,n=x", "m=4", "m=4=5", "m")},
		// properties of every kind inside an object header: untyped and empty → no entry, object-typed → the text, array-typed → error
		{c08S("type", "object", "properties", []any{[]any{"u", c08S()}, []any{"o", c08S("type", "object")}, []any{"a", c08S("type", "array", "items", c08S("type", "integer"))}, []any{"b", c08S("type", "boolean")}}),
			t("u,1", "o,1", "a,1", "b,T", "b,no", "u,1,o,x,b,0", "b,", "o,", "a,")},
		// additionalProperties as a schema / false / true
		{c08S("type", "object", "properties", []any{[]any{"m", c08S("type", "integer")}}, "addl", c08S("type", "integer", "maximum", 9)),
			t("m,4,q,7", "q,7", "q,70", "q,x", "q,", "q,7,q,x", "q,x,q,7", "m,4,m,5", "q,1,r,2", "m,x,q,1")},
		{c08S("type", "object", "properties", []any{[]any{"m", c08S("type", "integer")}}, "addl", false), t("m,4,q,7", "q,7", "m,4")},
		{c08S("type", "object", "addl", c08S("type", "string", "writeOnly", true)), t("q,x", "q,")},
		{c08S("type", "object", "nullable", true), t("", "a,b", "a")},
	}
}

// response-side object schema family of block (4)
func c08ObjSchema(required []any, woNullable bool, addl any) c08J {
	wo := c08S("type", "string", "writeOnly", true)
	if woNullable {
		wo["nullable"] = true
	}
	s := c08S("type", "object", "properties", []any{
		[]any{"a", c08S("type", "string")},
		[]any{"ro", c08S("type", "string", "readOnly", true)},
		[]any{"wo", wo},
	})
	if len(required) > 0 {
		s["required"] = required
	}
	if addl != nil {
		s["addl"] = addl
	}
	return s
}

func c08Subsets(names []string) [][]any {
	out := [][]any{}
	for m := 0; m < 1<<len(names); m++ {
		s := []any{}
		for i, n := range names {
			if m&(1<<i) != 0 {
				s = append(s, n)
			}
		}
		out = append(out, s)
	}
	return out
}

func c08JSON(v any) string { b, _ := json.Marshal(v); return string(b) }

// what JSONBodyDecoder makes of a body text: the claim every case carries in "bodyDec". The model reads it only when
// the decoder registered for the Content-Type is neither the plain nor the file decoder; the generators emit no
// Content-Type whose decoder is another non-JSON one (YAML, CSV, urlencoded, multipart, zip).
func c08JSONDec(body string) any {
	var v any
	d := json.NewDecoder(strings.NewReader(body))
	d.UseNumber()
	if d.Decode(&v) == nil {
		if _, e := d.Token(); e == io.EOF {
			return c08Val(v)
		}
	}
	return c08Err
}

var c08JSONHdr = []any{[]any{"Content-Type", "application/json"}}

func genC08(ctx *hx.Ctx, emit func(hx.Case)) {
	// hx.NewRng(seed) starts at seed*γ and steps by γ, so the streams of consecutive seeds are one draw apart;
	// re-seeding from a mixed output of ctx.Rng gives unrelated streams per VERIF_SEED (still derived from it only).
	r := hx.NewRng(ctx.Rng.U64())
	// (1) status selection: every entry tagged by its own required header
	keys := []string{"200", "201", "2XX", "4XX", "404", "default"}
	statuses := []int{200, 201, 204, 299, 301, 304, 307, 308, 404, 418, 499, 500, 99, 100, 599, 600, 0, -1}
	tag := func(k string) string { return "X-" + strings.ToUpper(k[:1]) + strings.ToLower(k[1:]) }
	for _, sub := range c08Subsets(keys) {
		resps := []any{}
		for _, k := range sub {
			resps = append(resps, c08Resp(k.(string), []any{c08Hdr(tag(k.(string)), true, c08S("type", "string"), c08Val("v"))}, nil))
		}
		for _, st := range statuses {
			for o := 0; o < 2; o++ {
				emit(c08Case("GET", st, resps, []any{}, "", c08Err, o))
			}
			emit(c08Case("HEAD", st, resps, []any{}, "", c08Err, 1))
			if len(sub) <= 2 {
				for _, m := range []string{"head", "POST"} {
					emit(c08Case(m, st, resps, []any{}, "", c08Err, 1))
				}
				cn := c08Case("GET", st, resps, []any{}, "", c08Err, 0)
				cn["nilOptions"] = true
				emit(cn)
			}
			// the response carries every tag header but one: rejected exactly when that entry is the one selected
			for _, miss := range sub {
				hd := []any{}
				for _, k := range sub {
					if k != miss {
						hd = append(hd, []any{tag(k.(string)), "v"})
					}
				}
				emit(c08Case("GET", st, resps, hd, "", c08Err, 1))
			}
		}
	}
	// an entry whose reference was never resolved, chosen or not, under every option
	for _, st := range []int{200, 201, 404, 301} {
		for o := 0; o < 16; o++ {
			un := c08Resp("2XX", nil, nil)
			un["unresolved"] = true
			ok := c08Resp("200", []any{c08Hdr("X-K", true, c08S("type", "string"), c08Err)}, nil)
			def := c08Resp("default", nil, nil)
			def["unresolved"] = true
			emit(c08Case("GET", st, []any{un, ok, def}, []any{[]any{"X-K", "v"}}, "", c08Err, o))
			emit(c08Case("HEAD", st, []any{un, def}, []any{}, "", c08Err, o))
		}
	}
	// other class patterns
	for _, k := range []string{"1XX", "3XX", "5XX", "6XX", "2xx", "XXX"} {
		for _, st := range []int{100, 101, 199, 302, 399, 500, 599, 600, 699, 200} {
			for o := 0; o < 2; o++ {
				emit(c08Case("GET", st, []any{c08Resp(k, []any{c08Hdr("X-K", true, c08S("type", "string"), c08Val("v"))}, nil)}, []any{}, "", c08Err, o))
				emit(c08Case("GET", st, []any{c08Resp(k, []any{c08Hdr("X-K", true, c08S("type", "string"), c08Val("v"))}, nil)}, []any{[]any{"X-K", "v"}}, "", c08Err, o))
			}
		}
	}
	// (2) headers
	kinds := c08HeaderKinds()
	for _, hk := range kinds {
		for _, rd := range hk.raws {
			for _, req := range []bool{false, true} {
				for _, o := range []int{0, 4, 8} {
					emit(c08Case("GET", 200, []any{c08Resp("200", []any{c08Hdr("X-A", req, hk.schema, rd.dec)}, nil)}, []any{[]any{"X-A", rd.raw}}, "", c08Err, o))
				}
			}
		}
		for _, req := range []bool{false, true} {
			emit(c08Case("GET", 200, []any{c08Resp("200", []any{c08Hdr("X-A", req, hk.schema, c08Nil)}, nil)}, []any{[]any{"X-Other", "1"}}, "", c08Err, 0))
		}
	}
	for _, hk := range kinds { // explode: true matters for object-valued headers only
		for _, rd := range hk.raws {
			if jstr(c08Map(hk.schema), "type") == "object" || strings.Contains(rd.raw, "=") {
				emit(c08Case("GET", 200, []any{c08Resp("200", []any{c08HdrX("X-A", true, hk.schema, true)}, nil)}, []any{[]any{"X-A", rd.raw}}, "", c08Err, 0))
			}
		}
	}
	for _, hk := range kinds { // the header key is present with no value at all
		for _, req := range []bool{false, true} {
			emit(c08Case("GET", 200, []any{c08Resp("200", []any{c08Hdr("X-A", req, hk.schema, c08Err)}, nil)}, []any{[]any{"X-A"}}, "", c08Err, 0))
		}
	}
	emit(c08Case("GET", 200, []any{c08Resp("200", []any{c08Hdr("X-A", true, nil, c08Err)}, nil)}, []any{[]any{"X-A"}}, "", c08Err, 0))
	emit(c08Case("GET", 200, []any{c08Resp("200", nil, []any{c08MT("*/*", c08S("type", "integer")), c08MT("application/json", c08S("type", "string"))})}, []any{[]any{"Content-Type"}}, "7", c08JSONDec("7"), 0))
	for _, second := range []string{"x", "", "9"} { // a second value of the header is never looked at
		emit(c08Case("GET", 200, []any{c08Resp("200", []any{c08Hdr("X-A", true, c08S("type", "integer", "maximum", 9), c08Err)}, nil)}, []any{[]any{"X-A", "5", second}}, "", c08Err, 0))
		emit(c08Case("GET", 200, []any{c08Resp("200", []any{c08Hdr("X-A", true, c08S("type", "integer", "maximum", 9), c08Err)}, nil)}, []any{[]any{"X-A", "x", "5"}}, "", c08Err, 0))
	}
	for _, req := range []bool{false, true} { // described by content (finding #22, fixed)
		emit(c08Case("GET", 200, []any{c08Resp("200", []any{c08Hdr("X-A", req, nil, c08Nil)}, nil)}, []any{}, "", c08Err, 0))
		emit(c08Case("GET", 200, []any{c08Resp("200", []any{c08Hdr("X-A", req, nil, c08Nil)}, nil)}, []any{[]any{"X-A", "anything"}}, "", c08Err, 0))
	}
	intS := c08S("type", "integer", "maximum", 9)
	for _, names := range [][2]string{{"X-A", "X-B"}, {"X-B", "X-A"}, {"Content-Type", "X-A"}, {"x-low", "X-A"}, {"X-A", "x-low"}, {"Content-Type", "content-type"}} {
		for m := 0; m < 9; m++ { // each header: ok / schema failure / absent-required
			hs := []any{}
			hd := []any{}
			for i, n := range names {
				switch (m / []int{1, 3}[i]) % 3 {
				case 0:
					hs = append(hs, c08Hdr(n, true, intS, c08Val(5)))
					hd = append(hd, []any{http.CanonicalHeaderKey(n), "5"})
				case 1:
					hs = append(hs, c08Hdr(n, false, intS, c08Val(50)))
					hd = append(hd, []any{http.CanonicalHeaderKey(n), "50"})
				case 2:
					hs = append(hs, c08Hdr(n, true, intS, c08Nil))
				}
			}
			if http.CanonicalHeaderKey(names[0]) == http.CanonicalHeaderKey(names[1]) && m%3 != m/3 {
				continue // both declarations read the same response header: same state for both
			}
			if http.CanonicalHeaderKey(names[0]) == http.CanonicalHeaderKey(names[1]) && len(hd) == 2 {
				hd = hd[:1]
			}
			emit(c08Case("GET", 200, []any{c08Resp("200", hs, nil)}, hd, "", c08Err, m%2*8))
		}
	}
	// (3) content-type selection
	strS := c08S("type", "string", "maxLength", 4)
	contents := [][]any{
		{c08MT("application/json", strS)},
		{c08MT("application/json; charset=utf-8", strS), c08MT("application/json", c08S("type", "integer"))},
		{c08MT("application/*", strS)},
		{c08MT("*/*", strS)},
		{c08MT("text/plain", strS), c08MT("application/json", c08S("type", "integer"))},
		{c08MT("text/*", strS), c08MT("*/*", c08S("type", "integer"))},
		{c08MT("application/json", nil), c08MT("*/*", strS)},
		{c08MT("application/problem+json", strS), c08MT("application/*", c08S("type", "integer"))},
		{c08MT("json", strS)},
	}
	contents = append(contents,
		[]any{c08MT("application/octet-stream", strS), c08MT("application/hal+json", c08S("type", "integer"))},
		[]any{c08MT("application/xml", strS), c08MT("text/*", strS)},
		[]any{c08MT("APPLICATION/JSON", strS)},
	)
	// registered JSON types, the two text decoders, unregistered types, a blank before ';' (parseMediaType does not trim),
	// an upper-case type (registry and content map are case-sensitive)
	cts := []string{"", "application/json", "application/json; charset=utf-8", "application/json;charset=utf-8", "text/plain", "text/plain; charset=x",
		"application/xml", "application/problem+json", "json", "application/", "application/hal+json", "application/vnd.api+json",
		"application/octet-stream", "application/json ; charset=utf-8", "APPLICATION/JSON", "text/html", "application/x-ndjson"}
	for _, content := range contents {
		for _, ct := range cts {
			for _, body := range []string{`"ab"`, `"abcdef"`, `7`, `{"a":`, `"ab" x`, `ab`, ``} {
				hd := []any{}
				if ct != "" {
					hd = append(hd, []any{"Content-Type", ct})
				}
				for _, o := range []int{0, 2} {
					emit(c08Case("GET", 200, []any{c08Resp("200", nil, content)}, hd, body, c08JSONDec(body), o))
				}
			}
		}
	}
	// failing body reader
	for _, content := range contents[:2] {
		c := c08Case("GET", 200, []any{c08Resp("200", nil, content)}, c08JSONHdr, `"ab"`, c08Val("ab"), 0)
		c["readFails"] = true
		emit(c)
		c2 := c08Case("GET", 200, []any{c08Resp("200", nil, content)}, []any{[]any{"Content-Type", "image/png"}}, `"ab"`, c08Err, 0)
		c2["readFails"] = true
		emit(c2)
	}
	// (4) response-side reading of object schemas
	reqSubs := c08Subsets([]string{"a", "ro", "wo", "z"})
	keySubs := c08Subsets([]string{"a", "ro", "wo", "x"})
	addls := []any{nil, false, c08S("type", "integer")}
	wrap := []func(s c08J, v any) (c08J, any){
		func(s c08J, v any) (c08J, any) { return s, v },
		func(s c08J, v any) (c08J, any) {
			return c08S("type", "object", "properties", []any{[]any{"n", s}}), c08J{"n": v}
		},
		func(s c08J, v any) (c08J, any) { return c08S("type", "array", "items", s), []any{c08J{"a": "s"}, v} },
		func(s c08J, v any) (c08J, any) {
			return c08S("type", "object", "addl", s), c08J{"k1": v}
		},
	}
	for wi, w := range wrap {
		for _, req := range reqSubs {
			for _, ks := range keySubs {
				for vi, woVal := range []any{"s", nil, nil} {
					for ai, addl := range addls {
						if wi > 0 && !ctx.Thorough() && (len(req)+len(ks)+vi+ai)%3 != 0 {
							continue // quick tier thins the wrapped variants
						}
						val := c08J{}
						hasWO := false
						for _, k := range ks {
							switch k {
							case "wo":
								val["wo"] = woVal
								hasWO = true
							case "x":
								val["x"] = 7
							default:
								val[k.(string)] = "s"
							}
						}
						if !hasWO && vi >= 1 {
							continue
						}
						s, v := w(c08ObjSchema(req, vi == 1 || (vi == 0 && ai == 1), addl), val)
						for _, o := range []int{0, 4, 8} {
							emit(c08Case("GET", 200, []any{c08Resp("200", nil, []any{c08MT("application/json", s)})}, c08JSONHdr, c08JSON(v), c08Val(v), o))
						}
					}
				}
			}
		}
	}
	// seeded random stream
	n := 20000
	if ctx.Thorough() {
		n = 250000
	}
	for i := 0; i < n; i++ {
		emit(c08Random(r, kinds))
	}
}

var c08PropNames = []string{"a", "b", "c", "d"}

func c08RandSchema(r *hx.Rng, depth int) c08J {
	s := c08J{}
	kinds := []string{"string", "integer", "boolean", "object", "object", "array", ""}
	if depth <= 0 {
		kinds = []string{"string", "integer", "boolean", ""}
	}
	t := hx.Pick(r, kinds)
	if t != "" {
		s["type"] = t
	}
	if r.Chance(20) {
		s["nullable"] = true
	}
	if r.Chance(25) {
		s["writeOnly"] = true
	}
	if r.Chance(20) {
		s["readOnly"] = true
	}
	switch t {
	case "string":
		if r.Chance(40) {
			s["maxLength"] = r.Intn(4)
		}
	case "integer":
		if r.Chance(40) {
			s["maximum"] = r.Intn(10)
		}
	case "array":
		if r.Chance(85) {
			s["items"] = c08RandSchema(r, depth-1)
		}
	case "object", "":
		if t == "" && r.Chance(60) {
			break
		}
		ps := []any{}
		for _, k := range c08PropNames {
			if r.Chance(55) {
				ps = append(ps, []any{k, c08RandSchema(r, depth-1)})
			}
		}
		if len(ps) > 0 {
			s["properties"] = ps
		}
		req := []any{}
		for _, k := range append(append([]string{}, c08PropNames...), "z") {
			if r.Chance(30) {
				req = append(req, k)
			}
		}
		if len(req) > 0 {
			s["required"] = req
		}
		switch r.Intn(5) {
		case 0:
			s["addl"] = false
		case 1:
			s["addl"] = true
		case 2:
			s["addl"] = c08RandSchema(r, depth-1)
		}
	}
	return s
}

// a value directed by the schema as a response reader sees it, with mutations
func c08RandValue(r *hx.Rng, s c08J, depth int) any {
	if r.Chance(6) {
		return hx.Pick(r, []any{nil, "s", 3, true, c08J{}, []any{}})
	}
	if jbool(s, "nullable") && r.Chance(20) {
		return nil
	}
	t := jstr(s, "type")
	if t == "" {
		t = hx.Pick(r, []string{"string", "integer", "object", "boolean"})
	}
	switch t {
	case "string":
		return hx.Pick(r, []string{"", "a", "ab", "abc", "abcd"})
	case "integer":
		return r.Intn(12) - 1
	case "boolean":
		return r.Bool()
	case "array":
		out := []any{}
		it, _ := s["items"].(c08J)
		for i, k := 0, r.Intn(3); i < k; i++ {
			if it != nil {
				out = append(out, c08RandValue(r, it, depth-1))
			} else {
				out = append(out, r.Intn(3))
			}
		}
		return out
	default:
		out := c08J{}
		declared := map[string]c08J{}
		for _, p := range jlist(s["properties"]) {
			kv := jlist(p)
			declared[kv[0].(string)], _ = kv[1].(c08J)
		}
		reqd := map[string]bool{}
		for _, k := range toStrs(s["required"]) {
			reqd[k] = true
		}
		for _, k := range append(append([]string{}, c08PropNames...), "z", "y") {
			ps, isDecl := declared[k]
			p := 10
			switch {
			case isDecl && jbool(ps, "writeOnly"):
				p = 12
			case reqd[k]:
				p = 88
			case isDecl:
				p = 55
			}
			if !r.Chance(p) {
				continue
			}
			if isDecl {
				if jbool(ps, "writeOnly") && r.Chance(40) {
					out[k] = nil
				} else {
					out[k] = c08RandValue(r, ps, depth-1)
				}
			} else if a, ok := s["addl"].(c08J); ok {
				out[k] = c08RandValue(r, a, depth-1)
			} else {
				out[k] = hx.Pick(r, []any{1, "s", nil})
			}
		}
		return out
	}
}

func c08Random(r *hx.Rng, kinds []c08HK) hx.Case {
	keys := []string{"200", "201", "2XX", "4XX", "404", "default", "5XX", "3XX"}
	resps := []any{}
	hd := []any{}
	ctChoices := []string{"application/json", "application/json", "application/json", "application/json; charset=utf-8", "text/plain", "application/xml", "",
		"application/problem+json", "application/octet-stream", "text/plain; charset=utf-8", "application/json ;q=1"}
	ct := hx.Pick(r, ctChoices)
	if ct != "" {
		hd = append(hd, []any{"Content-Type", ct})
	}
	// the body schema/value shared by the entries (each entry gets its own variation)
	var body string
	var bodyDec any = c08Err
	bs := c08RandSchema(r, 3)
	if r.Chance(75) && jstr(bs, "type") != "object" {
		bs = c08RandSchema(r, 3)
	}
	bv := c08RandValue(r, bs, 3)
	body = c08JSON(bv)
	switch {
	case r.Chance(4):
		body = body + "]"
	case strings.HasPrefix(ct, "text/plain") && r.Chance(70):
		body = hx.Pick(r, []string{"", "ab", "abcd"})
	}
	bodyDec = c08JSONDec(body)
	// per response-header name: one kind and either a raw value (present) or absence, for the whole case
	type hsel struct {
		hk      c08HK
		present bool
		dec     any
	}
	sel := map[string]hsel{}
	for _, name := range []string{"X-A", "X-B", "X-Low"} {
		hk := hx.Pick(r, kinds)
		rd := hx.Pick(r, hk.raws)
		h := hsel{hk: hk, present: r.Chance(65), dec: c08Nil}
		if h.present {
			h.dec = rd.dec
			raw := rd.raw
			if r.Chance(30) {
				// free text over the alphabet the decoders care about (the model decodes it itself)
				alphabet := []string{"0", "1", "7", "9", "+", "-", ",", ",", "x", "t", "T", " ", "true", "12"}
				if jstr(c08Map(hk.schema), "type") == "object" {
					alphabet = []string{"n", "m", "pw", "q", "u", "o", "a", "b", ",", ",", ",", "=", "x", "4", "zz", "T", "7"}
				}
				raw = ""
				for k, n := 0, r.Intn(7); k < n; k++ {
					raw += hx.Pick(r, alphabet)
				}
			}
			if r.Chance(3) {
				hd = append(hd, []any{name}) // present, no values
			} else if r.Chance(8) {
				hd = append(hd, []any{name, raw, hx.Pick(r, []string{"zzz", "", "7"})}) // a second value of the same header
			} else {
				hd = append(hd, []any{name, raw})
			}
		}
		sel[name] = h
	}
	for _, k := range keys {
		if !r.Chance(35) {
			continue
		}
		hs := []any{}
		for _, name := range []string{"X-A", "X-B", "x-low", "Content-Type"} {
			if !r.Chance(30) {
				continue
			}
			if name == "Content-Type" {
				hs = append(hs, c08Hdr(name, r.Bool(), c08S("type", "integer"), c08Err))
				continue
			}
			h := sel[http.CanonicalHeaderKey(name)]
			var schema any = h.hk.schema
			if r.Chance(8) {
				schema = nil
			}
			hs = append(hs, c08HdrX(name, r.Chance(50), schema, r.Chance(12)))
		}
		content := []any{}
		for _, m := range []string{"application/json", "application/*", "*/*", "text/plain", "application/json; charset=utf-8"} {
			if r.Chance(30) {
				var sch any = bs
				switch r.Intn(6) {
				case 0:
					sch = nil
				case 1:
					sch = c08RandSchema(r, 2)
				}
				content = append(content, c08MT(m, sch))
			}
		}
		rs := c08Resp(k, hs, content)
		if r.Chance(4) {
			rs["unresolved"] = true
		}
		resps = append(resps, rs)
	}
	status := hx.Pick(r, []int{200, 200, 201, 204, 404, 400, 500, 302, 304, 301, 100, 600, 99})
	method := hx.Pick(r, []string{"GET", "GET", "GET", "GET", "POST", "DELETE", "OPTIONS", "head", "Head"}) // only the exact "HEAD" is skipped
	if r.Chance(4) {
		method = "HEAD"
	}
	c := c08Case(method, status, resps, hd, body, bodyDec, 0)
	c["customErr"] = r.Chance(10)
	c["nilOptions"] = r.Chance(40) // takes effect when every option is off
	c["strict"] = r.Chance(40)
	c["excludeBody"] = r.Chance(10)
	c["woOff"] = r.Chance(25)
	c["multi"] = r.Chance(30)
	if r.Chance(2) {
		c["readFails"] = true
	}
	return c
}

// ---------- shrinking ----------

func c08SmallerSchemas(sm map[string]any) []c08J {
	var out []c08J
	cp := func() c08J {
		m := c08J{}
		for a, b := range sm {
			m[a] = b
		}
		return m
	}
	for _, k := range []string{"properties", "required"} {
		for _, n := range dropEach(jlist(sm[k])) {
			m := cp()
			if len(n) == 0 {
				delete(m, k)
			} else {
				m[k] = n
			}
			out = append(out, m)
		}
	}
	for _, k := range []string{"nullable", "readOnly", "writeOnly", "maxLength", "maximum", "addl", "items"} {
		if v, ok := sm[k]; ok && v != nil && v != false {
			m := cp()
			delete(m, k)
			out = append(out, m)
		}
	}
	for i, p := range jlist(sm["properties"]) {
		kv := jlist(p)
		if len(kv) != 2 {
			continue
		}
		if sub, ok := kv[1].(map[string]any); ok {
			for _, ns := range c08SmallerSchemas(sub) {
				m := cp()
				np := append([]any{}, jlist(sm["properties"])...)
				np[i] = []any{kv[0], ns}
				m["properties"] = np
				out = append(out, m)
			}
		}
	}
	return out
}

func shrinkC08(c hx.Case) []hx.Case {
	var out []hx.Case
	resps := jlist(c["responses"])
	for _, n := range dropEach(resps) {
		x := cloneCase(c)
		x["responses"] = n
		out = append(out, x)
	}
	for i, rv := range resps {
		rm := c08Map(rv)
		for _, k := range []string{"headers", "content"} {
			for _, n := range dropEach(jlist(rm[k])) {
				x := cloneCase(c)
				nr := append([]any{}, resps...)
				m2 := c08J{}
				for a, b := range rm {
					m2[a] = b
				}
				m2[k] = n
				nr[i] = m2
				x["responses"] = nr
				out = append(out, x)
			}
		}
	}
	for _, n := range dropEach(jlist(c["hdrs"])) {
		x := cloneCase(c)
		x["hdrs"] = n
		out = append(out, x)
	}
	// smaller schemas of the content entries (one property, one required name or one flag less)
	for i, rv := range resps {
		rm := c08Map(rv)
		cs := jlist(rm["content"])
		for j, cv := range cs {
			cm := c08Map(cv)
			sm, ok := cm["schema"].(map[string]any)
			if !ok {
				continue
			}
			for _, ns := range c08SmallerSchemas(sm) {
				x := cloneCase(c)
				nr := append([]any{}, resps...)
				ncs := append([]any{}, cs...)
				ncs[j] = c08J{"mime": cm["mime"], "schema": ns}
				m2 := c08J{}
				for a, b := range rm {
					m2[a] = b
				}
				m2["content"] = ncs
				nr[i] = m2
				x["responses"] = nr
				out = append(out, x)
			}
		}
	}
	// smaller JSON body (one key less), when the body is the JSON text of the decoded value
	if bd := c08Map(c["bodyDec"]); jstr(bd, "k") == "val" {
		if vm, ok := bd["v"].(map[string]any); ok && jstr(c, "body") == c08JSON(vm) {
			for k := range vm {
				nv := c08J{}
				for a, b := range vm {
					if a != k {
						nv[a] = b
					}
				}
				x := cloneCase(c)
				x["bodyDec"] = c08Val(nv)
				x["body"] = c08JSON(nv)
				out = append(out, x)
			}
		}
	}
	for _, k := range []string{"strict", "excludeBody", "woOff", "multi", "readFails", "customErr", "nilOptions"} {
		if jbool(c, k) {
			x := cloneCase(c)
			x[k] = false
			out = append(out, x)
		}
	}
	return out
}
