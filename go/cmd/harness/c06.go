package main

// C06 — request bodies are matched to a media type, decoded, and checked as requests.
// Real code exercised: openapi3filter.ValidateRequestBody (Content.Get, decodeBody, the registered body
// decoders, Schema.VisitJSON with VisitAsRequest) and the public decoders via RegisteredBodyDecoder.
//
// A case carries the declaration (media-type keys, schemas of the fragment, per-property encodings), the
// Content-Type header text, the option ExcludeReadOnlyValidations and the body: its exact text plus what the
// trusted parsers (encoding/json, net/url, mime/multipart) make of that text ("views"; they are the inputs of
// the Lean model, which does not parse bytes).

import (
	"bytes"
	"encoding/csv"
	"encoding/json"
	"errors"
	"fmt"
	"io"
	"math"
	"mime"
	"mime/multipart"
	"net/http"
	"net/textproto"
	"net/url"
	"sort"
	"strconv"
	"strings"

	"github.com/getkin/kin-openapi/openapi3"
	"github.com/getkin/kin-openapi/openapi3filter"
	yaml3 "github.com/oasdiff/yaml3"

	"kinverif/internal/hx"
)

func init() {
	hx.Register(&hx.Prop{
		ID: "C06",
		Rule: "exhaustive: (A) every set of ≤3 declared media-type keys out of 10 (exact, with one and with two parameters, type/*, */*, no-slash) × 23 Content-Type texts (also several ';' segments, empty segments) × accept/reject schema patterns × required; " +
			"(B) object schemas with a readOnly/nullable/typed property, a writeOnly property, every required subset, additionalProperties nil/true/false × 16 object values × ExcludeReadOnlyValidations; " +
			"(B2) the same features declared inside a member of allOf/anyOf/oneOf (× member/top-level required × 4 member layouts × 16 values × the option), not, nested compositions, null against compositions; " +
			"blank and white-space padded bodies × 9 content-type situations × required; " +
			"(C) urlencoded: 2 properties of every primitive/array type × 7 field texts each × nullable/required × encodings; (C2) properties declared inside allOf/anyOf/oneOf members (also nested, also twice) × 5 encodings × 6 texts; " +
			"(C3) property schemas that are compositions themselves × 8 field situations; (D) multipart part lists (JSON, plain, YAML, CSV, binary parts, content types with several parameters), also against allOf schemas and with per-property encodings (contentType, style); " +
			"(F) YAML (21 texts × 3 content types × 3 keys × 6 schemas × options) and CSV bodies (10 texts × 3 × 3 × 5); " +
			"(E) default-setting: one object schema with property a ∈ {plain, readOnly, writeOnly} × type × default (none / integer / string) × nullable, b with/without default, every required subset, additionalProperties × 8 values × ExcludeReadOnlyValidations × SkipSettingDefaults; (E1b) minProperties × maxProperties × defaults; " +
			"(E2) defaults inside allOf/anyOf/oneOf members × 7 sibling members (require / forbid / re-declare read-only / additionalProperties false …) × 3 top levels × 5 values × both options; (E3) nested defaults (object defaults completed by their own defaults, items, defaults carrying read-only members, defaults on composition-valued properties) × 17 values; " +
			"(E4) defaults under media types without body encoder (urlencoded, multipart, text/plain, octet-stream) and under the six JSON media types; " +
			"(G) request construction: 15 ways to build the *http.Request (in-memory readers, io.NopCloser, MultiReader, one-byte reader, Body assigned later, chunked, httptest, ContentLength larger/1/zeroed/negative, http.NoBody and nil Body announcing bytes) × 14 body situations × required × ExcludeReadOnlyValidations × SkipSettingDefaults, each also through ValidateRequest and validated 3 times on one object; " +
			"(H) histories of 1 and 2 RegisterBodyDecoder/UnregisterBodyDecoder operations (3 keys × 3 decoders) × 6 bodies, in a child process; " +
			"then a seeded random stream of nested schemas with compositions, defaults (conforming and not) and property counts × schema-directed values (valid and mutated) × JSON renderings (whitespace, duplicate keys, trailing data, blank) × raw/malformed bodies × media-type sets × headers (also a second header value, several parameters) × MultiError × SkipSettingDefaults × request construction kind × entry point (ValidateRequestBody / ValidateRequest) × repeated validation. " +
			"A case is non-trivial when the model reports at least one non-default branch (selection level, decoder, outcome class, read-only handling, composition keywords, default handling, value shape).",
		Exhaustive: true,
		Gen:        genC06,
		Run:        runC06,
		RunChild:   runC06Direct,
		Compare:    cmpC06,
		Shrink:     c06ShrinkR,
		Assumptions: []string{
			"schemas range over the fragment type/nullable/readOnly/writeOnly/minLength/maximum/properties/required/additionalProperties(bool)/items/not/oneOf/anyOf/allOf/minProperties/maxProperties/default (no discriminator); the full validator is property C01",
			"numbers in bodies are integers |n| ≤ 10^6 and n+0.5 (exact in float64); number texts in forms are decimal [+-]digits or [+-]digits.5 without leading zeros, or non-numeric",
			"encoding/json, net/url.ParseQuery, mime, mime/multipart, yaml3 and encoding/csv are trusted: what they make of the body text is an input of the model; YAML texts stay inside the JSON data model (no timestamps, no non-string keys)",
			"array properties of form bodies carry items; per-property styles only form/spaceDelimited/pipeDelimited on arrays; object-typed properties inside composition members of a form schema, one name declared as integer and as number, the zip decoder and form decoders nested inside multipart parts are outside the model and not generated",
			"the shape of a request (kind of Body, ContentLength, GetBody) is what net/http's constructors make of it, computed by the same calls; registry-changing cases run one at a time in a child process; empty registry keys / nil decoders are not generated",
			"where a default decides the verdict (caseNeutral false) the oracle is the two-phase reading (completed value) for composition-free schemas; for schemas with compositions only implementation vs model is compared",
		},
	})
}

// ---------------------------------------------------------------- values and schemas of the fragment

func jI(n int) any     { return map[string]any{"i": n} }
func jH(n int) any     { return map[string]any{"h": n} }
func jS(s string) any  { return map[string]any{"s": s} }
func jA(xs ...any) any { return map[string]any{"a": append([]any{}, xs...)} }
func jO(kvs ...any) any { // k1, v1, k2, v2 …
	l := []any{}
	for i := 0; i+1 < len(kvs); i += 2 {
		l = append(l, []any{kvs[i], kvs[i+1]})
	}
	return map[string]any{"o": l}
}

func jnum(v any) (int, bool) {
	switch x := v.(type) {
	case int:
		return x, true
	case float64:
		return int(x), true
	case json.Number:
		n, err := strconv.Atoi(string(x))
		return n, err == nil
	}
	return 0, false
}

// renderJ writes the JSON text of a value; ws adds whitespace, dup repeats the first key of every object
// with a junk value before the real one (decoders keep the last).
func renderJ(v any, ws, dup bool) string {
	sp := ""
	if ws {
		sp = " "
	}
	switch x := v.(type) {
	case nil:
		return "null"
	case bool:
		if x {
			return "true"
		}
		return "false"
	case map[string]any:
		if n, ok := x["i"]; ok {
			k, _ := jnum(n)
			return strconv.Itoa(k)
		}
		if n, ok := x["h"]; ok {
			k, _ := jnum(n)
			if k < 0 {
				return "-" + strconv.Itoa(-k-1) + ".5"
			}
			return strconv.Itoa(k) + ".5"
		}
		if s, ok := x["s"]; ok {
			b, _ := json.Marshal(s)
			return string(b)
		}
		if a, ok := x["a"]; ok {
			parts := []string{}
			for _, e := range jlist(a) {
				parts = append(parts, renderJ(e, ws, dup))
			}
			return "[" + sp + strings.Join(parts, ","+sp) + sp + "]"
		}
		if o, ok := x["o"]; ok {
			parts := []string{}
			for i, kv := range jlist(o) {
				p := jlist(kv)
				kb, _ := json.Marshal(p[0])
				if dup && i == 0 {
					parts = append(parts, string(kb)+":"+sp+`"dup-junk"`)
				}
				parts = append(parts, string(kb)+":"+sp+renderJ(p[1], ws, dup))
			}
			return "{" + sp + strings.Join(parts, ","+sp) + sp + "}"
		}
	}
	return "null"
}

// goToJ canonicalises a decoded Go value into the case's value notation (object keys sorted).
func goToJ(v any) any {
	num := func(f float64) any {
		if f == math.Trunc(f) && math.Abs(f) < 1e15 {
			return jI(int(f))
		}
		if g := f - 0.5; g == math.Trunc(g) && math.Abs(g) < 1e15 {
			return jH(int(g))
		}
		return map[string]any{"x": fmt.Sprint(f)}
	}
	switch x := v.(type) {
	case nil:
		return nil
	case bool:
		return x
	case json.Number:
		f, err := x.Float64()
		if err != nil {
			return map[string]any{"x": string(x)}
		}
		return num(f)
	case float64:
		return num(x)
	case int:
		return jI(x)
	case int32:
		return jI(int(x))
	case int64:
		return jI(int(x))
	case string:
		return jS(x)
	case []any:
		l := []any{}
		for _, e := range x {
			l = append(l, goToJ(e))
		}
		return map[string]any{"a": l}
	case map[string]any:
		keys := make([]string, 0, len(x))
		for k := range x {
			keys = append(keys, k)
		}
		sort.Strings(keys)
		l := []any{}
		for _, k := range keys {
			l = append(l, []any{k, goToJ(x[k])})
		}
		return map[string]any{"o": l}
	case map[any]any: // YAML: a mapping all of whose keys are strings
		m := map[string]any{}
		for k, e := range x {
			ks, ok := k.(string)
			if !ok {
				return map[string]any{"x": "non-string key"}
			}
			m[ks] = e
		}
		return goToJ(m)
	}
	return map[string]any{"x": fmt.Sprintf("%T", v)}
}

// canonJ: canonical text of a value in case notation (object entries sorted by key).
func canonJ(v any) string {
	var norm func(v any) any
	norm = func(v any) any {
		m, ok := v.(map[string]any)
		if !ok {
			return v
		}
		if a, ok := m["a"]; ok {
			l := []any{}
			for _, e := range jlist(a) {
				l = append(l, norm(e))
			}
			return map[string]any{"a": l}
		}
		if o, ok := m["o"]; ok {
			l := []any{}
			for _, kv := range jlist(o) {
				p := jlist(kv)
				l = append(l, []any{p[0], norm(p[1])})
			}
			sort.SliceStable(l, func(i, j int) bool { return fmt.Sprint(l[i].([]any)[0]) < fmt.Sprint(l[j].([]any)[0]) })
			return map[string]any{"o": l}
		}
		if n, ok := m["i"]; ok {
			k, _ := jnum(n)
			return map[string]any{"i": k}
		}
		if n, ok := m["h"]; ok {
			k, _ := jnum(n)
			return map[string]any{"h": k}
		}
		return m
	}
	return hx.Canon(norm(v))
}

// jsonView: what encoding/json makes of the whole text (exactly one JSON value, nothing after it).
func jsonView(text string) any {
	dec := json.NewDecoder(strings.NewReader(text))
	dec.UseNumber()
	var v any
	if err := dec.Decode(&v); err != nil {
		return nil
	}
	var extra any
	if err := dec.Decode(&extra); err != io.EOF {
		return nil
	}
	return map[string]any{"v": goToJ(v)}
}

func formView(text string) any {
	vals, err := url.ParseQuery(text)
	if err != nil {
		return nil
	}
	keys := make([]string, 0, len(vals))
	for k := range vals {
		keys = append(keys, k)
	}
	sort.Strings(keys)
	out := []any{}
	for _, k := range keys {
		vs := []any{}
		for _, v := range vals[k] {
			vs = append(vs, v)
		}
		out = append(out, []any{k, vs})
	}
	return out
}

func partsView(text, ct string) any {
	_, params, err := mime.ParseMediaType(ct)
	if err != nil {
		return nil
	}
	mr := multipart.NewReader(strings.NewReader(text), params["boundary"])
	out := []any{}
	for {
		part, err := mr.NextPart()
		if err == io.EOF {
			break
		}
		if err != nil {
			return nil
		}
		b, err := io.ReadAll(part)
		if err != nil {
			return nil
		}
		pv := map[string]any{"name": part.FormName(), "ct": part.Header.Get("Content-Type"),
			"text": string(b), "json": jsonView(string(b))}
		switch c06Base(part.Header.Get("Content-Type")) {
		case "application/yaml", "application/x-yaml":
			pv["yaml"] = yamlView(string(b))
		case "text/csv":
			pv["csv"] = csvView(string(b))
		}
		out = append(out, pv)
	}
	return out
}

func c06Base(ct string) string {
	if i := strings.IndexByte(ct, ';'); i >= 0 {
		return ct[:i]
	}
	return ct
}

// yamlView: what yaml3 makes of the text (first document), in case notation; nil = error.
func yamlView(text string) any {
	var v any
	if err := yaml3.NewDecoder(strings.NewReader(text)).Decode(&v); err != nil {
		return nil
	}
	// since repair ca97fab the decoder reports a document outside the JSON data model (a mapping key that is not a
	// string, a number that is not finite) as a format error: for the model that is "no value", like a syntax error
	if c06OutsideJSON(v) {
		return nil
	}
	return map[string]any{"v": goToJ(v)}
}

// c06OutsideJSON: written independently of the decoder's own check — any map keyed by something else than strings
// (yaml3 yields map[any]any only then… or always for such a mapping), any NaN / ±Inf.
func c06OutsideJSON(v any) bool {
	switch x := v.(type) {
	case map[any]any:
		for k, e := range x {
			if _, ok := k.(string); !ok || c06OutsideJSON(e) {
				return true
			}
		}
	case map[string]any:
		for _, e := range x {
			if c06OutsideJSON(e) {
				return true
			}
		}
	case []any:
		for _, e := range x {
			if c06OutsideJSON(e) {
				return true
			}
		}
	case float64:
		return math.IsNaN(x) || math.IsInf(x, 0)
	}
	return false
}

// csvView: the records encoding/csv reads from the text; nil = error.
func csvView(text string) any {
	r := csv.NewReader(strings.NewReader(text))
	out := []any{}
	for {
		rec, err := r.Read()
		if err == io.EOF {
			break
		}
		if err != nil {
			return nil
		}
		fs := []any{}
		for _, f := range rec {
			fs = append(fs, f)
		}
		out = append(out, fs)
	}
	return out
}

// c06HasX: the value contains something outside the case notation (a YAML timestamp, a non-string key …).
func c06HasX(v any) bool {
	switch x := v.(type) {
	case map[string]any:
		if _, ok := x["x"]; ok {
			return true
		}
		for _, e := range x {
			if c06HasX(e) {
				return true
			}
		}
	case []any:
		for _, e := range x {
			if c06HasX(e) {
				return true
			}
		}
	}
	return false
}

// c06Body computes the views of a body text under a Content-Type header.
func c06Body(text, ct string) map[string]any {
	b := map[string]any{"text": text, "json": jsonView(text), "form": formView(text), "parts": nil}
	switch c06Base(ct) {
	case "multipart/form-data":
		b["parts"] = partsView(text, ct)
	case "application/yaml", "application/x-yaml":
		b["yaml"] = yamlView(text)
	case "text/csv":
		b["csv"] = csvView(text)
	}
	return b
}

type c06Part struct {
	name, ct, text string
	noDisp         bool
}

func renderMultipart(boundary string, parts []c06Part, truncate bool) string {
	var buf bytes.Buffer
	w := multipart.NewWriter(&buf)
	w.SetBoundary(boundary)
	for _, p := range parts {
		h := textproto.MIMEHeader{}
		if !p.noDisp {
			h.Set("Content-Disposition", fmt.Sprintf(`form-data; name=%q`, p.name))
		}
		if p.ct != "" {
			h.Set("Content-Type", p.ct)
		}
		pw, _ := w.CreatePart(h)
		pw.Write([]byte(p.text))
	}
	if !truncate {
		w.Close()
	}
	return buf.String()
}

func c06Schema(j any) *openapi3.SchemaRef {
	m, _ := j.(map[string]any)
	if m == nil {
		return nil
	}
	s := &openapi3.Schema{}
	if t := jstr(m, "ty"); t != "" {
		s.Type = &openapi3.Types{t}
	}
	s.Nullable = jbool(m, "nullable")
	s.ReadOnly = jbool(m, "ro")
	s.WriteOnly = jbool(m, "wo")
	if n, ok := jnum(m["minLen"]); ok && n > 0 {
		s.MinLength = uint64(n)
	}
	if m["max"] != nil {
		if n, ok := jnum(m["max"]); ok {
			f := float64(n)
			s.Max = &f
		}
	}
	if ps := jlist(m["props"]); len(ps) > 0 {
		s.Properties = openapi3.Schemas{}
		for _, kv := range ps {
			p := jlist(kv)
			s.Properties[p[0].(string)] = c06Schema(p[1])
		}
	}
	for _, r := range jlist(m["required"]) {
		s.Required = append(s.Required, r.(string))
	}
	if b, ok := m["addl"].(bool); ok {
		s.AdditionalProperties = openapi3.AdditionalProperties{Has: &b}
	}
	if m["items"] != nil {
		s.Items = c06Schema(m["items"])
	}
	if m["not"] != nil {
		s.Not = c06Schema(m["not"])
	}
	for _, x := range jlist(m["oneOf"]) {
		s.OneOf = append(s.OneOf, c06Schema(x))
	}
	for _, x := range jlist(m["anyOf"]) {
		s.AnyOf = append(s.AnyOf, c06Schema(x))
	}
	for _, x := range jlist(m["allOf"]) {
		s.AllOf = append(s.AllOf, c06Schema(x))
	}
	if n, ok := jnum(m["minProps"]); ok && n > 0 {
		s.MinProps = uint64(n)
	}
	if m["maxProps"] != nil {
		if n, ok := jnum(m["maxProps"]); ok {
			u := uint64(n)
			s.MaxProps = &u
		}
	}
	if d, ok := m["dflt"]; ok && d != nil {
		s.Default = jToGo(d) // what the loader makes of a `default` in a JSON document (numbers: float64)
	}
	return s.NewRef()
}

// jToGo: a value in case notation as the Go value encoding/json (without UseNumber) yields.
func jToGo(v any) any {
	switch x := v.(type) {
	case nil:
		return nil
	case bool:
		return x
	case map[string]any:
		if n, ok := x["i"]; ok {
			k, _ := jnum(n)
			return float64(k)
		}
		if n, ok := x["h"]; ok {
			k, _ := jnum(n)
			return float64(k) + 0.5
		}
		if s, ok := x["s"]; ok {
			return fmt.Sprint(s)
		}
		if a, ok := x["a"]; ok {
			l := []any{}
			for _, e := range jlist(a) {
				l = append(l, jToGo(e))
			}
			return l
		}
		if o, ok := x["o"]; ok {
			mm := map[string]any{}
			for _, kv := range jlist(o) {
				p := jlist(kv)
				mm[fmt.Sprint(p[0])] = jToGo(p[1])
			}
			return mm
		}
	}
	return nil
}

func c06Encodings(v any) map[string]*openapi3.Encoding {
	l := jlist(v)
	if len(l) == 0 {
		return nil
	}
	out := map[string]*openapi3.Encoding{}
	for _, e := range l {
		m := e.(map[string]any)
		enc := &openapi3.Encoding{Style: jstr(m, "style"), ContentType: jstr(m, "contentType")}
		if b, ok := m["explode"].(bool); ok {
			enc.Explode = &b
		}
		out[jstr(m, "name")] = enc
	}
	return out
}

// ---------------------------------------------------------------- the real code

func runC06(c hx.Case) any {
	// the decoder registry is process-wide and not goroutine-safe: cases that change it run in a child process
	// (one case at a time there), which restores the registry afterwards
	if len(jlist(c["regOps"])) > 0 {
		return hx.RunIsolated("C06", c, 30000)
	}
	return runC06Direct(c)
}

func runC06Direct(c hx.Case) any {
	defer c06ApplyRegOps(jlist(c["regOps"]))()
	rb := openapi3.NewRequestBody()
	rb.Required = jbool(c, "required")
	rb.Content = openapi3.Content{}
	for _, e := range jlist(c["content"]) {
		m := e.(map[string]any)
		mt := openapi3.NewMediaType()
		mt.Schema = c06Schema(m["schema"])
		mt.Encoding = c06Encodings(m["encs"])
		rb.Content[jstr(m, "key")] = mt
	}
	body, _ := c["body"].(map[string]any)
	text := jstr(body, "text")
	ct := jstr(c, "ct")
	kind := jstr(c, "reqKind")
	req, err := c06BuildRequest(kind, text, jbool(c, "emptyReader"))
	if err != nil {
		return map[string]any{"kind": "harness-error", "err": err.Error()}
	}
	if ct != "" {
		req.Header.Set("Content-Type", ct)
		if ct2 := jstr(c, "ct2"); ct2 != "" {
			req.Header.Add("Content-Type", ct2) // a second header value: only the first one counts
		}
	}
	in := &openapi3filter.RequestValidationInput{Request: req,
		Options: &openapi3filter.Options{ExcludeReadOnlyValidations: jbool(c, "exro"), MultiError: jbool(c, "multi"),
			SkipSettingDefaults: jbool(c, "skipDefaults")}}
	validate := c06Entry(jstr(c, "entry"), in, rb)
	verr := validate()
	out := map[string]any{"ok": verr == nil, "outcome": c06Classify(verr)}
	if verr != nil {
		out["msg"] = strings.SplitN(verr.Error(), "\n", 2)[0]
	}
	// the same request object validated again (the body was put back): outcomes of all calls
	if n, _ := jnum(c["repeat"]); n > 0 {
		rep := []any{c06Classify(verr)}
		for i := 1; i < n; i++ {
			rep = append(rep, c06Classify(validate()))
		}
		out["repeated"] = rep
	}
	// a request without a body stream carries no bytes: nothing to decode
	if sh, _ := c["shape"].(map[string]any); sh != nil && jstr(sh, "body") != "stream" {
		return out
	}
	// the body must still be readable afterwards (same bytes) — cheap sanity on the way
	// public decoder, called directly when the validation reaches decoding
	if text != "" && len(rb.Content) > 0 {
		if mt := rb.Content.Get(ct); mt != nil && mt.Schema != nil {
			if dec := openapi3filter.RegisteredBodyDecoder(c06Base(ct)); dec != nil {
				hdr := http.Header{}
				if ct != "" {
					hdr.Set("Content-Type", ct)
				}
				encFn := func(name string) *openapi3.Encoding { return mt.Encoding[name] }
				v, derr := dec(strings.NewReader(text), hdr, mt.Schema, encFn)
				if derr != nil {
					out["decoded"] = "err"
				} else {
					out["decoded"] = map[string]any{"v": goToJ(v)}
				}
			} else {
				out["decoded"] = "nodecoder"
			}
		}
	}
	return out
}

func c06Classify(err error) string {
	if err == nil {
		return "ok"
	}
	var re *openapi3filter.RequestError
	if !errors.As(err, &re) {
		return "other:" + err.Error()
	}
	switch {
	case errors.Is(re.Err, openapi3filter.ErrInvalidRequired):
		return "missing"
	case strings.HasPrefix(re.Reason, "header Content-Type has unexpected value"):
		return "badCT"
	case re.Reason == "failed to decode request body":
		return "decodeErr"
	case strings.HasPrefix(re.Reason, "doesn't match schema"):
		return "schemaErr"
	case re.Reason == "rewriting failed":
		return "rewriteErr"
	}
	return "other:" + re.Reason
}

func cmpC06(c hx.Case, impl any, reply map[string]any) hx.Verdict {
	im, _ := impl.(map[string]any)
	model, _ := reply["model"].(map[string]any)
	spec, _ := reply["spec"].(map[string]any)
	if im == nil || model == nil || spec == nil {
		return hx.Verdict{IM: false, IS: im != nil && im["panic"] == nil, Detail: "missing observation"}
	}
	if _, p := im["panic"]; p {
		if jstr(model, "outcome") == "panic" {
			return hx.Verdict{IM: true, IS: false, Detail: "implementation panicked (as the model says): " + fmt.Sprint(im["panic"])}
		}
		return hx.Verdict{IM: false, IS: false, Detail: "implementation panicked: " + fmt.Sprint(im["panic"]) + " at " + fmt.Sprint(im["site"])}
	}
	v := hx.Verdict{IM: true, IS: true}
	if jstr(im, "outcome") != jstr(model, "outcome") {
		v.IM = false
		v.Detail = fmt.Sprintf("outcome: impl %s (%s) vs model %s", jstr(im, "outcome"), jstr(im, "msg"), jstr(model, "outcome"))
	}
	if mrep := jlist(model["repeated"]); len(mrep) > 0 {
		irep := jlist(im["repeated"])
		if fmt.Sprint(irep) != fmt.Sprint(mrep) {
			v.IM = false
			v.Detail += fmt.Sprintf(" repeated validation of one request: impl %v vs model %v", irep, mrep)
		}
		for _, o := range irep {
			if applies, ok := spec["applies"].(bool); (!ok || applies) && (fmt.Sprint(o) == "ok") != jbool(spec, "accept") {
				v.IS = false
				v.Detail += fmt.Sprintf(" repeated validation: %v, spec accept=%v", irep, jbool(spec, "accept"))
				break
			}
		}
	}
	// decoded values (public decoders): implementation vs model
	if jbool(model, "decoding") {
		idec := im["decoded"]
		mdec, _ := model["decoded"].(map[string]any)
		switch {
		case mdec != nil:
			m, ok := idec.(map[string]any)
			if !ok || canonJ(m["v"]) != canonJ(mdec["v"]) {
				v.IM = false
				v.Detail += fmt.Sprintf(" decoded: impl %s vs model %s", hx.Canon(idec), canonJ(mdec["v"]))
			}
		default:
			if _, ok := idec.(map[string]any); ok && jstr(model, "outcome") == "decodeErr" {
				v.IM = false
				v.Detail += fmt.Sprintf(" decoded: impl %s vs model error", hx.Canon(idec))
			}
		}
		// implementation vs spec: the value the body encodes
		sdec, _ := spec["decoded"].(map[string]any)
		if m, ok := idec.(map[string]any); ok {
			if sdec == nil || canonJ(m["v"]) != canonJ(sdec["v"]) {
				v.IS = false
				v.Detail += fmt.Sprintf(" decoded value: impl %s, the body encodes %s", canonJ(m["v"]), hx.Canon(spec["decoded"]))
			}
		} else if sdec != nil {
			v.IS = false
			v.Detail += fmt.Sprintf(" decoder failed (%v) but the body encodes %s", idec, canonJ(sdec["v"]))
		}
	}
	// under default-setting the request-side reading of the property decides the verdict where defaults are neutral;
	// for composition-free schemas whose defaults decide, the driver's oracle is the two-phase reading (the completed
	// value satisfies the schema); where neither applies (compositions with firing defaults): I vs M only
	if applies, ok := spec["applies"].(bool); ok && !applies {
		return v
	}
	if jbool(im, "ok") != jbool(spec, "accept") {
		v.IS = false
		v.Detail += fmt.Sprintf(" verdict: impl %s (%s), spec accept=%v", jstr(im, "outcome"), jstr(im, "msg"), jbool(spec, "accept"))
	}
	return v
}

// ---------------------------------------------------------------- generation

func sch(kv ...any) map[string]any {
	m := map[string]any{}
	for i := 0; i+1 < len(kv); i += 2 {
		m[kv[i].(string)] = kv[i+1]
	}
	return m
}

func mkCase(required bool, content []any, ct string, text string, exro bool) hx.Case {
	return hx.Case{"required": required, "content": content, "ct": ct, "exro": exro, "body": c06Body(text, ct)}
}

func mtEntry(key string, schema any, encs ...any) any {
	return map[string]any{"key": key, "schema": schema, "encs": append([]any{}, encs...)}
}

var c06Keys = []string{"application/json", "application/json; charset=utf-8", "application/*", "*/*", "text/plain",
	"text/*", "application", "application/problem+json", "application/json;charset=utf-8", "application/json; charset=utf-8; profile=x"}

var c06CTs = []string{"", "application/json", "application/json; charset=utf-8", "application/json;charset=utf-8",
	"application/problem+json", "application/problem+json; charset=utf-8", "text/plain", "text/plain; charset=ascii",
	"application", "application; q=1", "application/xml", "image/png", "APPLICATION/JSON", "/json", ";", "application/json ; charset=utf-8",
	// several parameters: only the text before the FIRST ';' selects the decoder and the parameter-less level
	"application/json; charset=utf-8; profile=x", "application/json;a=1;b=2", "text/plain; charset=ascii; format=flowed",
	"application/json; charset=utf-8;", "application/json;;", "application/problem+json; v=1; charset=utf-8", "application; q=1; r=2"}

func genC06(ctx *hx.Ctx, emit func(hx.Case)) {
	r := ctx.Rng
	accept := sch("ty", "object", "required", []any{"a"})
	reject := sch("ty", "object", "required", []any{"zz"})
	bodyText := `{"a":1}`
	// (A) selection
	n := len(c06Keys)
	var subsets [][]int
	for i := 0; i < n; i++ {
		subsets = append(subsets, []int{i})
		for j := i + 1; j < n; j++ {
			subsets = append(subsets, []int{i, j})
			for k := j + 1; k < n; k++ {
				subsets = append(subsets, []int{i, j, k})
			}
		}
	}
	for si, sub := range subsets {
		for ci, ct := range c06CTs {
			pats := 1 << len(sub)
			for pat := 0; pat < pats; pat++ {
				if !ctx.Thorough() && len(sub) == 3 && (pat+si+ci)%3 != 0 {
					continue
				}
				content := []any{}
				for i, ki := range sub {
					var s any = reject
					if pat&(1<<i) != 0 {
						s = accept
					}
					content = append(content, mtEntry(c06Keys[ki], s))
				}
				emit(mkCase((si+ci)%2 == 0, content, ct, bodyText, false))
			}
		}
		// one entry without schema
		content := []any{}
		for i, ki := range sub {
			var s any = reject
			if i == si%len(sub) {
				s = nil
			}
			content = append(content, mtEntry(c06Keys[ki], s))
		}
		for _, ct := range c06CTs {
			emit(mkCase(false, content, ct, bodyText, false))
		}
	}
	// empty bodies, undeclared content
	for _, req := range []bool{false, true} {
		for _, ct := range []string{"", "application/json", "text/plain"} {
			for _, er := range []bool{false, true} {
				c := mkCase(req, []any{mtEntry("application/json", accept)}, ct, "", false)
				c["emptyReader"] = er
				emit(c)
			}
			emit(mkCase(req, []any{}, ct, bodyText, false))
			emit(mkCase(req, []any{}, ct, "", false))
		}
	}
	// (B) request-side reading of object schemas
	aTys := []any{nil, "string", "integer"}
	aVals := []any{"absent", nil, jS("x"), jI(1)}
	reqSets := [][]any{{}, {"a"}, {"b"}, {"c"}, {"a", "b"}, {"a", "c"}, {"b", "c"}, {"a", "b", "c"}}
	addls := []any{nil, true, false}
	cnt := 0
	for _, aty := range aTys {
		for af := 0; af < 4; af++ { // bit0 ro, bit1 nullable
			for bwo := 0; bwo < 2; bwo++ {
				for _, rs := range reqSets {
					for _, ad := range addls {
						pa := sch("ro", af&1 != 0, "nullable", af&2 != 0)
						if aty != nil {
							pa["ty"] = aty
						}
						pb := sch("ty", "integer", "wo", bwo == 1)
						s := sch("ty", "object", "props", []any{[]any{"a", pa}, []any{"b", pb}}, "required", rs)
						if ad != nil {
							s["addl"] = ad
						}
						for vi := 0; vi < 16; vi++ {
							cnt++
							if !ctx.Thorough() && cnt%3 != 0 {
								continue
							}
							kvs := []any{}
							if av := aVals[vi&3]; av != "absent" {
								kvs = append(kvs, "a", av)
							}
							if vi&4 != 0 {
								kvs = append(kvs, "b", jI(2))
							}
							if vi&8 != 0 {
								kvs = append(kvs, "c", jI(3))
							}
							text := renderJ(jO(kvs...), false, false)
							for _, exro := range []bool{false, true} {
								emit(mkCase(true, []any{mtEntry("application/json", s)}, "application/json", text, exro))
							}
						}
					}
				}
			}
		}
	}
	// (B2) the same request-side features declared INSIDE a composition member (allOf / anyOf / oneOf / not)
	for _, kw := range []string{"allOf", "anyOf", "oneOf"} {
		for af := 0; af < 8; af++ { // bit0 ro, bit1 nullable, bit2 typed string
			for mreq := 0; mreq < 2; mreq++ { // member requires a
				for treq := 0; treq < 2; treq++ { // top level requires a
					for second := 0; second < 4; second++ {
						pa := sch("ro", af&1 != 0, "nullable", af&2 != 0)
						if af&4 != 0 {
							pa["ty"] = "string"
						}
						m1 := sch("props", []any{[]any{"a", pa}})
						if mreq == 1 {
							m1["required"] = []any{"a"}
						}
						members := []any{m1}
						switch second {
						case 1:
							members = append(members, sch("props", []any{[]any{"b", sch("ty", "integer", "wo", true)}}))
						case 2:
							members = append(members, sch("required", []any{"b"}))
						case 3:
							members = append([]any{sch("ty", "object", "required", []any{"c"})}, members...)
						}
						s := sch("ty", "object", kw, members)
						if treq == 1 {
							s["required"] = []any{"a"}
						}
						for vi := 0; vi < 16; vi++ {
							cnt++
							if !ctx.Thorough() && cnt%2 != 0 {
								continue
							}
							kvs := []any{}
							if av := aVals[vi&3]; av != "absent" {
								kvs = append(kvs, "a", av)
							}
							if vi&4 != 0 {
								kvs = append(kvs, "b", jI(2))
							}
							if vi&8 != 0 {
								kvs = append(kvs, "c", jI(3))
							}
							text := renderJ(jO(kvs...), false, false)
							for _, exro := range []bool{false, true} {
								emit(mkCase(true, []any{mtEntry("application/json", s)}, "application/json", text, exro))
							}
						}
					}
				}
			}
		}
	}
	// not, nested compositions, null against compositions, non-object members
	{
		ro := sch("ty", "string", "ro", true)
		schemas := []any{
			sch("ty", "object", "not", sch("required", []any{"a"})),
			sch("ty", "object", "not", sch("props", []any{[]any{"a", ro}})),
			sch("not", sch("ty", "string")),
			sch("not", sch()),
			sch("anyOf", []any{sch("ty", "string"), sch("ty", "integer", "max", 3)}),
			sch("oneOf", []any{sch("ty", "integer"), sch("ty", "number")}),
			sch("oneOf", []any{sch("ty", "string", "nullable", true), sch("ty", "integer", "nullable", true)}),
			sch("anyOf", []any{sch("ty", "string", "nullable", true)}),
			sch("allOf", []any{sch("ty", "string")}, "nullable", true),
			sch("allOf", []any{sch("nullable", true), sch("ty", "string")}),
			sch("allOf", []any{sch("nullable", true)}, "not", sch("nullable", true)),
			sch("ty", "object", "allOf", []any{sch("anyOf", []any{sch("props", []any{[]any{"a", ro}}), sch("required", []any{"b"})})}),
			sch("ty", "object", "props", []any{[]any{"o", sch("oneOf", []any{sch("ty", "object", "props", []any{[]any{"a", ro}}, "required", []any{"a"}), sch("ty", "string")})}}),
			sch("ty", "array", "items", sch("anyOf", []any{sch("ty", "object", "props", []any{[]any{"a", ro}}), sch("ty", "integer")})),
			sch("allOf", []any{sch("ty", "object", "props", []any{[]any{"a", ro}}), sch("ty", "object", "required", []any{"a"})}),
			sch("ty", "object", "oneOf", []any{sch("required", []any{"a"}), sch("required", []any{"b"})}),
			sch("ty", "object", "anyOf", []any{}, "allOf", []any{}),
		}
		values := []any{nil, jS("x"), jI(1), jI(5), jH(1), true, jO(), jO("a", jS("x")), jO("a", nil), jO("b", jI(1)), jO("a", jS("x"), "b", jI(1)),
			jO("o", jO("a", jS("x"))), jO("o", jO()), jO("o", jS("s")), jA(), jA(jO("a", jS("x")), jI(2)), jA(jO(), jI(1)), jA(nil)}
		for _, s := range schemas {
			for _, v := range values {
				for _, exro := range []bool{false, true} {
					emit(mkCase(true, []any{mtEntry("application/json", s)}, "application/json", renderJ(v, false, false), exro))
				}
			}
		}
	}
	// null against compositions: which member / level is nullable decides
	for _, kw := range []string{"allOf", "anyOf", "oneOf"} {
		for bits := 0; bits < 32; bits++ { // top nullable, member1 nullable, member2 nullable, member2 present, not-member present
			m1 := sch("ty", "string", "nullable", bits&2 != 0)
			members := []any{m1}
			if bits&8 != 0 {
				members = append(members, sch("ty", "integer", "nullable", bits&4 != 0))
			}
			s := sch(kw, members, "nullable", bits&1 != 0)
			if bits&16 != 0 {
				s["not"] = sch("ty", "integer", "nullable", bits&4 != 0)
			}
			for _, v := range []any{nil, jS("x"), jI(1)} {
				emit(mkCase(true, []any{mtEntry("application/json", s)}, "application/json", renderJ(v, false, false), false))
				emit(mkCase(true, []any{mtEntry("application/json", sch("ty", "object", "props", []any{[]any{"p", s}}))}, "application/json", renderJ(jO("p", v), false, false), false))
			}
		}
	}
	// blank (white-space only) and white-space padded bodies for every decoder and both `required` settings
	{
		objS := sch("ty", "object", "props", []any{[]any{"a", sch("ty", "integer")}})
		strS := sch("ty", "string", "minLen", 3)
		for _, text := range []string{" ", "\n", "  \n\t", "\r\n", " {\"a\":1} ", "\n{\"a\":\"x\"}\n", " a=1", "a=1\n", " x ", "\t"} {
			for _, req := range []bool{false, true} {
				for _, cts := range [][2]string{{"application/json", "application/json"}, {"text/plain", "text/plain"}, {"text/plain", "text/plain; charset=utf-8"},
					{"application/x-www-form-urlencoded", "application/x-www-form-urlencoded"}, {"application/json", "text/csv"}, {"*/*", "application/xml"},
					{"*/*", ""}, {"application/octet-stream", "application/octet-stream"}, {"multipart/form-data", "multipart/form-data; boundary=XbX"}} {
					for _, sc := range []any{objS, strS, nil} {
						emit(mkCase(req, []any{mtEntry(cts[0], sc)}, cts[1], text, false))
					}
				}
			}
		}
	}
	// (C) urlencoded
	fct := "application/x-www-form-urlencoded"
	pTys := []any{"string", "integer", "number", "boolean", "array:integer", "array:string", nil}
	texts := []string{"", "1", "x", "1.5", "true", "-3", "1,2", "NaN", "-Inf"}
	mkProp := func(t any, nullable bool) map[string]any {
		p := sch("nullable", nullable)
		if ts, ok := t.(string); ok {
			if strings.HasPrefix(ts, "array:") {
				p["ty"] = "array"
				p["items"] = sch("ty", ts[6:])
			} else {
				p["ty"] = ts
			}
		}
		return p
	}
	for _, ta := range pTys {
		for _, tb := range pTys {
			for fa := -1; fa < len(texts); fa++ {
				for fb := -1; fb < len(texts); fb++ {
					for opt := 0; opt < 8; opt++ { // bit0 nullable a, bit1 required a, bit2 required b
						cnt++
						if !ctx.Thorough() && cnt%5 != 0 {
							continue
						}
						req := []any{}
						if opt&2 != 0 {
							req = append(req, "a")
						}
						if opt&4 != 0 {
							req = append(req, "b")
						}
						s := sch("ty", "object", "props", []any{[]any{"a", mkProp(ta, opt&1 != 0)}, []any{"b", mkProp(tb, false)}}, "required", req)
						q := []string{}
						if fa >= 0 {
							q = append(q, "a="+url.QueryEscape(texts[fa]))
						}
						if fb >= 0 {
							q = append(q, "b="+url.QueryEscape(texts[fb]))
						}
						if fa == fb && fa >= 0 {
							q = append(q, "a=2", "c=9")
						}
						text := strings.Join(q, "&")
						if text == "" {
							text = "c=9"
						}
						var encs []any
						if opt == 5 || opt == 6 {
							encs = []any{map[string]any{"name": "a", "style": []string{"form", "spaceDelimited", "pipeDelimited"}[cnt%3], "explode": false}}
							if ts, ok := ta.(string); !ok || !strings.HasPrefix(ts, "array:") {
								encs = []any{map[string]any{"name": "a", "style": "form", "explode": cnt%2 == 0}}
							}
						}
						emit(mkCase(false, []any{mtEntry(fct, s, encs...)}, fct, text, false))
					}
				}
			}
		}
	}
	// (C2) properties declared inside allOf / anyOf / oneOf members (also nested), each with every encoding
	{
		encsFor := []any{nil,
			map[string]any{"name": "a", "style": "form", "explode": false},
			map[string]any{"name": "a", "style": "spaceDelimited", "explode": false},
			map[string]any{"name": "a", "style": "pipeDelimited", "explode": false},
			map[string]any{"name": "a", "style": "form", "explode": true}}
		aTypes := []any{"array:integer", "array:string", "integer", "string"}
		aTexts := []string{"1|2", "1,2", "1 2", "7", "x", ""}
		place := func(kw string, nested bool, pa map[string]any, dup int) map[string]any {
			m := sch("props", []any{[]any{"a", pa}})
			if nested {
				m = sch("allOf", []any{m})
			}
			s := sch("ty", "object", kw, []any{sch("props", []any{[]any{"b", sch("ty", "string")}}), m})
			switch dup {
			case 1: // the same name declared again at top level with the same schema
				s["props"] = []any{[]any{"a", pa}}
			case 2: // … with another type: the two decoded values may conflict
				s["props"] = []any{[]any{"a", sch("ty", "string")}}
			}
			return s
		}
		for _, kw := range []string{"allOf", "anyOf", "oneOf"} {
			for _, nested := range []bool{false, true} {
				for _, at := range aTypes {
					for dup := 0; dup < 3; dup++ {
						for _, e := range encsFor {
							for ti, tx := range aTexts {
								cnt++
								if !ctx.Thorough() && cnt%2 != 0 {
									continue
								}
								pa := mkProp(at, false)
								if em, ok := e.(map[string]any); ok && !strings.HasPrefix(at.(string), "array:") && jstr(em, "style") != "form" {
									continue // styles other than form only on arrays
								}
								if em, ok := e.(map[string]any); ok && dup == 2 && jstr(em, "style") != "form" {
									continue // the second declaration of `a` is a string: same restriction
								}
								var encs []any
								if e != nil {
									encs = []any{e}
								}
								q := "a=" + url.QueryEscape(tx) + "&b=k"
								if ti%2 == 0 {
									q += "&a=3"
								}
								emit(mkCase(false, []any{mtEntry(fct, place(kw, nested, pa, dup), encs...)}, fct, q, false))
							}
						}
					}
				}
			}
		}
	}
	// (C3) the property schema itself is a composition (decodeValue's allOf / anyOf / oneOf / not branches)
	{
		I, S, B := sch("ty", "integer"), sch("ty", "string"), sch("ty", "boolean")
		pvars := []any{
			sch("anyOf", []any{I, S}), sch("anyOf", []any{S, I}), sch("oneOf", []any{I, B}), sch("oneOf", []any{B, S}),
			sch("allOf", []any{I, sch("ty", "integer", "max", 3)}), sch("allOf", []any{I, sch("max", 3)}), sch("allOf", []any{sch("ty", "number"), I}),
			sch("not", S), sch("anyOf", []any{sch("ty", "array", "items", I), S}), sch("anyOf", []any{sch("oneOf", []any{I, B}), S}),
			sch("oneOf", []any{sch("allOf", []any{I}), sch("anyOf", []any{B})}), sch("anyOf", []any{I}, "nullable", true),
		}
		for _, pv := range pvars {
			for ti := -1; ti < len(texts); ti++ {
				for opt := 0; opt < 4; opt++ { // bit0 required a, bit1 second value
					q := []string{"b=k"}
					if ti >= 0 {
						q = append(q, "a="+url.QueryEscape(texts[ti]))
						if opt&2 != 0 {
							q = append(q, "a=5")
						}
					}
					req := []any{}
					if opt&1 != 0 {
						req = append(req, "a")
					}
					s := sch("ty", "object", "props", []any{[]any{"a", pv}, []any{"b", S}}, "required", req)
					emit(mkCase(false, []any{mtEntry(fct, s)}, fct, strings.Join(q, "&"), false))
					if opt == 0 {
						s2 := sch("ty", "object", "allOf", []any{sch("props", []any{[]any{"a", pv}})}, "props", []any{[]any{"b", S}})
						emit(mkCase(false, []any{mtEntry(fct, s2)}, fct, strings.Join(q, "&"), false))
					}
				}
			}
		}
	}
	// a second Content-Type header value is ignored
	for _, p2 := range [][2]string{{"application/json", "text/plain"}, {"text/plain", "application/json"}, {"application/xml", "application/json"}} {
		c := mkCase(true, []any{mtEntry("application/json", accept), mtEntry("text/plain", sch("ty", "string"))}, p2[0], bodyText, false)
		c["ct2"] = p2[1]
		emit(c)
	}
	// non-object / unsupported form schemas, malformed query
	for _, s := range []any{sch("ty", "string"), sch(), sch("ty", "object", "props", []any{[]any{"a", sch("ty", "object")}}),
		sch("ty", "object", "props", []any{[]any{"a", sch("ty", "array", "items", sch("ty", "object"))}}),
		sch("ty", "object", "props", []any{[]any{"a", sch("ty", "array", "items", sch())}}),
		sch("ty", "object", "props", []any{[]any{"a", sch("ty", "integer")}})} {
		for _, text := range []string{"a=1", "a=%zz", "a=1;b=2", "a=1&a=2"} {
			emit(mkCase(false, []any{mtEntry(fct, s)}, fct, text, false))
			emit(mkCase(false, []any{mtEntry("*/*", s)}, fct+"; charset=utf-8", text, false))
		}
	}
	// (D) multipart
	genMultipart(ctx, emit)
	// text/plain and octet-stream
	for _, s := range []any{sch("ty", "string"), sch("ty", "string", "minLen", 4), sch("ty", "integer"), sch("ty", "object"), sch("nullable", true)} {
		for _, text := range []string{"abc", "12345", `{"a":1}`, "null", "x y"} {
			for _, ct := range []string{"text/plain", "text/plain; charset=utf-8", "application/octet-stream"} {
				emit(mkCase(true, []any{mtEntry("text/plain", s), mtEntry("application/*", s)}, ct, text, false))
			}
		}
	}
	// JSON renderings and malformed JSON (regression of #36: trailing data)
	js := sch("ty", "object", "props", []any{[]any{"a", sch("ty", "integer")}})
	for _, text := range []string{`{"a":1} trailing`, `{"a":1}{"a":"x"}`, `{"a":1} {}`, `{"a":1}  `, ` {"a":1}`, `{"a":1}` + "\n", `{"a":1`, `{a:1}`, `x`, `[1,2`, `{"a":1,}`,
		`{"a":"x","a":1}`, `{"a":1,"a":"x"}`, `1`, `"s"`, `null`, `[]`, `{"a":1.0}`, `{"a":1.5}`, `{"a":1e0}`, `nul`, `{"a":1}]`, `true false`,
		`{"a":1}}`, `{"a":1} }`, `{"a":1}` + "\n]", `{"a":1},`, `{"a":1}:`, `{"a":1}"`, `[]]`, `1}`} {
		for _, ct := range []string{"application/json", "application/problem+json; v=1"} {
			emit(mkCase(true, []any{mtEntry("application/json", js), mtEntry("application/*", js)}, ct, text, false))
		}
	}
	// (F) the YAML and CSV decoders of the registry
	genYamlCsv(ctx, emit)
	// (E) default injection (DefaultsSet is installed unless Options.SkipSettingDefaults)
	genDefaults(ctx, emit)
	// (G) request construction variants (kind of Body, ContentLength, GetBody) and repeated validation
	genReqShapes(ctx, emit)
	// (H) the decoder registry as state: histories of Register/Unregister (child process)
	genRegistry(ctx, emit)
	// random stream
	nr := 10000
	if ctx.Thorough() {
		nr = 300000
	}
	for i := 0; i < nr; i++ {
		emit(randCase(r))
	}
}

func genMultipart(ctx *hx.Ctx, emit func(hx.Case)) {
	bd := "XbX"
	mct := "multipart/form-data; boundary=" + bd
	pool := []c06Part{
		{name: "a", ct: "", text: "hello"},
		{name: "a", ct: "application/json", text: "5"},
		{name: "a", ct: "application/json", text: `{"k":1}`},
		{name: "a", ct: "application/json", text: `{bad`},
		{name: "a", ct: "text/plain; charset=utf-8", text: "7"},
		{name: "b", ct: "", text: "w"},
		{name: "b", ct: "application/json; charset=utf-8", text: `"w"`},
		{name: "c", ct: "", text: "extra"},
		{name: "a", ct: "application/xml", text: "<a/>"},
		{name: "", ct: "", text: "anon", noDisp: true},
		{name: "b", ct: "application/json", text: "6 7"},
		{name: "b", ct: "application/json; charset=utf-8; x=1", text: `"w"`},
		{name: "a", ct: "text/plain; charset=ascii; format=flowed", text: "hello"},
		{name: "a", ct: "application/yaml", text: "k: 1\n"},
		{name: "a", ct: "application/x-yaml; charset=utf-8", text: "k: [1"},
		{name: "b", ct: "text/csv", text: "x,y\n1,2\n"},
		{name: "a", ct: "application/octet-stream", text: "\x00\x01bin"},
	}
	aSchemas := []any{sch("ty", "string"), sch("ty", "integer"), sch("ty", "array", "items", sch("ty", "string")),
		sch("ty", "array", "items", sch("ty", "integer")), sch("ty", "object", "props", []any{[]any{"k", sch("ty", "integer")}}), sch("ty", "string", "ro", true)}
	addls := []any{nil, true, false}
	cnt := 0
	for _, as := range aSchemas {
		for _, ad := range addls {
			for rq := 0; rq < 3; rq++ {
				s := sch("ty", "object", "props", []any{[]any{"a", as}, []any{"b", sch("ty", "string", "wo", true)}})
				if ad != nil {
					s["addl"] = ad
				}
				if rq == 1 {
					s["required"] = []any{"a"}
				} else if rq == 2 {
					s["required"] = []any{"b", "a"}
				}
				// all part lists of length ≤ 2, some of length 3
				lists := [][]c06Part{{}}
				for i := range pool {
					lists = append(lists, []c06Part{pool[i]})
					for j := range pool {
						lists = append(lists, []c06Part{pool[i], pool[j]})
					}
				}
				for _, l := range lists {
					cnt++
					if !ctx.Thorough() && cnt%6 != 0 {
						continue
					}
					text := renderMultipart(bd, l, false)
					emit(mkCase(true, []any{mtEntry("multipart/form-data", s)}, mct, text, cnt%4 == 0))
				}
			}
		}
	}
	{
		se := sch("ty", "object", "props", []any{[]any{"a", sch("ty", "object", "props", []any{[]any{"k", sch("ty", "integer")}})}, []any{"b", sch("ty", "string")}})
		for _, enc := range []any{map[string]any{"name": "a", "contentType": "application/json"}, map[string]any{"name": "a", "contentType": "text/plain"},
			map[string]any{"name": "a", "contentType": "application/json, application/yaml", "style": "form"}, map[string]any{"name": "b", "contentType": "application/json", "explode": false}} {
			for _, l := range [][]c06Part{{pool[2]}, {pool[0]}, {pool[2], pool[5]}, {pool[13]}, {pool[2], pool[6]}, {{name: "a", ct: "", text: `{"k":1}`}}} {
				emit(mkCase(true, []any{mtEntry("multipart/form-data", se, enc)}, mct, renderMultipart(bd, l, false), false))
			}
		}
	}
	s := sch("ty", "object", "props", []any{[]any{"a", sch("ty", "string")}})
	l := []c06Part{pool[0], pool[5]}
	good := renderMultipart(bd, l, false)
	for _, ct := range []string{"multipart/form-data", "multipart/form-data; boundary=other", "multipart/form-data; boundary=", "multipart/form-data; boundary=" + bd + "; charset=utf-8", `multipart/form-data; boundary="` + bd + `"`, "multipart/form-data; boundary"} {
		emit(mkCase(true, []any{mtEntry("multipart/form-data", s), mtEntry("multipart/*", s)}, ct, good, false))
	}
	emit(mkCase(true, []any{mtEntry("multipart/form-data", s)}, mct, renderMultipart(bd, l, true), false))
	emit(mkCase(true, []any{mtEntry("multipart/form-data", sch("ty", "string"))}, mct, good, false))
	emit(mkCase(true, []any{mtEntry("multipart/form-data", sch())}, mct, good, false))
	// allOf schemas: the members' properties are what counts
	for _, as := range aSchemas {
		for variant := 0; variant < 7; variant++ {
			m1 := sch("props", []any{[]any{"a", as}})
			m2 := sch("props", []any{[]any{"b", sch("ty", "string", "wo", true)}}, "required", []any{"b"})
			s := sch("ty", "object", "allOf", []any{m1, m2})
			switch variant {
			case 1:
				s["props"] = []any{[]any{"c", sch("ty", "string")}} // top-level properties are not searched when allOf is present
			case 2:
				s["addl"] = true
			case 3:
				s = sch("ty", "object", "allOf", []any{m1, sch("props", []any{[]any{"a", sch("ty", "array", "items", sch("ty", "string"))}})}) // later member wins in the assembly
			case 4:
				s = sch("ty", "object", "allOf", []any{m1}) // a single member
			case 5:
				s = sch("ty", "object", "allOf", []any{sch("props", []any{[]any{"a", as}, []any{"b", sch("ty", "string")}})}, "props", []any{[]any{"c", sch("ty", "string")}})
			case 6:
				s = sch("ty", "object", "allOf", []any{m1, m2, sch("props", []any{[]any{"c", sch("ty", "string")}})})
			}
			for i := range pool {
				for j := range pool {
					cnt++
					if !ctx.Thorough() && cnt%5 != 0 {
						continue
					}
					text := renderMultipart(bd, []c06Part{pool[i], pool[j]}, false)
					emit(mkCase(true, []any{mtEntry("multipart/form-data", s)}, mct, text, cnt%3 == 0))
				}
			}
		}
	}
}

// genYamlCsv: application/yaml, application/x-yaml (first document of the text, numbers as int / float64) and
// text/csv (the records, normalised, as one string).
func genYamlCsv(ctx *hx.Ctx, emit func(hx.Case)) {
	objS := sch("ty", "object", "props", []any{[]any{"a", sch("ty", "integer", "max", 5)}, []any{"b", sch("ty", "string", "ro", true)},
		[]any{"c", sch("ty", "array", "items", sch("ty", "number"))}, []any{"d", sch("ty", "integer", "dflt", jI(1))}}, "required", []any{"a"})
	schemas := []any{objS, sch("ty", "string", "minLen", 2), sch("ty", "integer"), sch("ty", "array", "items", sch("ty", "integer")), sch("nullable", true), nil}
	yamls := []string{"a: 1\n", "a: 1\nb: x\n", "a: 7\n", "a: 1\nc: [1, 2.5]\n", "a: 1\nc:\n  - 1\n  - x\n", `{"a": 1}`, `{"a":1,"zz":{"k":[true,null]}}`,
		"a: 1\n---\na: x\n", "a: [1", "\tbad", "a: 1\na: 2\n", "hello", "12", "- 1\n- 2\n", "~", "a: null\n", "a: 1.0\n", "a: '1'\n", "a: -3\nd: 4\n", "# only a comment\n", " ",
		// outside the JSON data model: a format error since repair ca97fab
		"1: x\n", "a: 1\n2: y\n", "? [k]\n: v\n", "a: .nan\n", "a: .inf\n", "c: [1, -.inf]\n", "~: 1\n", "a: {1: 2}\n", "true: 1\n", "zz: {k: .NaN}\n"}
	for _, ct := range []string{"application/yaml", "application/x-yaml", "application/yaml; charset=utf-8"} {
		for _, key := range []string{"application/yaml", "application/x-yaml", "*/*"} {
			for _, s := range schemas {
				for _, y := range yamls {
					for _, opt := range []int{0, 1, 2} { // plain, ExcludeReadOnlyValidations, SkipSettingDefaults
						b := c06Body(y, ct)
						if c06HasX(b["yaml"]) {
							continue
						}
						c := hx.Case{"required": true, "content": []any{mtEntry(key, s)}, "ct": ct, "exro": opt == 1, "body": b}
						if opt == 2 {
							c["skipDefaults"] = true
						}
						emit(c)
					}
				}
			}
		}
	}
	csvs := []string{"a,b\n1,2\n", "a,b\n1\n", "x", "\"q\"\"x\",2\n", "a,\"b\nc\"\n", "a,b", "\"unterminated\n", "\n\n", "1\n2\n3\n", "é,ü\r\n1,2\r\n"}
	for _, ct := range []string{"text/csv", "text/csv; header=present", "text/csv; charset=utf-8; header=absent"} {
		for _, key := range []string{"text/csv", "text/*", "*/*"} {
			for _, s := range []any{sch("ty", "string"), sch("ty", "string", "minLen", 5), sch("ty", "integer"), sch("ty", "object"), nil} {
				for _, t := range csvs {
					emit(hx.Case{"required": true, "content": []any{mtEntry(key, s)}, "ct": ct, "exro": false, "body": c06Body(t, ct)})
				}
			}
		}
	}
}

// genDefaults: schemas with `default` on plain / readOnly / writeOnly properties, both settings of
// SkipSettingDefaults and of ExcludeReadOnlyValidations.
func genDefaults(ctx *hx.Ctx, emit func(hx.Case)) {
	J := "application/json"
	mk := func(s any, v any, exro, skip bool) hx.Case {
		c := mkCase(true, []any{mtEntry(J, s)}, J, renderJ(v, false, false), exro)
		c["skipDefaults"] = skip
		return c
	}
	both := func(s any, v any) {
		for _, exro := range []bool{false, true} {
			for _, skip := range []bool{false, true} {
				emit(mk(s, v, exro, skip))
			}
		}
	}
	cnt := 0
	// (E1) one object schema: a × {plain, readOnly, writeOnly} × type × default × nullable; b integer with/without default;
	// every required subset; additionalProperties; 4 × 2 values
	aTys := []any{nil, "integer", "string"}
	dflts := []any{nil, jI(1), jS("x")}
	reqSets := [][]any{{}, {"a"}, {"b"}, {"a", "b"}}
	aVals := []any{"absent", nil, jS("x"), jI(1)}
	for kind := 0; kind < 3; kind++ {
		for _, aty := range aTys {
			for _, ad := range dflts {
				for nullable := 0; nullable < 2; nullable++ {
					for bd := 0; bd < 2; bd++ {
						for _, rs := range reqSets {
							for addl := 0; addl < 2; addl++ {
								pa := sch("ro", kind == 1, "wo", kind == 2, "nullable", nullable == 1)
								if aty != nil {
									pa["ty"] = aty
								}
								if ad != nil {
									pa["dflt"] = ad
								}
								pb := sch("ty", "integer")
								if bd == 1 {
									pb["dflt"] = jI(2)
								}
								s := sch("ty", "object", "props", []any{[]any{"a", pa}, []any{"b", pb}}, "required", rs)
								if addl == 1 {
									s["addl"] = false
								}
								for vi := 0; vi < 8; vi++ {
									cnt++
									if !ctx.Thorough() && cnt%4 != 0 {
										continue
									}
									kvs := []any{}
									if av := aVals[vi&3]; av != "absent" {
										kvs = append(kvs, "a", av)
									}
									if vi&4 != 0 {
										kvs = append(kvs, "b", jI(5))
									}
									both(s, jO(kvs...))
								}
							}
						}
					}
				}
			}
		}
	}
	// (E1b) minProperties / maxProperties count the members AFTER the defaults were injected
	for minP := 0; minP < 3; minP++ {
		for maxP := -1; maxP < 3; maxP++ {
			for kind := 0; kind < 3; kind++ {
				for ad := 0; ad < 2; ad++ {
					pa := sch("ty", "integer", "ro", kind == 1, "wo", kind == 2)
					if ad == 1 {
						pa["dflt"] = jI(1)
					}
					s := sch("ty", "object", "props", []any{[]any{"a", pa}, []any{"b", sch("ty", "integer")}})
					if minP > 0 {
						s["minProps"] = minP
					}
					if maxP >= 0 {
						s["maxProps"] = maxP
					}
					for _, v := range []any{jO(), jO("a", jI(3)), jO("b", jI(2)), jO("a", jI(3), "b", jI(2)), jO("b", jI(2), "c", jI(2)), jO("c", nil), jS("x"), jA()} {
						both(s, v)
					}
					both(sch("allOf", []any{s}), jO("b", jI(2)))
					both(sch("ty", "object", "props", []any{[]any{"o", s}}), jO("o", jO("b", jI(2))))
				}
			}
		}
	}
	// (E2) defaults declared inside composition members; siblings that require / forbid / re-declare the property
	for _, kw := range []string{"allOf", "anyOf", "oneOf"} {
		for kind := 0; kind < 3; kind++ {
			for _, ad := range []any{jI(1), jS("x")} {
				for mreq := 0; mreq < 2; mreq++ {
					for second := 0; second < 7; second++ {
						for top := 0; top < 3; top++ { // 0 nothing, 1 required a, 2 additionalProperties false
							pa := sch("ty", "integer", "ro", kind == 1, "wo", kind == 2, "dflt", ad)
							m1 := sch("props", []any{[]any{"a", pa}})
							if mreq == 1 {
								m1["required"] = []any{"a"}
							}
							members := []any{m1}
							switch second {
							case 1:
								members = append(members, sch("required", []any{"a"}))
							case 2:
								members = append(members, sch("props", []any{[]any{"a", sch("ro", true)}}))
							case 3:
								members = append(members, sch("props", []any{[]any{"b", sch("ty", "integer")}}, "addl", false))
							case 4:
								members = append(members, sch("props", []any{[]any{"b", sch("ty", "integer", "dflt", jI(2))}}, "required", []any{"b"}))
							case 5:
								members = append([]any{sch("required", []any{"a"})}, members...)
							case 6:
								members = append(members, sch("props", []any{[]any{"a", sch("ty", "string")}}))
							}
							s := sch("ty", "object", kw, members)
							switch top {
							case 1:
								s["required"] = []any{"a"}
							case 2:
								s["addl"] = false
								s["props"] = []any{[]any{"b", sch("ty", "integer")}}
							}
							for _, v := range []any{jO(), jO("a", jI(3)), jO("b", jI(2)), jO("a", jI(3), "b", jI(2)), jO("a", jS("y"))} {
								cnt++
								if !ctx.Thorough() && cnt%3 != 0 {
									continue
								}
								both(s, v)
							}
						}
					}
				}
			}
		}
	}
	// (E3) nested defaults: an object default that is itself completed, items with defaults, a default that carries a
	// read-only member, defaults at two levels, a property schema that is a composition with a default on it
	{
		inner := sch("ty", "object", "props", []any{[]any{"k", sch("ty", "integer")}, []any{"m", sch("ty", "string", "dflt", jS("q"))}}, "required", []any{"m"})
		withD := func(d any) map[string]any {
			x := sch()
			for k, v := range inner {
				x[k] = v
			}
			x["dflt"] = d
			return x
		}
		roIn := sch("ty", "object", "props", []any{[]any{"id", sch("ty", "integer", "ro", true)}}, "dflt", jO("id", jI(1)))
		schemas := []any{
			sch("ty", "object", "props", []any{[]any{"o", withD(jO("k", jI(1)))}}),
			sch("ty", "object", "props", []any{[]any{"o", withD(jO("k", jS("bad")))}}),
			sch("ty", "object", "props", []any{[]any{"o", withD(jO())}}, "required", []any{"o"}),
			sch("ty", "object", "props", []any{[]any{"o", inner}}),
			sch("ty", "array", "items", inner),
			sch("ty", "object", "props", []any{[]any{"l", sch("ty", "array", "items", inner, "dflt", jA(jO(), jO("k", jI(2))))}}),
			sch("ty", "object", "props", []any{[]any{"o", roIn}}),
			sch("ty", "object", "props", []any{[]any{"p", sch("anyOf", []any{sch("ty", "integer"), sch("ty", "string")}, "dflt", jI(1))}}),
			sch("ty", "object", "props", []any{[]any{"p", sch("oneOf", []any{sch("ty", "integer"), sch("ty", "number")}, "dflt", jI(1))}}),
			sch("ty", "object", "props", []any{[]any{"a", sch("ty", "integer", "dflt", jI(1), "max", 0)}}),
			sch("ty", "object", "props", []any{[]any{"a", sch("ty", "string", "dflt", jS("x"), "minLen", 2, "ro", true)}}, "required", []any{"a"}),
			sch("props", []any{[]any{"a", sch("dflt", jI(1))}}),
			sch("ty", "object", "not", sch("required", []any{"a"}), "props", []any{[]any{"a", sch("dflt", jI(1))}}),
			sch("ty", "object", "allOf", []any{sch("props", []any{[]any{"a", sch("dflt", jI(1))}}), sch("not", sch("required", []any{"a"}))}),
			sch("ty", "object", "oneOf", []any{sch("required", []any{"a"}, "props", []any{[]any{"a", sch("dflt", jI(1))}}), sch("required", []any{"b"}, "props", []any{[]any{"b", sch("dflt", jI(2))}})}),
			sch("ty", "object", "anyOf", []any{sch("required", []any{"z"}, "props", []any{[]any{"a", sch("dflt", jI(1))}}), sch("props", []any{[]any{"b", sch("dflt", jI(2))}})}),
			sch("ty", "object", "props", []any{[]any{"a", sch("nullable", true, "dflt", jI(1))}}, "required", []any{"a"}),
			// defaults below `not` (tried on a private copy since repair 197d46a: nothing reaches the value)
			sch("ty", "object", "not", sch("props", []any{[]any{"a", sch("dflt", jI(1))}}, "required", []any{"b"}), "addl", false),
			sch("ty", "object", "not", sch("props", []any{[]any{"a", sch("dflt", jI(1))}}, "required", []any{"a"})),
			sch("ty", "object", "not", sch("props", []any{[]any{"a", sch("ty", "integer", "dflt", jS("bad"))}})),
			sch("ty", "object", "props", []any{[]any{"o", sch("ty", "object", "not", sch("required", []any{"k"}, "props", []any{[]any{"k", sch("dflt", jI(1))}}))}}),
			sch("ty", "object", "allOf", []any{sch("not", sch("props", []any{[]any{"a", sch("dflt", jI(1))}}, "required", []any{"z"})), sch("addl", false, "props", []any{[]any{"b", sch("ty", "integer")}})}),
			sch("ty", "object", "not", sch("anyOf", []any{sch("required", []any{"a"}, "props", []any{[]any{"a", sch("dflt", jI(1))}})})),
		}
		values := []any{jO(), jO("o", jO()), jO("o", jO("k", jI(3))), jO("o", jO("m", jS("z"))), jO("o", nil), jA(), jA(jO()), jA(jO("k", jI(1)), jO("m", jS("w"))),
			jO("l", jA(jO())), jO("p", jS("s")), jO("a", jI(5)), jO("a", nil), jO("a", jS("long")), jO("b", jI(1)), jO("a", jI(1), "b", jI(2)), jS("x"), nil}
		for _, s := range schemas {
			for _, v := range values {
				both(s, v)
			}
		}
	}
	// (E4) media types without a body encoder (since repair 4a27f6e the body is forwarded as received): urlencoded and
	// multipart bodies against flat schemas with defaults
	{
		fct := "application/x-www-form-urlencoded"
		bd := "XbX"
		mct := "multipart/form-data; boundary=" + bd
		for kind := 0; kind < 3; kind++ {
			for _, ad := range []any{nil, jI(1), jS("x")} {
				for layout := 0; layout < 3; layout++ { // own property, inside allOf, inside anyOf
					for rq := 0; rq < 2; rq++ {
						pa := sch("ty", "integer", "ro", kind == 1, "wo", kind == 2)
						if ad != nil {
							pa["dflt"] = ad
						}
						pb := sch("ty", "string")
						s := sch("ty", "object", "props", []any{[]any{"a", pa}, []any{"b", pb}})
						switch layout {
						case 1:
							s = sch("ty", "object", "allOf", []any{sch("props", []any{[]any{"a", pa}}), sch("props", []any{[]any{"b", pb}})})
						case 2:
							s = sch("ty", "object", "anyOf", []any{sch("props", []any{[]any{"a", pa}})}, "props", []any{[]any{"b", pb}})
						}
						if rq == 1 {
							s["required"] = []any{"a"}
						}
						for _, text := range []string{"b=x", "a=2&b=x", "a=2", "a=&b=x", "a=x&b=y"} {
							for _, exro := range []bool{false, true} {
								for _, skip := range []bool{false, true} {
									c := mkCase(true, []any{mtEntry(fct, s)}, fct, text, exro)
									c["skipDefaults"] = skip
									emit(c)
								}
							}
						}
						if layout == 2 {
							continue // multipart looks only at allOf members / own properties
						}
						for _, parts := range [][]c06Part{{{name: "b", text: "x"}}, {{name: "a", ct: "application/json", text: "2"}, {name: "b", text: "x"}}, {{name: "a", ct: "application/json", text: "2"}}, {}} {
							for _, exro := range []bool{false, true} {
								for _, skip := range []bool{false, true} {
									c := mkCase(true, []any{mtEntry("multipart/form-data", s)}, mct, renderMultipart(bd, parts, false), exro)
									c["skipDefaults"] = skip
									emit(c)
								}
							}
						}
					}
				}
			}
		}
		// nested defaults under media types without encoder: JSON object parts completed by their own defaults, object
		// defaults that are completed again, defaults inside members of the part schema
		{
			inner := sch("ty", "object", "props", []any{[]any{"k", sch("ty", "integer")}, []any{"m", sch("ty", "string", "dflt", jS("q"))}, []any{"r", sch("ty", "integer", "ro", true, "dflt", jI(7))}})
			innerReq := sch("ty", "object", "props", []any{[]any{"k", sch("ty", "integer")}, []any{"m", sch("ty", "string", "dflt", jS("q"))}}, "required", []any{"m"})
			innerAll := sch("ty", "object", "allOf", []any{sch("props", []any{[]any{"m", sch("dflt", jS("q"))}}), sch("required", []any{"m"})})
			withD := sch("ty", "object", "props", []any{[]any{"k", sch("ty", "integer")}, []any{"m", sch("ty", "string", "dflt", jS("q"))}}, "dflt", jO("k", jI(1)))
			for _, in := range []any{inner, innerReq, innerAll, withD} {
				for _, rq := range [][]any{{}, {"o"}} {
					sm := sch("ty", "object", "props", []any{[]any{"o", in}, []any{"b", sch("ty", "string")}, []any{"l", sch("ty", "array", "items", in)}}, "required", rq)
					for _, parts := range [][]c06Part{{{name: "o", ct: "application/json", text: `{}`}}, {{name: "o", ct: "application/json", text: `{"k":2}`}, {name: "b", text: "x"}},
						{{name: "b", text: "x"}}, {{name: "o", ct: "application/json", text: `{"m":"z","r":1}`}}, {{name: "l", ct: "application/json", text: `{}`}, {name: "l", ct: "application/json", text: `{"k":"bad"}`}},
						{{name: "l", ct: "application/json", text: `{"k":1}`}}, {{name: "o", ct: "application/yaml", text: "k: 3\n"}}} {
						for _, exro := range []bool{false, true} {
							for _, skip := range []bool{false, true} {
								c := mkCase(true, []any{mtEntry("multipart/form-data", sm)}, mct, renderMultipart(bd, parts, false), exro)
								c["skipDefaults"] = skip
								emit(c)
							}
						}
					}
				}
			}
		}
		// text/plain and octet-stream: the value is a string, nothing can be injected
		for _, ct := range []string{"text/plain", "application/octet-stream"} {
			for _, s := range []any{sch("ty", "string", "dflt", jS("d")), sch("props", []any{[]any{"a", sch("dflt", jI(1))}}), sch("ty", "object", "props", []any{[]any{"a", sch("dflt", jI(1))}})} {
				for _, skip := range []bool{false, true} {
					c := mkCase(true, []any{mtEntry(ct, s)}, ct, "abc", false)
					c["skipDefaults"] = skip
					emit(c)
				}
			}
		}
		// the six JSON media types have an encoder each
		for _, ct := range []string{"application/json", "application/json-patch+json", "application/ld+json", "application/hal+json", "application/vnd.api+json", "application/problem+json", "application/problem+json; charset=utf-8"} {
			s := sch("ty", "object", "props", []any{[]any{"a", sch("ty", "integer", "dflt", jI(1))}})
			for _, text := range []string{"{}", `{"a":2}`, `{"a":"x"}`} {
				emit(mkCase(true, []any{mtEntry("*/*", s)}, ct, text, false))
			}
		}
	}
}

// c06StripDflt removes every `default` (used below `not`: outside the model).
func c06StripDflt(s map[string]any) map[string]any {
	out := map[string]any{}
	for k, v := range s {
		switch k {
		case "dflt":
		case "props":
			l := []any{}
			for _, kv := range jlist(v) {
				p := jlist(kv)
				if pm, ok := p[1].(map[string]any); ok {
					l = append(l, []any{p[0], c06StripDflt(pm)})
				} else {
					l = append(l, kv)
				}
			}
			out[k] = l
		case "items", "not":
			if m, ok := v.(map[string]any); ok {
				out[k] = c06StripDflt(m)
			} else {
				out[k] = v
			}
		case "oneOf", "anyOf", "allOf":
			l := []any{}
			for _, x := range jlist(v) {
				if m, ok := x.(map[string]any); ok {
					l = append(l, c06StripDflt(m))
				} else {
					l = append(l, x)
				}
			}
			out[k] = l
		default:
			out[k] = v
		}
	}
	return out
}

// c06AddDflt gives a property schema a default: mostly one directed by the schema (conforming unless mutated),
// sometimes an arbitrary leaf.
func c06AddDflt(r *hx.Rng, p map[string]any) {
	var d any
	if r.Chance(75) {
		d = c06RandValue(r, c06StripDflt(p), 2)
	} else {
		d = randLeaf(r)
	}
	if d != nil {
		p["dflt"] = d
	}
}

// ---- random stream

var c06Names = []string{"a", "b", "c", "d"}

func c06RandSchema(r *hx.Rng, depth int) map[string]any {
	s := sch()
	tys := []string{"string", "integer", "number", "boolean", "object", "array"}
	if depth <= 0 {
		tys = tys[:4]
	}
	if r.Chance(88) {
		s["ty"] = hx.Pick(r, tys)
	}
	if r.Chance(20) {
		s["nullable"] = true
	}
	switch s["ty"] {
	case "string":
		if r.Chance(30) {
			s["minLen"] = r.Intn(4)
		}
	case "integer", "number":
		if r.Chance(30) {
			s["max"] = r.Intn(7) - 2
		}
	case "array":
		if r.Chance(85) {
			s["items"] = c06RandSchema(r, depth-1)
		}
	case "object":
		props := []any{}
		for _, n := range c06Names[:1+r.Intn(4)] {
			if r.Chance(70) {
				p := c06RandSchema(r, depth-1)
				if r.Chance(30) {
					p["ro"] = true
				} else if r.Chance(20) {
					p["wo"] = true
				}
				if r.Chance(22) {
					c06AddDflt(r, p)
				}
				props = append(props, []any{n, p})
			}
		}
		s["props"] = props
		req := []any{}
		for _, n := range c06Names {
			if r.Chance(25) {
				req = append(req, n)
			}
		}
		s["required"] = req
		if r.Chance(40) {
			s["addl"] = r.Bool()
		}
		if r.Chance(12) {
			s["minProps"] = 1 + r.Intn(2)
		}
		if r.Chance(12) {
			s["maxProps"] = r.Intn(4)
		}
	}
	if depth > 0 && r.Chance(28) {
		// composition keywords; members are mostly object-like so that features (readOnly, required, types)
		// occur INSIDE members
		member := func() map[string]any {
			m := c06RandSchema(r, depth-1)
			if r.Chance(70) {
				m = sch()
				if r.Chance(50) {
					m["ty"] = "object"
				}
				props := []any{}
				for _, n := range c06Names[:1+r.Intn(3)] {
					if r.Chance(60) {
						p := c06RandSchema(r, depth-2)
						if r.Chance(35) {
							p["ro"] = true
						} else if r.Chance(15) {
							p["wo"] = true
						}
						if r.Chance(25) {
							c06AddDflt(r, p)
						}
						props = append(props, []any{n, p})
					}
				}
				m["props"] = props
				req := []any{}
				for _, n := range c06Names[:3] {
					if r.Chance(25) {
						req = append(req, n)
					}
				}
				m["required"] = req
				if r.Chance(15) {
					m["addl"] = r.Bool()
				}
				if r.Chance(10) {
					m["nullable"] = true
				}
			}
			return m
		}
		kw := hx.Pick(r, []string{"allOf", "anyOf", "oneOf", "allOf", "anyOf", "oneOf", "not"})
		if kw == "not" {
			s["not"] = member() // since repair 197d46a the schema below `not` is tried on a private copy
		} else {
			ms := []any{}
			for i, k := 0, 1+r.Intn(3); i < k; i++ {
				ms = append(ms, member())
			}
			s[kw] = ms
			if r.Chance(15) {
				s[hx.Pick(r, []string{"allOf", "anyOf", "oneOf"})] = []any{member()}
			}
		}
	}
	if s["ty"] == nil && r.Chance(30) && depth > 0 {
		// untyped schema with object keywords
		s["props"] = []any{[]any{"a", c06RandSchema(r, depth-1)}}
		if r.Chance(50) {
			s["required"] = []any{"a"}
		}
	}
	return s
}

func randLeaf(r *hx.Rng) any {
	switch r.Intn(7) {
	case 0:
		return nil
	case 1:
		return r.Bool()
	case 2:
		return jI(r.Intn(9) - 3)
	case 3:
		return jH(r.Intn(7) - 3)
	case 4:
		return jS(hx.Pick(r, []string{"", "x", "hello", "é", "a b", "1"}))
	case 5:
		return jA()
	}
	return jO()
}

// c06RandValue: a value directed by the schema (mostly valid), with mutations.
func c06RandValue(r *hx.Rng, s map[string]any, depth int) any {
	if s == nil || r.Chance(8) {
		return randLeaf(r)
	}
	if jbool(s, "nullable") && r.Chance(20) {
		return nil
	}
	ty := jstr(s, "ty")
	if ty == "" {
		for _, kw := range []string{"allOf", "anyOf", "oneOf"} {
			if ms := jlist(s[kw]); len(ms) > 0 && r.Chance(50) {
				if mm, ok := hx.Pick(r, ms).(map[string]any); ok && jstr(mm, "ty") != "" && jstr(mm, "ty") != "object" {
					return c06RandValue(r, mm, depth-1)
				}
			}
		}
		if len(jlist(s["props"])) > 0 && r.Chance(70) || (len(jlist(s["allOf"]))+len(jlist(s["anyOf"]))+len(jlist(s["oneOf"])) > 0 && r.Chance(60)) {
			ty = "object"
		} else {
			return randLeaf(r)
		}
	}
	switch ty {
	case "string":
		return jS(hx.Pick(r, []string{"", "x", "ab", "hello", "longer text"}))
	case "integer":
		if r.Chance(10) {
			return jH(r.Intn(5) - 2)
		}
		return jI(r.Intn(9) - 3)
	case "number":
		if r.Bool() {
			return jH(r.Intn(7) - 3)
		}
		return jI(r.Intn(9) - 3)
	case "boolean":
		return r.Bool()
	case "array":
		xs := []any{}
		var it map[string]any
		if m, ok := s["items"].(map[string]any); ok {
			it = m
		}
		for i, k := 0, r.Intn(4); i < k; i++ {
			xs = append(xs, c06RandValue(r, it, depth-1))
		}
		return jA(xs...)
	case "object":
		kvs := []any{}
		props := map[string]map[string]any{}
		reqd := map[string]bool{}
		var collect func(m map[string]any, d int)
		collect = func(m map[string]any, d int) {
			for _, kv := range jlist(m["props"]) {
				p := jlist(kv)
				if _, seen := props[p[0].(string)]; !seen || r.Bool() {
					props[p[0].(string)], _ = p[1].(map[string]any)
				}
			}
			for _, x := range toStrs(m["required"]) {
				reqd[x] = true
			}
			if d > 0 {
				for _, kw := range []string{"allOf", "anyOf", "oneOf"} {
					for _, x := range jlist(m[kw]) {
						if mm, ok := x.(map[string]any); ok && (kw == "allOf" || r.Chance(60)) {
							collect(mm, d-1)
						}
					}
				}
			}
		}
		collect(s, 2)
		for _, n := range c06Names {
			p, declared := props[n]
			pr := 15
			if declared {
				pr = 55
				if jbool(p, "ro") {
					pr = 25
				}
			}
			if reqd[n] {
				pr += 35
			}
			if r.Chance(pr) {
				if declared && jbool(p, "ro") && r.Chance(25) {
					kvs = append(kvs, n, nil)
				} else {
					kvs = append(kvs, n, c06RandValue(r, p, depth-1))
				}
			}
		}
		return jO(kvs...)
	}
	return randLeaf(r)
}

func randCT(r *hx.Rng, keys []string) string {
	if r.Chance(55) && len(keys) > 0 {
		k := hx.Pick(r, keys)
		if !strings.Contains(k, "*") {
			if r.Chance(25) {
				return k + "; charset=utf-8"
			}
			if r.Chance(12) {
				return k + hx.Pick(r, []string{"; charset=utf-8; profile=x", ";a=1;b=2", "; charset=utf-8; v=1; w=2", "; q=1;"})
			}
			return k
		}
	}
	return hx.Pick(r, c06CTs)
}

func randCase(r *hx.Rng) hx.Case {
	c := randCase0(r)
	if r.Chance(20) {
		c["multi"] = true // MultiError: the verdict must not depend on it
	}
	if r.Chance(30) {
		c["skipDefaults"] = true
	}
	if r.Chance(5) && jstr(c["body"].(map[string]any), "text") == "" {
		c["emptyReader"] = true
	}
	if r.Chance(12) {
		c["entry"] = "request"
	}
	if r.Chance(25) {
		if r.Chance(15) && jbool(c, "skipDefaults") {
			c["repeat"] = 2 + r.Intn(2)
		}
		c = c06WithShape(c, hx.Pick(r, c06ReqKinds))
	}
	if r.Chance(4) && jstr(c, "ct") != "" {
		c["ct2"] = hx.Pick(r, []string{"text/plain", "application/json", "application/x-www-form-urlencoded", "*/*"})
	}
	return c
}

func randCase0(r *hx.Rng) hx.Case {
	kind := r.Intn(10)
	exro := r.Chance(40)
	switch {
	case kind < 6: // JSON body against a set of media types
		s := c06RandSchema(r, 3)
		if r.Chance(75) {
			s["ty"] = "object"
			if s["props"] == nil {
				s2 := c06RandSchema(r, 0)
				s["props"] = []any{[]any{"a", s2}}
			}
		}
		v := c06RandValue(r, s, 3)
		text := renderJ(v, r.Chance(20), r.Chance(10))
		switch r.Intn(25) {
		case 0:
			text += hx.Pick(r, []string{" x", "}", "]", " }", "\n]", ",", "{}", " null", "\"", " 1"})
		case 1:
			text = text[:len(text)/2]
		case 2:
			text = ""
		case 3:
			text = hx.Pick(r, []string{" ", "\n", "  \n", "\t", " " + text + "\n"})
		}
		keys := []string{}
		content := []any{}
		pool := []string{"application/json", "application/json; charset=utf-8", "application/*", "*/*", "application/problem+json", "text/plain", "application/octet-stream"}
		for _, k := range pool {
			if r.Chance(30) {
				keys = append(keys, k)
			}
		}
		if len(keys) == 0 {
			keys = []string{"application/json"}
		}
		main := r.Intn(len(keys))
		for i, k := range keys {
			var ms any = s
			if i != main {
				switch r.Intn(3) {
				case 0:
					ms = nil
				case 1:
					ms = c06RandSchema(r, 1)
				}
			}
			content = append(content, mtEntry(k, ms))
		}
		c := mkCase(r.Bool(), content, randCT(r, keys), text, exro)
		return c
	case kind < 8: // urlencoded
		props := []any{}
		q := []string{}
		encs := []any{}
		req := []any{}
		for _, n := range c06Names[:1+r.Intn(4)] {
			p := sch()
			t := hx.Pick(r, []string{"string", "integer", "number", "boolean", "array", "array", ""})
			isArr := t == "array"
			it := hx.Pick(r, []string{"string", "integer", "number", "boolean"})
			if t != "" {
				p["ty"] = t
			}
			if isArr {
				p["items"] = sch("ty", it)
			}
			if r.Chance(20) {
				p["nullable"] = true
			}
			if r.Chance(15) {
				p["ro"] = true
			}
			if r.Chance(25) {
				p["max"] = 3
			}
			if !isArr && t != "" && r.Chance(12) {
				// the property schema itself is a composition
				other := sch("ty", hx.Pick(r, []string{"string", "integer", "boolean"}))
				switch r.Intn(3) {
				case 0:
					p = sch("anyOf", []any{p, other})
				case 1:
					p = sch("oneOf", []any{other, p})
				default:
					p = sch("allOf", []any{p})
				}
			}
			if r.Chance(15) {
				switch r.Intn(3) {
				case 0:
					p["dflt"] = jS("d")
				case 1:
					p["dflt"] = jI(r.Intn(5))
				default:
					p["dflt"] = jA(jI(1))
				}
			}
			props = append(props, []any{n, p})
			if r.Chance(30) {
				req = append(req, n)
			}
			txt := func(t string) string {
				if r.Chance(12) {
					return hx.Pick(r, []string{"", "x", "1x", "abc", "1.5", "true", "7", "NaN", "Inf", "+inf", "infinity", "nan"})
				}
				switch t {
				case "integer":
					return strconv.Itoa(r.Intn(9) - 3)
				case "number":
					if r.Bool() {
						return strconv.Itoa(r.Intn(9)-3) + ".5"
					}
					return strconv.Itoa(r.Intn(9) - 3)
				case "boolean":
					return hx.Pick(r, []string{"true", "false", "1", "0", "T", "False"})
				}
				return hx.Pick(r, []string{"x", "hello", "a b", "1", "é&="})
			}
			if r.Chance(85) {
				if isArr {
					style, explode := "form", true
					if r.Chance(50) {
						explode = false
						style = hx.Pick(r, []string{"form", "spaceDelimited", "pipeDelimited"})
						e := map[string]any{"name": n, "style": style, "explode": false}
						if style == "form" && r.Bool() {
							delete(e, "style")
							e["style"] = ""
						}
						encs = append(encs, e)
					} else if r.Chance(30) {
						encs = append(encs, map[string]any{"name": n, "style": "form", "explode": true})
					}
					items := []string{}
					for i, k := 0, 1+r.Intn(3); i < k; i++ {
						items = append(items, txt(it))
					}
					if explode {
						for _, x := range items {
							q = append(q, n+"="+url.QueryEscape(x))
						}
					} else {
						d := map[string]string{"form": ",", "spaceDelimited": " ", "pipeDelimited": "|"}[style]
						q = append(q, n+"="+url.QueryEscape(strings.Join(items, d)))
					}
				} else {
					q = append(q, n+"="+url.QueryEscape(txt(t)))
					if r.Chance(10) {
						q = append(q, n+"="+url.QueryEscape(txt(t)))
					}
				}
			}
		}
		if r.Chance(20) {
			q = append(q, "zz=1")
		}
		s := sch("ty", "object", "props", props, "required", req)
		if r.Chance(30) {
			s["addl"] = r.Bool()
		}
		if r.Chance(40) && len(props) > 0 {
			// declare some of the properties inside composition members instead (sometimes both)
			k := 1 + r.Intn(len(props))
			moved, kept := props[:k], props[k:]
			m := sch("props", moved)
			if r.Chance(30) {
				m["required"] = req
			}
			if r.Chance(25) {
				m = sch(hx.Pick(r, []string{"allOf", "anyOf", "oneOf"}), []any{m})
			}
			members := []any{m}
			if r.Chance(40) {
				members = append(members, sch("props", []any{[]any{"zz", sch("ty", "string")}}))
			}
			if r.Chance(25) {
				kept = append(append([]any{}, kept...), moved[0]) // declared twice with the same schema
			}
			s["props"] = kept
			s[hx.Pick(r, []string{"allOf", "anyOf", "oneOf"})] = members
		}
		text := strings.Join(q, "&")
		if r.Chance(2) {
			text = hx.Pick(r, []string{" ", "\n", " \t "})
		}
		fct := "application/x-www-form-urlencoded"
		ct := fct
		if r.Chance(20) {
			ct += "; charset=utf-8"
		} else if r.Chance(10) {
			ct += "; charset=utf-8; v=1"
		}
		key := hx.Pick(r, []string{fct, fct, "application/*", "*/*"})
		return mkCase(r.Bool(), []any{mtEntry(key, s, encs...)}, ct, text, exro)
	default: // multipart
		bd := "b0" + strconv.Itoa(r.Intn(100))
		props := []any{}
		parts := []c06Part{}
		req := []any{}
		for _, n := range c06Names[:1+r.Intn(3)] {
			t := hx.Pick(r, []string{"string", "integer", "array", "object", "boolean"})
			p := sch("ty", t)
			it := hx.Pick(r, []string{"string", "integer"})
			if t == "array" {
				p["items"] = sch("ty", it)
			}
			if t == "object" {
				p["props"] = []any{[]any{"k", sch("ty", "integer")}}
				if r.Chance(30) {
					p["props"] = []any{[]any{"k", sch("ty", "integer")}, []any{"m", sch("ty", "string", "dflt", jS("q"))}}
					if r.Chance(30) {
						p["required"] = []any{"m"}
					}
				}
			}
			if r.Chance(20) {
				p["ro"] = true
			}
			if r.Chance(15) {
				p["dflt"] = hx.Pick(r, []any{jS("d"), jI(3), jO("k", jI(1)), jA(jS("z"))})
			}
			props = append(props, []any{n, p})
			if r.Chance(30) {
				req = append(req, n)
			}
			mk := func(t string) c06Part {
				switch t {
				case "integer":
					return c06Part{name: n, ct: hx.Pick(r, []string{"application/json", "application/json", ""}), text: strconv.Itoa(r.Intn(9))}
				case "boolean":
					return c06Part{name: n, ct: "application/json", text: hx.Pick(r, []string{"true", "false", "1"})}
				case "object":
					return c06Part{name: n, ct: "application/json", text: hx.Pick(r, []string{`{"k":1}`, `{"k":"x"}`, `{}`, `{"k":1}x`})}
				}
				return c06Part{name: n, ct: hx.Pick(r, []string{"", "", "text/plain", "application/json", "application/octet-stream", "image/png"}), text: hx.Pick(r, []string{"x", "hello", `"q"`, "5"})}
			}
			if r.Chance(80) {
				k := 1
				if t == "array" {
					k = 1 + r.Intn(3)
				} else if r.Chance(10) {
					k = 2
				}
				for i := 0; i < k; i++ {
					if t == "array" {
						parts = append(parts, mk(it))
					} else {
						parts = append(parts, mk(t))
					}
				}
			}
		}
		if r.Chance(25) {
			parts = append(parts, c06Part{name: "zz", text: "1"})
		}
		// shuffle lightly
		if len(parts) > 1 && r.Bool() {
			i, j := r.Intn(len(parts)), r.Intn(len(parts))
			parts[i], parts[j] = parts[j], parts[i]
		}
		s := sch("ty", "object", "props", props, "required", req)
		if r.Chance(50) {
			s["addl"] = r.Bool()
		}
		text := renderMultipart(bd, parts, r.Chance(4))
		ct := "multipart/form-data; boundary=" + bd
		if r.Chance(15) {
			ct = hx.Pick(r, []string{"multipart/form-data; charset=utf-8; boundary=" + bd, "multipart/form-data; boundary=" + bd + "; charset=utf-8", "multipart/form-data; a=1; boundary=" + bd + "; b=2"})
		}
		key := hx.Pick(r, []string{"multipart/form-data", "multipart/form-data", "multipart/*", "*/*"})
		return mkCase(r.Bool(), []any{mtEntry(key, s)}, ct, text, exro)
	}
}

// ---------------------------------------------------------------- shrinking

func shrinkC06(c hx.Case) []hx.Case {
	var out []hx.Case
	ct := jstr(c, "ct")
	body, _ := c["body"].(map[string]any)
	text := jstr(body, "text")
	withText := func(t string) {
		x := cloneCase(c)
		x["body"] = c06Body(t, ct)
		out = append(out, x)
	}
	// fewer media types
	if l := jlist(c["content"]); len(l) > 1 {
		for _, n := range dropEach(l) {
			x := cloneCase(c)
			x["content"] = n
			out = append(out, x)
		}
	}
	// smaller schemas: drop a property / a required name / flags
	for i, e := range jlist(c["content"]) {
		m, _ := e.(map[string]any)
		s, _ := m["schema"].(map[string]any)
		if s == nil {
			continue
		}
		for _, s2 := range c06ShrinkSchema(s) {
			x := cloneCase(c)
			nl := append([]any{}, jlist(c["content"])...)
			nm := map[string]any{}
			for k, v := range m {
				nm[k] = v
			}
			nm["schema"] = s2
			nl[i] = nm
			x["content"] = nl
			out = append(out, x)
		}
	}
	// smaller body: JSON structure
	if jv, ok := body["json"].(map[string]any); ok && c06Base(ct) != "multipart/form-data" {
		for _, v2 := range c06ShrinkValue(jv["v"]) {
			withText(renderJ(v2, false, false))
		}
	}
	// fewer form fields
	if strings.Contains(text, "&") && body["json"] == nil {
		fs := strings.Split(text, "&")
		for i := range fs {
			withText(strings.Join(append(append([]string{}, fs[:i]...), fs[i+1:]...), "&"))
		}
	}
	if jbool(c, "exro") {
		x := cloneCase(c)
		x["exro"] = false
		out = append(out, x)
	}
	if jbool(c, "skipDefaults") {
		x := cloneCase(c)
		delete(x, "skipDefaults")
		out = append(out, x)
	}
	if jbool(c, "multi") {
		x := cloneCase(c)
		delete(x, "multi")
		out = append(out, x)
	}
	if i := strings.IndexByte(ct, ';'); i >= 0 && c06Base(ct) != "multipart/form-data" {
		x := cloneCase(c)
		x["ct"] = ct[:i]
		x["body"] = c06Body(text, ct[:i])
		out = append(out, x)
	}
	return out
}

func c06ShrinkSchema(s map[string]any) []map[string]any {
	var out []map[string]any
	cp := func() map[string]any {
		n := map[string]any{}
		for k, v := range s {
			n[k] = v
		}
		return n
	}
	if ps := jlist(s["props"]); len(ps) > 0 {
		for _, n := range dropEach(ps) {
			x := cp()
			x["props"] = n
			out = append(out, x)
		}
		for i, kv := range ps {
			p := jlist(kv)
			if pm, ok := p[1].(map[string]any); ok {
				for _, p2 := range c06ShrinkSchema(pm) {
					x := cp()
					nl := append([]any{}, ps...)
					nl[i] = []any{p[0], p2}
					x["props"] = nl
					out = append(out, x)
				}
			}
		}
	}
	if rq := jlist(s["required"]); len(rq) > 0 {
		for _, n := range dropEach(rq) {
			x := cp()
			x["required"] = n
			out = append(out, x)
		}
	}
	for _, k := range []string{"nullable", "ro", "wo", "minLen", "max", "addl", "dflt", "minProps", "maxProps"} {
		if v, ok := s[k]; ok && v != nil && v != false {
			x := cp()
			delete(x, k)
			out = append(out, x)
		}
	}
	if it, ok := s["items"].(map[string]any); ok {
		for _, i2 := range c06ShrinkSchema(it) {
			x := cp()
			x["items"] = i2
			out = append(out, x)
		}
	}
	if n, ok := s["not"].(map[string]any); ok {
		x := cp()
		delete(x, "not")
		out = append(out, x)
		for _, n2 := range c06ShrinkSchema(n) {
			x := cp()
			x["not"] = n2
			out = append(out, x)
		}
	}
	for _, kw := range []string{"allOf", "anyOf", "oneOf"} {
		ms := jlist(s[kw])
		if len(ms) == 0 {
			continue
		}
		x := cp()
		delete(x, kw)
		out = append(out, x)
		if len(ms) > 1 {
			for _, n := range dropEach(ms) {
				x := cp()
				x[kw] = n
				out = append(out, x)
			}
		}
		for i, m := range ms {
			if mm, ok := m.(map[string]any); ok {
				for _, m2 := range c06ShrinkSchema(mm) {
					x := cp()
					nl := append([]any{}, ms...)
					nl[i] = m2
					x[kw] = nl
					out = append(out, x)
				}
			}
		}
	}
	return out
}

func c06ShrinkValue(v any) []any {
	var out []any
	m, ok := v.(map[string]any)
	if !ok {
		return nil
	}
	if o, ok := m["o"]; ok {
		l := jlist(o)
		for _, n := range dropEach(l) {
			out = append(out, map[string]any{"o": n})
		}
		for i, kv := range l {
			p := jlist(kv)
			for _, v2 := range c06ShrinkValue(p[1]) {
				nl := append([]any{}, l...)
				nl[i] = []any{p[0], v2}
				out = append(out, map[string]any{"o": nl})
			}
		}
	}
	if a, ok := m["a"]; ok {
		l := jlist(a)
		for _, n := range dropEach(l) {
			out = append(out, map[string]any{"a": n})
		}
		for i, e := range l {
			for _, v2 := range c06ShrinkValue(e) {
				nl := append([]any{}, l...)
				nl[i] = v2
				out = append(out, map[string]any{"a": nl})
			}
		}
	}
	return out
}
