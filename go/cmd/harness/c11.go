package main

// C11 — the loader reads nothing beyond the root unless external refs are allowed.
// Real code exercised: openapi3.Loader.LoadFromFile / LoadFromURI / LoadFromDataWithPath / LoadFromData /
// LoadFromIoReader with a recording ReadFromURIFunc that serves an in-memory file universe described by the case;
// every case is loaded a second time with the recording reader behind openapi3.URIMapCache.
//
// A case carries a generator-level description "g" (files = trees of OpenAPI elements with $ref texts) from
// which BOTH the concrete JSON documents (for the library) and the abstract view sent to the Lean driver
// (node tables in resolver order — one view of an element file per kind of reference it can be read through —,
// typed/raw fragment tables, parsed reference texts) are derived by c11Derive.
//
// The positions and their order (c11ChildKind, c11OrderKey, c11MediaTypeKey) follow the table WalkSites regenerated
// from openapi3/loader.go (lean/KinModel/Gen/WalkSites.lean; expectation: expectedWalk in lean/KinModel/Reads.lean).

import (
	"bytes"
	"os"
	"encoding/json"
	"fmt"
	"net/url"
	"path"
	"sort"
	"strconv"
	"strings"

	"github.com/getkin/kin-openapi/openapi3"

	"kinverif/internal/hx"
)

func init() {
	hx.Register(&hx.Prop{
		ID: "C11",
		Rule: "exhaustive: a skeleton document with every position ResolveRefsIn, the ten resolvers and resolveContentRefs/resolveExampleRefs visit (table WalkSites: the nine component " +
			"collections incl. links, response headers/links, examples of parameters, headers and media types, content of parameters and headers, encoding headers, schemas, callbacks, path items, " +
			"operations) × 16 reference spellings (relative, ./, ../ escape, sub-directory, absolute, file://, http, https, " +
			"scheme-relative, same path as the root on another host, whole-file and fragment forms, missing target) × 4 entry points (LoadFromFile/LoadFromURI, LoadFromDataWithPath, LoadFromData, the public ResolveRefsIn(doc, nil) on a fresh Loader) × both switch settings (quick: a sixth of the grid); " +
			"enumerated families: $ref path items whose target is itself a $ref (target resolved / sorting later / in progress), a reference text in progress for one kind and met under another kind " +
			"(6 shapes × every sub-position), targets only the raw re-read reaches; hand-made cross-document shapes (corpus) and a seeded random stream of multi-file universes " +
			"(element files are also read through references of other kinds); root locations whose directory or file name holds '#', '?' or a literal %XX (7 roots × 3 references × 3 entry points × switch); " +
			"the library's own readers (ReadFromURIs(ReadFromHTTP, ReadFromFile) in both orders, ReadFromFile alone, DefaultReadFromURI where it stays off the network) on 5 schemes × 3 hosts × 4 paths " +
			"over a scratch directory and a recording http.RoundTripper; histories in which the switch is turned off between calls and the later call is the exported ResolveRefsIn(doc, location) " +
			"called directly on the used Loader (that step is judged against the spec only). Every case is loaded twice: recording reader directly and behind openapi3.URIMapCache. " +
			"Non-trivial = the model reports a branch other than the default (a read, a denial, a cache hit, a re-read, an in-progress skip, …).",
		Exhaustive: true,
		Gen:        genC11,
		Run:        runC11,
		Compare:    cmpC11,
		Shrink:     shrinkC11,
		TimeoutMs:  10000,
		Assumptions: []string{
			"reader cases: os.ReadFile and http.Client.Do are observed through a scratch directory and a recording RoundTripper; DefaultReadFromURI itself is only called for locations ReadFromHTTP declines",
			"reference texts are parsed by net/url on the harness side (scheme, host, path, fragment are inputs of the model)",
			"fragment references target documents, whole-file references target element files (of the same or another kind; a callback reference only a callback file) or documents read as an element; deep fragments never cross a $ref node; no null elements; inline path items are non-empty",
			"position tables and visiting order of the resolvers are encoded in the harness (c11ChildKind/c11OrderKey), written after the regenerated table WalkSites (obligation walk_sites_as_modelled) and validated by the comparison of read sequences",
		},
	})
}

// ---------------------------------------------------------------- generator-level description

type c11El = map[string]any // {"k":kind,"ref":text,"kids":[{"slot":[..],"el":el}]}

func c11NewEl(kind, ref string) c11El { return c11El{"k": kind, "ref": ref, "kids": []any{}} }
func c11AddKid(e c11El, slot []string, kid c11El) {
	s := make([]any, len(slot))
	for i, x := range slot {
		s[i] = x
	}
	e["kids"] = append(jlist(e["kids"]), map[string]any{"slot": s, "el": kid})
}

// the component collections in the order ResolveRefsIn visits them (links last, since cbb0d05)
var c11Colls = []string{"headers", "parameters", "requestBodies", "responses", "schemas", "securitySchemes", "examples", "callbacks", "links"}
var c11CollKind = map[string]string{"headers": "header", "parameters": "parameter", "requestBodies": "requestBody", "responses": "response",
	"schemas": "schema", "securitySchemes": "securityScheme", "examples": "example", "callbacks": "callback", "links": "link"}
var c11KindColl = map[string]string{"header": "headers", "parameter": "parameters", "requestBody": "requestBodies", "response": "responses",
	"schema": "schemas", "securityScheme": "securitySchemes", "example": "examples", "callback": "callbacks", "link": "links"}

func c11IsArrayField(s string) bool {
	return s == "allOf" || s == "anyOf" || s == "oneOf" || s == "parameters"
}

func idx2(s string) string {
	n, _ := strconv.Atoi(s)
	return fmt.Sprintf("%03d", n)
}

// c11MediaTypeChild: the kind of the element at content/<media type>/rest ("" = no position a resolver visits)
func c11MediaTypeChild(rest []string) string {
	switch {
	case len(rest) == 2 && rest[0] == "examples":
		return "example"
	case len(rest) == 1 && rest[0] == "schema":
		return "schema"
	case len(rest) == 4 && rest[0] == "encoding" && rest[2] == "headers":
		return "header"
	}
	return ""
}

// c11ChildKind: the kind of element the resolver of parentKind expects at slot ("" = it visits no such position).
func c11ChildKind(parentKind string, slot []string) string {
	n := len(slot)
	if n == 0 {
		return ""
	}
	switch parentKind {
	case "schema":
		switch slot[0] {
		case "items", "additionalProperties", "not":
			if n == 1 {
				return "schema"
			}
		case "properties", "allOf", "anyOf", "oneOf":
			if n == 2 {
				return "schema"
			}
		}
	case "header", "parameter":
		switch {
		case n == 1 && slot[0] == "schema":
			return "schema"
		case n == 2 && slot[0] == "examples":
			return "example"
		case n >= 3 && slot[0] == "content":
			return c11MediaTypeChild(slot[2:])
		}
	case "requestBody":
		if n >= 3 && slot[0] == "content" {
			return c11MediaTypeChild(slot[2:])
		}
	case "response":
		switch {
		case n == 2 && slot[0] == "headers":
			return "header"
		case n == 2 && slot[0] == "links":
			return "link"
		case n >= 3 && slot[0] == "content":
			return c11MediaTypeChild(slot[2:])
		}
	case "callback":
		if n == 1 {
			return "pathItem"
		}
	case "pathItem":
		switch {
		case n == 2 && slot[0] == "parameters":
			return "parameter"
		case n == 3 && c11Ops[slot[0]] && slot[1] == "parameters":
			return "parameter"
		case n == 2 && c11Ops[slot[0]] && slot[1] == "requestBody":
			return "requestBody"
		case n == 3 && c11Ops[slot[0]] && slot[1] == "responses":
			return "response"
		case n == 3 && c11Ops[slot[0]] && slot[1] == "callbacks":
			return "callback"
		}
	case "doc":
		switch {
		case n == 3 && slot[0] == "components":
			return c11CollKind[slot[1]]
		case n == 2 && slot[0] == "paths":
			return "pathItem"
		}
	}
	return ""
}

// c11OrderKey: the order in which the resolver of parentKind visits the sub-element at slot (nil = not visited).
func c11OrderKey(parentKind string, slot []string) []string {
	if c11ChildKind(parentKind, slot) == "" {
		return nil
	}
	switch parentKind {
	case "schema":
		switch slot[0] {
		case "items":
			return []string{"0"}
		case "properties":
			return []string{"1", slot[1]}
		case "additionalProperties":
			return []string{"2"}
		case "not":
			return []string{"3"}
		case "allOf":
			return []string{"4", idx2(slot[1])}
		case "anyOf":
			return []string{"5", idx2(slot[1])}
		case "oneOf":
			return []string{"6", idx2(slot[1])}
		}
	case "header", "parameter":
		// resolveContentRefs(content); schema; resolveExampleRefs(examples)
		switch slot[0] {
		case "content":
			return append([]string{"0", slot[1]}, c11MediaTypeKey(slot[2:])...)
		case "schema":
			return []string{"1"}
		case "examples":
			return []string{"2", slot[1]}
		}
	case "requestBody":
		if slot[0] == "content" {
			return append([]string{slot[1]}, c11MediaTypeKey(slot[2:])...)
		}
	case "response":
		switch slot[0] {
		case "headers":
			return []string{"0", slot[1]}
		case "content":
			return append([]string{"1", slot[1]}, c11MediaTypeKey(slot[2:])...)
		case "links":
			return []string{"2", slot[1]}
		}
	case "callback":
		return []string{slot[0]}
	case "pathItem":
		if slot[0] == "parameters" {
			return []string{"0", idx2(slot[1])}
		}
		k := []string{"1", strings.ToUpper(slot[0])}
		switch slot[1] {
		case "parameters":
			return append(k, "0", idx2(slot[2]))
		case "requestBody":
			return append(k, "1")
		case "responses":
			return append(k, "2", slot[2])
		case "callbacks":
			return append(k, "3", slot[2])
		}
	case "doc":
		if slot[0] == "components" {
			for i, c := range c11Colls {
				if c == slot[1] {
					return []string{"0", fmt.Sprintf("%02d", i), slot[2]}
				}
			}
			return nil // unwalked collection (links)
		}
		return []string{"1", slot[1]}
	}
	return nil
}

// c11MediaTypeKey: resolveContentRefs visits, per media type, the examples, the schema, then the headers of the
// encodings (rest = the slot below content/<media type>).
func c11MediaTypeKey(rest []string) []string {
	if len(rest) == 0 {
		return nil
	}
	switch rest[0] {
	case "examples":
		if len(rest) == 2 {
			return []string{"0", rest[1]}
		}
	case "schema":
		return []string{"1"}
	case "encoding":
		if len(rest) == 4 && rest[2] == "headers" {
			return []string{"2", rest[1], rest[3]}
		}
	}
	return []string{"~unwalked"}
}

func lessKey(a, b []string) bool {
	for i := 0; i < len(a) && i < len(b); i++ {
		if a[i] != b[i] {
			return a[i] < b[i]
		}
	}
	return len(a) < len(b)
}

func slotOf(k any) []string {
	m, _ := k.(map[string]any)
	return toStrs(m["slot"])
}
func elOf(k any) c11El {
	m, _ := k.(map[string]any)
	e, _ := m["el"].(map[string]any)
	return e
}

// c11Normalize renumbers array slots (after shrinking) and returns the kids in document order of slots.
func c11Normalize(e c11El) {
	kids := jlist(e["kids"])
	counts := map[string]int{}
	for _, k := range kids {
		s := slotOf(k)
		for i := 0; i+1 < len(s); i++ {
			if jstr(e, "k") != "doc" && c11IsArrayField(s[i]) && i+2 == len(s) {
				pre := strings.Join(s[:i+1], "\x00")
				s[i+1] = strconv.Itoa(counts[pre])
				counts[pre]++
			}
		}
		sa := make([]any, len(s))
		for i, x := range s {
			sa[i] = x
		}
		k.(map[string]any)["slot"] = sa
		c11Normalize(elOf(k))
	}
}

func ptrEsc(s string) string {
	return strings.ReplaceAll(strings.ReplaceAll(s, "~", "~0"), "/", "~1")
}

func c11Base(kind string) map[string]any {
	switch kind {
	case "doc":
		return map[string]any{"openapi": "3.0.0", "info": map[string]any{"title": "t", "version": "1"}, "paths": map[string]any{}}
	case "schema":
		return map[string]any{"type": "object"}
	case "parameter":
		return map[string]any{"name": "q", "in": "query"}
	case "response", "pathItem":
		return map[string]any{"description": "d"}
	case "securityScheme":
		return map[string]any{"type": "http", "scheme": "basic"}
	case "example":
		return map[string]any{"value": 1}
	case "link":
		return map[string]any{"operationId": "op"}
	case "requestBody":
		return map[string]any{"description": "d"}
	}
	return map[string]any{}
}

var c11Ops = map[string]bool{"get": true, "post": true, "put": true, "delete": true, "patch": true, "head": true, "options": true, "trace": true}

func c11Render(e c11El) any {
	if r := jstr(e, "ref"); r != "" {
		return map[string]any{"$ref": r}
	}
	kind := jstr(e, "k")
	obj := c11Base(kind)
	for _, k := range jlist(e["kids"]) {
		slot := slotOf(k)
		val := c11Render(elOf(k))
		cur := obj
		for i := 0; i < len(slot); i++ {
			key := slot[i]
			if i == len(slot)-1 {
				cur[key] = val
				break
			}
			if kind != "doc" && c11IsArrayField(key) && i == len(slot)-2 {
				l, _ := cur[key].([]any)
				cur[key] = append(l, val)
				break
			}
			nxt, ok := cur[key].(map[string]any)
			if !ok {
				nxt = map[string]any{}
				if kind == "pathItem" && i == 0 && c11Ops[key] {
					nxt["responses"] = map[string]any{}
				}
				cur[key] = nxt
			}
			cur = nxt
		}
	}
	return obj
}

// ---------------------------------------------------------------- derivation of the abstract view

type c11Deriver struct {
	nextID int
	typed  []any
	raw    []any
}

func c11RefJSON(text string) (map[string]any, bool) {
	u, err := url.Parse(text)
	if err != nil {
		return nil, false
	}
	if u.Opaque != "" || u.User != nil || u.RawQuery != "" {
		return nil, false
	}
	return map[string]any{"t": text, "u": map[string]any{"s": u.Scheme, "h": u.Host, "p": u.Path}, "f": u.Fragment}, true
}

// node builds the abstract node of e; ptr is its JSON pointer in the file; underCb: a strict descendant of a callback
func (d *c11Deriver) node(e c11El, ptr string, underCb bool, isDoc bool, isRoot bool) map[string]any {
	return d.nodeAs(e, jstr(e, "k"), ptr, underCb, isDoc, isRoot)
}

// nodeAs: the element e as the resolver of `kind` sees it (kind differs from e's own kind when an element file is
// read through a reference of another kind: only the positions both kinds share are visited)
func (d *c11Deriver) nodeAs(e c11El, kind string, ptr string, underCb bool, isDoc bool, isRoot bool) map[string]any {
	id := d.nextID
	d.nextID++
	n := map[string]any{"i": id, "k": kind, "r": nil, "c": []any{}}
	if r := jstr(e, "ref"); r != "" {
		rj, ok := c11RefJSON(r)
		if ok {
			n["r"] = rj
		}
	} else {
		type ok struct {
			key []string
			k   any
		}
		var kids []ok
		for _, k := range jlist(e["kids"]) {
			key := c11OrderKey(kind, slotOf(k))
			if key == nil || c11ChildKind(kind, slotOf(k)) != jstr(elOf(k), "k") {
				continue // not a position the resolver of this kind visits
			}
			kids = append(kids, ok{key, k})
		}
		sort.SliceStable(kids, func(i, j int) bool { return lessKey(kids[i].key, kids[j].key) })
		cs := []any{}
		for _, k := range kids {
			slot := slotOf(k.k)
			p := ptr
			for _, s := range slot {
				p += "/" + ptrEsc(s)
			}
			cs = append(cs, d.node(elOf(k.k), p, underCb || kind == "callback", isDoc, false))
		}
		n["c"] = cs
	}
	if !isRoot {
		// the typed drill cannot pass a *Callback (its map is unexported); the raw re-read sees the whole JSON text
		if isDoc && !underCb {
			d.typed = append(d.typed, []any{ptr, id})
		}
		d.raw = append(d.raw, []any{ptr, id})
	}
	return n
}

func c11FileAbstract(f map[string]any) map[string]any {
	view := jstr(f, "view")
	out := map[string]any{"parses": view != "bad", "tops": []any{}, "elem": []any{}, "extra": []any{}, "typed": []any{}, "raw": []any{}, "conflict": false, "emptyPI": false}
	if view == "bad" {
		return out
	}
	root, _ := f["root"].(map[string]any)
	c11Normalize(root)
	d := &c11Deriver{}
	n := d.node(root, "", false, view == "doc", true)
	elems := []any{}
	if view == "doc" {
		out["tops"] = n["c"]
	} else {
		out["elem"] = n["c"]
		// the same file read through a reference of another kind (a callback reads every key as a path item: not generated)
		for _, k := range c11Kinds {
			if k == view {
				elems = append(elems, []any{k, n["c"]})
			} else if k != "callback" {
				d2 := &c11Deriver{nextID: 100000}
				if cs := jlist(d2.nodeAs(root, k, "", false, false, true)["c"]); len(cs) > 0 {
					elems = append(elems, []any{k, cs})
				}
			}
		}
	}
	out["elems"] = elems
	out["selfRef"] = nil
	if view == "pathItem" && jstr(root, "ref") != "" {
		out["selfRef"] = n["r"] // the file is {"$ref": …}
	}
	hasSchema, hasContent := false, false
	for _, k := range jlist(root["kids"]) {
		if sl := slotOf(k); len(sl) > 0 {
			hasSchema = hasSchema || sl[0] == "schema"
			hasContent = hasContent || sl[0] == "content"
		}
	}
	out["conflict"] = view != "doc" && hasSchema && hasContent
	// read as a path item: empty unless the JSON has a description (c11Base) or path-item members
	out["emptyPI"] = !(view == "pathItem" || view == "response" || view == "requestBody")
	extra := []any{}
	if defs, ok := f["defs"].(map[string]any); ok {
		names := []string{}
		for k := range defs {
			names = append(names, k)
		}
		sort.Strings(names)
		for _, k := range names {
			de, _ := defs[k].(map[string]any)
			c11Normalize(de)
			dn := d.node(de, "/definitions/"+ptrEsc(k), true, false, true)
			d.raw = append(d.raw, []any{"/definitions/" + ptrEsc(k), dn["i"]})
			extra = append(extra, dn)
		}
	}
	out["extra"] = extra
	if d.typed != nil {
		out["typed"] = d.typed
	}
	if d.raw != nil {
		out["raw"] = d.raw
	}
	return out
}

func c11FileBody(f map[string]any) []byte {
	if jstr(f, "view") == "bad" {
		return []byte("{\"openapi\": ")
	}
	// no mutation here: Run executes concurrently with the marshalling of the case for the driver
	root, _ := f["root"].(map[string]any)
	obj, _ := c11Render(root).(map[string]any)
	if defs, ok := f["defs"].(map[string]any); ok && len(defs) > 0 {
		dm := map[string]any{}
		for k, v := range defs {
			de, _ := v.(map[string]any)
			dm[k] = c11Render(de)
		}
		obj["definitions"] = dm
	}
	b, _ := json.Marshal(obj)
	return b
}

func c11UrlJSON(text string) (map[string]any, *url.URL) {
	u, err := url.Parse(text)
	if err != nil {
		return nil, nil
	}
	return map[string]any{"s": u.Scheme, "h": u.Host, "p": u.Path}, u
}

func c11Key(u *url.URL) string { return u.Scheme + "|" + u.Host + "|" + u.Path }

// c11Derive fills the fields read by the Lean driver from the generator-level description c["g"].
func c11Derive(c hx.Case) hx.Case {
	g, _ := c["g"].(map[string]any)
	files := jlist(g["files"])
	c["allowed"] = jbool(g, "allowed")
	entry := jstr(g, "entry")
	if entry == "reader" || entry == "resolveInNil" {
		// LoadFromIoReader (and LoadFromStdin) read everything and call LoadFromData; the public ResolveRefsIn(doc, nil) on a
		// fresh Loader and a document the caller unmarshalled is LoadFromData without the unmarshalling
		entry = "data"
	}
	c["entry"] = entry
	c["rootInStore"] = jbool(g, "rootInStore")
	rootText := jstr(g, "root")
	c["rootLoc"] = nil
	if entry != "data" {
		uj, _ := c11UrlJSON(rootText)
		c["rootLoc"] = uj
	}
	store := []any{}
	c["rootFile"] = map[string]any{"parses": false, "tops": []any{}, "elem": []any{}, "typed": []any{}, "raw": []any{}}
	for i, fa := range files {
		f, _ := fa.(map[string]any)
		abs := c11FileAbstract(f)
		if i == 0 {
			c["rootFile"] = abs
			if entry == "data" && jbool(g, "rootInStore") {
				// LoadFromData: the root has no location; its file may still sit in the universe under its name
				uj, _ := c11UrlJSON(jstr(f, "loc"))
				store = append(store, map[string]any{"loc": uj, "file": abs})
			}
			continue
		}
		uj, _ := c11UrlJSON(jstr(f, "loc"))
		store = append(store, map[string]any{"loc": uj, "file": abs})
	}
	c["store"] = store
	return c
}

// ---------------------------------------------------------------- real code

func runC11(c hx.Case) any {
	if c11IsHistory(c) {
		return runC11History(c)
	}
	if c11IsReader(c) {
		return runC11Reader(c)
	}
	g, _ := c["g"].(map[string]any)
	files := jlist(g["files"])
	bodies := map[string][]byte{}
	var rootBody []byte
	for i, fa := range files {
		f, _ := fa.(map[string]any)
		_, u := c11UrlJSON(jstr(f, "loc"))
		if u == nil {
			continue
		}
		b := c11FileBody(f)
		if i == 0 {
			rootBody = b
			if !jbool(g, "rootInStore") {
				continue
			}
		}
		if _, dup := bodies[c11Key(u)]; !dup {
			bodies[c11Key(u)] = b
		}
	}
	// two loads: the recording reader directly, and the recording reader behind openapi3.URIMapCache (the cache layer of
	// DefaultReadFromURI): the second log is what reaches the wrapped reader
	load := func(cached bool) ([]string, error) {
		log := []string{}
		loader := openapi3.NewLoader()
		loader.IsExternalRefsAllowed = jbool(g, "allowed")
		rec := func(_ *openapi3.Loader, u *url.URL) ([]byte, error) {
			k := c11Key(u)
			log = append(log, k)
			if b, ok := bodies[k]; ok {
				return b, nil
			}
			return nil, fmt.Errorf("no such file %s", k)
		}
		loader.ReadFromURIFunc = rec
		if cached {
			loader.ReadFromURIFunc = openapi3.URIMapCache(rec)
		}
		var err error
		_, ru := c11UrlJSON(jstr(g, "root"))
		switch jstr(g, "entry") {
		case "file":
			if ru != nil && ru.Scheme == "" && ru.Host == "" {
				_, err = loader.LoadFromFile(ru.Path)
			} else {
				_, err = loader.LoadFromURI(ru)
			}
		case "dataWithPath":
			_, err = loader.LoadFromDataWithPath(rootBody, ru)
		case "reader":
			_, err = loader.LoadFromIoReader(bytes.NewReader(rootBody))
		case "resolveInNil":
			doc := &openapi3.T{}
			if err = json.Unmarshal(rootBody, doc); err == nil {
				err = loader.ResolveRefsIn(doc, nil)
			}
		default:
			_, err = loader.LoadFromData(rootBody)
		}
		return log, err
	}
	log, err := load(false)
	clog, cerr := load(true)
	es := ""
	if err != nil {
		es = err.Error()
		if len(es) > 160 {
			es = es[:160]
		}
	}
	return map[string]any{"log": log, "ok": err == nil, "err": es, "cacheLog": clog, "cacheOk": cerr == nil}
}

// c11SpecHolds: the property on an observed read sequence, from the spec data computed by the Lean driver.
func c11SpecHolds(log []string, spec map[string]any) (bool, string) {
	return c11SpecHoldsKnown(log, spec, nil)
}

// c11SpecHoldsKnown: known = locations of the documents the same loader loaded in earlier loads
func c11SpecHoldsKnown(log []string, spec map[string]any, known []string) (bool, string) {
	root, hasRoot := spec["root"].(string)
	if !jbool(spec, "allowed") {
		for _, u := range log {
			if !hasRoot || u != root {
				return false, "switch off, read of " + u + " which is not the root"
			}
		}
		return true, ""
	}
	type edge struct {
		d    string
		dnil bool
	}
	edges := map[string][]edge{}
	for _, e := range jlist(spec["edges"]) {
		p := jlist(e)
		if len(p) != 2 {
			continue
		}
		d, ok := p[0].(string)
		u, _ := p[1].(string)
		edges[u] = append(edges[u], edge{d, !ok})
	}
	loaded := map[string]bool{}
	for _, k := range known {
		loaded[k] = true
	}
	for _, u := range log {
		ok := hasRoot && u == root
		for _, e := range edges[u] {
			if ok {
				break
			}
			if e.dnil {
				ok = !hasRoot // the root document without a location
			} else {
				ok = (hasRoot && e.d == root) || loaded[e.d]
			}
		}
		if !ok {
			return false, "read of " + u + " is not the resolution of a reference of an already-loaded document against its own location"
		}
		loaded[u] = true
	}
	return true, ""
}

func cmpC11(c hx.Case, impl any, reply map[string]any) hx.Verdict {
	im, _ := impl.(map[string]any)
	model, _ := reply["model"].(map[string]any)
	spec, _ := reply["spec"].(map[string]any)
	if im == nil || model == nil || spec == nil {
		return hx.Verdict{IM: false, IS: im != nil && im["panic"] == nil && im["hang"] == nil, Detail: "missing observation"}
	}
	if _, p := im["panic"]; p {
		return hx.Verdict{IM: false, IS: false, Detail: "loader panicked: " + fmt.Sprint(im["panic"])}
	}
	if _, p := im["hang"]; p {
		return hx.Verdict{IM: false, IS: false, Detail: "loader did not return"}
	}
	if c11IsHistory(c) {
		return cmpC11History(c, im, model, spec)
	}
	if c11IsReader(c) {
		return cmpC11Reader(c, im, model, spec)
	}
	v := hx.Verdict{IM: true, IS: true}
	ilog, mlog := toStrs(im["log"]), toStrs(model["log"])
	if jbool(model, "oof") {
		v.IM = false
		v.Detail = "model ran out of fuel"
	}
	if !sameStrs(ilog, mlog, true) || jbool(im, "ok") != jbool(model, "ok") {
		v.IM = false
		if os.Getenv("C11_DEBUG") != "" {
			g, _ := c["g"].(map[string]any)
			b, _ := json.Marshal(g)
			fmt.Fprintf(os.Stderr, "MISMATCH impl %v ok=%v (%s)\n  model %v ok=%v\n  g=%s\n", ilog, jbool(im, "ok"), jstr(im, "err"), mlog, jbool(model, "ok"), b)
		}
		v.Detail = fmt.Sprintf("reads: impl %v ok=%v (%s) vs model %v ok=%v", ilog, jbool(im, "ok"), jstr(im, "err"), mlog, jbool(model, "ok"))
	}
	if jbool(spec, "uniform") && len(jlist(reply["excl"])) > 0 {
		v.IM = false
		v.Detail = "model: a uniform universe inside the exclusion class (contradicts uniform_never_foreign)"
	}
	iclog, mclog := toStrs(im["cacheLog"]), toStrs(model["cacheLog"])
	if v.IM && (!sameStrs(iclog, mclog, true) || jbool(im, "cacheOk") != jbool(model, "ok")) {
		v.IM = false
		v.Detail = fmt.Sprintf("reads behind URIMapCache: impl %v ok=%v vs model %v ok=%v", iclog, jbool(im, "cacheOk"), mclog, jbool(model, "ok"))
	}
	if ok, why := c11SpecHolds(iclog, spec); !ok {
		v.IS = false
		v.Detail = "behind URIMapCache: " + why + fmt.Sprintf(" (reads %v)", iclog)
	}
	if ok, why := c11SpecHolds(ilog, spec); !ok {
		v.IS = false
		v.Detail = why + fmt.Sprintf(" (reads %v)", ilog)
	}
	if !v.IS && os.Getenv("C11_DEBUG") == "2" {
		g, _ := c["g"].(map[string]any)
		b, _ := json.Marshal(g)
		fmt.Fprintf(os.Stderr, "NOTSPEC %s\n  g=%s\n", v.Detail, b)
	}
	return v
}

// ---------------------------------------------------------------- generation

type c11Uni struct {
	r       *hx.Rng
	files   []any
	byKey   map[string]bool
	budget  int
	allowed bool
}

var c11Kinds = []string{"header", "parameter", "requestBody", "response", "schema", "securityScheme", "example", "callback", "link", "pathItem"}
var c11ElemName = map[string]string{"header": "h.json", "parameter": "p.json", "requestBody": "rb.json", "response": "resp.json", "schema": "s.json",
	"securityScheme": "ss.json", "example": "ex.json", "callback": "cb.json", "link": "ln.json", "pathItem": "pi.json"}

type c11Slot struct {
	slot []string
	kind string
}

func c11Slots(kind string) []c11Slot {
	switch kind {
	case "schema":
		return []c11Slot{{[]string{"items"}, "schema"}, {[]string{"properties", "a"}, "schema"}, {[]string{"properties", "b"}, "schema"},
			{[]string{"additionalProperties"}, "schema"}, {[]string{"not"}, "schema"}, {[]string{"allOf", "0"}, "schema"}, {[]string{"allOf", "1"}, "schema"},
			{[]string{"anyOf", "0"}, "schema"}, {[]string{"oneOf", "0"}, "schema"}}
	case "header":
		return []c11Slot{{[]string{"schema"}, "schema"}, {[]string{"examples", "e1"}, "example"},
			{[]string{"content", "application/json", "schema"}, "schema"}, {[]string{"content", "application/json", "examples", "e1"}, "example"},
			{[]string{"content", "application/json", "encoding", "f", "headers", "h1"}, "header"}}
	case "parameter":
		// a parameter has either a schema or a content map (both is a load error): the callers pick one group (c11ParamGroup)
		return []c11Slot{{[]string{"schema"}, "schema"}, {[]string{"content", "application/json", "schema"}, "schema"},
			{[]string{"examples", "e1"}, "example"}, {[]string{"examples", "e2"}, "example"},
			{[]string{"content", "application/json", "examples", "e1"}, "example"},
			{[]string{"content", "application/json", "encoding", "f", "headers", "h1"}, "header"}}
	case "requestBody":
		return []c11Slot{{[]string{"content", "application/json", "examples", "e1"}, "example"}, {[]string{"content", "application/json", "schema"}, "schema"},
			{[]string{"content", "text/plain", "schema"}, "schema"},
			{[]string{"content", "application/json", "encoding", "f", "headers", "h1"}, "header"},
			{[]string{"content", "application/json", "encoding", "g", "headers", "h1"}, "header"}}
	case "response":
		return []c11Slot{{[]string{"headers", "h1"}, "header"}, {[]string{"headers", "h2"}, "header"},
			{[]string{"content", "application/json", "examples", "e1"}, "example"}, {[]string{"content", "application/json", "schema"}, "schema"},
			{[]string{"links", "l1"}, "link"},
			{[]string{"content", "application/json", "encoding", "f", "headers", "h1"}, "header"}}
	case "callback":
		return []c11Slot{{[]string{"evt"}, "pathItem"}, {[]string{"evt2"}, "pathItem"}}
	case "pathItem":
		return []c11Slot{{[]string{"parameters", "0"}, "parameter"},
			{[]string{"get", "parameters", "0"}, "parameter"}, {[]string{"get", "requestBody"}, "requestBody"},
			{[]string{"get", "responses", "200"}, "response"}, {[]string{"get", "responses", "default"}, "response"},
			{[]string{"get", "callbacks", "cb1"}, "callback"},
			{[]string{"post", "requestBody"}, "requestBody"}, {[]string{"post", "responses", "200"}, "response"}}
	case "doc":
		out := []c11Slot{}
		for _, c := range c11Colls {
			out = append(out, c11Slot{[]string{"components", c, "A"}, c11CollKind[c]}, c11Slot{[]string{"components", c, "B"}, c11CollKind[c]})
		}
		out = append(out, c11Slot{[]string{"paths", "/x"}, "pathItem"}, c11Slot{[]string{"paths", "/y"}, "pathItem"})
		return out
	}
	return nil
}

// c11ParamGroup: the slots of a parameter that go with a content map, or those that go with a schema
func c11ParamGroup(sl []c11Slot, content bool) []c11Slot {
	out := []c11Slot{}
	for _, s := range sl {
		if (s.slot[0] == "content") == content {
			out = append(out, s)
		}
	}
	return out
}

// c11Resolve mirrors resolvePathWithRef for the GENERATOR only (to decide which files to create); a mistake
// here only lowers the hit rate of generated references.
func c11Resolve(base string, ref string) string {
	r, err := url.Parse(ref)
	if err != nil {
		return ""
	}
	r.Fragment = ""
	if r.Path != "" && r.Host == "" && (r.Scheme == "" || r.Scheme == "file") {
		if strings.HasPrefix(r.Path, "/") || base == "" {
			return r.String()
		}
		b, err := url.Parse(base)
		if err != nil {
			return ""
		}
		b.Path = path.Join(path.Dir(b.Path), r.Path)
		b.Fragment = ""
		return b.String()
	}
	return r.String()
}

var c11Dirs = []string{"", "./", "../b/", "../a/", "sub/", "/r/b/", "/r/a/", "file:///r/b/", "http://h.example/r/a/", "https://h.example/r/a/", "//h.example/r/b/",
	"../../r/a/", "../../../etc/", "http://other.example/",
	// names that URL-escaping changes: percent-escape, raw space, non-ASCII, '+' and an escaped '+' — relative (they go through join) and absolute
	"shared%20defs/", "sp ace/", "d\u00e9f/", "a+b/", "../b/sh%20x/", "http://h.example/r/a/sh%20x/", "/r/b/sp%20ace/"}

func (u *c11Uni) refText(kind string, base string, depth int) string {
	r := u.r
	dir := hx.Pick(r, c11Dirs)
	switch {
	case kind != "pathItem" && r.Chance(22): // internal
		switch r.Intn(8) {
		case 0:
			return "#/components/" + c11KindColl[kind] + "/Nope"
		case 1:
			return "#bad"
		case 2:
			if kind == "schema" { // the definitions of element files are schemas (the raw drill converts to the expected kind)
				return "#/definitions/D"
			}
		case 3:
			k2 := hx.Pick(r, c11Kinds[:9])
			return "#/components/" + c11KindColl[k2] + "/A"
		}
		return "#/components/" + c11KindColl[kind] + "/" + hx.Pick(r, []string{"A", "B"})
	case kind == "pathItem" && r.Chance(15):
		if r.Chance(20) {
			return "#/components/callbacks/" + hx.Pick(r, []string{"A", "B"}) + "/evt"
		}
		return "#/paths/" + hx.Pick(r, []string{"~1x", "~1y", "~1z"})
	case r.Chance(45): // whole file
		name := c11ElemName[kind]
		view := kind
		if r.Chance(8) && kind != "callback" { // a document does not unmarshal as a callback (a map of path items)
			name = hx.Pick(r, []string{"root.json", "d.json", "bad.json", "missing.json"})
		} else if r.Chance(10) && kind != "callback" {
			// the element file of ANOTHER kind: the resolver visits the positions both kinds share (the same text may then
			// be in progress for one kind and met again under the other)
			view = hx.Pick(r, []string{"header", "parameter", "requestBody", "response", "schema", "example", "link"})
			name = c11ElemName[view]
		}
		t := dir + name
		u.ensure(c11Resolve(base, t), view, depth)
		return t
	default: // fragment into a document
		name := hx.Pick(r, []string{"d.json", "d.json", "root.json", "e.json", "bad.json"})
		_ = name
		t := dir + name
		u.ensure(c11Resolve(base, t), "doc", depth)
		if kind == "pathItem" {
			if r.Chance(15) {
				return t + "#/components/callbacks/" + hx.Pick(r, []string{"A", "B"}) + "/" + hx.Pick(r, []string{"evt", "evt2"}) // below a callback: raw re-read only
			}
			return t + "#/paths/" + hx.Pick(r, []string{"~1x", "~1y"})
		}
		switch r.Intn(12) {
		case 0:
			return t + "#/components/" + c11KindColl[kind] + "/Nope"
		case 3:
			// deep fragments go through the path "/deep", which is never a $ref in a generated document: the typed drill
			// follows resolved references (Value, assigned path items), which the fragment tables do not describe
			if kind == "response" {
				return t + "#/paths/~1deep/get/responses/200"
			}
			if kind == "callback" {
				return t + "#/paths/~1deep/get/callbacks/cb1"
			}
		}
		return t + "#/components/" + c11KindColl[kind] + "/" + hx.Pick(r, []string{"A", "B"})
	}
}

func (u *c11Uni) el(kind string, base string, depth int, pref int) c11El {
	r := u.r
	if depth > 0 && r.Chance(pref) {
		t := u.refText(kind, base, depth)
		if _, ok := c11RefJSON(t); ok {
			return c11NewEl(kind, t)
		}
	}
	e := c11NewEl(kind, "")
	if depth >= 5 {
		return e
	}
	slots := c11Slots(kind)
	p := 45
	if kind == "pathItem" || kind == "callback" || kind == "response" {
		p = 60
	}
	if depth >= 3 {
		p = 20
	}
	if kind == "parameter" {
		slots = c11ParamGroup(slots, r.Intn(2) == 1)
	}
	for _, s := range slots {
		if r.Chance(p) {
			c11AddKid(e, s.slot, u.el(s.kind, base, depth+1, pref))
		}
	}
	return e
}

// ensure creates the file at loc (if the budget allows and it does not exist yet)
func (u *c11Uni) ensure(loc string, view string, depth int) {
	if loc == "" {
		return
	}
	pu, err := url.Parse(loc)
	if err != nil {
		return
	}
	k := c11Key(pu)
	if u.byKey[k] || u.budget <= 0 || u.r.Chance(12) || strings.Contains(pu.Path, "missing") {
		return
	}
	u.byKey[k] = true
	u.budget--
	f := map[string]any{"loc": loc, "view": view}
	idx := len(u.files)
	u.files = append(u.files, f)
	if strings.HasSuffix(pu.Path, "bad.json") {
		f["view"] = "bad"
		return
	}
	if strings.HasSuffix(pu.Path, "root.json") || strings.HasSuffix(pu.Path, "d.json") || strings.HasSuffix(pu.Path, "e.json") {
		view = "doc"
		f["view"] = view
	}
	f["root"] = u.docOrElem(view, loc, depth+1)
	if view != "doc" && u.r.Chance(40) {
		f["defs"] = map[string]any{"D": u.el("schema", loc, depth+2, 30)}
	}
	u.files[idx] = f
}

func (u *c11Uni) docOrElem(view string, loc string, depth int) c11El {
	pref := 30
	if depth > 2 {
		pref = 15
	}
	if view == "pathItem" && depth < 4 && u.r.Chance(12) {
		// a path-item file that is itself a reference (376b90f)
		if t := u.refText("pathItem", loc, depth+1); t != "" {
			if _, ok := c11RefJSON(t); ok {
				return c11NewEl("pathItem", t)
			}
		}
	}
	if view != "doc" {
		// the element itself is inline; its sub-elements may be references
		e := c11NewEl(view, "")
		sl := c11Slots(view)
		if view == "parameter" {
			sl = c11ParamGroup(sl, u.r.Chance(30))
		}
		for _, s := range sl {
			if u.r.Chance(50) {
				c11AddKid(e, s.slot, u.el(s.kind, loc, depth+1, pref+15))
			}
		}
		return e
	}
	e := c11NewEl("doc", "")
	for _, s := range c11Slots("doc") {
		p := 22
		if s.slot[0] == "paths" {
			p = 45
		}
		if u.r.Chance(p) {
			c11AddKid(e, s.slot, u.el(s.kind, loc, depth+1, pref))
		}
	}
	if u.r.Chance(35) {
		// an inline path item (its own sub-elements may be references): the target of deep fragments
		pi := c11NewEl("pathItem", "")
		for _, s := range c11Slots("pathItem") {
			if u.r.Chance(60) {
				c11AddKid(pi, s.slot, u.el(s.kind, loc, depth+2, pref))
			}
		}
		c11AddKid(e, []string{"paths", "/deep"}, pi)
	}
	return e
}

func c11RandomCase(r *hx.Rng) hx.Case {
	u := &c11Uni{r: r, byKey: map[string]bool{}, budget: 2 + r.Intn(5)}
	rootLoc := hx.Pick(r, []string{"/r/a/root.json", "/r/a/root.json", "/r/a/root.json", "http://h.example/r/a/root.json", "r/a/root.json", "/r/a/sub/root.json", "file:///r/a/root.json"})
	entry := hx.Pick(r, []string{"file", "file", "file", "dataWithPath", "dataWithPath", "data", "data", "reader", "resolveInNil"})
	base := rootLoc
	if entry == "data" || entry == "reader" || entry == "resolveInNil" {
		base = ""
	}
	pu, _ := url.Parse(rootLoc)
	u.byKey[c11Key(pu)] = true
	rootF := map[string]any{"loc": rootLoc, "view": "doc"}
	u.files = append(u.files, rootF)
	rootF["root"] = u.docOrElem("doc", base, 0)
	g := map[string]any{"allowed": r.Chance(70), "entry": entry, "root": rootLoc, "rootInStore": entry == "file" || r.Chance(70), "files": u.files}
	return c11Derive(hx.Case{"g": g})
}

// ---- exhaustive: every position × every spelling × entry × switch

func c11Skeleton(kind string, depth int) c11El {
	e := c11NewEl(kind, "")
	if depth >= 4 {
		return e
	}
	for _, s := range c11Slots(kind) {
		if kind == "doc" && len(s.slot) > 2 && s.slot[2] == "B" {
			continue
		}
		if kind == "doc" && s.slot[0] == "paths" && s.slot[1] == "/y" {
			continue
		}
		if kind == "schema" && depth >= 2 {
			continue
		}
		if (kind == "pathItem" || kind == "callback") && depth >= 3 {
			continue
		}
		if kind == "callback" && s.slot[0] == "evt2" {
			continue
		}
		if kind == "parameter" && (s.slot[0] == "content") != (depth%2 == 1) {
			continue // component parameters carry a content map, path-level ones a schema
		}
		c11AddKid(e, s.slot, c11Skeleton(s.kind, depth+1))
	}
	return e
}

func c11_deepCopy(v any) any {
	b, _ := json.Marshal(v)
	var out any
	json.Unmarshal(b, &out)
	return out
}

// positions: paths (indices into kids) of every element of the tree except the root
func c11Positions(e c11El, pre []int, out *[][]int) {
	for i, k := range jlist(e["kids"]) {
		p := append(append([]int{}, pre...), i)
		*out = append(*out, p)
		c11Positions(elOf(k), p, out)
	}
}

func c11At(e c11El, p []int) c11El {
	for _, i := range p {
		e = elOf(jlist(e["kids"])[i])
	}
	return e
}

// c11NestedName: the file name of the nested whole-file reference put into a target of this kind ("" = none)
func c11NestedName(kind string) string {
	sl := c11Slots(kind)
	if len(sl) == 0 {
		return ""
	}
	return c11ElemName[sl[0].kind]
}

// c11PruneTo keeps the elements on the way to position p and their siblings (as leaves): the exhaustive cases
// stay small; sibling interplay is the random stream's job.
func c11PruneTo(e c11El, p []int) {
	for i, k := range jlist(e["kids"]) {
		if len(p) > 0 && i == p[0] {
			c11PruneTo(elOf(k), p[1:])
		} else {
			elOf(k)["kids"] = []any{}
		}
	}
}

func c11SimpleElemFile(loc, kind string, withRef bool) map[string]any {
	e := c11NewEl(kind, "")
	sl := c11Slots(kind)
	if len(sl) > 0 && withRef {
		c11AddKid(e, sl[0].slot, c11NewEl(sl[0].kind, c11ElemName[sl[0].kind]))
	}
	return map[string]any{"loc": loc, "view": kind, "root": e}
}

func c11SimpleDoc(loc string, withRefKind string) map[string]any {
	d := c11NewEl("doc", "")
	for _, c := range c11Colls {
		k := c11CollKind[c]
		el := c11NewEl(k, "")
		if k == withRefKind {
			sl := c11Slots(k)
			if len(sl) > 0 {
				c11AddKid(el, sl[0].slot, c11NewEl(sl[0].kind, c11ElemName[sl[0].kind]))
			}
		}
		c11AddKid(d, []string{"components", c, "A"}, el)
	}
	pi := c11NewEl("pathItem", "")
	c11AddKid(pi, []string{"get", "responses", "200"}, c11NewEl("response", ""))
	if withRefKind == "pathItem" {
		c11AddKid(pi, []string{"parameters", "0"}, c11NewEl("parameter", c11ElemName["parameter"]))
	}
	c11AddKid(d, []string{"paths", "/x"}, pi)
	return map[string]any{"loc": loc, "view": "doc", "root": d}
}

type c11Spelling struct {
	dir      string // prefix of the text
	target   string // where the file is put (resolved location for a root at /r/a/root.json), "" = nowhere
	fragment bool
}

// ---- hand-made shapes (also written to corpus/C11 with C11_WRITE_CORPUS=<dir>)

func c11Doc(loc string, kids ...[2]any) map[string]any {
	d := c11NewEl("doc", "")
	for _, k := range kids {
		c11AddKid(d, k[0].([]string), k[1].(c11El))
	}
	return map[string]any{"loc": loc, "view": "doc", "root": d}
}
func c11Elem(loc, kind string, kids ...[2]any) map[string]any {
	e := c11NewEl(kind, "")
	for _, k := range kids {
		c11AddKid(e, k[0].([]string), k[1].(c11El))
	}
	return map[string]any{"loc": loc, "view": kind, "root": e}
}
func c11With(e c11El, kids ...[2]any) c11El {
	for _, k := range kids {
		c11AddKid(e, k[0].([]string), k[1].(c11El))
	}
	return e
}
func kid(el c11El, slot ...string) [2]any { return [2]any{slot, el} }

func c11Handmade() map[string]hx.Case {
	mk := func(allowed bool, entry string, files ...any) hx.Case {
		root := files[0].(map[string]any)
		g := map[string]any{"allowed": allowed, "entry": entry, "root": jstr(root, "loc"), "rootInStore": true, "files": files}
		return c11Derive(hx.Case{"g": g})
	}
	out := map[string]hx.Case{}
	// F-C11-1 (a): '#'-reference of an element file finds a root component and resolves it against the element's location
	out["foreign_base_elem_hash_ref"] = mk(true, "file",
		c11Doc("/r/a/root.json", kid(c11NewEl("parameter", "../b/p.json"), "components", "parameters", "P"), kid(c11NewEl("schema", "y.json"), "components", "schemas", "X")),
		c11Elem("/r/b/p.json", "parameter", kid(c11NewEl("schema", "#/components/schemas/X"), "schema")),
		c11Elem("/r/a/y.json", "schema"), c11Elem("/r/b/y.json", "schema"))
	// F-C11-1 (b): the raw re-read fallback finds the fragment in the REFERRING document
	out["foreign_base_raw_fallback"] = mk(true, "file",
		c11Doc("/r/a/root.json",
			kid(c11With(c11NewEl("callback", ""), kid(c11NewEl("pathItem", "../b/d.json#/paths/~1x"), "evt")), "components", "callbacks", "C"),
			kid(c11With(c11NewEl("pathItem", ""), kid(c11NewEl("parameter", "p.json"), "parameters", "0")), "paths", "/x")),
		c11Doc("/r/b/d.json"), c11Elem("/r/a/p.json", "parameter"), c11Elem("/r/b/p.json", "parameter"))
	// regression: same path as the root on another host, switch off — must not be fetched
	for _, entry := range []string{"file", "dataWithPath"} {
		out["same_path_other_host_off_"+entry] = mk(false, entry,
			c11Doc("/r/a/root.json", kid(c11NewEl("schema", "//h.example/r/a/root.json#/components/schemas/A"), "components", "schemas", "S")),
			c11Doc("//h.example/r/a/root.json", kid(c11NewEl("schema", ""), "components", "schemas", "A")))
	}
	out["http_ref_off"] = mk(false, "file",
		c11Doc("/r/a/root.json", kid(c11With(c11NewEl("response", ""), kid(c11NewEl("header", "http://h.example/r/a/h.json"), "headers", "h1")), "components", "responses", "R")),
		c11Elem("http://h.example/r/a/h.json", "header"))
	// regression: a whole-file callback in another directory — its nested relative reference resolves against the callback file
	out["callback_whole_file_other_dir"] = mk(true, "file",
		c11Doc("/r/a/root.json", kid(c11NewEl("callback", "../b/cb.json"), "components", "callbacks", "C")),
		c11Elem("/r/b/cb.json", "callback", kid(c11NewEl("pathItem", "pi.json"), "evt")),
		c11Elem("/r/b/pi.json", "pathItem"))
	// the same for every kind whose resolver walks sub-elements
	for _, k := range []string{"header", "parameter", "requestBody", "response", "schema", "pathItem"} {
		sl := c11Slots(k)[0]
		slot := []string{"components", c11KindColl[k], "C"}
		if k == "pathItem" {
			slot = []string{"paths", "/p"}
		}
		out["whole_file_other_dir_"+k] = mk(true, "file",
			c11Doc("/r/a/root.json", [2]any{slot, c11NewEl(k, "../b/"+c11ElemName[k])}),
			c11Elem("/r/b/"+c11ElemName[k], k, [2]any{sl.slot, c11NewEl(sl.kind, "sub/"+c11ElemName[sl.kind])}),
			c11Elem("/r/b/sub/"+c11ElemName[sl.kind], sl.kind))
	}
	// chain root → d.json#A → s.json; cycle across two documents; unwalked position
	out["chain_fragment_then_whole"] = mk(true, "file",
		c11Doc("/r/a/root.json", kid(c11NewEl("schema", "../b/d.json#/components/schemas/A"), "components", "schemas", "S")),
		c11Doc("/r/b/d.json", kid(c11With(c11NewEl("schema", ""), kid(c11NewEl("schema", "s.json"), "items")), "components", "schemas", "A")),
		c11Elem("/r/b/s.json", "schema"))
	out["cycle_two_documents"] = mk(true, "file",
		c11Doc("/r/a/root.json", kid(c11With(c11NewEl("schema", ""), kid(c11NewEl("schema", "d.json#/components/schemas/A"), "properties", "a")), "components", "schemas", "A")),
		c11Doc("/r/a/d.json", kid(c11With(c11NewEl("schema", ""), kid(c11NewEl("schema", "root.json#/components/schemas/A"), "properties", "a")), "components", "schemas", "A")))
	for _, allowed := range []bool{false, true} {
		// positions the loader did not walk before cbb0d05 (components.links): they are references like any other now
		rf := c11Doc("/r/a/root.json", kid(c11NewEl("schema", ""), "components", "schemas", "A"),
			kid(c11NewEl("link", "ln.json"), "components", "links", "Dead0"), kid(c11NewEl("link", "http://h.example/r/a/ln.json"), "components", "links", "Dead1"))
		out[fmt.Sprintf("unwalked_components_links_%v", allowed)] = mk(allowed, "file", rf, c11Elem("/r/a/ln.json", "link"))
	}
	// a deep fragment through inline elements (typed drill through struct fields, maps, slices)
	out["deep_fragment_inline"] = mk(true, "file",
		c11Doc("/r/a/root.json", kid(c11NewEl("schema", "d.json#/components/schemas/A/properties/a/allOf/0"), "components", "schemas", "S"),
			kid(c11NewEl("response", "d.json#/paths/~1x/get/responses/200"), "components", "responses", "R")),
		c11Doc("/r/a/d.json",
			kid(c11With(c11NewEl("schema", ""), kid(c11With(c11NewEl("schema", ""), kid(c11NewEl("schema", "s.json"), "allOf", "0")), "properties", "a")), "components", "schemas", "A"),
			kid(c11With(c11NewEl("pathItem", ""), kid(c11With(c11NewEl("response", ""), kid(c11NewEl("header", "h.json"), "headers", "h1")), "get", "responses", "200")), "paths", "/x")),
		c11Elem("/r/a/s.json", "schema"), c11Elem("/r/a/h.json", "header"))
	// 9b25d89: a path item whose target is itself a $ref path item (fragment form, then whole-file form)
	out["pathitem_ref_chain_fragment"] = mk(true, "file",
		c11Doc("/r/a/root.json", kid(c11NewEl("pathItem", "b/d.json#/paths/~1x"), "paths", "/x")),
		c11Doc("/r/a/b/d.json", kid(c11NewEl("pathItem", "../c/e.json#/paths/~1y"), "paths", "/x")),
		c11Doc("/r/a/c/e.json", kid(c11With(c11NewEl("pathItem", ""), kid(c11NewEl("parameter", "p.json"), "parameters", "0")), "paths", "/y")),
		c11Elem("/r/a/c/p.json", "parameter"), c11Elem("/r/a/p.json", "parameter"), c11Elem("/r/a/b/p.json", "parameter"))
	out["pathitem_ref_chain_whole"] = mk(true, "file",
		c11Doc("/r/a/root.json", kid(c11NewEl("pathItem", "b/d.json#/paths/~1x"), "paths", "/x")),
		c11Doc("/r/a/b/d.json", kid(c11NewEl("pathItem", "sub/pi.json"), "paths", "/x")),
		c11Elem("/r/a/b/sub/pi.json", "pathItem", kid(c11NewEl("parameter", "p.json"), "parameters", "0")),
		c11Elem("/r/a/b/sub/p.json", "parameter"), c11Elem("/r/a/p.json", "parameter"), c11Elem("/r/a/b/p.json", "parameter"))
	// 376b90f: a whole-file path item whose file is itself a reference: one more read, against the loaded file's location
	out["pathitem_file_is_ref"] = mk(true, "file",
		c11Doc("/r/a/root.json", kid(c11NewEl("pathItem", "b/p1.json"), "paths", "/x")),
		map[string]any{"loc": "/r/a/b/p1.json", "view": "pathItem", "root": c11NewEl("pathItem", "sub/p2.json")},
		c11Elem("/r/a/b/sub/p2.json", "pathItem", kid(c11NewEl("parameter", "p.json"), "parameters", "0")),
		c11Elem("/r/a/b/sub/p.json", "parameter"), c11Elem("/r/a/b/p.json", "parameter"), c11Elem("/r/a/sub/p2.json", "pathItem"))
	// f972c33: the raw re-read after a failed typed drill reads the REFERENCED document (twice in the log), not the referring one
	out["reread_referenced_document_dangling"] = mk(true, "file",
		c11Doc("/r/a/root.json", kid(c11NewEl("schema", "../b/d.json#/components/schemas/Nope"), "components", "schemas", "A"),
			kid(c11NewEl("schema", "s.json"), "components", "schemas", "Nope")),
		c11Doc("/r/b/d.json"), c11Elem("/r/a/s.json", "schema"), c11Elem("/r/b/s.json", "schema"))
	out["reread_referenced_document_below_callback"] = mk(true, "file",
		c11Doc("/r/a/root.json", kid(c11NewEl("pathItem", "../b/d.json#/components/callbacks/C/evt"), "paths", "/x")),
		c11Doc("/r/b/d.json", kid(c11With(c11NewEl("callback", ""),
			kid(c11With(c11NewEl("pathItem", ""), kid(c11NewEl("parameter", "p.json"), "parameters", "0")), "evt")), "components", "callbacks", "C")),
		c11Elem("/r/b/p.json", "parameter"), c11Elem("/r/a/p.json", "parameter"))
	// cbb0d05: the positions that are walked now, in an element file of another directory
	out["new_positions_other_dir"] = mk(true, "file",
		c11Doc("/r/a/root.json", kid(c11NewEl("header", "../b/h.json"), "components", "headers", "H"),
			kid(c11NewEl("link", "../b/ln.json"), "components", "links", "L"),
			kid(c11With(c11NewEl("parameter", ""), kid(c11NewEl("example", "../b/sub/ex.json"), "examples", "e1")), "components", "parameters", "P")),
		c11Elem("/r/b/h.json", "header", kid(c11NewEl("example", "sub/ex.json"), "examples", "e1"),
			kid(c11NewEl("header", "sub/h.json"), "content", "application/json", "encoding", "f", "headers", "h1"),
			kid(c11NewEl("schema", "sub/s.json"), "content", "application/json", "schema")),
		c11Elem("/r/b/sub/ex.json", "example"), c11Elem("/r/b/sub/h.json", "header"), c11Elem("/r/b/sub/s.json", "schema"), c11Elem("/r/b/ln.json", "link"))
	// F-C11-1 (c): a reference left unresolved by the first walk (its text was in progress for ANOTHER kind, so the
	// callback ignored the value: a04fe6c) is resolved by the second walk against the OUTER documentPath
	out["foreign_base_second_walk_otherkind"] = mk(true, "file",
		c11Doc("/r/a/root.json", kid(c11NewEl("header", "b/d.json#/components/headers/H"), "components", "headers", "R")),
		c11Doc("/r/a/b/d.json", kid(c11NewEl("header", "x.json"), "components", "headers", "H")),
		c11Elem("/r/a/b/x.json", "header", kid(c11NewEl("schema", "x.json"), "schema")),
		c11Elem("/r/a/x.json", "schema"))
	// F-C11-1 (d): a path item loaded from a file that is empty as a path item never counts as resolved (isEmpty), so the
	// second walk (here of R, a '#'-reference to the callback H) resolves it again, against the root's location
	out["foreign_base_empty_pathitem_second_walk"] = mk(true, "file",
		c11Doc("/r/a/root.json", kid(c11NewEl("callback", "b/cb.json"), "components", "callbacks", "H"), kid(c11NewEl("callback", "#/components/callbacks/H"), "components", "callbacks", "R")),
		c11Elem("/r/a/b/cb.json", "callback", kid(c11NewEl("pathItem", "e.json"), "evt")),
		c11Elem("/r/a/b/e.json", "header"), c11Elem("/r/a/e.json", "pathItem"))
	// histories on one Loader: a located load, then LoadFromData of a document with a dangling '#'-reference (the raw re-read
	// has no location to read: nothing may be read, least of all the first load's file); the same file twice; a second
	// document that refers into the one loaded (and resolved) before
	{
		a := c11Doc("/r/a/root.json", kid(c11NewEl("schema", "s.json"), "components", "schemas", "S"))
		b := c11Doc("/r/m/mem.json", kid(c11NewEl("schema", "#/components/schemas/Nope"), "components", "schemas", "X"))
		b2 := c11Doc("/r/m/mem2.json", kid(c11NewEl("schema", "/r/a/root.json#/components/schemas/S"), "components", "schemas", "X"), kid(c11NewEl("schema", "s.json"), "components", "schemas", "Y"))
		fs := []any{a, b, b2, c11Elem("/r/a/s.json", "schema"), c11Elem("/r/m/s.json", "schema"), c11Elem("s.json", "schema")}
		for _, al := range []bool{false, true} {
			out[fmt.Sprintf("history_file_then_data_dangling_%v", al)] = c11HistCase(fs, c11Step("file", "/r/a/root.json", al), c11Step("data", "/r/m/mem.json", al))
			out[fmt.Sprintf("history_same_file_twice_%v", al)] = c11HistCase(fs, c11Step("file", "/r/a/root.json", al), c11Step("file", "/r/a/root.json", al), c11Step("dataWithPath", "/r/a/root.json", al))
		}
		out["history_second_refers_into_first"] = c11HistCase(fs, c11Step("file", "/r/a/root.json", true), c11Step("data", "/r/m/mem2.json", true), c11Step("dataWithPath", "/r/m/mem2.json", true))
	}
	out["dangling_hash_ref_reread_off"] = mk(false, "file",
		c11Doc("/r/a/root.json", kid(c11NewEl("schema", "#/components/schemas/Nope"), "components", "schemas", "A")))
	return out
}

func genC11(ctx *hx.Ctx, emit func(hx.Case)) {
	hm := c11Handmade()
	hnames := []string{}
	for k := range hm {
		hnames = append(hnames, k)
	}
	sort.Strings(hnames)
	for _, k := range hnames {
		if dir := os.Getenv("C11_WRITE_CORPUS"); dir != "" {
			b, _ := json.MarshalIndent(hm[k], "", " ")
			os.WriteFile(dir+"/"+k+".json", b, 0o644)
		}
		emit(hm[k])
	}
	skel := c11Skeleton("doc", 0)
	var pos [][]int
	c11Positions(skel, nil, &pos)
	rootLoc := "/r/a/root.json"
	spellings := []c11Spelling{
		{"", "/r/a/", false}, {"./", "/r/a/", false}, {"../b/", "/r/b/", false}, {"sub/", "/r/a/sub/", false}, {"/r/b/", "/r/b/", false},
		{"file:///r/b/", "file:///r/b/", false}, {"http://h.example/r/a/", "http://h.example/r/a/", false}, {"//h.example/r/b/", "//h.example/r/b/", false},
		{"../../../etc/", "/etc/", false}, {"gone/", "", false},
		{"", "/r/a/", true}, {"../b/", "/r/b/", true}, {"https://h.example/r/a/", "https://h.example/r/a/", true}, {"//h.example/r/a/", "//h.example/r/a/", true},
		{"/r/b/", "/r/b/", true}, {"gone/", "", true},
		// reference texts whose path URL-escaping changes (the location read must hold the DECODED path, as net/url resolves it)
		{"shared%20defs/", "/r/a/shared%20defs/", false}, {"sp ace/", "/r/a/sp%20ace/", true}, {"d\u00e9f/", "/r/a/d%C3%A9f/", false},
		{"a+b/", "/r/a/a+b/", true}, {"../b/sh%20x/", "/r/b/sh%20x/", true}, {"sub/d\u00e9 f/", "/r/a/sub/d%C3%A9%20f/", false},
	}
	entries := []string{"file", "dataWithPath", "data", "resolveInNil"}
	for pi, p := range pos {
		kind := jstr(c11At(skel, p), "k")
		for si, sp := range spellings {
			for ei, entry := range entries {
				for _, allowed := range []bool{false, true} {
					if !ctx.Thorough() && (pi+si+ei)%6 != 0 && !(allowed == false && sp.fragment && si >= 12 && si < 16) {
						continue // quick tier: a sixth of the grid (all of the remote fragment spellings with the switch off)
					}
					root := c11_deepCopy(skel).(map[string]any)
					var text string
					files := []any{}
					if sp.fragment {
						name := "d.json"
						if si == 13 {
							name = "root.json" // same path as the root, on another host
						}
						if kind == "pathItem" {
							text = sp.dir + name + "#/paths/~1x"
						} else {
							text = sp.dir + name + "#/components/" + c11KindColl[kind] + "/A"
						}
						if sp.target != "" {
							files = append(files, c11SimpleDoc(sp.target+name, kind))
						}
					} else {
						text = sp.dir + c11ElemName[kind]
						if sp.target != "" {
							files = append(files, c11SimpleElemFile(sp.target+c11ElemName[kind], kind, true))
						}
					}
					if _, ok := c11RefJSON(text); !ok {
						continue
					}
					tgt := c11At(root, p)
					tgt["ref"] = text
					tgt["kids"] = []any{}
					c11PruneTo(root, p)
					rf := map[string]any{"loc": rootLoc, "view": "doc", "root": root}
					all := append([]any{rf}, files...)
					// the nested whole-file reference of the target, next to it
					if nn := c11NestedName(kind); sp.target != "" && nn != "" && nn != c11ElemName[kind] {
						all = append(all, c11SimpleElemFile(sp.target+nn, c11Slots(kind)[0].kind, false))
					}
					g := map[string]any{"allowed": allowed, "entry": entry, "root": rootLoc, "rootInStore": true, "files": all}
					emit(c11Derive(hx.Case{"g": g}))
				}
			}
		}
	}
	c11GenReaders(ctx, emit)
	c11GenRootNames(ctx, emit)
	c11GenChains(ctx, emit)
	c11GenRootChains(ctx, emit)
	c11GenRereads(ctx, emit)
	c11GenHistories(ctx, emit)
	c11GenOtherKind(ctx, emit)
	// random stream
	n := 2000
	if ctx.Thorough() {
		n = 30000
	}
	for i := 0; i < n; i++ {
		emit(c11RandomCase(ctx.Rng))
		if i%5 == 0 {
			if h := c11RandomHistory(ctx.Rng); h != nil {
				emit(h)
			}
		}
	}
}

// ---- enumerated: a path item whose target is itself a $ref path item (9b25d89)

func c11GenChains(ctx *hx.Ctx, emit func(hx.Case)) {
	firsts := []c11Spelling{{"", "/r/a/", true}, {"../b/", "/r/b/", true}, {"sub/", "/r/a/sub/", true}, {"https://h.example/r/a/", "https://h.example/r/a/", true},
		{"/r/b/", "/r/b/", true}, {"gone/", "", true}}
	// "#/paths/~1z": a target that sorts LATER in the same document and is itself a reference (not resolved yet when it is copied)
	seconds := []string{"pi.json", "../c/pi.json", "../c/e.json#/paths/~1y", "#/paths/~1y", "#/paths/~1x", "e.json#/paths/~1nope", "http://other.example/pi.json",
		"#/paths/~1z", "#/paths/~1zz"}
	i := 0
	for _, f := range firsts {
		for _, sec := range seconds {
			for _, entry := range []string{"file", "dataWithPath", "data"} {
				for _, allowed := range []bool{false, true} {
					for where := 0; where < 3; where++ {
						i++
						if !ctx.Thorough() && i%3 != 0 {
							continue
						}
						ref := c11NewEl("pathItem", f.dir+"d.json#/paths/~1x")
						var rootKid [2]any
						switch where {
						case 0:
							rootKid = kid(ref, "paths", "/x")
						case 1:
							rootKid = kid(c11With(c11NewEl("callback", ""), kid(ref, "evt")), "components", "callbacks", "C")
						default:
							rootKid = kid(c11With(c11NewEl("pathItem", ""), kid(c11With(c11NewEl("callback", ""), kid(ref, "evt")), "get", "callbacks", "cb1")), "paths", "/p")
						}
						files := []any{c11Doc("/r/a/root.json", rootKid)}
						if f.target != "" {
							inl := c11With(c11NewEl("pathItem", ""), kid(c11NewEl("parameter", "p.json"), "parameters", "0"))
							files = append(files, c11Doc(f.target+"d.json", kid(c11NewEl("pathItem", sec), "paths", "/x"), kid(inl, "paths", "/y"),
								kid(c11NewEl("pathItem", "../c/pi.json"), "paths", "/z"), kid(c11NewEl("pathItem", "../c/e.json#/paths/~1y"), "paths", "/zz")))
							// second hops, resolved against the first target's location
							for _, t := range []string{"pi.json", "../c/pi.json"} {
								loc := c11Resolve(f.target+"d.json", t)
								files = append(files, c11Elem(loc, "pathItem", kid(c11NewEl("parameter", "p.json"), "parameters", "0")), c11Elem(c11Resolve(loc, "p.json"), "parameter"))
							}
							e := c11Resolve(f.target+"d.json", "../c/e.json")
							files = append(files, c11Doc(e, kid(c11With(c11NewEl("pathItem", ""), kid(c11NewEl("parameter", "q.json"), "parameters", "0")), "paths", "/y")),
								c11Elem(c11Resolve(e, "q.json"), "parameter"), c11Doc(c11Resolve(f.target+"d.json", "e.json")), c11Elem("/r/a/p.json", "parameter"))
						}
						files = c11DedupFiles(files)
						g := map[string]any{"allowed": allowed, "entry": entry, "root": "/r/a/root.json", "rootInStore": true, "files": files}
						emit(c11Derive(hx.Case{"g": g}))
					}
				}
			}
		}
	}
}

// c11GenRootChains: the same inside the root document: /x → "#/paths/~1y", /y → a reference (sorts later)
func c11GenRootChains(ctx *hx.Ctx, emit func(hx.Case)) {
	for _, sec := range []string{"pi.json", "../b/pi.json", "../b/e.json#/paths/~1y", "http://h.example/r/a/pi.json", "#/paths/~1x", "#/paths/~1z", "gone/pi.json",
		"pr.json", "../b/pr.json", "prr.json", "prh.json"} {
		for _, entry := range []string{"file", "dataWithPath", "data"} {
			for _, allowed := range []bool{false, true} {
				files := []any{c11Doc("/r/a/root.json", kid(c11NewEl("pathItem", "#/paths/~1y"), "paths", "/x"), kid(c11NewEl("pathItem", sec), "paths", "/y"),
					kid(c11With(c11NewEl("pathItem", ""), kid(c11NewEl("parameter", "p.json"), "parameters", "0")), "paths", "/z"))}
				for _, loc := range []string{"/r/a/pi.json", "/r/b/pi.json", "http://h.example/r/a/pi.json", "pi.json", "../b/pi.json"} {
					files = append(files, c11Elem(loc, "pathItem", kid(c11NewEl("parameter", "p.json"), "parameters", "0")), c11Elem(c11Resolve(loc, "p.json"), "parameter"))
				}
				// path-item files that are themselves references: to a file in a sub-directory, to themselves, to a fragment
				for _, dir := range []string{"/r/a/", "/r/b/", "", "../b/"} {
					files = append(files, map[string]any{"loc": dir + "pr.json", "view": "pathItem", "root": c11NewEl("pathItem", "sub/p2.json")},
						c11Elem(dir+"sub/p2.json", "pathItem", kid(c11NewEl("parameter", "p.json"), "parameters", "0")), c11Elem(dir+"sub/p.json", "parameter"))
				}
				files = append(files, map[string]any{"loc": "/r/a/prr.json", "view": "pathItem", "root": c11NewEl("pathItem", "prr.json")},
					map[string]any{"loc": "/r/a/prh.json", "view": "pathItem", "root": c11NewEl("pathItem", "../b/e.json#/paths/~1y")})
				for _, loc := range []string{"/r/b/e.json", "../b/e.json"} {
					files = append(files, c11Doc(loc, kid(c11With(c11NewEl("pathItem", ""), kid(c11NewEl("parameter", "q.json"), "parameters", "0")), "paths", "/y")),
						c11Elem(c11Resolve(loc, "q.json"), "parameter"))
				}
				g := map[string]any{"allowed": allowed, "entry": entry, "root": "/r/a/root.json", "rootInStore": true, "files": c11DedupFiles(files)}
				emit(c11Derive(hx.Case{"g": g}))
			}
		}
	}
}

// c11GenRereads: targets only the raw re-read of componentPath reaches (below a callback; "definitions" of an element file)
func c11GenRereads(ctx *hx.Ctx, emit func(hx.Case)) {
	for _, sp := range []c11Spelling{{"", "/r/a/", true}, {"../b/", "/r/b/", true}, {"http://h.example/r/a/", "http://h.example/r/a/", true}, {"#", "", true}} {
		for _, entry := range []string{"file", "dataWithPath", "data"} {
			for _, allowed := range []bool{false, true} {
				cb := c11With(c11NewEl("callback", ""), kid(c11With(c11NewEl("pathItem", ""), kid(c11NewEl("parameter", "p.json"), "parameters", "0")), "evt"))
				var files []any
				if sp.dir == "#" {
					files = []any{c11Doc("/r/a/root.json", kid(c11NewEl("pathItem", "#/components/callbacks/C/evt"), "paths", "/x"), kid(cb, "components", "callbacks", "C")),
						c11Elem("/r/a/p.json", "parameter"), c11Elem("p.json", "parameter")}
				} else {
					files = []any{c11Doc("/r/a/root.json", kid(c11NewEl("pathItem", sp.dir+"d.json#/components/callbacks/C/evt"), "paths", "/x")),
						c11Doc(sp.target+"d.json", kid(cb, "components", "callbacks", "C")), c11Elem(sp.target+"p.json", "parameter"), c11Elem("/r/a/p.json", "parameter")}
				}
				g := map[string]any{"allowed": allowed, "entry": entry, "root": "/r/a/root.json", "rootInStore": true, "files": c11DedupFiles(files)}
				emit(c11Derive(hx.Case{"g": g}))
				// an element file whose sub-element refers to the file's own "definitions"
				sf := c11Elem(sp.target+"s.json", "schema", kid(c11NewEl("schema", "#/definitions/D"), "items"))
				sf["defs"] = map[string]any{"D": c11With(c11NewEl("schema", ""), kid(c11NewEl("schema", "t.json"), "items"))}
				if sp.dir != "#" {
					files = []any{c11Doc("/r/a/root.json", kid(c11NewEl("schema", sp.dir+"s.json"), "components", "schemas", "S")), sf,
						c11Elem(sp.target+"t.json", "schema"), c11Elem("/r/a/t.json", "schema")}
					g := map[string]any{"allowed": allowed, "entry": entry, "root": "/r/a/root.json", "rootInStore": true, "files": c11DedupFiles(files)}
					emit(c11Derive(hx.Case{"g": g}))
				}
			}
		}
	}
}

func c11DedupFiles(files []any) []any {
	seen := map[string]bool{}
	out := []any{}
	for _, fa := range files {
		f, _ := fa.(map[string]any)
		_, u := c11UrlJSON(jstr(f, "loc"))
		if u == nil || seen[c11Key(u)] {
			continue
		}
		seen[c11Key(u)] = true
		out = append(out, f)
	}
	return out
}

// ---- enumerated: a reference text in progress for one kind and met again under another kind (a04fe6c)

func c11GenOtherKind(ctx *hx.Ctx, emit func(hx.Case)) {
	i := 0
	for _, K := range []string{"header", "parameter", "requestBody", "response", "callback", "pathItem"} {
		slots := c11Slots(K)
		if K == "parameter" {
			slots = c11ParamGroup(slots, false)
		}
		for _, sl := range slots {
			if sl.kind == "callback" {
				continue // x.json would be read as a callback: every key of a non-callback file is then parsed as a path item (not modelled)
			}
			for shape := 0; shape < 6; shape++ {
				for _, entry := range []string{"file", "dataWithPath", "data"} {
					for _, allowed := range []bool{false, true} {
						i++
						if !ctx.Thorough() && i%2 != 0 {
							continue
						}
						// x.json: an element of kind K whose sub-element at sl (kind J) is "x.json" again
						xfile := func(loc string) map[string]any {
							return c11Elem(loc, K, [2]any{sl.slot, c11NewEl(sl.kind, "x.json")})
						}
						slot := []string{"components", c11KindColl[K], "R"}
						hslot := []string{"components", c11KindColl[K], "H"}
						frag := "#/components/" + c11KindColl[K] + "/H"
						if K == "pathItem" {
							slot, hslot, frag = []string{"paths", "/r"}, []string{"paths", "/h"}, "#/paths/~1h"
						}
						var files []any
						switch shape {
						case 0: // directly from the root: first walk only
							files = []any{c11Doc("/r/a/root.json", [2]any{slot, c11NewEl(K, "b/x.json")}), xfile("/r/a/b/x.json"), xfile("/r/a/x.json")}
						case 1: // through a document in another directory: the second walk resolves against the root
							files = []any{c11Doc("/r/a/root.json", [2]any{slot, c11NewEl(K, "b/d.json"+frag)}),
								c11Doc("/r/a/b/d.json", [2]any{hslot, c11NewEl(K, "x.json")}), xfile("/r/a/b/x.json"), c11Elem("/r/a/x.json", sl.kind)}
						case 2: // the same, everything in one directory
							files = []any{c11Doc("/r/a/root.json", [2]any{slot, c11NewEl(K, "d.json"+frag)}),
								c11Doc("/r/a/d.json", [2]any{hslot, c11NewEl(K, "x.json")}), xfile("/r/a/x.json")}
						case 3: // directly from the root, same text: first walk only
							files = []any{c11Doc("/r/a/root.json", [2]any{slot, c11NewEl(K, "x.json")}), xfile("/r/a/x.json")}
						case 4: // through a '#'-reference of the root itself, same text
							files = []any{c11Doc("/r/a/root.json", [2]any{slot, c11NewEl(K, frag)}, [2]any{hslot, c11NewEl(K, "x.json")}), xfile("/r/a/x.json")}
						default: // through a '#'-reference of the root itself, another directory (the inner text differs: not in progress)
							files = []any{c11Doc("/r/a/root.json", [2]any{slot, c11NewEl(K, frag)}, [2]any{hslot, c11NewEl(K, "b/x.json")}),
								xfile("/r/a/b/x.json"), c11Elem("/r/a/x.json", sl.kind), c11Elem("/r/a/b/b/x.json", sl.kind)}
						}
						g := map[string]any{"allowed": allowed, "entry": entry, "root": "/r/a/root.json", "rootInStore": true, "files": files}
						emit(c11Derive(hx.Case{"g": g}))
					}
				}
			}
		}
	}
}

// ---------------------------------------------------------------- shrinking

func shrinkC11(c hx.Case) []hx.Case {
	if c11IsHistory(c) {
		return shrinkC11History(c)
	}
	if c11IsReader(c) {
		return nil
	}
	var out []hx.Case
	g0, _ := c["g"].(map[string]any)
	mk := func(mut func(g map[string]any) bool) {
		g := c11_deepCopy(g0).(map[string]any)
		if mut(g) {
			out = append(out, c11Derive(hx.Case{"g": g}))
		}
	}
	files := jlist(g0["files"])
	for i := 1; i < len(files); i++ {
		i := i
		mk(func(g map[string]any) bool {
			fs := jlist(g["files"])
			g["files"] = append(append([]any{}, fs[:i]...), fs[i+1:]...)
			return true
		})
	}
	for fi := range files {
		fi := fi
		f, _ := files[fi].(map[string]any)
		root, _ := f["root"].(map[string]any)
		if root == nil {
			continue
		}
		var pos [][]int
		c11Positions(root, nil, &pos)
		for _, p := range pos {
			p := p
			mk(func(g map[string]any) bool { // drop the element
				r := jlist(g["files"])[fi].(map[string]any)["root"].(map[string]any)
				par := c11At(r, p[:len(p)-1])
				ks := jlist(par["kids"])
				par["kids"] = append(append([]any{}, ks[:p[len(p)-1]]...), ks[p[len(p)-1]+1:]...)
				return true
			})
			if jstr(c11At(root, p), "ref") != "" {
				mk(func(g map[string]any) bool { // make it inline
					r := jlist(g["files"])[fi].(map[string]any)["root"].(map[string]any)
					c11At(r, p)["ref"] = ""
					return true
				})
			}
		}
		if f["defs"] != nil {
			mk(func(g map[string]any) bool {
				delete(jlist(g["files"])[fi].(map[string]any), "defs")
				return true
			})
		}
	}
	return out
}
