package main

// C13 — generators and shrinker (see c13.go for the runner).

import (
	"encoding/json"
	"strings"

	"kinverif/internal/hx"
)

type c13jm = map[string]any

func c13Lit(v any) any     { return c13jm{"k": "lit", "v": v} }
func c13Csv(v ...any) any  { return c13jm{"k": "csv", "v": v} }
func c13Empty() any        { return c13jm{"k": "empty"} }
func c13Text(v any) string { b, _ := json.Marshal(v); return string(b) }
func c13Opts(skip, multi bool) c13jm {
	return c13jm{"skip": skip, "multi": multi, "excludeBody": false, "roDisabled": false}
}

var c13NoSec = c13jm{"hasFunc": true, "declared": []any{"a", "b"}, "reqs": nil, "auth": c13jm{}}
var c13NoBodySpec = c13jm{"present": false, "required": false, "schema": nil}
var c13StreamOK = c13jm{"getBody": "ok", "cl": "len"}

func c13Int(extra ...any) c13jm {
	s := c13jm{"type": "integer"}
	for i := 0; i+1 < len(extra); i += 2 {
		s[extra[i].(string)] = extra[i+1]
	}
	return s
}
func c13Str(extra ...any) c13jm {
	s := c13jm{"type": "string"}
	for i := 0; i+1 < len(extra); i += 2 {
		s[extra[i].(string)] = extra[i+1]
	}
	return s
}
func c13Obj(props c13jm, extra ...any) c13jm {
	s := c13jm{"type": "object", "properties": props}
	for i := 0; i+1 < len(extra); i += 2 {
		s[extra[i].(string)] = extra[i+1]
	}
	return s
}
func c13Arr(items any) c13jm { return c13jm{"type": "array", "items": items} }

// the pool of object schemas the body block combines
func c13Pool() []c13jm {
	return []c13jm{
		c13Obj(c13jm{"a": c13Int("default", 1)}),
		c13Obj(c13jm{"a": c13Int("default", 1), "b": c13Str()}, "required", []any{"b"}),
		c13Obj(c13jm{"z": c13Int("default", 2)}),
		c13Obj(c13jm{"x": c13Int("default", 1)}, "required", []any{"z"}),
		c13Obj(c13jm{"a": c13Str("default", "d", "nullable", true)}),
		c13Obj(c13jm{"r": c13Int("default", 3, "readOnly", true), "a": c13Int()}),
		c13Obj(c13jm{"k": c13Str(), "m": c13Int("default", 9)}, "additionalProperties", false),
		c13Obj(c13jm{"k": c13Int(), "s": c13Int("default", 4)}),
		c13Obj(c13jm{"n": c13Obj(c13jm{"a": c13Int("default", 1)})}),
		c13Obj(c13jm{"a": c13Int("default", 1)}, "required", []any{"a"}),
		c13Obj(c13jm{"a": c13Int("nullable", true), "z": c13Str("default", "w")}),
		c13Obj(c13jm{"n": c13Arr(c13Obj(c13jm{"k": c13Str(), "m": c13Int("default", 9)}))}),
		// structured defaults: the injected object/array is itself visited and receives nested defaults
		c13Obj(c13jm{"n": c13Obj(c13jm{"a": c13Int("default", 1), "b": c13Str()}, "default", c13jm{})}),
		c13Obj(c13jm{"n": c13Obj(c13jm{"a": c13Int("default", 1)}, "default", c13jm{"a": 5}), "z": c13Int()}),
		c13Obj(c13jm{"n": c13jm{"type": "array", "items": c13Obj(c13jm{"m": c13Int("default", 9)}), "default": []any{c13jm{}}}}),
	}
}

func c13HasComb(s any) bool {
	switch x := s.(type) {
	case map[string]any:
		for k, v := range x {
			if k == "anyOf" || k == "oneOf" || k == "allOf" {
				return true
			}
			if c13HasComb(v) {
				return true
			}
		}
	case []any:
		for _, v := range x {
			if c13HasComb(v) {
				return true
			}
		}
	}
	return false
}

var c13ObjBodies = []any{
	c13jm{}, c13jm{"a": 5}, c13jm{"a": nil}, c13jm{"b": "x"}, c13jm{"z": 7}, c13jm{"k": "x"}, c13jm{"k": 3}, c13jm{"a": "bad"},
	c13jm{"x": 1, "z": 2}, c13jm{"r": 1}, c13jm{"n": c13jm{}}, c13jm{"q": 1}, c13jm{"n": []any{c13jm{"k": "x"}}}, c13jm{"a": 5, "b": "x", "z": nil},
}
var c13ArrBodies = []any{
	[]any{}, []any{c13jm{}}, []any{c13jm{"k": "x"}, c13jm{"k": "x", "m": 1}}, []any{c13jm{"k": 3}}, []any{c13jm{}, c13jm{"a": 5}},
	[]any{nil}, []any{c13jm{"z": 7}, c13jm{"x": 1, "z": 2}}, []any{c13jm{"a": nil}},
}

func c13BodyCase(schema any, body any, skip, multi, ro bool) hx.Case {
	o := c13Opts(skip, multi)
	o["roDisabled"] = ro
	var text any
	if s, ok := body.(string); ok {
		text = s
	} else {
		text = c13Text(body)
	}
	return hx.Case{"opts": o, "sec": c13NoSec, "stream": c13StreamOK, "body": text, "ctype": "application/json",
		"bodySpec": c13jm{"present": true, "required": false, "schema": schema}, "params": []any{}, "store": []any{}}
}

func genC13(ctx *hx.Ctx, emit0 func(hx.Case)) {
	thorough := ctx.Thorough()
	// cross-cutting features, applied to the cases of EVERY block in turn: a Content-Type header with parameters
	// (same media type), and the security requirements declared at document level instead of operation level
	cnt := 0
	emit := func(c hx.Case) {
		cnt++
		if ct, _ := c["ctype"].(string); ct == "application/json" {
			switch {
			case cnt%3 == 0:
				c["ctype"] = "application/json; charset=utf-8"
			case cnt%7 == 0:
				c["ctype"] = "application/json;charset=UTF-8"
			}
		}
		// a body text that is not what the JSON encoder would write (leading blank): a re-encoding shows in the bytes
		if bt, ok := c["body"].(string); ok && cnt%5 == 0 && len(bt) > 0 && (bt[0] == '{' || bt[0] == '[') {
			if ct, _ := c["ctype"].(string); strings.Contains(ct, "json") || strings.Contains(ct, "yaml") {
				c["body"] = " " + bt
			}
		}
		if sec, ok := c["sec"].(c13jm); ok && sec["reqs"] != nil && cnt%2 == 0 {
			ns := c13jm{}
			for k, v := range sec {
				ns[k] = v
			}
			ns["docLevel"] = true
			c["sec"] = ns
		}
		emit0(c)
	}
	n := 0
	thin := func(k int) bool { // quick tier keeps every k-th case of a big block
		n++
		return thorough || n%k == 0
	}
	s0 := c13Obj(c13jm{"a": c13Int(), "d": c13Int("default", 7)})

	// ---- block A: body stream × security
	secShapes := []any{nil, []any{[]any{}}, []any{[]any{"a"}}, []any{[]any{"u"}}, []any{[]any{"a", "b"}},
		[]any{[]any{"a"}, []any{"b"}}, []any{[]any{"u"}, []any{"a"}}, []any{[]any{}, []any{"a"}}, []any{[]any{"a"}, []any{}}}
	bodies := []any{nil, "", `{"a":1}`, ` {"a": 1, "d": 2} `}
	for _, gb := range []string{"nil", "ok", "fails"} {
		for _, cl := range []string{"len", "unknown"} {
			for _, body := range bodies {
				for si, shape := range secShapes {
					vecs := 16
					if si < 2 || si == 3 {
						vecs = 1
					} else if si == 2 || si == 6 || si == 7 || si == 8 {
						vecs = 4
					}
					for vec := 0; vec < vecs; vec++ {
						for o := 0; o < 4; o++ {
							if !thin(3) {
								continue
							}
							auth := c13jm{"a": c13jm{"reads": vec&1 != 0, "ok": vec&2 != 0}, "b": c13jm{"reads": vec&4 != 0, "ok": vec&8 != 0}}
							if vecs == 1 {
								auth = c13jm{"a": c13jm{"reads": true, "ok": true}, "b": c13jm{"reads": false, "ok": true}}
							}
							emit(hx.Case{"opts": c13Opts(o&1 != 0, o&2 != 0),
								"sec":    c13jm{"hasFunc": true, "declared": []any{"a", "b"}, "reqs": shape, "auth": auth},
								"stream": c13jm{"getBody": gb, "cl": cl}, "body": body, "ctype": "application/json",
								"bodySpec": c13jm{"present": true, "required": vec&1 == 0, "schema": s0}, "params": []any{}, "store": []any{}})
						}
					}
				}
				// missing callback, excluded body, no body spec, other content type
				for v := 0; v < 4; v++ {
					o := c13Opts(false, v&1 != 0)
					o["excludeBody"] = v == 2
					ct := "application/json"
					if v == 3 {
						ct = "text/plain"
					}
					emit(hx.Case{"opts": o, "sec": c13jm{"hasFunc": v != 0, "declared": []any{"a"}, "reqs": []any{[]any{"a"}}, "auth": c13jm{"a": c13jm{"reads": true, "ok": true}}},
						"stream": c13jm{"getBody": gb, "cl": cl}, "body": body, "ctype": ct,
						"bodySpec": c13jm{"present": v != 1, "required": false, "schema": s0}, "params": []any{}, "store": []any{}})
				}
			}
		}
	}

	// ---- block B: one parameter
	names := map[string]string{"query": "q", "header": "X-P", "cookie": "ck", "path": "id"}
	valid := map[string]any{"integer": 5, "string": "abc", "boolean": true, "array:integer": 6, "untyped": 8}
	typedD := map[string]any{"integer": 7, "string": "dd", "boolean": false, "array:integer": []any{1, 2}, "untyped": 9}
	for _, loc := range []string{"query", "header", "cookie", "path"} {
		for _, ty := range []string{"integer", "string", "boolean", "array:integer", "untyped"} {
			if loc == "path" && ty == "array:integer" {
				continue // path parameters of the fragment are scalars
			}
			for _, d := range []any{nil, typedD[ty], []any{3, 4}, "zz", []any{}} {
				presences := [][]any{nil, {c13Lit(valid[ty])}, {c13Empty()}, {c13Lit("zz")}, {c13Lit(valid[ty]), c13Lit(valid[ty])},
					{c13Csv(3, 4)}, {c13Empty(), c13Lit(valid[ty])}}
				for _, raw := range presences {
					for _, ex := range []any{nil, true, false} {
						for fl := 0; fl < 8; fl++ {
							if loc == "path" && len(raw) > 1 {
								continue // PathParams is a map: one value per name
							}
							if fl&4 != 0 && (loc != "query" || raw == nil) {
								continue // allowEmptyValue only matters for a present query parameter
							}
							if !thin(2) {
								continue
							}
							p := c13jm{"name": names[loc], "in": loc, "ty": ty, "dflt": d, "required": fl&1 != 0, "allowEmpty": fl&4 != 0, "explode": ex}
							store := []any{}
							if raw != nil {
								store = append(store, c13jm{"in": loc, "name": names[loc], "raw": raw})
							}
							emit(hx.Case{"opts": c13Opts(fl&2 != 0, false), "sec": c13NoSec, "stream": c13StreamOK, "body": nil, "ctype": "",
								"bodySpec": c13NoBodySpec, "params": []any{p}, "store": store})
							if fl&1 == 0 && ex == nil {
								// the same case with the RequestValidationInput of the first validation used again
								emit(hx.Case{"opts": c13Opts(fl&2 != 0, false), "sec": c13NoSec, "stream": c13StreamOK, "body": nil, "ctype": "",
									"bodySpec": c13NoBodySpec, "params": []any{p}, "store": store, "reuseInput": true})
							}
						}
					}
				}
			}
		}
	}
	// pairs of parameters (the query is rewritten once per default; fail-first stops before later defaults)
	locs := []string{"query", "header", "cookie"}
	for _, l1 := range locs {
		for _, l2 := range locs {
			for v := 0; v < 16; v++ {
				n2 := names[l2]
				if l1 == l2 {
					n2 += "2"
				}
				p1 := c13jm{"name": names[l1], "in": l1, "ty": "integer", "dflt": 7, "required": v&1 != 0, "allowEmpty": false, "explode": nil}
				p2 := c13jm{"name": n2, "in": l2, "ty": "array:integer", "dflt": []any{1, 2}, "required": false, "allowEmpty": false, "explode": v&2 == 0}
				store := []any{c13jm{"in": "query", "name": "other", "raw": []any{c13Lit("a b")}}}
				if v&4 != 0 {
					store = append(store, c13jm{"in": l1, "name": names[l1], "raw": []any{c13Lit("zz")}})
				}
				emit(hx.Case{"opts": c13Opts(false, v&8 != 0), "sec": c13NoSec, "stream": c13StreamOK, "body": `{}`, "ctype": "application/json",
					"bodySpec": c13jm{"present": true, "required": false, "schema": s0}, "params": []any{p1, p2}, "store": store})
			}
		}
	}

	// ---- block C: body schemas × bodies
	pool := c13Pool()
	wrapE := func(s any) c13jm { return c13Obj(c13jm{"e": s}) }
	wrapB := func(b any) any { return c13jm{"e": b} }
	emitAll := func(schema any, bodies []any, wrap bool) {
		for _, b := range bodies {
			for o := 0; o < 3; o++ {
				if !thin(5) {
					continue
				}
				if wrap {
					emit(c13BodyCase(wrapE(schema), wrapB(b), o == 1, o == 2, false))
				} else {
					emit(c13BodyCase(schema, b, o == 1, o == 2, false))
				}
			}
		}
	}
	for _, s := range pool {
		for _, b := range c13ObjBodies {
			for o := 0; o < 4; o++ {
				emit(c13BodyCase(s, b, o == 1, o == 2, o == 3))
			}
		}
		emitAll(c13Arr(s), c13ArrBodies, false)
	}
	for _, kind := range []string{"anyOf", "oneOf", "allOf"} {
		for _, s1 := range pool {
			for _, s2 := range pool {
				emitAll(c13jm{kind: []any{s1, s2}}, c13ObjBodies, false)
				emitAll(c13jm{kind: []any{c13Arr(s1), c13Arr(s2)}}, c13ArrBodies, true)
				if thorough {
					emitAll(c13jm{kind: []any{s1, s2}}, c13ObjBodies, true)
					emitAll(c13jm{kind: []any{c13Arr(s1), c13Arr(s2)}}, c13ArrBodies, false)
				}
			}
		}
	}
	for _, t := range []string{`{"a":1} x`, `{"a":`, `[1,2]`, `null`, `5`, `"s"`} {
		emit(c13BodyCase(pool[0], t, false, false, false))
		emit(c13BodyCase(c13jm{"anyOf": []any{pool[0], c13Int("nullable", true)}}, t, false, false, false))
	}

	// ---- block D: Content-Type header × declared media types × body (composition-free schemas: see Assumptions)
	sB := c13Obj(c13jm{"a": c13Str(), "e": c13Int("default", 3)})
	headers := []string{"application/json", "application/json; charset=utf-8", "application/json;charset=utf-8", "application/json ; charset=utf-8",
		"APPLICATION/JSON", "application/problem+json", "application/problem+json; charset=utf-8", "application/hal+json", "application/vnd.api+json",
		"text/plain", "application/xml", "", "application", "application/json-patch+json", "application/ld+json; charset=utf-8",
		"application/yaml", "application/x-yaml", "application/yaml; charset=utf-8"}
	contents := [][]any{
		{c13jm{"key": "application/json", "schema": s0}},
		{c13jm{"key": "application/json; charset=utf-8", "schema": sB}, c13jm{"key": "application/json", "schema": s0}},
		{c13jm{"key": "application/*", "schema": s0}},
		{c13jm{"key": "*/*", "schema": s0}},
		{c13jm{"key": "application/problem+json", "schema": sB}, c13jm{"key": "application/json", "schema": s0}},
		{c13jm{"key": "application/json", "schema": s0}, c13jm{"key": "application/*", "schema": sB}, c13jm{"key": "*/*", "schema": c13Str()}},
		{},
		{c13jm{"key": "application/json", "schema": nil}},
		{c13jm{"key": "text/plain", "schema": c13Str()}, c13jm{"key": "application/hal+json", "schema": sB}},
		{c13jm{"key": "application/yaml", "schema": s0}, c13jm{"key": "application/ld+json", "schema": sB}},
		{c13jm{"key": "application/x-yaml", "schema": sB}, c13jm{"key": "application/*", "schema": s0}},
	}
	isYAML := func(h string) bool {
		return strings.HasPrefix(h, "application/yaml") || strings.HasPrefix(h, "application/x-yaml")
	}
	for _, h := range headers {
		for _, content := range contents {
			for _, body := range []any{`{}`, `{"a":"x"}`, `{"a":"x","d":1,"e":2}`, `not json`, ` {"a" : "x"} `} {
				if isYAML(h) && body == `not json` {
					continue // a YAML decoder reads this text as a string: outside the trusted "JSON text = same value" reading
				}
				for o := 0; o < 3; o++ {
					opts := c13Opts(o == 1, o == 2)
					emit0(hx.Case{"opts": opts, "sec": c13NoSec, "stream": c13jm{"getBody": []string{"ok", "nil", "fails"}[o], "cl": "len"}, "body": body, "ctype": h,
						"bodySpec": c13jm{"present": true, "required": true, "content": content}, "params": []any{}, "store": []any{}})
				}
			}
		}
	}

	// ---- block E: path-item parameters, overrides by the operation, excluded query parameters
	for _, loc := range []string{"query", "header", "cookie"} {
		other := map[string]string{"query": "header", "header": "cookie", "cookie": "query"}[loc]
		for _, pd := range []any{nil, 1} {
			overrides := [][]any{
				{},
				{c13jm{"name": "Xq", "in": loc, "ty": "integer", "dflt": nil, "required": false, "allowEmpty": false, "explode": nil}},
				{c13jm{"name": "Xq", "in": loc, "ty": "integer", "dflt": 2, "required": false, "allowEmpty": false, "explode": nil}},
				{c13jm{"name": "Xq", "in": other, "ty": "integer", "dflt": 2, "required": false, "allowEmpty": false, "explode": nil}},
				{c13jm{"name": "Xq", "in": loc, "ty": "string", "dflt": "dd", "required": false, "allowEmpty": false, "explode": nil}},
				{c13jm{"name": "Xq2", "in": loc, "ty": "integer", "dflt": 2, "required": false, "allowEmpty": false, "explode": nil}},
			}
			for _, ov := range overrides {
				for fl := 0; fl < 16; fl++ {
					pp := []any{
						c13jm{"name": "Xq", "in": loc, "ty": "integer", "dflt": pd, "required": false, "allowEmpty": false, "explode": nil},
						c13jm{"name": "X-Q", "in": "header", "ty": "integer", "dflt": 3, "required": false, "allowEmpty": false, "explode": nil},
					}
					store := []any{}
					if fl&1 != 0 {
						store = append(store, c13jm{"in": loc, "name": "Xq", "raw": []any{c13Lit(5)}})
					}
					o := c13Opts(fl&2 != 0, fl&8 != 0)
					o["excludeQuery"] = fl&4 != 0
					emit(hx.Case{"opts": o, "sec": c13NoSec, "stream": c13StreamOK, "body": nil, "ctype": "",
						"bodySpec": c13NoBodySpec, "pathParams": pp, "params": ov, "store": store, "reuseInput": fl == 8})
				}
			}
		}
	}

	// ---- block F: the parameter schema carries its type (and a default) inside allOf
	for _, loc := range []string{"query", "header", "cookie"} {
		for _, ty := range []string{"integer", "string", "boolean", "array:integer"} {
			for _, pair := range [][2]any{{nil, typedD[ty]}, {valid[ty], typedD[ty]}, {typedD[ty], nil}, {nil, nil}} {
				for fl := 0; fl < 4; fl++ {
					p := c13jm{"name": names[loc], "in": loc, "ty": ty, "dflt": pair[0], "allOfDflt": pair[1], "viaAllOf": true,
						"required": false, "allowEmpty": false, "explode": map[string]any{"cookie": false}[loc]}
					if ty == "array:integer" && pair[0] != nil && pair[1] != nil {
						p["dflt"] = []any{8}
					}
					store := []any{}
					if fl&1 != 0 {
						store = append(store, c13jm{"in": loc, "name": names[loc], "raw": []any{c13Lit(valid[ty])}})
					}
					emit(hx.Case{"opts": c13Opts(fl&2 != 0, false), "sec": c13NoSec, "stream": c13StreamOK, "body": nil, "ctype": "",
						"bodySpec": c13NoBodySpec, "params": []any{p}, "store": store})
				}
			}
		}
	}

	// ---- block G: parameters described by `content: application/json` (scalar schemas)
	for _, loc := range []string{"query", "header", "cookie"} {
		for _, ty := range []string{"integer", "string", "boolean"} {
			for _, d := range []any{nil, typedD[ty]} {
				for _, raw := range [][]any{nil, {c13Lit(valid[ty])}, {c13Lit("zz")}, {c13Lit(7)}} {
					for fl := 0; fl < 4; fl++ {
						p := c13jm{"name": names[loc], "in": loc, "ty": ty, "dflt": d, "required": fl&1 != 0, "allowEmpty": false, "explode": nil, "content": true}
						store := []any{}
						if raw != nil {
							store = append(store, c13jm{"in": loc, "name": names[loc], "raw": raw})
						}
						emit(hx.Case{"opts": c13Opts(fl&2 != 0, false), "sec": c13NoSec, "stream": c13StreamOK, "body": nil, "ctype": "",
							"bodySpec": c13NoBodySpec, "params": []any{p}, "store": store})
					}
				}
			}
		}
	}

	// ---- block H: a property that is PRESENT WITH THE VALUE null (the class of the repaired finding #24): type × nullable ×
	// default × readOnly × required × where the object sits (top, nested, array item, composition branch) × options
	for _, ty := range []string{"integer", "string"} {
		for fl := 0; fl < 16; fl++ {
			a := c13jm{"type": ty}
			if fl&1 != 0 {
				a["nullable"] = true
			}
			if fl&2 != 0 {
				a["default"] = map[string]any{"integer": 1, "string": "d"}[ty]
			}
			if fl&4 != 0 {
				a["readOnly"] = true
			}
			obj := c13Obj(c13jm{"a": a, "z": c13Str("default", "w")})
			if fl&8 != 0 {
				obj["required"] = []any{"a"}
			}
			ok := map[string]any{"integer": 5, "string": "x"}[ty]
			for _, b := range []any{c13jm{}, c13jm{"a": nil}, c13jm{"a": ok}, c13jm{"a": nil, "z": nil}, c13jm{"z": nil}} {
				for o := 0; o < 4; o++ {
					emit(c13BodyCase(obj, b, o == 1, o == 2, o == 3))
				}
				emit(c13BodyCase(c13Obj(c13jm{"n": obj}), c13jm{"n": b}, false, false, false))
				emit(c13BodyCase(c13Arr(obj), []any{b, c13jm{}}, false, false, false))
				for _, kind := range []string{"anyOf", "oneOf", "allOf"} {
					emit(c13BodyCase(c13jm{kind: []any{obj, c13Obj(c13jm{"a": c13jm{"type": "boolean", "nullable": true, "default": true}})}}, b, false, fl&1 != 0, false))
				}
			}
		}
	}

	// ---- block I: urlencoded bodies (decoded to objects, no body encoder: the class NoBodyEncoder)
	formSchemas := []c13jm{
		c13Obj(c13jm{"a": c13Str(), "d": c13Int("default", 7)}),
		c13Obj(c13jm{"a": c13Str(), "b": c13jm{"type": "boolean", "default": true}, "n": c13Int()}, "required", []any{"a"}),
		c13Obj(c13jm{"a": c13Str("default", "w"), "d": c13Int("default", 7)}, "additionalProperties", false),
		c13Obj(c13jm{"a": c13Str(), "n": c13Int()}, "required", []any{"n"}),
	}
	for _, fs := range formSchemas {
		for _, text := range []string{"a=x", "a=x&d=1", "a=x&b=false&n=3", "d=5&a=yy", "n=4", "a=x&d=1&b=true&n=2", "a=", "a=x&n=2"} {
			// only fields of the schema's own properties (the decoder ignores the others: the text would then stand for
			// more than the decoded value)
			inside := true
			for _, kv := range strings.Split(text, "&") {
				if _, ok := fs["properties"].(c13jm)[strings.SplitN(kv, "=", 2)[0]]; !ok {
					inside = false
				}
			}
			if !inside {
				continue
			}
			for hi, h := range []string{"application/x-www-form-urlencoded", "application/x-www-form-urlencoded; charset=utf-8"} {
				for o := 0; o < 3; o++ {
					key := "application/x-www-form-urlencoded"
					if hi == 1 && o == 2 {
						key = "application/*"
					}
					emit0(hx.Case{"opts": c13Opts(o == 1, o == 2), "sec": c13NoSec, "stream": c13jm{"getBody": []string{"ok", "nil", "fails"}[o], "cl": "len"}, "body": text, "ctype": h,
						"bodySpec": c13jm{"present": true, "required": true, "content": []any{c13jm{"key": key, "schema": fs}}}, "params": []any{}, "store": []any{}})
				}
			}
		}
	}

	// ---- block J: how the body arrives — ContentLength (length / -1 / 0 with a body present), reader kind, GetBody
	for _, cl := range []string{"len", "unknown", "zero"} {
		for _, kind := range []string{"reader", "pipe", "nil"} {
			for _, gb := range []string{"nil", "ok", "fails"} {
				for _, body := range []any{nil, "", `{"a":1}`, ` {"a": 1, "d": 2} `, `{"a":"bad"}`} {
					if kind == "nil" && body != nil {
						continue
					}
					if kind == "pipe" && body == nil {
						continue
					}
					for v := 0; v < 8; v++ {
						var reqs any
						if v&1 != 0 {
							reqs = []any{[]any{"a"}}
						}
						emit0(hx.Case{"opts": c13Opts(v&4 != 0, false),
							"sec":    c13jm{"hasFunc": true, "declared": []any{"a"}, "reqs": reqs, "auth": c13jm{"a": c13jm{"reads": v&2 != 0, "ok": true}}},
							"stream": c13jm{"getBody": gb, "cl": cl, "kind": kind}, "body": body, "ctype": "application/json",
							"bodySpec": c13jm{"present": true, "required": v&2 == 0, "schema": s0}, "params": []any{}, "store": []any{}})
					}
				}
			}
		}
	}

	// ---- seeded random stream
	r := ctx.Rng
	count := 6000
	if thorough {
		count = 90000
	}
	keys := []string{"a", "b", "k", "z"}
	var randSchema func(depth int) c13jm
	randLeaf := func() c13jm {
		var s c13jm
		switch r.Intn(4) {
		case 0:
			s = c13Int()
			if r.Chance(50) {
				s["default"] = 1 + r.Intn(9)
			}
		case 1:
			s = c13Str()
			if r.Chance(50) {
				s["default"] = hx.Pick(r, []string{"d", "w"})
			}
		case 2:
			s = c13jm{"type": "boolean"}
			if r.Chance(40) {
				s["default"] = r.Bool()
			}
		default:
			s = c13jm{}
			if r.Chance(40) {
				s["default"] = 5
			}
		}
		if r.Chance(15) {
			s["nullable"] = true
		}
		if r.Chance(8) {
			s["readOnly"] = true
		}
		return s
	}
	randSchema = func(depth int) c13jm {
		if depth <= 0 {
			return randLeaf()
		}
		switch x := r.Intn(10); {
		case x < 5:
			props := c13jm{}
			for i, k := 0, 1+r.Intn(3); i < k; i++ {
				key := hx.Pick(r, keys)
				if r.Chance(65) {
					props[key] = randLeaf()
				} else {
					sub := randSchema(depth - 1)
					if sub["type"] == "object" && r.Chance(25) {
						sub["default"] = c13jm{}
					} else if sub["type"] == "array" && r.Chance(25) {
						sub["default"] = []any{}
					}
					props[key] = sub
				}
			}
			s := c13Obj(props)
			if r.Chance(35) {
				s["required"] = []any{hx.Pick(r, keys)}
			}
			if r.Chance(20) {
				s["additionalProperties"] = false
			}
			if r.Chance(8) {
				s["nullable"] = true
			}
			return s
		case x < 7:
			return c13Arr(randSchema(depth - 1))
		default:
			bs := []any{}
			for i, k := 0, 1+r.Intn(3); i < k; i++ {
				bs = append(bs, randSchema(depth-1))
			}
			return c13jm{hx.Pick(r, []string{"anyOf", "oneOf", "allOf"}): bs}
		}
	}
	var randValue func(s c13jm, depth int) any
	randScalar := func() any {
		switch r.Intn(4) {
		case 0:
			return 2 + r.Intn(8)
		case 1:
			return hx.Pick(r, []string{"x", "yy"})
		case 2:
			return r.Bool()
		}
		return nil
	}
	randValue = func(s c13jm, depth int) any {
		if r.Chance(6) {
			return randScalar()
		}
		for _, k := range []string{"anyOf", "oneOf", "allOf"} {
			if bs, ok := s[k].([]any); ok && len(bs) > 0 {
				return randValue(hx.Pick(r, bs).(c13jm), depth)
			}
		}
		switch s["type"] {
		case "object":
			out := c13jm{}
			props, _ := s["properties"].(c13jm)
			for k, ps := range props {
				if r.Chance(45) {
					out[k] = randValue(ps.(c13jm), depth+1)
				} else if r.Chance(10) {
					out[k] = nil
				}
			}
			if r.Chance(25) {
				out[hx.Pick(r, keys)] = randScalar()
			}
			return out
		case "array":
			out := []any{}
			for i, k := 0, r.Intn(3); i < k; i++ {
				out = append(out, randValue(s["items"].(c13jm), depth+1))
			}
			return out
		case "integer":
			return 2 + r.Intn(8)
		case "string":
			return hx.Pick(r, []string{"x", "yy"})
		case "boolean":
			return r.Bool()
		}
		return randScalar()
	}
	ptys := []string{"integer", "string", "boolean", "array:integer", "array:string", "untyped"}
	randScalarOf := func(t string) any {
		switch t {
		case "integer":
			return 2 + r.Intn(8)
		case "boolean":
			return r.Bool()
		}
		return hx.Pick(r, []string{"abc", "dd"})
	}
	for i := 0; i < count; i++ {
		schema := randSchema(1 + r.Intn(3))
		var body any = c13Text(randValue(schema, 0))
		if r.Chance(4) {
			body = hx.Pick(r, []any{nil, "", `{"a":`, `{} {}`})
		}
		params, pathParams, store := []any{}, []any{}, []any{}
		used := map[string]bool{}
		stored := map[string]bool{}
		mkParam := func(loc, name string) c13jm {
			ty := hx.Pick(r, ptys)
			var d any
			if r.Chance(65) {
				switch {
				case len(ty) > 6 && ty[:6] == "array:":
					l := []any{}
					for x, m := 0, r.Intn(3); x < m; x++ {
						l = append(l, randScalarOf(ty[6:]))
					}
					d = l
				case ty == "untyped":
					d = randScalarOf(hx.Pick(r, []string{"integer", "string"}))
				default:
					d = randScalarOf(ty)
				}
				if r.Chance(8) {
					d = "zz"
				}
			}
			var ex any
			if r.Chance(50) {
				ex = r.Bool()
			}
			pm := c13jm{"name": name, "in": loc, "ty": ty, "dflt": d, "required": r.Chance(15), "allowEmpty": r.Chance(10), "explode": ex}
			if (ty == "integer" || ty == "string" || ty == "boolean") && r.Chance(8) {
				pm["content"] = true
				pm["explode"] = nil
			} else if ty != "untyped" && r.Chance(15) {
				pm["viaAllOf"] = true
				if r.Chance(60) {
					if len(ty) > 6 && ty[:6] == "array:" {
						pm["allOfDflt"] = []any{randScalarOf(ty[6:])}
					} else {
						pm["allOfDflt"] = randScalarOf(ty)
					}
				}
			}
			if !stored[loc+name] && r.Chance(45) {
				stored[loc+name] = true
				var raw []any
				base := ty
				if len(ty) > 6 && ty[:6] == "array:" {
					base = ty[6:]
				}
				if base == "untyped" {
					base = "string"
				}
				switch r.Intn(6) {
				case 0:
					raw = []any{c13Empty()}
				case 1:
					raw = []any{c13Lit("zz")}
				case 2:
					raw = []any{c13Csv(randScalarOf(base), randScalarOf(base))}
				case 3:
					raw = []any{c13Lit(randScalarOf(base)), c13Lit(randScalarOf(base))}
				default:
					raw = []any{c13Lit(randScalarOf(base))}
				}
				store = append(store, c13jm{"in": loc, "name": name, "raw": raw})
			}
			return pm
		}
		for j, k := 0, r.Intn(4); j < k; j++ {
			loc := hx.Pick(r, locs)
			name := names[loc]
			if r.Bool() {
				name += "2"
			}
			if used[loc+name] {
				continue
			}
			used[loc+name] = true
			params = append(params, mkParam(loc, name))
		}
		// path-item parameters: some redeclared by the operation (overridden), some on their own
		usedP := map[string]bool{}
		for j, k := 0, r.Intn(3); j < k && r.Chance(60); j++ {
			loc := hx.Pick(r, locs)
			name := names[loc]
			switch r.Intn(3) {
			case 0:
				name += "2"
			case 1:
				name += "3"
			}
			if usedP[loc+name] {
				continue
			}
			usedP[loc+name] = true
			pathParams = append(pathParams, mkParam(loc, name))
		}
		var reqs any
		if r.Chance(40) {
			reqs = hx.Pick(r, secShapes[1:])
		}
		vec := r.Intn(16)
		o := c13Opts(r.Chance(25), r.Chance(30))
		o["roDisabled"] = r.Chance(15)
		o["excludeBody"] = r.Chance(5)
		o["excludeQuery"] = r.Chance(10)
		ct := "application/json"
		bodySpec := c13jm{"present": !r.Chance(5), "required": r.Chance(30), "schema": schema}
		if r.Chance(3) {
			ct = "text/plain"
		} else if r.Chance(30) {
			// Under a YAML media type only JSON texts are sent.
			ct = hx.Pick(r, headers)
			bt, isText := body.(string)
			if isYAML(ct) && (!isText || !json.Valid([]byte(bt))) {
				ct = hx.Pick(r, headers[:15])
			}
			content := []any{c13jm{"key": hx.Pick(r, []string{"application/json", "application/*", "*/*", "application/problem+json", ct}), "schema": schema}}
			if r.Bool() {
				content = append(content, c13jm{"key": hx.Pick(r, []string{"application/hal+json", "application/*", "text/plain"}), "schema": hx.Pick(r, []any{sB, nil, schema})})
			}
			if k0, k1 := content[0].(c13jm)["key"], content[len(content)-1].(c13jm)["key"]; len(content) == 2 && k0 == k1 {
				content = content[:1]
			}
			if content[0].(c13jm)["key"] == "" {
				content[0].(c13jm)["key"] = "application/json"
			}
			bodySpec = c13jm{"present": true, "required": r.Chance(30), "content": content}
		}
		emit(hx.Case{"opts": o,
			"sec":    c13jm{"hasFunc": !r.Chance(3), "declared": []any{"a", "b"}, "reqs": reqs, "auth": c13jm{"a": c13jm{"reads": vec&1 != 0, "ok": vec&2 != 0 || r.Chance(50)}, "b": c13jm{"reads": vec&4 != 0, "ok": vec&8 != 0 || r.Chance(50)}}},
			"stream": c13jm{"getBody": hx.Pick(r, []string{"nil", "ok", "ok", "fails"}), "cl": hx.Pick(r, []string{"len", "len", "unknown", "zero"}), "kind": hx.Pick(r, []string{"reader", "reader", "pipe", "nil"})},
			"body":   body, "ctype": ct,
			"bodySpec": bodySpec, "pathParams": pathParams,
			"params": params, "store": store, "reuseInput": r.Chance(12)})
	}
}

// ---------------------------------------------------------------- shrinker

func c13Clone(v any) any {
	b, _ := json.Marshal(v)
	var out any
	_ = json.Unmarshal(b, &out)
	return out
}

// smaller variants of a schema: a branch / property / item schema in its place, one branch or property dropped
func c13SchemaVariants(s map[string]any) []any {
	var out []any
	for _, k := range []string{"anyOf", "oneOf", "allOf"} {
		if bs := jlist(s[k]); len(bs) > 0 {
			for _, b := range bs {
				out = append(out, b)
			}
			if len(bs) > 1 {
				for _, l := range dropEach(bs) {
					n := jmap(c13Clone(s))
					n[k] = l
					out = append(out, n)
				}
			}
			for i, b := range bs {
				for _, bv := range c13SchemaVariants(jmap(b)) {
					n := jmap(c13Clone(s))
					l := append([]any{}, bs...)
					l[i] = bv
					n[k] = l
					out = append(out, n)
				}
			}
		}
	}
	if props := jmap(s["properties"]); len(props) > 0 {
		for k, ps := range props {
			n := jmap(c13Clone(s))
			delete(jmap(n["properties"]), k)
			out = append(out, n)
			for _, pv := range c13SchemaVariants(jmap(ps)) {
				n := jmap(c13Clone(s))
				jmap(n["properties"])[k] = pv
				out = append(out, n)
			}
		}
	}
	if it := jmap(s["items"]); it != nil {
		for _, iv := range c13SchemaVariants(it) {
			n := jmap(c13Clone(s))
			n["items"] = iv
			out = append(out, n)
		}
	}
	for _, k := range []string{"required", "additionalProperties", "nullable", "readOnly"} {
		if _, ok := s[k]; ok {
			n := jmap(c13Clone(s))
			delete(n, k)
			out = append(out, n)
		}
	}
	return out
}

func c13ValueVariants(v any) []any {
	var out []any
	switch x := v.(type) {
	case map[string]any:
		for k, sub := range x {
			n := jmap(c13Clone(x))
			delete(n, k)
			out = append(out, n)
			for _, sv := range c13ValueVariants(sub) {
				n := jmap(c13Clone(x))
				n[k] = sv
				out = append(out, n)
			}
		}
	case []any:
		for _, l := range dropEach(x) {
			out = append(out, l)
		}
		for i, sub := range x {
			for _, sv := range c13ValueVariants(sub) {
				l := append([]any{}, x...)
				l[i] = sv
				out = append(out, l)
			}
		}
	}
	return out
}

func shrinkC13(c0 hx.Case) []hx.Case {
	c := hx.Case(jmap(c13Clone(c0)))
	var out []hx.Case
	with := func(k string, v any) {
		x := cloneCase(c)
		x[k] = v
		out = append(out, x)
	}
	if ps := jlist(c["params"]); len(ps) > 0 {
		for _, l := range dropEach(ps) {
			with("params", l)
		}
	}
	if st := jlist(c["store"]); len(st) > 0 {
		for _, l := range dropEach(st) {
			with("store", l)
		}
	}
	sec := jmap(c["sec"])
	if sec["reqs"] != nil {
		n := jmap(c13Clone(sec))
		n["reqs"] = nil
		with("sec", n)
		for _, l := range dropEach(jlist(sec["reqs"])) {
			n := jmap(c13Clone(sec))
			n["reqs"] = l
			with("sec", n)
		}
	}
	if jbool(c, "reuseInput") {
		with("reuseInput", false)
	}
	opts := jmap(c["opts"])
	for _, k := range []string{"multi", "roDisabled", "excludeBody"} {
		if jbool(opts, k) {
			n := jmap(c13Clone(opts))
			n[k] = false
			with("opts", n)
		}
	}
	if st := jmap(c["stream"]); jstr(st, "getBody") != "ok" || jstr(st, "cl") != "len" {
		with("stream", c13StreamOK)
	}
	bs := jmap(c["bodySpec"])
	if jbool(bs, "present") {
		if len(jlist(c["params"])) > 0 {
			with("bodySpec", c13NoBodySpec)
		}
		if s := jmap(bs["schema"]); s != nil {
			for _, sv := range c13SchemaVariants(s) {
				n := jmap(c13Clone(bs))
				n["schema"] = sv
				with("bodySpec", n)
			}
		}
	}
	if t, ok := c["body"].(string); ok {
		var v any
		if json.Unmarshal([]byte(t), &v) == nil {
			for _, vv := range c13ValueVariants(v) {
				with("body", c13Text(vv))
			}
		}
	}
	return out
}
