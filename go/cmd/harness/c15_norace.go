//go:build !race

package main

// raceEnabled: without -race there is no detector; C15 then reports a broken correspondence instead of passing.
const raceEnabled = false
