// Command harness runs the differential correspondence check of one property against /repo.
package main

import (
	"encoding/json"
	"flag"
	"fmt"
	"os"
	"path/filepath"
	"strings"

	"kinverif/internal/hx"
)

func main() {
	prop := flag.String("prop", "", "property id (C01…C20)")
	tier := flag.String("tier", "quick", "quick|thorough")
	seed := flag.Uint64("seed", 1, "seed for every random choice")
	driver := flag.String("driver", "", "path of the compiled Lean driver")
	out := flag.String("out", "", "result JSON path")
	root := flag.String("root", "/verif", "verif root (corpus, known findings, replays)")
	replay := flag.String("replay", "", "replay file: run that one case and print I, M, S")
	repo := flag.String("repo", "/repo", "repository under test (for checks that read its files)")
	childMode := flag.Bool("child", false, "child mode: cases on stdin, observations on stdout (see hx.RunIsolated)")
	flag.Parse()
	p := hx.Lookup(*prop)
	if p == nil {
		fmt.Fprintf(os.Stderr, "unknown property %q\n", *prop)
		os.Exit(2)
	}
	if *childMode {
		hx.ChildLoop(p)
		return
	}
	defer hx.StopChildren()
	ctx := &hx.Ctx{Tier: *tier, Seed: *seed, Rng: hx.NewRng(*seed), Repo: *repo, Root: *root}
	ctx.Corpus = hx.LoadCorpus(filepath.Join(*root, "corpus", p.ID))
	eng := &hx.Engine{P: p, Ctx: ctx, ReplayDir: filepath.Join(*root, "replays"),
		Known: hx.LoadKnown(filepath.Join(*root, "known_findings.json"), p.ID)}
	if !p.NoDriver && *driver != "" {
		d, err := hx.StartDriver(*driver)
		if err != nil {
			fmt.Fprintf(os.Stderr, "cannot start driver: %v\n", err)
		} else {
			eng.D = d
			defer d.Close()
		}
	}
	if *replay != "" {
		b, err := os.ReadFile(*replay)
		if err != nil {
			fmt.Fprintln(os.Stderr, err)
			os.Exit(2)
		}
		var obj map[string]any
		dec := json.NewDecoder(strings.NewReader(string(b)))
		dec.UseNumber()
		if err := dec.Decode(&obj); err != nil {
			fmt.Fprintln(os.Stderr, err)
			os.Exit(2)
		}
		c, ok := obj["case"].(map[string]any)
		if !ok {
			fmt.Println("replay file names an obligation or correspondence, not an input:")
			fmt.Println(string(b))
			os.Exit(0)
		}
		txt, ok := eng.Replay(c)
		fmt.Println(txt)
		if !ok {
			os.Exit(1)
		}
		return
	}
	res := eng.Run()
	b, _ := json.MarshalIndent(res, "", " ")
	if *out != "" {
		os.MkdirAll(filepath.Dir(*out), 0o755)
		os.WriteFile(*out, b, 0o644)
	} else {
		fmt.Println(string(b))
	}
}
