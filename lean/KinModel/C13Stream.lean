/-
C13, part 1 — the request body stream through openapi3filter.ValidateRequest
(openapi3filter/validate_request.go: validateSecurityRequirement, ValidateSecurityRequirements,
ValidateRequestBody incl. the default rewrite).

Modelled, branch by branch:
  * `http.Request` plumbing as a state `(Body, GetBody, ContentLength)`: `body = none` is a nil body or
    `http.NoBody`; `some bs` are the bytes still unread; `GetBody` is nil / yields bytes / returns an error;
  * "Put the data back into the input" (`restore`), written three times in the file: Body := nil; if GetBody is
    set Body := GetBody() (nil again on error); if Body is still nil: ContentLength := len(data), GetBody := a
    reader over data, Body := GetBody();
  * validateSecurityRequirement: an empty requirement returns nil first of all (1f8c043); a missing AuthenticationFunc
    returns before anything is read; a request without a
    body is not touched; otherwise the body is read once, a DEFERRED restore runs on every exit path (the repaired
    code, finding #11), and before each callback the body is restored as well; an undeclared scheme and a failing
    callback end the requirement;
  * ValidateSecurityRequirements: empty list passes without touching anything; first satisfied requirement wins;
  * ValidateRequestBody: read + restore when there is a body; zero bytes → `required` decides; otherwise the
    outcome of decoding/validating (`BodyOutcome`, computed by the value layer KinModel/C13Body.lean) decides;
    only an accepted body whose defaults were set is re-encoded and re-installed (`rewrite`); when no encoder is
    registered for the media type the request is rejected (`rewriteFails`) — the encoded bytes live in their own
    variable (repaired code, commit ac404f7), so the request keeps the body and the GetBody of the restore above.
Abstracted: what an authentication callback does is one of "nothing" / "reads the whole body", with a verdict.
-/
namespace KinModel.C13.Stream

abbrev Bytes := List Nat

/-- `http.Request.GetBody`: nil, a function yielding a fresh reader over `b`, or a function returning an error -/
inductive GB | none | ok (b : Bytes) | fails
  deriving DecidableEq, Repr

structure Req where
  body : Option Bytes
  getBody : GB
  contentLength : Int
  deriving DecidableEq, Repr

/-- "Put the data back into the input" -/
def restore (r : Req) (data : Bytes) : Req :=
  match r.getBody with
  | .ok b => { r with body := some b }
  | _ => { body := some data, getBody := .ok data, contentLength := data.length }

/-- `io.ReadAll(req.Body)` by whoever holds the request: everything left, nothing for a nil body -/
def readAll (r : Req) : Bytes := r.body.getD []

/-- the request after somebody read its body to the end -/
def drain (r : Req) : Req := { r with body := r.body.map (fun _ => []) }

structure Auth where
  readsBody : Bool
  ok : Bool
  deriving DecidableEq, Repr

/-- a scheme of a requirement: declared in components.securitySchemes or not, and what its callback does -/
structure Scheme where
  declared : Bool
  auth : Auth
  deriving DecidableEq, Repr

def runAuth (r : Req) (a : Auth) : Req := if a.readsBody then drain r else r

/-- the scheme loop of validateSecurityRequirement once the body has been read into `data`:
    request when the loop is left, verdict, and what each callback could read from the body -/
def schemeLoop (data : Bytes) : Req → List Scheme → Req × Bool × List Bytes
  | r, [] => (r, true, [])
  | r, s :: rest =>
    if !s.declared then (r, false, [])
    else
      let r1 := restore r data
      let r2 := runAuth r1 s.auth
      if s.auth.ok then
        let (r3, b, seen) := schemeLoop data r2 rest
        (r3, b, readAll r1 :: seen)
      else (r2, false, [readAll r1])

/-- the same loop for a request without a body (`data == nil`: nothing is restored) -/
def schemeLoopNoBody : Req → List Scheme → Req × Bool × List Bytes
  | r, [] => (r, true, [])
  | r, s :: rest =>
    if !s.declared then (r, false, [])
    else
      let r2 := runAuth r s.auth
      if s.auth.ok then
        let (r3, b, seen) := schemeLoopNoBody r2 rest
        (r3, b, readAll r :: seen)
      else (r2, false, [readAll r])

/-- validateSecurityRequirement from `names := …` on -/
def secReqNE (hasAuthFunc : Bool) (r : Req) (schemes : List Scheme) : Req × Bool × List Bytes :=
  if !hasAuthFunc then (r, false, [])
  else match r.body with
  | none => schemeLoopNoBody r schemes
  | some data =>
    let (r1, b, seen) := schemeLoop data (drain r) schemes
    (restore r1 data, b, seen)        -- the deferred restore

/-- validateSecurityRequirement: an empty requirement needs no authentication and returns nil at once (repaired code,
    commit 1f8c043: before the authentication function is asked for, before anything is read) -/
def secReq (hasAuthFunc : Bool) (r : Req) (schemes : List Scheme) : Req × Bool × List Bytes :=
  if schemes.isEmpty then (r, true, []) else secReqNE hasAuthFunc r schemes

/-- ValidateSecurityRequirements over a non-empty list (`none` of it satisfied → error) -/
def secReqs (hasAuthFunc : Bool) : Req → List (List Scheme) → Req × Bool × List Bytes
  | r, [] => (r, false, [])
  | r, q :: rest =>
    let (r1, b, seen) := secReq hasAuthFunc r q
    if b then (r1, true, seen)
    else
      let (r2, b2, seen2) := secReqs hasAuthFunc r1 rest
      (r2, b2, seen ++ seen2)

def secPhase (hasAuthFunc : Bool) (r : Req) (reqs : List (List Scheme)) : Req × Bool × List Bytes :=
  match reqs with
  | [] => (r, true, [])
  | _ => secReqs hasAuthFunc r reqs

/-- what decoding + schema validation of the bytes gives (computed by the value layer) -/
inductive BodyOutcome
  | reject                       -- content type / decoding / schema error
  | accept                       -- accepted, no default was set
  | rewrite (newData : Bytes)    -- accepted, defaults were set: the re-encoded body
  | rewriteFails                 -- accepted, defaults were set, but no encoder: "rewriting failed"
  deriving DecidableEq, Repr

/-- ValidateRequestBody -/
def bodyPhase (required : Bool) (outcome : Bytes → BodyOutcome) (r : Req) : Req × Bool :=
  match r.body with
  | none => (r, !required)                       -- len(data) == 0
  | some data =>
    let r1 := restore (drain r) data
    match data with
    | [] => (r1, !required)
    | _ =>
      match outcome data with
      | .reject => (r1, false)
      | .accept => (r1, true)
      | .rewrite nd => ({ body := some nd, getBody := .ok nd, contentLength := nd.length }, true)
      | .rewriteFails => (r1, false)             -- "rewriting failed": nothing is installed, nothing is lost

structure Cfg where
  hasAuthFunc : Bool
  reqs : List (List Scheme)
  hasBodySpec : Bool            -- operation.RequestBody != nil && !ExcludeRequestBody
  required : Bool
  multi : Bool
  paramsOK : Bool               -- verdict of the parameter phase (it never touches the body)
  deriving Repr

/-- the body-relevant part of ValidateRequest: request afterwards and verdict -/
def validateStream (c : Cfg) (outcome : Bytes → BodyOutcome) (r : Req) : Req × Bool :=
  let (r1, secOK, _) := secPhase c.hasAuthFunc r c.reqs
  if !secOK && !c.multi then (r1, false)
  else if !c.paramsOK && !c.multi then (r1, false)
  else if c.hasBodySpec then
    let (r2, bOK) := bodyPhase c.required outcome r1
    (r2, secOK && c.paramsOK && bOK)
  else (r1, secOK && c.paramsOK)

/-- GetBody, when it works, yields `data` -/
def GetOK (r : Req) (data : Bytes) : Prop := ∀ b, r.getBody = .ok b → b = data

/-- executable twin of `GetOK` -/
def getOKB (r : Req) (data : Bytes) : Bool :=
  match r.getBody with | .ok b => b == data | _ => true

/-- the incoming request is coherent: a body with bytes `data`, and GetBody (if any) rewinds to the same bytes -/
def Coherent (r : Req) (data : Bytes) : Prop := r.body = some data ∧ GetOK r data

/-- Spec (from the property text): after validation the next handler reads `expected` in full, and can rewind to it -/
def Readable (r : Req) (expected : Bytes) : Prop := readAll r = expected ∧ GetOK r expected

def readableB (r : Req) (expected : Bytes) : Bool := (readAll r == expected) && getOKB r expected

end KinModel.C13.Stream
