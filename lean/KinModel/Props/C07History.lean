/-
C07 over histories (`KinModel/RequestHistory.lean`): a list of calls of `ValidateRequest` for the same operation and
request facts, each with its own `Options` pointer (nil, or a struct with its exclusions, mode and callback).

The main theorem of C07 holds for EVERY call of EVERY history, at whatever position (`history_accept_iff`), so do the
reports (`history_multi_reports_exactly_failing`, `history_failfast_reports_first`); a call's result does not depend on
what was validated before it (`history_call_independent_of_prefix`), repeating a call repeats its result
(`history_repeat_stable`), calls that share the callback are asked the same questions whatever their other options
(`history_same_callback_same_log`) and agree on the verdict when they differ in the mode only
(`history_mode_only_same_verdict`). `Options == nil` is the zero struct (`nil_options_is_zero_struct`), for which the
property reads `nil_options_accept_iff`.
-/
import KinModel.RequestHistory
import KinModel.Props.C07Flow
namespace KinModel.RequestHistory
open KinModel.Request (In Param Opts Part)
open KinModel.RequestFlow

theorem history_eq_map (op : Op) (d : String → Bool) (cs : List Call) :
    validateHistory op d cs = cs.map (validateCall op d) := by
  induction cs with
  | nil => rfl
  | cons c cs ih => simp [validateHistory, ih]

theorem history_length (op : Op) (d : String → Bool) (cs : List Call) :
    (validateHistory op d cs).length = cs.length := by
  rw [history_eq_map]; simp

/-- **C07 for every call of every history**: the `i`-th call succeeds iff, under ITS options, some requirement of the
applicable list is accepted, every parameter in effect validates and the body (declared, not excluded) validates. -/
theorem history_accept_iff (op : Op) (d : String → Bool) (cs : List Call) (i : Nat) (h : i < cs.length) :
    ((validateHistory op d cs)[i]'(by rw [history_length]; exact h)).1.isOk = true ↔
      Accept (cs[i]).opts op ((cs[i]).env d) := by
  simp only [history_eq_map, List.getElem_map, validateCall]
  exact accept_iff _ _ _

/-- the executable oracle of a history is the specification, call by call -/
theorem history_acceptB (op : Op) (d : String → Bool) (cs : List Call) :
    (validateHistory op d cs).map (·.1.isOk) = acceptHistoryB op d cs := by
  rw [history_eq_map, acceptHistoryB, List.map_map]
  apply List.map_congr_left
  intro c _
  simp only [Function.comp, validateCall]
  apply Bool.eq_iff_iff.mpr
  rw [accept_iff, acceptB_iff]

/-- in multi-error mode the `i`-th call reports exactly its failing parts -/
theorem history_multi_reports_exactly_failing (op : Op) (d : String → Bool) (cs : List Call) (i : Nat) (h : i < cs.length)
    (hm : (cs[i]).opts.multiError = true) :
    ((validateHistory op d cs)[i]'(by rw [history_length]; exact h)).1.parts = failing (cs[i]).opts op ((cs[i]).env d) := by
  simp only [history_eq_map, List.getElem_map, validateCall]
  rw [multi_reports_exactly_failing _ _ _ hm]
  cases failing (cs[i]).opts op ((cs[i]).env d) <;> rfl

/-- in fail-first mode the `i`-th call reports the first of its failing parts -/
theorem history_failfast_reports_first (op : Op) (d : String → Bool) (cs : List Call) (i : Nat) (h : i < cs.length)
    (hm : (cs[i]).opts.multiError = false) :
    ((validateHistory op d cs)[i]'(by rw [history_length]; exact h)).1.parts = (failing (cs[i]).opts op ((cs[i]).env d)).take 1 := by
  simp only [history_eq_map, List.getElem_map, validateCall]
  rw [failfast_reports_first _ _ _ hm]
  cases failing (cs[i]).opts op ((cs[i]).env d) <;> simp [Res.parts]

/-- what a call returns does not depend on the calls made before it (nor on those made after it) -/
theorem history_call_independent_of_prefix (op : Op) (d : String → Bool) (pre post : List Call) (c : Call) :
    (validateHistory op d (pre ++ c :: post))[pre.length]? = some (validateCall op d c) := by
  rw [history_eq_map]; simp

/-- validating the same input again, any number of times, gives the same result and the same calls every time -/
theorem history_repeat_stable (op : Op) (d : String → Bool) (c : Call) (n : Nat) :
    validateHistory op d (List.replicate n c) = List.replicate n (validateCall op d c) := by
  rw [history_eq_map]; simp

/-- two calls with the same callback are asked the same questions, whatever their exclusions and modes -/
theorem history_same_callback_same_log (op : Op) (d : String → Bool) (c c' : Call) (h : c.auth = c'.auth) :
    (validateCall op d c).2 = (validateCall op d c').2 := by
  simp only [validateCall, Call.env, h]
  exact auth_log_option_independent _ _ _ _

/-- two calls that differ in the multi-error mode only agree on the verdict -/
theorem history_mode_only_same_verdict (op : Op) (d : String → Bool) (v : OptionsVal) (m : Bool) :
    (validateCall op d ⟨some { v with opts := { v.opts with multiError := m } }⟩).1.isOk =
      (validateCall op d ⟨some v⟩).1.isOk := by
  simp only [validateCall, Call.opts, Call.env, Call.auth]
  exact verdict_mode_independent _ _ _ _

/-- `Options == nil` is the zero struct: no exclusion, fail-first, no callback -/
theorem nil_options_is_zero_struct (op : Op) (d : String → Bool) :
    validateCall op d ⟨none⟩ = validateCall op d ⟨some ⟨{}, none⟩⟩ := rfl

/-- the property for `Options == nil`: the request passes iff the applicable security list is empty or offers an empty
requirement, every parameter in effect (query parameters included) validates and the body, when declared, validates -/
theorem nil_options_accept_iff (op : Op) (d : String → Bool) :
    (validateCall op d ⟨none⟩).1.isOk = true ↔
      (securityList op = [] ∨ [] ∈ securityList op) ∧
      (∀ p ∈ opList op ++ op.pathParams.filter (fun p => !Request.overridden (opList op) p), p.ok = true) ∧
      (op.hasBody = true → op.bodyOK = true) := by
  simp only [validateCall, Call.opts, Call.env, Call.auth]
  rw [accept_iff]
  unfold Accept
  have hsec : SecSpec ⟨d, none⟩ op ↔ (securityList op = [] ∨ [] ∈ securityList op) := by
    unfold SecSpec
    constructor
    · rintro (h | ⟨r, hr, hall⟩)
      · exact Or.inl h
      · cases r with
        | nil => exact Or.inr hr
        | cons u us =>
          have := hall u (List.mem_cons_self ..)
          simp [accepted] at this
    · rintro (h | h)
      · exact Or.inl h
      · exact Or.inr ⟨[], h, by intro u hu; cases hu⟩
  rw [hsec]
  have heff : effective {} op = opList op ++ op.pathParams.filter (fun p => !Request.overridden (opList op) p) := by
    unfold effective; simp
  rw [heff]
  simp

/-! ### histories over two operations of one path item -/

theorem steps_eq_map (op : Op) (d : String → Bool) (ss : List Step) :
    validateSteps op d ss = ss.map (fun s => validateCall (s.op op) d s.call) := by
  induction ss with
  | nil => rfl
  | cons s ss ih => simp [validateSteps, ih]

/-- C07 for every step, whichever of the two operations it is made for and whatever was validated before -/
theorem steps_accept_iff (op : Op) (d : String → Bool) (ss : List Step) (i : Nat) (h : i < ss.length) :
    ((validateSteps op d ss)[i]'(by rw [steps_eq_map]; simpa using h)).1.isOk = true ↔
      Accept (ss[i]).call.opts ((ss[i]).op op) ((ss[i]).call.env d) := by
  simp only [steps_eq_map, List.getElem_map, validateCall]
  exact accept_iff _ _ _

/-- for the sibling every path-level parameter is in effect (minus the excluded query parameters): what the first
operation overrides does not matter to it -/
theorem sibling_effective (o : Opts) (op : Op) :
    effective o (sibling op) = op.pathParams.filter (fun p => !(o.excludeQuery && p.loc = In.query)) := by
  simp [effective, sibling, opList, Request.overridden]

/-- kernel-checked: the overriding operation passes, its sibling reports the path-level parameter the first one
overrides — in whichever order and however often the two are validated -/
theorem sibling_example :
    let op : Op := { opParams := some [⟨"q", .query, true⟩], pathParams := [⟨"q", .query, false⟩, ⟨"r", .header, true⟩],
                     opSecurity := none, docSecurity := [], hasBody := false, bodyOK := true }
    validateSteps op (fun _ => true) [⟨false, ⟨none⟩⟩, ⟨true, ⟨none⟩⟩, ⟨false, ⟨none⟩⟩, ⟨true, ⟨some ⟨{ multiError := true }, none⟩⟩⟩] =
      [(.ok, []), (.single (.param ⟨"q", .query, false⟩), []), (.ok, []), (.multi [.param ⟨"q", .query, false⟩], [])] := by decide

/-! ### Non-vacuity: a history on which the calls differ -/

/-- one operation, four calls: nil options (no callback: the secured operation is refused), a callback that accepts,
the same in multi-error mode with a failing query parameter excluded or not -/
def exHistoryOp : Op :=
  { opParams := some [⟨"q", .query, false⟩], pathParams := [⟨"q", .query, true⟩, ⟨"h", .header, false⟩],
    opSecurity := none, docSecurity := [[⟨"k", ["s"]⟩]], hasBody := true, bodyOK := false }

def exYes : Option (String → List String → Bool) := some (fun _ _ => true)

theorem history_example :
    validateHistory exHistoryOp (fun _ => true)
      [⟨none⟩, ⟨some ⟨{}, exYes⟩⟩, ⟨some ⟨{ multiError := true }, exYes⟩⟩,
       ⟨some ⟨{ multiError := true, excludeQuery := true, excludeBody := true }, exYes⟩⟩, ⟨none⟩] =
      [(.single .security, []),
       (.single (.param ⟨"h", .header, false⟩), [⟨0, "k", ["s"]⟩]),
       (.multi [.param ⟨"h", .header, false⟩, .param ⟨"q", .query, false⟩, .body], [⟨0, "k", ["s"]⟩]),
       (.multi [.param ⟨"h", .header, false⟩], [⟨0, "k", ["s"]⟩]),
       (.single .security, [])] := by decide

example : (validateCall { exHistoryOp with docSecurity := [[⟨"k", []⟩], []], pathParams := [], opParams := none, bodyOK := true }
    (fun _ => true) ⟨none⟩).1.isOk = true := by decide

end KinModel.RequestHistory
