/-
C17 — document level, ToV3, WITH form parameters: an operation takes query / header / path parameters and either
at most one body parameter (inline or shared) or any number of inline formData parameters with distinct names
under a form media type. onlyOneReqBodyParam / formDataBody turn the form parameters into one request body whose
object schema has one property per parameter (its own `required` bookkeeping cleared) and the sorted list of the
required names. Theorems only.
-/
import KinModel.Props.C17Body
namespace KinModel.Conv

/-! ### sorted required names -/

theorem mem_insertSorted (x y : String) (l : List String) : y ∈ insertSorted x l ↔ y = x ∨ y ∈ l := by
  induction l with
  | nil => simp [insertSorted]
  | cons z zs ih =>
    unfold insertSorted
    split
    · simp
    · simp only [List.mem_cons, ih]
      constructor
      · rintro (h | h | h)
        · exact Or.inr (Or.inl h)
        · exact Or.inl h
        · exact Or.inr (Or.inr h)
      · rintro (h | h | h)
        · exact Or.inr (Or.inl h)
        · exact Or.inl h
        · exact Or.inr (Or.inr h)

theorem mem_sortStrs (y : String) (l : List String) : y ∈ sortStrs l ↔ y ∈ l := by
  induction l with
  | nil => simp [sortStrs]
  | cons x xs ih =>
    have : sortStrs (x :: xs) = insertSorted x (sortStrs xs) := rfl
    rw [this, mem_insertSorted, ih]
    simp

/-- with distinct names, a name is in the list of required names iff its own entry is required -/
theorem required_names {α : Type} (l : List (String × α × Bool)) (hn : nodupKeys l = true) (n : String) (a : α) (b : Bool)
    (hm : (n, a, b) ∈ l) : (sortStrs (((l.map (fun e => (e.1, e.2.2))).filter (·.2)).map (·.1))).contains n = b := by
  have key : n ∈ ((l.map (fun e => (e.1, e.2.2))).filter (·.2)).map (·.1) ↔ b = true := by
    induction l with
    | nil => simp at hm
    | cons e rest ih =>
      obtain ⟨k, a', b'⟩ := e
      simp only [nodupKeys, Bool.and_eq_true, Option.isNone_iff_eq_none] at hn
      simp only [List.mem_cons, Prod.mk.injEq] at hm
      rcases hm with ⟨hk, _, hb⟩ | hm
      · subst hk; subst hb
        have hnot : ¬ n ∈ ((rest.map (fun e => (e.1, e.2.2))).filter (·.2)).map (·.1) := by
          intro hc
          simp only [List.mem_map, List.mem_filter] at hc
          obtain ⟨⟨k2, b2⟩, ⟨⟨e2, he2, heq⟩, _⟩, hk2⟩ := hc
          simp only [Prod.mk.injEq] at heq
          have : n ∈ rest.map (·.1) := by
            simp only at hk2
            exact List.mem_map.mpr ⟨e2, he2, by rw [heq.1, hk2]⟩
          exact ((alookup_none_iff n rest).1 hn.1) this
        cases b <;> simp_all
      · have hne : k ≠ n := by
          intro hk
          subst hk
          have : k ∈ rest.map (·.1) := List.mem_map.mpr ⟨_, hm, rfl⟩
          exact ((alookup_none_iff k rest).1 hn.1) this
        have ih' := ih hn.2 hm
        rw [← ih']
        cases b' <;> simp [Ne.symm hne]
  cases b with
  | true =>
    have := (mem_sortStrs n _).2 (key.2 rfl)
    simpa using this
  | false =>
    have hnot : ¬ n ∈ sortStrs (((l.map (fun e => (e.1, e.2.2))).filter (·.2)).map (·.1)) := by
      intro hc
      have := key.1 ((mem_sortStrs n _).1 hc)
      simp at this
    simpa using hnot

/-! ### formDataBody -/

theorem formMap_nodup {V : Type} (l : List (String × Sch V)) (hn : nodupKeys l = true) : formMap l = l := by
  have := foldl_ainsert_nodup l [] hn (by intro kv _; rfl)
  simpa [formMap] using this

/-- the form fields the object schema of a converted form describes -/
theorem formFields_of_params {V : Type} (R : List String) (fps : List (Param2 V)) :
    formFieldsA3 R (fps.map (fun p => (Slot.prop p.name, clearReq (toV3FormProp p)))) =
    fps.map (fun p => InputA.form p.name (R.contains p.name) (abs3S (clearReq (toV3FormProp p)))) := by
  induction fps with
  | nil => rfl
  | cons p rest ih =>
    simp only [List.map_cons]
    unfold toV3FormProp
    simp only [clearReq, formFieldsA3]
    congr 1

/-- the request body formDataBody builds from inline form parameters with distinct names: an object schema with one
    property per parameter (own `required` list cleared) and the sorted names of the required ones -/
theorem formBody_shape {V : Type} (env : Env3 V) (cs : List String) (fps : List (Param2 V))
    (hn : nodupKeys (fps.map (fun p => (p.name, toV3FormProp p))) = true) :
    (formBody env cs (formMap (fps.map (fun p => (p.name, toV3FormProp p))))).mimes = (if cs.isEmpty then ["*/*"] else cs) ∧
    (formBody env cs (formMap (fps.map (fun p => (p.name, toV3FormProp p))))).schema =
      some (.node { ty := some "object",
                    req := sortStrs (((fps.map (fun p => (p.name, propRequired p.name (toV3FormProp p)))).filter (·.2)).map (·.1)) }
                  (fps.map (fun p => (Slot.prop p.name, clearReq (toV3FormProp p))))) ∧
    nodupKeys (fps.map (fun p => (p.name, toV3FormProp p, propRequired p.name (toV3FormProp p)))) = true := by
  rw [formMap_nodup _ hn]
  -- the entries: every form schema is inline
  have hent : (fps.map (fun p => (p.name, toV3FormProp p))).filterMap (fun (ns : String × Sch V) => formEntry env ns.1 ns.2) =
      fps.map (fun p => (p.name, toV3FormProp p, propRequired p.name (toV3FormProp p))) := by
    rw [List.filterMap_map]
    clear hn
    induction fps with
    | nil => rfl
    | cons p rest ih =>
      simp only [List.filterMap_cons, Function.comp_apply, List.map_cons]
      have : formEntry env p.name (toV3FormProp p) = some (p.name, toV3FormProp p, propRequired p.name (toV3FormProp p)) := by
        unfold toV3FormProp; rfl
      rw [this, ih]
  have hnd3 : nodupKeys (fps.map (fun p => (p.name, toV3FormProp p, propRequired p.name (toV3FormProp p)))) = true := by
    have := nodupKeys_map (fun (s : Sch V) => (s, true)) (fps.map (fun p => (p.name, toV3FormProp p)))
    have e : nodupKeys (fps.map (fun p => (p.name, toV3FormProp p, propRequired p.name (toV3FormProp p)))) =
        nodupKeys (fps.map (fun p => (p.name, toV3FormProp p))) := by
      clear this hn hent
      induction fps with
      | nil => rfl
      | cons p rest ih =>
        simp only [List.map_cons, nodupKeys, ih]
        congr 1
        have h1 : ∀ (l : List (Param2 V)), (alookup p.name (l.map (fun p => (p.name, toV3FormProp p, propRequired p.name (toV3FormProp p))))).isNone =
            (alookup p.name (l.map (fun p => (p.name, toV3FormProp p)))).isNone := by
          intro l
          induction l with
          | nil => rfl
          | cons q qs ihq =>
            by_cases hq : p.name = q.name
            · simp [alookup, hq]
            · simp [alookup, hq, ihq]
        exact h1 rest
    rw [e]; exact hn
  have hprops : (fps.map (fun p => (p.name, toV3FormProp p, propRequired p.name (toV3FormProp p)))).foldl
      (fun acc (e : String × Sch V × Bool) => ainsert e.1 (clearReq e.2.1) acc) ([] : List (String × Sch V)) =
      fps.map (fun p => (p.name, clearReq (toV3FormProp p))) := by
    have h1 := foldl_ainsert_nodup (fps.map (fun p => (p.name, clearReq (toV3FormProp p)))) []
      (by
        have := nodupKeys_map (fun (s : Sch V) => clearReq s) (fps.map (fun p => (p.name, toV3FormProp p)))
        simp only [List.map_map, Function.comp_def] at this
        rw [this]; exact hn)
      (by intro kv _; rfl)
    simp only [List.nil_append] at h1
    rw [← h1]
    simp only [List.foldl_map]
  have hreqs : (fps.map (fun p => (p.name, toV3FormProp p, propRequired p.name (toV3FormProp p)))).foldl
      (fun acc (e : String × Sch V × Bool) => ainsert e.1 e.2.2 acc) ([] : List (String × Bool)) =
      (fps.map (fun p => (p.name, toV3FormProp p, propRequired p.name (toV3FormProp p)))).map (fun e => (e.1, e.2.2)) := by
    have h1 := foldl_ainsert_nodup ((fps.map (fun p => (p.name, toV3FormProp p, propRequired p.name (toV3FormProp p)))).map
        (fun e => (e.1, e.2.2))) []
      (by
        have := nodupKeys_map (fun (sb : Sch V × Bool) => sb.2)
          (fps.map (fun p => (p.name, toV3FormProp p, propRequired p.name (toV3FormProp p))))
        rw [this]; exact hnd3)
      (by intro kv _; rfl)
    simp only [List.nil_append] at h1
    rw [← h1]
    simp only [List.foldl_map]
  refine ⟨rfl, ?_, hnd3⟩
  simp only [formBody, hent, hprops, hreqs, List.map_map, Function.comp_def]

/-- **formDataBody**: inline form parameters with distinct names, under a form media type, become a request body
    that describes exactly these form fields — each with its name, requiredness and constraints -/
theorem formBody_inputs {V : Type} (env : Env3 V) (cs : List String) (fps : List (Param2 V))
    (hn : nodupKeys (fps.map (fun p => (p.name, toV3FormProp p))) = true)
    (hl : ∀ p ∈ fps, p.loc = "formData") (hi : ∀ p ∈ fps, itemsOK3 p.items = true)
    (hm : cs.any isFormMime = true) :
    bodyA3 (.val (formBody env cs (formMap (fps.map (fun p => (p.name, toV3FormProp p)))))) =
    fps.map (fun p => inputA2 (.val p)) := by
  obtain ⟨hmi, hsc, hnd3⟩ := formBody_shape env cs fps hn
  have hne : cs.isEmpty = false := by
    cases cs with
    | nil => simp at hm
    | cons _ _ => rfl
  simp only [bodyA3, hmi, hsc, hne, Bool.false_eq_true, if_false, hm, if_true]
  rw [formFields_of_params]
  apply List.map_congr_left
  intro p hp
  have hreq : propRequired p.name (toV3FormProp p) = p.required := (toV3Form_preserves p (hi p hp)).2
  have hc := required_names (fps.map (fun p => (p.name, toV3FormProp p, propRequired p.name (toV3FormProp p)))) hnd3
    p.name (toV3FormProp p) (propRequired p.name (toV3FormProp p)) (List.mem_map.mpr ⟨p, hp, rfl⟩)
  simp only [List.map_map, Function.comp_def] at hc
  rw [hc, hreq, (toV3Form_preserves p (hi p hp)).1]
  simp [inputA2, hl p hp]

/-! ### the three-way split of a parameter list -/

theorem formVals_cons_notForm {V : Type} (cs : List String) (q : PRef2 V) (rest : List (PRef2 V))
    (h : inputOK3 cs q = true) : formVals (q :: rest) = formVals rest := by
  cases q with
  | ref _ _ => rfl
  | val p =>
    have : p.loc ≠ "formData" := by
      simp only [inputOK3, Bool.or_eq_true] at h
      rcases h with h | h
      · simp only [paramSimple, Bool.and_eq_true, bne_iff_ne, ne_eq] at h; exact h.1.2
      · simp only [bodyOK3, Bool.and_eq_true, beq_iff_eq] at h
        rw [h.1.1]; decide
    simp [formVals, this]

theorem inputs_split3 {V : Type} (cbs : List (String × BRef3 V)) (bks : List String)
    (hcb : ∀ n, (alookup n cbs).isSome = bks.contains n) (cs : List String) (l : List (PRef2 V))
    (h : l.all (inputOKF cs) = true) :
    (splitP3 (l.map (toV3P { cbodies := cbs, cschemas := [] } cs))).2.2 =
      (formVals l).map (fun p => (p.name, toV3FormProp p)) ∧
    (splitP3 (l.map (toV3P { cbodies := cbs, cschemas := [] } cs))).2.1.length = (l.filter (isBodyIn bks)).length ∧
    ((splitP3 (l.map (toV3P { cbodies := cbs, cschemas := [] } cs))).1.map paramA3 ++
      (splitP3 (l.map (toV3P { cbodies := cbs, cschemas := [] } cs))).2.1.flatMap bodyA3 ++
      (formVals l).map (fun p => inputA2 (.val p))).Perm (l.map inputA2) ∧
    (∀ p ∈ formVals l, p.loc = "formData" ∧ itemsOK3 p.items = true) := by
  induction l with
  | nil => simp [splitP3, formVals]
  | cons q rest ih =>
    simp only [List.all_cons, Bool.and_eq_true] at h
    obtain ⟨i1, i2, i3, i4⟩ := ih h.2
    by_cases hq : inputOK3 cs q = true
    · rw [formVals_cons_notForm cs q rest hq]
      rcases toV3P_input cbs bks hcb cs q hq with ⟨x, hx, hnb, hA⟩ | ⟨b, hb, hib, hA⟩
      · simp only [List.map_cons, hx, splitP3, List.filter_cons, hnb, Bool.false_eq_true, if_false]
        refine ⟨i1, i2, ?_, i4⟩
        simp only [List.cons_append, hA]
        exact List.Perm.cons _ i3
      · simp only [List.map_cons, hb, splitP3, List.filter_cons, hib, if_true, List.length_cons]
        refine ⟨i1, by rw [i2], ?_, i4⟩
        simp only [List.flatMap_cons, hA, List.append_assoc, List.singleton_append]
        have i3' := i3
        simp only [List.append_assoc] at i3'
        exact (List.perm_middle).trans (List.Perm.cons _ i3')
    · have hf : formOK3 q = true := by
        have := h.1
        simp only [inputOKF, Bool.or_eq_true] at this
        rcases this with h1 | h1
        · exact absurd h1 hq
        · exact h1
      cases q with
      | ref _ _ => simp [formOK3] at hf
      | val p =>
        simp only [formOK3, Bool.and_eq_true, beq_iff_eq] at hf
        have hx : toV3P ({ cbodies := cbs, cschemas := [] } : Env3 V) cs (.val p) = .form p.name (toV3FormProp p) := by
          simp [toV3P, hf.1]
        have hnb : isBodyIn bks (PRef2.val p) = false := by simp [isBodyIn, hf.1]
        simp only [List.map_cons, hx, splitP3, List.filter_cons, hnb, Bool.false_eq_true, if_false, formVals, hf.1, if_true]
        refine ⟨by rw [i1], i2, ?_, ?_⟩
        · exact (List.perm_middle).trans (List.Perm.cons _ i3)
        · intro p' hp'
          simp only [List.mem_cons] at hp'
          rcases hp' with rfl | hp'
          · exact ⟨hf.1, hf.2⟩
          · exact i4 p' hp'

/-- **ToV3Operation on an operation with a body parameter or form parameters** -/
theorem toV3Op_inputs {V : Type} (cbs : List (String × BRef3 V)) (bks : List String)
    (hcb : ∀ n, (alookup n cbs).isSome = bks.contains n) (dc : List String) (path : String) (o : Op2 V)
    (h : opInputsOK bks dc o = true) :
    ∃ o3, toV3Op { cbodies := cbs, cschemas := [] } dc o = .ok o3 ∧ OpA.sim (opA3 path o3) (opA2 path o) := by
  simp only [opInputsOK, Bool.and_eq_true, Bool.or_eq_true, decide_eq_true_eq] at h
  obtain ⟨⟨hin, hshape⟩, hresp⟩ := h
  obtain ⟨s1, s2, s3, s4⟩ := inputs_split3 cbs bks hcb (effConsumes dc o) o.params hin
  have hform := formBody_inputs ({ cbodies := cbs, cschemas := [] } : Env3 V) (effConsumes dc o) (formVals o.params)
  unfold toV3Op
  simp only [effConsumes] at s1 s2 s3 s4 hshape hform ⊢
  generalize hsp : splitP3 (o.params.map (toV3P { cbodies := cbs, cschemas := [] } (if o.consumes.isEmpty then dc else o.consumes))) = sp at s1 s2 s3
  obtain ⟨ps, bodies, forms⟩ := sp
  simp only at s1 s2 s3 ⊢
  subst s1
  rcases hshape with ⟨hnf, hone⟩ | ⟨⟨hnb, hnd⟩, hmime⟩
  · -- no form parameter, at most one body
    have hfv : formVals o.params = [] := by simpa using hnf
    simp only [hfv, List.map_nil, List.append_nil] at s3 ⊢
    have hlen : bodies.length ≤ 1 := by omega
    cases bodies with
    | nil =>
      refine ⟨_, rfl, rfl, rfl, rfl, ?_, ?_, ?_, rfl⟩
      · simpa [opA3, opA2] using s3
      · simp [opA3, opA2, responses_simple o.produces o.responses hresp]
      · simp [opA3, opA2, meta_toV3]
    | cons b rest =>
      cases rest with
      | cons _ _ => simp at hlen
      | nil =>
        refine ⟨_, rfl, rfl, rfl, rfl, ?_, ?_, ?_, rfl⟩
        · simpa [opA3, opA2] using s3
        · simp [opA3, opA2, responses_simple o.produces o.responses hresp]
        · simp [opA3, opA2, meta_toV3]
  · -- no body, form parameters with distinct names under a form media type
    have hb0 : bodies = [] := by
      have : (o.params.filter (isBodyIn bks)) = [] := by simpa using hnb
      rw [this] at s2
      simpa using s2
    subst hb0
    cases hfv : formVals o.params with
    | nil =>
      simp only [hfv, List.map_nil, List.append_nil, List.flatMap_nil] at s3 ⊢
      refine ⟨_, rfl, rfl, rfl, rfl, ?_, ?_, ?_, rfl⟩
      · simpa [opA3, opA2] using s3
      · simp [opA3, opA2, responses_simple o.produces o.responses hresp]
      · simp [opA3, opA2, meta_toV3]
    | cons f fs =>
      have hfi := hform hnd (fun p hp => (s4 p hp).1) (fun p hp => (s4 p hp).2) hmime
      rw [hfv] at hfi
      simp only [hfv, List.flatMap_nil, List.append_nil] at s3 ⊢
      refine ⟨_, rfl, rfl, rfl, rfl, ?_, ?_, ?_, rfl⟩
      · show (List.map paramA3 ps ++ bodyA3 _).Perm _
        rw [hfi]
        simpa [opA2] using s3
      · simp [opA3, opA2, responses_simple o.produces o.responses hresp]
      · simp [opA3, opA2, meta_toV3]

theorem toV3Path_inputs {V : Type} (cbs : List (String × BRef3 V)) (bks : List String)
    (hcb : ∀ n, (alookup n cbs).isSome = bks.contains n) (dc : List String) (p : Path2 V)
    (h : pathInputsOK bks dc p = true) :
    ∃ p3, toV3Path { cbodies := cbs, cschemas := [] } dc p = .ok p3 ∧ PathRel3 p3 p := by
  simp only [pathInputsOK, Bool.and_eq_true] at h
  obtain ⟨ops3, ho1, ho2⟩ := mapRes_rel (R := fun o3 o => OpA.sim (opA3 p.path o3) (opA2 p.path o))
    (toV3Op { cbodies := cbs, cschemas := [] } dc) p.ops
    (fun o ho => toV3Op_inputs cbs bks hcb dc p.path o (List.all_eq_true.mp h.2 o ho))
  have hp : mapRes (pathParam3 { cbodies := cbs, cschemas := [] } dc) p.params = .ok (p.params.map toV3PS) :=
    mapRes_ok _ _ _ (fun q hq => pathParam_body cbs bks hcb dc q (List.all_eq_true.mp h.1 q hq))
  refine ⟨{ path := p.path, params := p.params.map toV3PS, ops := ops3 }, by simp [toV3Path, ho1, hp], rfl, ?_, ?_⟩
  · apply inputs_simple
    apply List.all_eq_true.mpr
    intro q hq
    have := List.all_eq_true.mp h.1 q hq
    simp only [pathParamOK, Bool.and_eq_true] at this
    exact this.1
  · exact rel2_map (opA3 p.path) (opA2 p.path) (fun _ _ hr => hr) ho2

/-- **Document level, ToV3, with body and form parameters**: as `api3_toV3_body`, and an operation may instead take
    inline formData parameters (distinct names, a form media type in the effective `consumes`): they become the
    request body — one property per parameter with the parameter's constraints, the required names in the object
    schema — and the converted document describes the same API (`Api.sim`). -/
theorem api3_toV3_inputs {V : Type} (d : Doc2 V) (h : docInputs d = true) :
    ∃ d3, toV3Raw d = .ok d3 ∧ Api.sim (api3 d3) (api2 d) := by
  simp only [docInputs, Bool.and_eq_true] at h
  obtain ⟨⟨⟨⟨⟨⟨hparams, hpaths⟩, hresps⟩, hnodup⟩, hdefs⟩, hsecs⟩, hloc⟩ := h
  obtain ⟨secs, hsecs1, hsecs2⟩ := mapSecs_preserves d.secs hsecs
  obtain ⟨sh1, sh2, sh3⟩ := sharedP3_body d.consumes d.params hparams
  generalize hsp : sharedP3 d.consumes d.params = sp at sh1 sh2 sh3
  obtain ⟨cps, cbs, cfs⟩ := sp
  simp only at sh1 sh2 sh3
  subst sh1
  obtain ⟨paths3, hp1, hp2⟩ := mapRes_rel (R := PathRel3) (toV3Path { cbodies := cbs, cschemas := [] } d.consumes) d.paths
    (fun p hp => toV3Path_inputs cbs (bodyKeys d.params) sh2 d.consumes p (List.all_eq_true.mp hpaths p hp))
  have hmerge : mergeSchemas ([] : List (String × CSchema V)) d.defs =
      d.defs.map (fun ks => (ks.1, ({ formName := none, schema := toV3S ks.2 } : CSchema V))) := by
    have := mergeSchemas_nodup d.defs [] hnodup (by intro kv _; rfl)
    simpa [mergeSchemas] using this
  have h3 : toV3Raw d = .ok
      { servers := toV3Servers d.loc, cparams := cps, cbodies := cbs,
        cschemas := mergeSchemas [] d.defs, cresponses := d.responses.map (fun kr => (kr.1, toV3Resp d.produces kr.2)),
        secs := secs, paths := paths3, security := d.security } := by
    simp only [toV3Raw, hsp, hp1, hsecs1]
  refine ⟨_, h3, ?_, ?_, ?_, ?_, ?_, ?_, ?_, ?_⟩
  · show rel2 OpA.sim (paths3.flatMap (fun p => p.ops.map (opA3 p.path))) (d.paths.flatMap (fun p => p.ops.map (opA2 p.path)))
    apply rel2_flatMap
    refine (rel2_map (R := PathRel3) id id ?_ hp2 |> fun x => by simpa using x)
    intro a b hab
    exact hab.2.2
  · exact pathParams_rel paths3 d.paths hp2
  · show (List.map _ cps ++ List.flatMap _ cbs ++ List.filterMap _ (mergeSchemas [] d.defs)).Perm _
    rw [hmerge, noforms_toV3, List.append_nil]
    exact sh3
  · exact responses_simple d.produces d.responses hresps
  · show List.filterMap _ (mergeSchemas [] d.defs) = _
    rw [hmerge]
    exact defs_toV3 d.defs hdefs
  · exact servers_toV3 d.loc hloc
  · exact hsecs2
  · rfl

/-- non-vacuity of `api3_toV3_inputs`: a file upload next to a required, constrained array field and a query
    parameter under multipart/form-data; another operation of the same path takes a body -/
example :
    let q : Param2 Nat := { name := "q", loc := "query", required := false, cons := { ty := some "integer" }, items := none, schema := none }
    let up : Param2 Nat := { name := "up", loc := "formData", required := true, cons := { ty := some "file" }, items := none, schema := none }
    let tags : Param2 Nat := { name := "tags", loc := "formData", required := true,
                               cons := { ty := some "array", sc := [("maxItems", 3)] },
                               items := some (.node { ty := some "string", sc := [("minLength", 1)] } []), schema := none }
    let note : Param2 Nat := { name := "note", loc := "formData", required := false,
                               cons := { ty := some "string", fmt := some "date" }, items := none, schema := none }
    let bd : Param2 Nat := { name := "payload", loc := "body", required := true, cons := {}, items := none,
                             schema := some (.node { ty := some "object" } []) }
    let ok : RRef2 Nat := .val { desc := "ok", headers := [], schema := none }
    let d : Doc2 Nat := {
      loc := { host := "h", basePath := "", schemes := [] }, consumes := [], produces := [],
      params := [], responses := [], defs := [], secs := [],
      paths := [{ path := "/up", params := [],
                  ops := [{ method := "post", opId := "a", consumes := ["multipart/form-data"], produces := [],
                            params := [.val up, .val q, .val tags, .val note], responses := [("200", ok)] },
                          { method := "put", opId := "b", consumes := [], produces := [],
                            params := [.val bd], responses := [("200", ok)] }] }] }
    docInputs d = true := by
  decide

/-! ## the way back of form parameters (9a423cc, ddd71cc) -/

theorem filterMap_some_fun {α β : Type} (f : α → β) (l : List α) : l.filterMap (fun x => some (f x)) = l.map f := by
  induction l with
  | nil => rfl
  | cons a r ih => simp [ih]

/-- FromV3RequestBodyFormData as executed agrees with `fromV3FormProp` on a converted form field whose items are
    not binary strings -/
theorem fromV3FormPropO_eq {V : Type} (R : List String) (p : Param2 V) (hnb : p.items.all noBinary2 = true) :
    fromV3FormPropO [] R p.name (clearReq (toV3FormProp p)) = fromV3FormProp R p.name (clearReq (toV3FormProp p)) := by
  unfold toV3FormProp
  cases hit : p.items with
  | none => simp [clearReq, fromV3FormPropO, fromV3FormProp, kidItems]
  | some s =>
    simp only [hit, Option.all_some] at hnb
    simp [clearReq, fromV3FormPropO, fromV3FormProp, kidItems, fromV3SO_eq [] (toV3S s) (noBinary3_toV3S s hnb)]

/-- a converted schema without `x-nullable` (outside additionalProperties sub-schemas) has no `nullable` a
    FromV3SchemaRef pass could clear: a second pass reads what the first one read -/
theorem dropNullable_toV3S {V : Type} (s : Sch V) (h : hasXnull s = false) : dropNullable (toV3S s) = toV3S s := by
  refine (Sch.induct (P := fun s => hasXnull s = false → dropNullable (toV3S s) = toV3S s)
    (Q := fun ks => hasXnullKids ks = false → dropNullableKids (toV3Kids ks) = toV3Kids ks) ?_ ?_ ?_ ?_).1 s h
  · intro k n _; simp [toV3S, dropNullable]
  · intro hd kids ih h
    simp only [hasXnull, Bool.or_eq_false_iff] at h
    simp only [toV3S, dropNullable, ih h.2]
    simp [toV3Hd, h.1]
  · intro _; simp [toV3Kids, dropNullableKids]
  · intro sl c rest ihc ihr h
    simp only [hasXnullKids, Bool.or_eq_false_iff] at h
    by_cases hs : sl = Slot.addl
    · simp [toV3Kids, dropNullableKids, hs, ihr h.2]
    · simp only [hs, if_false] at h
      simp [toV3Kids, dropNullableKids, hs, ihc h.1, ihr h.2]

/-- a form field read by a first pass (`tw = false`, what fromV3RequestBodies keeps since the repair of F-C17-16) is
    the one `fromV3FormProp` describes; a later pass reads the same when the items carry no `x-nullable` -/
theorem fromV3FormPropT_eq {V : Type} (tw : Bool) (R : List String) (p : Param2 V) (hnb : p.items.all noBinary2 = true)
    (hx : tw = false ∨ p.items.any hasXnull = false) :
    fromV3FormPropT tw [] R p.name (clearReq (toV3FormProp p)) = fromV3FormProp R p.name (clearReq (toV3FormProp p)) := by
  rw [← fromV3FormPropO_eq R p hnb]
  unfold toV3FormProp
  cases hit : p.items with
  | none => simp [clearReq, fromV3FormPropT, fromV3FormPropO, kidItems]
  | some s =>
    rcases hx with hx | hx
    · subst hx; simp [clearReq, fromV3FormPropT, fromV3FormPropO, kidItems]
    · simp only [hit, Option.any_some] at hx
      simp [clearReq, fromV3FormPropT, fromV3FormPropO, kidItems, dropNullable_toV3S s hx]

/-- the update statements of fromV3RequestBodies are the code's: `formParameters` is replaced by
    FromV3RequestBodyFormData, `bodyOrRefParameters` is appended to -/
theorem requestBodiesUpdates_is_code : KinModel.Gen.requestBodiesUpdates = requestBodiesUpdates := by decide

/-- **form fields are not multiplied by the media types**: whatever the passes of the media-type loop would compute,
    the code's update statement of `formParameters` (`if formParameters == nil`, F-C17-16 repaired) keeps exactly the
    first pass (with `append` in its place a form body under both form media types would yield every form parameter
    twice; with a plain assignment the last pass, made after the first has cleared `nullable` on the items) -/
theorem formParameters_first_pass {α : Type} (first : List α) (passes : List (List α)) :
    loopResult (updatesOf KinModel.Gen.requestBodiesUpdates "formParameters") (first :: passes) = first := by
  rw [requestBodiesUpdates_is_code]
  have : updatesOf requestBodiesUpdates "formParameters" = ["init:FromV3RequestBodyFormData"] := by decide
  rw [this]
  simp [loopResult]

theorem dropNullable_idem {V : Type} (s : Sch V) : dropNullable (dropNullable s) = dropNullable s := by
  refine (Sch.induct (P := fun s => dropNullable (dropNullable s) = dropNullable s)
    (Q := fun ks => dropNullableKids (dropNullableKids ks) = dropNullableKids ks) ?_ ?_ ?_ ?_).1 s
  · intro k n; simp [dropNullable]
  · intro hd kids ih; simp [dropNullable, ih]
  · simp [dropNullableKids]
  · intro sl c rest ihc ihr
    by_cases hs : sl = Slot.addl
    · simp [dropNullableKids, hs, ihr]
    · simp [dropNullableKids, hs, ihc, ihr]

theorem kidItems_dropItems {V : Type} (kids : List (Slot × Sch V)) :
    kidItems (kids.map (fun (sc : Slot × Sch V) => (sc.1, if sc.1 = Slot.items then dropNullable sc.2 else sc.2))) =
    (kidItems kids).map dropNullable := by
  induction kids with
  | nil => rfl
  | cons a r ih =>
    obtain ⟨sl, c⟩ := a
    by_cases hs : sl = Slot.items
    · simp [kidItems, hs]
    · simp [kidItems, hs, ih]

/-- a pass over a form field an earlier pass has visited reads what a second pass reads (FromV3SchemaRef's reset
    of `nullable` is idempotent) -/
theorem fromV3FormPropT_dropItems {V : Type} (tw : Bool) (bin R : List String) (name : String) (s : Sch V) :
    fromV3FormPropT tw bin R name (dropItemsNullable s) = fromV3FormPropT true bin R name s := by
  cases s with
  | ref k n => simp [dropItemsNullable, fromV3FormPropT]
  | node h kids =>
    simp only [dropItemsNullable, fromV3FormPropT, kidItems_dropItems]
    cases kidItems kids with
    | none => simp
    | some it => cases tw <;> simp [dropNullable_idem]

theorem fromV3FormFields_dropItems {V : Type} (tw : Bool) (bin R : List String) (kids : List (Slot × Sch V)) :
    fromV3FormFields tw bin R (kids.map (fun (sc : Slot × Sch V) => (sc.1, dropItemsNullable sc.2))) =
    fromV3FormFields true bin R kids := by
  induction kids with
  | nil => rfl
  | cons a r ih =>
    obtain ⟨sl, c⟩ := a
    simp only [fromV3FormFields] at ih ⊢
    cases sl <;> simp [fromV3FormPropT_dropItems, ih]

/-- **the media-type loop of fromV3RequestBodies, any number of form media types** (FromV3RequestBodyFormData passes
    over one form schema object, each of which would leave `nullable` cleared on the items it visited, combined by the
    code's own update statement of `formParameters`): the form parameters that come back are those of the first pass
    — each form field once, read from the schema as ToV3 built it -/
theorem formLoop_any_number_of_passes {V : Type} (bin R : List String) (n : Nat) (kids : List (Slot × Sch V)) :
    loopResult (updatesOf KinModel.Gen.requestBodiesUpdates "formParameters") (formPasses bin R (n + 1) kids) =
    fromV3FormFields false bin R kids := by
  rw [formPasses, formParameters_first_pass]

/-- the loop over the form media types of a request body is what the model of `fromV3Body` computes in one step -/
theorem formLoop_is_fromV3Body {V : Type} (bin R : List String) (mimes : List String) (kids : List (Slot × Sch V))
    (h : (mimes.filter isFormMime).length ≠ 0) :
    loopResult (updatesOf KinModel.Gen.requestBodiesUpdates "formParameters")
      (formPasses bin R (mimes.filter isFormMime).length kids) =
    fromV3FormFields false bin R kids := by
  cases hn : (mimes.filter isFormMime).length with
  | zero => exact absurd hn h
  | succ n => exact formLoop_any_number_of_passes bin R n kids

/-- regression (F-C17-16, repaired; formerly `formItemsTwice_witness`, the input of corpus f16): an array form
    parameter whose items carry `x-nullable: true`, under both form media types — what the media-type loop keeps
    under the code's update statement is the field of the first pass, whose items keep `x-nullable` (model = spec on
    the former witness); the second pass, which the former code kept, had lost it -/
theorem formItemsTwice_regression :
    let p : Param2 Nat := { name := "l", loc := "formData", required := false, cons := { ty := some "array" },
                            items := some (.node { ty := some "string", xnull := true } []), schema := none }
    let xn : PRef2 Nat → Option Bool := fun q => match q with
      | .val q => q.items.map hasXnull
      | .ref _ _ => none
    let kids : List (Slot × Sch Nat) := [(Slot.prop "l", clearReq (toV3FormProp p))]
    formItemsTwice ["multipart/form-data", "application/x-www-form-urlencoded"] (.val p) = true ∧
    (loopResult (updatesOf KinModel.Gen.requestBodiesUpdates "formParameters") (formPasses [] [] 2 kids)).map xn = [some true] ∧
    (fromV3FormFields true [] [] kids).map xn = [some false] := by
  intro p xn kids
  rw [formLoop_any_number_of_passes]
  simp [p, xn, kids, formItemsTwice, formTwice, isFormMime, hasXnull, hasXnullKids, fromV3FormFields, fromV3FormPropT, clearReq,
    toV3FormProp, kidItems, toV3S, toV3Kids, toV3Hd, fileToBinary, dropNullable, dropNullableKids, fromV3SO, fromV3Hd,
    fromV3KidsO, conv]

/-- non-vacuity of the round-trip fragment on the former class of F-C17-16: both form media types, an array form
    parameter whose items carry `x-nullable: true` -/
example :
    let p : Param2 Nat := { name := "l", loc := "formData", required := true, cons := { ty := some "array" },
                            items := some (.node { ty := some "string", xnull := true } []), schema := none }
    formTwice ["application/x-www-form-urlencoded", "multipart/form-data"] = true ∧
    formItemsTwice ["application/x-www-form-urlencoded", "multipart/form-data"] (.val p) = true ∧
    inputOKFBack ["application/x-www-form-urlencoded", "multipart/form-data"] (.val p) = true := by
  decide

/-- **the form fields of a converted operation come back as the form parameters** — each with its name,
    requiredness (read back from the object schema), type / format and constraints -/
theorem formBody_back {V : Type} (env : Env3 V) (cs : List String) (fps : List (Param2 V)) (sh : Bool) (nm : String)
    (hn : nodupKeys (fps.map (fun p => (p.name, toV3FormProp p))) = true)
    (hl : ∀ p ∈ fps, p.loc = "formData") (hi3 : ∀ p ∈ fps, itemsOK3 p.items = true)
    (hib : ∀ p ∈ fps, itemsOKBack p.items = true) (hnb : ∀ p ∈ fps, p.items.all noBinary2 = true)
    (hf : ∀ p ∈ fps, formFmtOK p = true) (hm : cs.any isFormMime = true) :
    (fromV3Body [] sh nm (.val (formBody env cs (formMap (fps.map (fun p => (p.name, toV3FormProp p))))))).map inputA2 =
    fps.map (fun p => inputA2 (.val p)) := by
  obtain ⟨hmi, hsc, hnd3⟩ := formBody_shape env cs fps hn
  have hne : cs.isEmpty = false := by
    cases cs with
    | nil => simp at hm
    | cons _ _ => rfl
  simp only [fromV3Body, fromV3FormFields, hmi, hsc, hne, Bool.false_eq_true, if_false, hm, if_true, List.filterMap_map, Function.comp_def]
  rw [filterMap_some_fun, List.map_map]
  apply List.map_congr_left
  intro p hp
  have hreq : propRequired p.name (toV3FormProp p) = p.required := (toV3Form_preserves p (hi3 p hp)).2
  have hc := required_names (fps.map (fun p => (p.name, toV3FormProp p, propRequired p.name (toV3FormProp p)))) hnd3
    p.name (toV3FormProp p) (propRequired p.name (toV3FormProp p)) (List.mem_map.mpr ⟨p, hp, rfl⟩)
  simp only [List.map_map, Function.comp_def] at hc
  simp only [Function.comp_apply, fromV3FormPropT_eq false _ p (hnb p hp) (Or.inl rfl)]
  exact roundtripForm _ p (hl p hp) (by rw [hc, hreq]) (hib p hp) (hf p hp)

theorem formVals_cons_back {V : Type} (cs : List String) (q : PRef2 V) (rest : List (PRef2 V))
    (h : inputOKBack cs q = true) : formVals (q :: rest) = formVals rest := by
  cases q with
  | ref _ _ => rfl
  | val p =>
    have : p.loc ≠ "formData" := by
      simp only [inputOKBack, Bool.or_eq_true] at h
      rcases h with h | h
      · simp only [paramSimpleBack, Bool.and_eq_true, bne_iff_ne, ne_eq] at h; exact h.1.1.2
      · simp only [bodyOKBack, Bool.and_eq_true, beq_iff_eq] at h
        rw [h.1.1]; decide
    simp [formVals, this]

/-- the parameters, the request body and the form fields of a converted parameter list come back as the inputs of
    the list -/
theorem inputs_split3_back {V : Type} (cbs : List (String × BRef3 V)) (bks : List String)
    (hcb : ∀ n, (alookup n cbs).isSome = bks.contains n) (cs : List String) (l : List (PRef2 V))
    (h : l.all (inputOKFBack cs) = true) :
    (∃ ps2, (splitP3 (l.map (toV3P { cbodies := cbs, cschemas := [] } cs))).1.mapM (fromV3PRefO []) = some ps2 ∧
      (ps2.map inputA2 ++
        ((splitP3 (l.map (toV3P { cbodies := cbs, cschemas := [] } cs))).2.1.flatMap (fromV3Body [] false "body")).map inputA2 ++
        (formVals l).map (fun p => inputA2 (.val p))).Perm (l.map inputA2)) ∧
    (∀ p ∈ formVals l, itemsOKBack p.items = true ∧ p.items.all noBinary2 = true ∧ formFmtOK p = true) := by
  induction l with
  | nil => exact ⟨⟨[], rfl, by simp [splitP3, formVals]⟩, by simp [formVals]⟩
  | cons q rest ih =>
    simp only [List.all_cons, Bool.and_eq_true] at h
    obtain ⟨⟨ps2, i1, i2⟩, i4⟩ := ih h.2
    by_cases hq : inputOKBack cs q = true
    · rw [formVals_cons_back cs q rest hq]
      refine ⟨?_, i4⟩
      rcases toV3P_input_back cbs bks hcb cs q hq with ⟨x, q2, hx, hq2, hA⟩ | ⟨b, hb, hA⟩
      · refine ⟨q2 :: ps2, ?_, ?_⟩
        · simp [hx, splitP3, List.mapM_cons, hq2, i1]
        · simp only [List.map_cons, hx, splitP3, List.cons_append, hA]
          exact List.Perm.cons _ i2
      · refine ⟨ps2, ?_, ?_⟩
        · simp [hb, splitP3, i1]
        · simp only [List.map_cons, hb, splitP3, List.flatMap_cons, List.map_append, hA, List.append_assoc,
            List.singleton_append]
          have i2' := i2
          simp only [List.append_assoc] at i2'
          exact (List.perm_middle).trans (List.Perm.cons _ i2')
    · have hf : formOKBack q = true := by
        have := h.1
        simp only [inputOKFBack, Bool.or_eq_true] at this
        rcases this with h1 | h1
        · exact absurd h1 hq
        · exact h1
      cases q with
      | ref _ _ => simp [formOKBack] at hf
      | val p =>
        simp only [formOKBack, Bool.and_eq_true, beq_iff_eq] at hf
        have hx : toV3P ({ cbodies := cbs, cschemas := [] } : Env3 V) cs (.val p) = .form p.name (toV3FormProp p) := by
          simp [toV3P, hf.1.1.1]
        constructor
        · refine ⟨ps2, ?_, ?_⟩
          · simp [hx, splitP3, i1]
          · simp only [List.map_cons, hx, splitP3, formVals, hf.1.1.1, if_true]
            exact (List.perm_middle).trans (List.Perm.cons _ i2)
        · intro p' hp'
          simp only [formVals, hf.1.1.1, if_true, List.mem_cons] at hp'
          rcases hp' with rfl | hp'
          · exact ⟨hf.1.1.2, hf.1.2, hf.2⟩
          · exact i4 p' hp'

/-- **every operation with a body parameter or form parameters comes back saying the same** -/
theorem op_inputs_roundtrip {V : Type} (cbs : List (String × BRef3 V)) (bks : List String)
    (hcb : ∀ n, (alookup n cbs).isSome = bks.contains n) (dc : List String) (path : String) (o : Op2 V)
    (h3 : opInputsOK bks dc o = true) (h : opInputsBack dc o = true) :
    ∃ o3, toV3Op { cbodies := cbs, cschemas := [] } dc o = .ok o3 ∧ ∃ o2, fromV3Op [] o3 = some o2 ∧
      OpA.sim (opA2 path o2) (opA2 path o) := by
  simp only [opInputsOK, Bool.and_eq_true, Bool.or_eq_true, decide_eq_true_eq] at h3
  obtain ⟨⟨hin, hshape⟩, _⟩ := h3
  simp only [opInputsBack, Bool.and_eq_true] at h
  obtain ⟨hinb, hresp⟩ := h
  obtain ⟨s1, s2, _, s4⟩ := inputs_split3 cbs bks hcb (effConsumes dc o) o.params hin
  obtain ⟨⟨ps2, b1, b2⟩, b4⟩ := inputs_split3_back cbs bks hcb (effConsumes dc o) o.params hinb
  obtain ⟨rs, hr1, hr2⟩ := responses_roundtrip o.produces o.responses hresp
  have hform := formBody_back ({ cbodies := cbs, cschemas := [] } : Env3 V) (effConsumes dc o) (formVals o.params) false "body"
  unfold toV3Op
  simp only [effConsumes] at s1 s2 s4 b1 b2 hshape hform ⊢
  generalize hsp : splitP3 (o.params.map (toV3P { cbodies := cbs, cschemas := [] } (if o.consumes.isEmpty then dc else o.consumes))) = sp at s1 s2 b1 b2
  obtain ⟨ps, bodies, forms⟩ := sp
  simp only at s1 s2 b1 b2 ⊢
  subst s1
  rcases hshape with ⟨hnf, hone⟩ | ⟨⟨hnb, hnd⟩, hmime⟩
  · have hfv : formVals o.params = [] := by simpa using hnf
    simp only [hfv, List.map_nil, List.append_nil] at b2 ⊢
    have hlen : bodies.length ≤ 1 := by omega
    cases bodies with
    | nil =>
      refine ⟨_, rfl, ?_⟩
      simp only [fromV3Op, List.isEmpty_nil, if_true, b1, hr1]
      refine ⟨_, rfl, rfl, rfl, rfl, ?_, ?_, ?_, rfl⟩
      · simpa [opA2] using b2
      · simp [opA2, hr2]
      · simp [opA2, meta_roundtrip]
    | cons b rest =>
      cases rest with
      | cons _ _ => simp at hlen
      | nil =>
        refine ⟨_, rfl, ?_⟩
        simp only [fromV3Op, b1, hr1]
        refine ⟨_, rfl, rfl, rfl, rfl, ?_, ?_, ?_, rfl⟩
        · simpa [opA2] using b2
        · simp [opA2, hr2]
        · simp [opA2, meta_roundtrip]
  · have hb0 : bodies = [] := by
      have : (o.params.filter (isBodyIn bks)) = [] := by simpa using hnb
      rw [this] at s2
      simpa using s2
    subst hb0
    cases hfv : formVals o.params with
    | nil =>
      simp only [hfv, List.map_nil, List.append_nil, List.flatMap_nil] at b2 ⊢
      refine ⟨_, rfl, ?_⟩
      simp only [fromV3Op, List.isEmpty_nil, if_true, b1, hr1]
      refine ⟨_, rfl, rfl, rfl, rfl, ?_, ?_, ?_, rfl⟩
      · simpa [opA2] using b2
      · simp [opA2, hr2]
      · simp [opA2, meta_roundtrip]
    | cons f fs =>
      have hfi := hform hnd (fun p hp => (s4 p hp).1) (fun p hp => (s4 p hp).2) (fun p hp => (b4 p hp).1)
        (fun p hp => (b4 p hp).2.1) (fun p hp => (b4 p hp).2.2) hmime
      rw [hfv] at hfi
      simp only [hfv, List.flatMap_nil, List.map_nil, List.append_nil] at b2 ⊢
      refine ⟨_, rfl, ?_⟩
      simp only [fromV3Op, b1, hr1]
      refine ⟨_, rfl, rfl, rfl, rfl, ?_, ?_, ?_, rfl⟩
      · show (List.map inputA2 (ps2 ++ fromV3Body [] false "body" _)).Perm _
        rw [List.map_append, hfi]
        simpa [opA2] using b2
      · simp [opA2, hr2]
      · simp [opA2, meta_roundtrip]

theorem path_inputs_roundtrip {V : Type} (cbs : List (String × BRef3 V)) (bks : List String)
    (hcb : ∀ n, (alookup n cbs).isSome = bks.contains n) (dc : List String) (p : Path2 V)
    (h3 : pathInputsOK bks dc p = true) (h : pathInputsBack bks dc p = true) :
    ∃ p3, toV3Path { cbodies := cbs, cschemas := [] } dc p = .ok p3 ∧ ∃ p2, fromV3Path [] p3 = some p2 ∧
      PathRelBack p2 p := by
  simp only [pathInputsOK, Bool.and_eq_true] at h3
  simp only [pathInputsBack, Bool.and_eq_true] at h
  obtain ⟨ops3, ops2, ho1, ho2, ho3⟩ := mapRes_mapM_rel (R := fun o2 o => OpA.sim (opA2 p.path o2) (opA2 p.path o))
    (toV3Op { cbodies := cbs, cschemas := [] } dc) (fromV3Op []) p.ops
    (fun o ho => op_inputs_roundtrip cbs bks hcb dc p.path o (List.all_eq_true.mp h3.2 o ho) (List.all_eq_true.mp h.2 o ho))
  have hp : mapRes (pathParam3 { cbodies := cbs, cschemas := [] } dc) p.params = .ok (p.params.map toV3PS) :=
    mapRes_ok _ _ _ (fun q hq => pathParam_body cbs bks hcb dc q (List.all_eq_true.mp h3.1 q hq))
  have hsb : p.params.all paramSimpleBack = true := by
    apply List.all_eq_true.mpr
    intro q hq
    have := List.all_eq_true.mp h.1 q hq
    simp only [pathParamBack, Bool.and_eq_true] at this
    exact this.1
  obtain ⟨ps2, hq1, hq2⟩ := params_roundtrip p.params hsb
  refine ⟨{ path := p.path, params := p.params.map toV3PS, ops := ops3 }, by simp [toV3Path, ho1, hp],
    { path := p.path, params := ps2, ops := ops2 }, by simp [fromV3Path, hq1, ho2], rfl, hq2, ?_⟩
  exact rel2_map (opA2 p.path) (opA2 p.path) (fun _ _ hr => hr) ho3

/-- **Document level, round trip, with body and form parameters** (outside every open finding class): as
    `api2_roundtrip_body`, and the inline formData parameters of an operation come back — from the properties of the
    request body's object schema — with their names, requiredness, types / formats and constraints. -/
theorem api2_roundtrip_inputs {V : Type} (d : Doc2 V) (h : docInputsBack d = true) :
    ∃ d3 d2, toV3Raw d = .ok d3 ∧ fromV3 d3 = some d2 ∧
      rel2 OpA.sim (api2 d2).ops (api2 d).ops ∧ (api2 d2).pathParams = (api2 d).pathParams ∧
      (api2 d2).shared.Perm (api2 d).shared ∧ (api2 d2).sharedResponses = (api2 d).sharedResponses ∧
      (api2 d2).defs = (api2 d).defs ∧ (api2 d2).security = (api2 d).security ∧
      (api2 d2).securityReq = (api2 d).securityReq ∧
      (∀ x, x ∈ (api2 d2).servers ↔ x ∈ (api2 d).servers) := by
  simp only [docInputsBack, Bool.and_eq_true, bne_iff_ne, ne_eq] at h
  obtain ⟨⟨⟨⟨⟨⟨hfrag, hparamsB⟩, hpnodup⟩, hpathsB⟩, hrespsB⟩, hdefsB⟩, hhost, hschemes⟩ := h
  simp only [docInputs, Bool.and_eq_true] at hfrag
  obtain ⟨⟨⟨⟨⟨⟨hparams, hpaths⟩, _⟩, hnodup⟩, _⟩, hsecs⟩, _⟩ := hfrag
  refine api2_roundtrip_gen d hparams hparamsB hpnodup hrespsB hnodup hdefsB hsecs hhost hschemes ?_
  intro cbs hcb p hp
  exact path_inputs_roundtrip cbs (bodyKeys d.params) hcb d.consumes p
    (List.all_eq_true.mp hpaths p hp) (List.all_eq_true.mp hpathsB p hp)

/-- non-vacuity of `api2_roundtrip_inputs`: a required file upload, a required constrained array field, an optional
    field with a format, next to a query parameter; another operation takes a body -/
example :
    let q : Param2 Nat := { name := "q", loc := "query", required := false, cons := { ty := some "integer" }, items := none, schema := none }
    let up : Param2 Nat := { name := "up", loc := "formData", required := true, cons := { ty := some "file" }, items := none, schema := none }
    let tags : Param2 Nat := { name := "tags", loc := "formData", required := true,
                               cons := { ty := some "array", sc := [("maxItems", 3)] },
                               items := some (.node { ty := some "string", sc := [("minLength", 1)] } []), schema := none }
    let note : Param2 Nat := { name := "note", loc := "formData", required := false,
                               cons := { ty := some "string", fmt := some "date" }, items := none, schema := none }
    let bd : Param2 Nat := { name := "payload", loc := "body", required := true, cons := {}, items := none,
                             schema := some (.node { ty := some "object" } []) }
    let ok : RRef2 Nat := .val { desc := "ok", headers := [], schema := some (.node { ty := some "string" } []) }
    let d : Doc2 Nat := {
      loc := { host := "h", basePath := "", schemes := ["wss", "https"] }, consumes := [], produces := ["application/xml"],
      params := [], responses := [], defs := [], secs := [],
      paths := [{ path := "/up", params := [],
                  ops := [{ method := "post", opId := "a", consumes := ["multipart/form-data"], produces := [],
                            params := [.val up, .val q, .val tags, .val note], responses := [("200", ok)] },
                          { method := "put", opId := "b", consumes := [], produces := ["text/plain"],
                            params := [.val bd], responses := [("200", ok)] }] }] }
    docInputsBack d = true := by
  decide

end KinModel.Conv
