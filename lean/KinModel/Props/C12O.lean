/-
C12 — observing a returned error is free of effects: every observation of the same `*SchemaError`, in any sequence,
shows the same JSON pointer, hence the second sentence of the property holds for EVERY observation and not only for the
first call of `JSONPointer()`. Model: KinModel/C12/ErrObject.lean; table: Gen/C12ErrAccess.lean (regenerated).
-/
import KinModel.C12.ErrObject
import KinModel.Props.C12D
import KinModel.Gen.C12ErrAccess
import KinModel.Gen.C12ErrValues
import KinModel.Gen.C12Accumulate
namespace KinModel.Schema

/-! ### the regenerated table: who touches the recorded path -/

/-- no function reaches `reversePath` in a way the extractor cannot classify -/
theorem err_access_recognised : ∀ r ∈ Gen.c12ErrAccess, ¬ r.effects.contains "unrecognised" := by decide

/-- the methods a caller can invoke on a returned error (`JSONPointer`, `Error`, `Unwrap`) are in the table and have NO
effect on the recorded path nor on any field of the receiver: no element written through a slice sharing its backing
array, no alias returned or handed to a callee, no assignment. -/
theorem observers_leave_the_error_alone :
    (Gen.c12ErrAccess.filter (fun r => r.fn != "openapi3.markSchemaErrorKey")) =
      [⟨"openapi3.SchemaError.Error", []⟩, ⟨"openapi3.SchemaError.JSONPointer", []⟩, ⟨"openapi3.SchemaError.Unwrap", []⟩] := by decide

/-- the only writer of the recorded path in openapi3 and openapi3filter is the unwinding marker, and it only appends -/
theorem only_the_marker_writes :
    ∀ r ∈ Gen.c12ErrAccess, r.effects ≠ [] → r = ⟨"openapi3.markSchemaErrorKey", ["fieldAppend"]⟩ := by decide

/-- what the table says about `JSONPointer`: it reverses a fresh copy -/
def codeCopies : Bool := Gen.c12ErrAccess.any (fun r => r.fn == "openapi3.SchemaError.JSONPointer" && r.effects.isEmpty)

theorem jsonPointer_reverses_a_copy : codeCopies = true := by decide


/-! ### the regenerated table: what every error quotes

The model builds its errors with `here field v r` (quoting the value `v` of the node being visited, `loc_here`), with
`mark (.key k) (here "required" v r)` for a missing required property (`loc_required`), with no quoted value for the
`nullable` error (`Value: nil`), the discriminator-shape error and the errors that only wrap a format / pattern failure.
The table `C12ErrValues` lists every `SchemaError{…}` literal of package openapi3 with the expression that fills `Value`. -/

theorem err_values_recognised : ∀ r ∈ Gen.c12ErrValues, r.quotes ≠ "unrecognised" := by decide

/-- every error built in package openapi3 quotes the parameter `value` of the enclosing visit function — a parameter
that the function never assigns, i.e. the value found at the location the unwinding markers record — and is not
re-located at its construction site, EXCEPT the rows listed here, each of which has its own model constructor: no quote
(`absent`, `nil`), the discriminator property's value re-located under the property name, the `required` error
re-located under the missing name, and the format validators' own errors (never returned directly). No site quotes a
scratch copy or a loop variable of the visit. -/
theorem visit_errors_quote_the_visited_value :
    Gen.c12ErrValues.filter (fun r => r.quotes != "param:value" || r.marked) =
      [⟨"Schema.visitXOFOperations", "\"discriminator\"", "absent", false⟩,
       ⟨"Schema.visitXOFOperations", "\"discriminator\"", "local:discriminatorVal", true⟩,
       ⟨"Schema.visitXOFOperations", "\"discriminator\"", "local:discriminatorVal", true⟩,
       ⟨"Schema.visitJSONNull", "\"nullable\"", "nil", false⟩,
       ⟨"Schema.visitJSONNumber", "", "absent", false⟩,
       ⟨"Schema.visitJSONNumber", "", "absent", false⟩,
       ⟨"Schema.visitJSONString", "", "absent", false⟩,
       ⟨"Schema.visitJSONObject", "\"required\"", "param:value", true⟩,
       ⟨"NewIPValidator", "", "local:ip", false⟩,
       ⟨"NewIPValidator", "", "local:ip", false⟩,
       ⟨"NewIPValidator", "", "local:ip", false⟩,
       ⟨"Schema.compilePattern", "\"pattern\"", "absent", false⟩] := by decide

/-- the other 25 sites (one per keyword check and per composition) quote `param:value` -/
theorem visit_error_sites_counted :
    (Gen.c12ErrValues.filter (fun r => r.quotes == "param:value" && !r.marked)).length = 25 ∧ Gen.c12ErrValues.length = 37 := by decide


/-! ### the regenerated table: no error is dropped on the way into the MultiError -/

/-- the 22 uses of `settings.multiError` in openapi3/schema.go are all `if !settings.multiError { return err }` followed
by one of the three recognised continuations -/
theorem accumulate_sites_recognised :
    Gen.c12Accumulate.length = 22 ∧
    ∀ r ∈ Gen.c12Accumulate, r.shape = "plain" ∨ r.shape = "flatten-else" ∨ r.shape = "flatten-continue" := by decide

/-- at every accumulation site of the code, an error of ANY dynamic type (a *SchemaError, the FailFast sentinel, the
NaN/Inf errors, a plain error, a non-empty nested MultiError) makes the accumulator strictly longer: nothing that failed
is forgotten in multi-error mode, which is what the fold `collect` of the model assumes. -/
theorem accumulate_keeps_every_error (r : Gen.C12AccumulateRow) (hr : r ∈ Gen.c12Accumulate) (n : Nat) (e : GoErrKind)
    (he : e ≠ .multi 0) : ∃ m, keepLen r.shape n e = some m ∧ n < m := by
  rcases accumulate_sites_recognised.2 r hr with h | h | h <;> rw [h] <;> cases e with
  | multi k =>
    have : 0 < k := by
      rcases Nat.eq_zero_or_pos k with h0 | h0
      · exact absurd (by rw [h0]) he
      · exact h0
    simp [keepLen]; try omega
  | _ => simp [keepLen]

/-- the statement is falsifiable: a type switch without default (cases MultiError, *SchemaError) forgets the sentinel -/
theorem switch_without_default_drops : keepLen "switch-no-default" 0 .sentinel = some 0 := by decide

example : ∃ r ∈ Gen.c12Accumulate, r.shape = "flatten-else" := by decide

/-! ### every observation sequence -/

/-- with a copying `JSONPointer`, any sequence of observations leaves the recorded path as it was and every pointer
shown is the pointer of the error -/
theorem observe_stable (rp : List Tok) (os : List Obs) :
    (observe true rp os).2 = rp ∧ ∀ p ∈ (observe true rp os).1, p = rp.reverse := by
  induction os generalizing rp with
  | nil => simp [observe]
  | cons o os ih =>
    have h1 : (obsStep true rp o).1 = rp := by cases o <;> simp [obsStep]
    have h2 : ∀ p, (obsStep true rp o).2 = some p → p = rp.reverse := by cases o <;> simp [obsStep] <;> intro p h <;> exact h.symm
    have ih' := ih rp
    simp only [observe, h1]
    refine ⟨ih'.1, ?_⟩
    intro p hp
    cases hs : (obsStep true rp o).2 with
    | none => rw [hs] at hp; exact ih'.2 p hp
    | some q =>
      rw [hs] at hp
      rcases List.mem_cons.mp hp with h | h
      · rw [h]; exact h2 q hs
      · exact ih'.2 p h

/-- the same for the code as the regenerated table describes it -/
theorem observe_code_stable (rp : List Tok) (os : List Obs) :
    (observe codeCopies rp os).2 = rp ∧ ∀ p ∈ (observe codeCopies rp os).1, p = rp.reverse := by
  rw [jsonPointer_reverses_a_copy]; exact observe_stable rp os

/-- **C12, second sentence, for every observation.** Every error reported in any mode for a well-formed value, observed
through any sequence of `JSONPointer()` / `Error()` / `Unwrap()` calls: each pointer shown resolves inside the validated
value to the value the error quotes. -/
theorem errors_point_at_data_every_observation (m : Mode) (env : Env) (s : S) (v : J) (h : WFJ v) (os : List Obs) :
    ∀ e ∈ (validate m env s v).errs, ∀ p ∈ (observe codeCopies e.rpath os).1, Loc v { e with rpath := p.reverse } := by
  intro e he p hp
  have hpe := (observe_code_stable e.rpath os).2 p hp
  subst hpe
  simpa using errors_point_at_data m env s v h e he

/-- the same with default injection: located in the value as the caller finds it after validation -/
theorem errors_point_at_data_after_injection_every_observation (m : Mode) (env : Env) (s : S) (v : J) (hw : WFJ v)
    (hs : s.dfltsWF) (os : List Obs) :
    ∀ e ∈ (validateD m env s v).1.errs, ∀ p ∈ (observe codeCopies e.rpath os).1,
      Loc (validateD m env s v).2 { e with rpath := p.reverse } := by
  intro e he p hp
  have hpe := (observe_code_stable e.rpath os).2 p hp
  subst hpe
  simpa using errors_point_at_data_after_injection m env s v hw hs e he

/-- the statement is not empty: a reversal in place (`path := err.reversePath`) is a model instance that falsifies it —
the second `JSONPointer()` of an error at /pets/1/name shows /name/1/pets, and the object remembers it -/
theorem inplace_reversal_witness :
    observe false [.key "name", .idx 1, .key "pets"] [.jsonPointer, .jsonPointer] =
      ([[.key "pets", .idx 1, .key "name"], [.key "name", .idx 1, .key "pets"]], [.key "name", .idx 1, .key "pets"]) := by decide

theorem inplace_reversal_misplaces :
    resolve (.obj [("pets", .arr [.null, .obj [("name", .str "rex")]])]) [.key "name", .idx 1, .key "pets"] = none ∧
    resolve (.obj [("pets", .arr [.null, .obj [("name", .str "rex")]])]) [.key "pets", .idx 1, .key "name"] = some (.str "rex") := by
  constructor <;> simp [resolve, resolve1, lookup]

/-- the same through `openapi3filter.ConvertErrors` on an enum error (two `JSONPointer()` calls inside one conversion:
the object is back where it was, but the next observation after a NON-enum conversion is flipped) -/
theorem inplace_reversal_witness_convert :
    (observe false [.key "kind", .key "pet"] [.convertErrors false, .jsonPointer]).1 = [[.key "pet", .key "kind"], [.key "kind", .key "pet"]] := by decide

/-- non-vacuity: a sequence with five pointer-showing observations on a three-token path -/
example : (observe codeCopies [.key "name", .idx 1, .key "pets"] reobsSeq).1.length = 5 := by decide

end KinModel.Schema
