/-
C18 — a schema generated from a Go type accepts every JSON encoding of that type.
Property theorems only. Model and spec: KinModel/Gen3.lean; helper lemmas and the relation `RelS`
("schema s describes Go type t"): KinModel/Lemmas/C18.lean.

Full-strength statement (the property):
    genRoot Δ all fuel t = (.ok s, σ) → IsChoice σ Γ → HasType Δ v t → encode Δ t v ≠ .null →
      Sat Γ s (encode Δ t v)
The code deviates in three classes, each with a kernel-checked witness below:
    NilAtCycle (DESIGN §7 #19), HasQuoted (#32), DupNames (new).
-/
import KinModel.Lemmas.C18Gen
namespace KinModel.Gen3

/-- The executable oracle used by the driver is the specification: `acceptB` decides `Sat`. -/
theorem acceptB_iff (Γ : Comps) (s : Sch) (j : J) : acceptB Γ s j = true ↔ Sat Γ s j :=
  acceptB_iff' Γ j s

/-- Finding #19 is the only difference between the relaxed relation used in the proofs and `Sat`:
away from `null` at cycle positions they coincide. -/
theorem sat_of_relaxed (Γ : Comps) (s : Sch) (j : J) (h : Sat' true Γ s j) (hn : ¬ NilAtCycle Γ s j) :
    Sat Γ s j := by
  apply sat_of_relaxed' Γ j s h
  cases hb : nilAtCycB Γ s j with
  | false => rfl
  | true => exact absurd hb hn

/-- **Encoder soundness (all types, all values).** If `s` describes the Go type `t` (relation `RelS`, which is
what the generator establishes, see `gen_rel`), the components describe the declared structs they are named
after and resolve, then the JSON that encoding/json produces for any value of type `t` satisfies `s` —
outside the three recorded defect classes. No bound on nesting, pointers at any level, slices, maps,
embedded structs, recursion through the declarations. -/
theorem encode_sound_partial (Δ : Decls) (Γ : Comps) (t : GoType) (s : Sch) (v : GoVal)
    (hΓ : CompsOK Δ Γ) (hrel : RelS Δ (okΓ Γ) t s) (hv : HasType Δ v t)
    (hq : ¬ HasQuoted Δ t) (hd : ¬ DupNames Δ t) (hn : ¬ NilAtCycle Γ s (encode Δ t v)) :
    Sat Γ s (encode Δ t v) := by
  have hq' : heredAll quotedIn Δ t = false := by
    cases h : heredAll quotedIn Δ t with | false => rfl | true => exact absurd h hq
  have hd' : heredAll dupIn Δ t = false := by
    cases h : heredAll dupIn Δ t with | false => rfl | true => exact absurd h hd
  obtain ⟨c1, c2⟩ := clean2 hq' hd'
  exact sat_of_relaxed Γ s _ (sound_val Δ Γ hΓ c2 v t s hv c1 hrel) hn

/-- **The generator establishes the relation (all types, all fuel).** Whatever `GenerateSchemaRef` returns for a
type describes its pointer-stripped type, and every schema it recorded under a declared struct's name — the
candidates for the component map — describes that struct. Proved through the type table (`g.Types`, keyed by
the type including pointer-ness), the parent chain and cycle cutting, field discovery and name-ordered property
insertion. `σ.anon = false`: no cycle was cut at a type whose spine does not end in a declared struct (ghost
flag; the driver reports it, the harness never produces it). -/
theorem gen_rel (Δ : Decls) (all : Bool) (fuel : Nat) (t : GoType) (s : Sch) (σ : St)
    (hg : genRoot Δ all fuel t = (.ok s, σ)) (ha : σ.anon = false) :
    RelS Δ (okσ σ) (stripPtr t) s ∧
    ∀ n s', s' ∈ candidatesFor σ n → RelS Δ (okσ σ) (.named n) s' := by
  have hi : Inv Δ {} := ⟨fun _ _ h => (by cases h), fun _ _ h => (by cases h)⟩
  have h := (gen_good Δ all fuel).1 [] t {} hi
  unfold genRoot at hg
  rw [hg] at h
  obtain ⟨h1, _, h3⟩ := h ha
  exact ⟨h3 s rfl, fun n s' hm => h1 n s' (mem_candidatesFor hm)⟩

/-- **C18 main theorem (partial).** For every declaration list, every Go type of the supported kinds, both option
settings, every value of the type that does not encode as `null`, and every component map the export loop can
produce in which the registered names are present: the JSON produced by encoding/json satisfies the generated
schema — unless the type uses the `,string` option (#32), two discovered fields of one struct share a JSON
name (new finding), or a `null` meets a position produced by cycle cutting (#19).
Not proved here (checked on every case by the differential run): that enough fuel exists (`gen_finite`) and
that the export loop fills every registered name (`Complete`, i.e. `gen_refs_resolve`). -/
theorem gen_sound_partial (Δ : Decls) (all : Bool) (fuel : Nat) (t : GoType) (s : Sch) (σ : St) (Γ : Comps) (v : GoVal)
    (hg : genRoot Δ all fuel t = (.ok s, σ)) (ha : σ.anon = false)
    (hch : IsChoice σ Γ) (hco : Complete σ Γ)
    (hv : HasType Δ v t) (hnn : encode Δ t v ≠ .null)
    (hq : ¬ HasQuoted Δ t) (hd : ¬ DupNames Δ t) (hn : ¬ NilAtCycle Γ s (encode Δ t v)) :
    Sat Γ s (encode Δ t v) := by
  obtain ⟨hr, hc⟩ := gen_rel Δ all fuel t s σ hg ha
  have hmono := okΓ_of_complete hco
  obtain ⟨v', hv', he⟩ := strip_value Δ v t hv hnn
  have hΓ : CompsOK Δ Γ := by
    intro n s' hl
    exact relS_mono hmono s' _ (hc n s' (hch n s' hl).2)
  rw [← he] at hn ⊢
  exact encode_sound_partial Δ Γ (stripPtr t) s v' hΓ (relS_mono hmono s _ hr) hv'
    (by unfold HasQuoted at hq ⊢; rwa [heredAll_strip]) (by unfold DupNames at hd ⊢; rwa [heredAll_strip]) hn

/-- The integer bounds table admits every value of the kind (all ten kinds, extremes included). -/
theorem int_bounds_admit (k : IntKind) (n : Int) (h : inRange k n = true) :
    NumOK "integer" (kindFmt k) (kindLo k) (kindHi k) n 0 := by
  simp only [inRange, decide_eq_true_eq] at h
  cases k <;>
    simp [NumOK, GeOpt, LeOpt, fmtLo, fmtHi, kindFmt, kindLo, kindHi, intLo, intHi] at h ⊢ <;> omega

/-- … and for the kinds with two-sided bounds it admits nothing else (the table is exact). -/
theorem int_bounds_exact (k : IntKind) (n : Int) (hk : k ≠ .int ∧ k ≠ .uint ∧ k ≠ .uint64)
    (h : NumOK "integer" (kindFmt k) (kindLo k) (kindHi k) n 0) : inRange k n = true := by
  simp only [inRange, decide_eq_true_eq]
  cases k <;>
    simp [NumOK, GeOpt, LeOpt, fmtLo, fmtHi, kindFmt, kindLo, kindHi, intLo, intHi] at h hk ⊢ <;> omega


/-! ### witnesses (kernel-checked on the model; the same inputs are in corpus/C18 and replayed on the Go code) -/

def tagF (go tag : String) : FMeta := { goName := go, hasTag := true, tagName := tag }

/-- `type Node struct { Next *Node `json:"next"` }` -/
def ΔNode : Decls := [("Node", [(tagF "Next" "next", .ptr (.named "Node"))])]
def sNode : Sch := .node "object" false "" none none none [("next", .ref "Node")] none false

/-- Finding #19: the generator's output for `Node` (root and component), the value `Node{}`, its encoding
`{"next":null}`: in the domain, inside `NilAtCycle`, and rejected. -/
theorem witness_nil_at_cycle :
    (genRoot ΔNode false 10 (.named "Node")).1 = .ok sNode ∧
    candidatesFor (genRoot ΔNode false 10 (.named "Node")).2 "Node" = [sNode] ∧
    HasType ΔNode (.struct [.nil]) (.named "Node") ∧
    encode ΔNode (.named "Node") (.struct [.nil]) = .obj [("next", .null)] ∧
    NilAtCycle [("Node", sNode)] sNode (.obj [("next", .null)]) ∧
    acceptB [("Node", sNode)] sNode (.obj [("next", .null)]) = false := by
  refine ⟨by rfl, by rfl, by decide, by rfl, by decide, by decide⟩

/-- Finding #32: `struct { N int `json:"n,string"` }` with N = 5 encodes `{"n":"5"}`; the generated schema
demands an integer. -/
def tQuoted : GoType := .struct [({ goName := "N", hasTag := true, tagName := "n", quoted := true }, .int .int)]
theorem witness_quoted :
    (genRoot [] false 10 tQuoted).1 = .ok (.node "object" false "" none none none [("n", leaf "integer" false "" none none)] none false) ∧
    HasType [] (.struct [.i 5]) tQuoted ∧ HasQuoted [] tQuoted ∧
    encode [] tQuoted (.struct [.i 5]) = .obj [("n", .str "5")] ∧
    acceptB [] (.node "object" false "" none none none [("n", leaf "integer" false "" none none)] none false)
      (.obj [("n", .str "5")]) = false := by
  refine ⟨by rfl, by decide, by decide, by rfl, by decide⟩

/-- New finding: `struct { X string `json:"x"`; Inner }` with `Inner struct { X int `json:"x"` }`:
encoding/json keeps the outer field (`{"x":"a"}`), the generator keeps the embedded one (integer). -/
def tDup : GoType := .struct [(tagF "X" "x", .string),
  ({ goName := "Inner", embedded := true }, .struct [(tagF "X" "x", .int .int)])]
theorem witness_dup_names :
    (genRoot [] false 10 tDup).1 = .ok (.node "object" false "" none none none [("x", leaf "integer" false "" none none)] none false) ∧
    HasType [] (.struct [.s "a", .struct [.i 1]]) tDup ∧ DupNames [] tDup ∧
    encode [] tDup (.struct [.s "a", .struct [.i 1]]) = .obj [("x", .str "a")] ∧
    acceptB [] (.node "object" false "" none none none [("x", leaf "integer" false "" none none)] none false)
      (.obj [("x", .str "a")]) = false := by
  refine ⟨by rfl, by decide, by decide, by rfl, by decide⟩

/-- Map-order nondeterminism of the component export: for `struct { A Node; B *Node }` the name `Node` has
two candidates, one nullable and one not; with the first `{"next":null}` below the reference is accepted,
with the second it is rejected. -/
def tBoth : GoType := .struct [(tagF "A" "a", .named "Node"), (tagF "B" "b", .ptr (.named "Node"))]
theorem witness_component_choice :
    (candidatesFor (genRoot ΔNode false 10 tBoth).2 "Node").map
      (fun s => match s with | .node _ nl _ _ _ _ _ _ _ => nl | _ => false) = [true, false] := by
  decide

/-! ### non-vacuity: a recursive type, a value with a non-nil and a nil pointer outside every exclusion class -/

/-- `type T struct { Kids []*T `json:"kids"`; N int8 `json:"n"` }` with `T{Kids: {&T{Kids: {}, N: -128}}, N: 127}` -/
def ΔKids : Decls := [("T", [(tagF "Kids" "kids", .slice (.ptr (.named "T"))), (tagF "N" "n", .int .int8)])]
def vKids : GoVal := .struct [.slice [.ref (.struct [.slice [], .i (-128)])], .i 127]
def sKids : Sch := .node "object" false "" none none none
  [("kids", .node "array" false "" none none (some (.ref "T")) [] none false),
   ("n", leaf "integer" false "" (some (-128)) (some 127))] none false

example : (genRoot ΔKids false 12 (.named "T")).1 = .ok sKids ∧
    HasType ΔKids vKids (.named "T") ∧ ¬ HasQuoted ΔKids (.named "T") ∧ ¬ DupNames ΔKids (.named "T") ∧
    ¬ NilAtCycle [("T", sKids)] sKids (encode ΔKids (.named "T") vKids) ∧
    acceptB [("T", sKids)] sKids (encode ΔKids (.named "T") vKids) = true := by
  refine ⟨by rfl, by decide, by decide, by decide, by decide, by decide⟩

end KinModel.Gen3
