/-
C18 — a schema generated from a Go type accepts every JSON encoding of that type.
Property theorems only. Model and spec: KinModel/Gen3.lean; helper lemmas and the relation `RelS`
("schema s describes Go type t"): KinModel/Lemmas/C18.lean.

Full-strength statement (the property):
    genRoot Δ all fuel t = (.ok s, σ) → IsChoice σ Γ → HasType Δ v t → encode Δ t v ≠ .null →
      Sat Γ s (encode Δ t v)
The code deviates in three classes, each with a kernel-checked witness below:
    NilAtCycle (DESIGN §7 #19), HasQuoted (#32), DupNames (new).
-/
import KinModel.Lemmas.C18
namespace KinModel.Gen3

/-- The executable oracle used by the driver is the specification: `acceptB` decides `Sat`. -/
theorem acceptB_iff (Γ : Comps) (s : Sch) (j : J) : acceptB Γ s j = true ↔ Sat Γ s j :=
  acceptB_iff' Γ j s

/-- Finding #19 is the only difference between the relaxed relation used in the proofs and `Sat`:
away from `null` at cycle positions they coincide. -/
theorem sat_of_relaxed (Γ : Comps) (s : Sch) (j : J) (h : Sat' true Γ s j) (hn : ¬ NilAtCycle Γ s j) :
    Sat Γ s j := by
  apply sat_of_relaxed' Γ j s h
  cases hb : nilAtCycB Γ s j with
  | false => rfl
  | true => exact absurd hb hn

/-- **Encoder soundness (all types, all values).** If `s` describes the Go type `t` (relation `RelS`, which is
what the generator establishes, see `gen_rel`), the components describe the declared structs they are named
after and resolve, then the JSON that encoding/json produces for any value of type `t` satisfies `s` —
outside the three recorded defect classes. No bound on nesting, pointers at any level, slices, maps,
embedded structs, recursion through the declarations. -/
theorem encode_sound_partial (Δ : Decls) (Γ : Comps) (t : GoType) (s : Sch) (v : GoVal)
    (hΓ : CompsOK Δ Γ) (hrel : RelS Δ (okΓ Γ) t s) (hv : HasType Δ v t)
    (hq : ¬ HasQuoted Δ t) (hd : ¬ DupNames Δ t) (hn : ¬ NilAtCycle Γ s (encode Δ t v)) :
    Sat Γ s (encode Δ t v) := by
  have hq' : heredAll quotedIn Δ t = false := by
    cases h : heredAll quotedIn Δ t with | false => rfl | true => exact absurd h hq
  have hd' : heredAll dupIn Δ t = false := by
    cases h : heredAll dupIn Δ t with | false => rfl | true => exact absurd h hd
  obtain ⟨c1, c2⟩ := clean2 hq' hd'
  exact sat_of_relaxed Γ s _ (sound_val Δ Γ hΓ c2 v t s hv c1 hrel) hn

/-- The integer bounds table admits every value of the kind (all ten kinds, extremes included). -/
theorem int_bounds_admit (k : IntKind) (n : Int) (h : inRange k n = true) :
    NumOK "integer" (kindFmt k) (kindLo k) (kindHi k) n 0 := by
  simp only [inRange, decide_eq_true_eq] at h
  cases k <;>
    simp [NumOK, GeOpt, LeOpt, fmtLo, fmtHi, kindFmt, kindLo, kindHi, intLo, intHi] at h ⊢ <;> omega

/-- … and for the kinds with two-sided bounds it admits nothing else (the table is exact). -/
theorem int_bounds_exact (k : IntKind) (n : Int) (hk : k ≠ .int ∧ k ≠ .uint ∧ k ≠ .uint64)
    (h : NumOK "integer" (kindFmt k) (kindLo k) (kindHi k) n 0) : inRange k n = true := by
  simp only [inRange, decide_eq_true_eq]
  cases k <;>
    simp [NumOK, GeOpt, LeOpt, fmtLo, fmtHi, kindFmt, kindLo, kindHi, intLo, intHi] at h hk ⊢ <;> omega

end KinModel.Gen3
