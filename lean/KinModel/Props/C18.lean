/-
C18 — a schema generated from a Go type accepts every JSON encoding of that type.
Property theorems only. Model and spec: KinModel/Gen3.lean; helper lemmas and the relation `RelS`
("schema s describes Go type t"): KinModel/Lemmas/C18.lean, C18Gen.lean, C18Fin.lean.

Full-strength statement (the property), for every option set `o`:
    genRoot Δ o fuel t = (.ok s, σ) → LoopResult σ Γ → HasType Δ v t → encode Δ t v ≠ .null →
      Sat Γ s (encode Δ t v) ∧ Resolves Γ s          and          ∃ fuel, (genRoot Δ o fuel t).1 ≠ .nofuel
The code deviates in five classes, each with a kernel-checked witness below:
    NilAtCycle (DESIGN §7 #19), HasQuoted (#32), DupNames, Dangling, WrongComponent (round 3).
Repaired (regression theorem below): RecContainer (F-C18-6, 0916db1).
-/
import KinModel.Lemmas.C18Seq
import KinModel.Gen.GenKinds
import KinModel.Gen.GenFlow
import KinModel.Gen3Flow
namespace KinModel.Gen3

/-- The executable oracle used by the driver is the specification: `acceptB` decides `Sat`. -/
theorem acceptB_iff (Γ : Comps) (s : Sch) (j : J) : acceptB Γ s j = true ↔ Sat Γ s j :=
  acceptB_iff' Γ j s

/-- Finding #19 is the only difference between the relaxed relation used in the proofs and `Sat`:
away from `null` at reference / cycle positions they coincide. -/
theorem sat_of_relaxed (Γ : Comps) (s : Sch) (j : J) (h : Sat' true Γ s j) (hn : ¬ NilAtCycle Γ s j) :
    Sat Γ s j := by
  apply sat_of_relaxed' Γ j s h
  cases hb : nilAtCycB Γ s j with
  | false => rfl
  | true => exact absurd hb hn

/-- **Encoder soundness (all types, all values).** If `s` describes the Go type `t` (relation `RelS`, which is
what the generator establishes, see `gen_rel`), the components describe the declared structs they are named
after (under an injective type-name generator) and resolve, then the JSON that encoding/json produces for any value
of type `t` satisfies `s` — outside the three recorded defect classes of the encoder/field-discovery pair. No bound
on nesting; pointers at any level, slices, maps, arrays, defined types over every kind (a slice of a defined uint8
type is base64 text), embedded structs and embedded defined types, yaml-named properties, recursion through the
declarations. -/
theorem encode_sound_partial (Δ : Decls) (tn : String → String) (Γ : Comps) (t : GoType) (s : Sch) (v : GoVal)
    (hΓ : CompsOK Δ tn Γ) (hinj : TnInj Δ tn) (hrel : RelS Δ tn (okΓ Γ) t s) (hv : HasType Δ v t)
    (hq : ¬ HasQuoted Δ t) (hd : ¬ DupNames Δ t) (hn : ¬ NilAtCycle Γ s (encode Δ t v)) :
    Sat Γ s (encode Δ t v) := by
  have hq' : heredAll quotedIn Δ t = false := by
    cases h : heredAll quotedIn Δ t with | false => rfl | true => exact absurd h hq
  have hd' : heredAll dupIn Δ t = false := by
    cases h : heredAll dupIn Δ t with | false => rfl | true => exact absurd h hd
  obtain ⟨c1, c2⟩ := clean2 hq' hd'
  exact sat_of_relaxed Γ s _ (sound_val Δ tn Γ hΓ hinj c2 v t s hv c1 hrel) hn

/-- **The generator establishes the relation (all types, all option sets, all fuel).** Whatever `GenerateSchemaRef`
returns for a type describes its pointer-stripped type, and every schema it recorded for the export loop describes
the declared struct whose Go name it carries and refers to registered names only. Proved through the type table
(`g.Types`, keyed by the type including pointer-ness, bypassed under a SchemaCustomizer), the parent chain and cycle
cutting, field discovery and name-ordered property insertion, the customizer's three outcomes, ThrowErrorOnCycle,
component export with generated names. `σ.anon = false`: no component name was registered for a type that is not a
declared struct (ghost flag; part of `WrongComponent`). -/
theorem gen_rel (Δ : Decls) (o : Opts) (fuel : Nat) (t : GoType) (s : Sch) (σ : St)
    (hg : genRoot Δ o fuel t = (.ok s, σ)) (ha : σ.anon = false) :
    RelS Δ (typeName o) (okσ σ) (stripPtr t) s ∧ ∀ e, e ∈ σ.refs → RefGood Δ o σ e := by
  have hi : Inv Δ o {} := ⟨fun _ _ h => (by cases h), fun _ h => (by cases h)⟩
  have h := (gen_good Δ o fuel).1 [] "_root" t {} hi
  unfold genRoot at hg
  rw [hg] at h
  obtain ⟨h1, _, h3⟩ := h ha
  exact ⟨h3 s rfl, h1⟩

/-- **"References resolve within the component map supplied by the caller"** — for every type, option set and
outcome of the export loop: every `$ref` in the generated schema and in every stored component names a stored
component. Fails only when a registered name has no candidate (`Dangling`, finding F-C18-4) or a component name was
registered for an anonymous type (`σ.anon`, part of F-C18-5). -/
theorem gen_refs_resolve (Δ : Decls) (o : Opts) (fuel : Nat) (t : GoType) (s : Sch) (σ : St) (Γ : Comps)
    (hg : genRoot Δ o fuel t = (.ok s, σ)) (ha : σ.anon = false) (hl : LoopResult σ Γ) (hd : ¬ Dangling σ) :
    Resolves Γ s := by
  obtain ⟨hr, hc⟩ := gen_rel Δ o fuel t s σ hg ha
  have hd' : danglingB σ = false := by
    cases h : danglingB σ with | false => rfl | true => exact absurd h hd
  have hco := complete_of_loop hl hd'
  have hres : ∀ n, okσ σ n → (resolve Γ (.ref n)).isSome = true := by
    intro n hn
    obtain ⟨nd, hnd⟩ := okΓ_of_complete hco n hn
    simp [hnd]
  refine ⟨fun n hn => hres n (relS_refNames _ _ hr n hn), ?_⟩
  intro k c hk n hn
  obtain ⟨_, g, hmem⟩ := mem_candidatesFor (hl.1 k c hk).2
  exact hres n ((hc _ hmem).2 n hn)

/-- **C18 main theorem (partial).** For every declaration list, every Go type of the supported kinds, every option
set (UseAllExportedFields, ThrowErrorOnCycle, SchemaCustomizer outcomes, CreateComponentSchemas with its three flags,
CreateTypeNameGenerator injective on the declared names), every value of the type that does not encode as `null`,
and every component map the export loop can produce: the JSON produced by encoding/json satisfies the generated
schema — unless the type uses the `,string` option (#32), two discovered fields of one struct share a name, a `null`
meets a reference / cycle position (#19), a registered component has no schema (`Dangling`) or may receive the
schema of another type (`WrongComponent`). -/
theorem gen_sound_partial (Δ : Decls) (o : Opts) (fuel : Nat) (t : GoType) (s : Sch) (σ : St) (Γ : Comps) (v : GoVal)
    (hg : genRoot Δ o fuel t = (.ok s, σ)) (hinj : TnInj Δ (typeName o))
    (hl : LoopResult σ Γ) (hdg : ¬ Dangling σ) (hw : ¬ WrongComponent o σ)
    (hv : HasType Δ v t) (hnn : encode Δ t v ≠ .null)
    (hq : ¬ HasQuoted Δ t) (hd : ¬ DupNames Δ t) (hn : ¬ NilAtCycle Γ s (encode Δ t v)) :
    Sat Γ s (encode Δ t v) := by
  have hw' : wrongCandB o σ = false := by
    cases h : wrongCandB o σ with | false => rfl | true => exact absurd h hw
  have ha : σ.anon = false := by
    simp only [wrongCandB, Bool.or_eq_false_iff] at hw'; exact hw'.1
  have hd' : danglingB σ = false := by
    cases h : danglingB σ with | false => rfl | true => exact absurd h hdg
  obtain ⟨hr, hc⟩ := gen_rel Δ o fuel t s σ hg ha
  have hco := complete_of_loop hl hd'
  have hmono := okΓ_of_complete hco
  obtain ⟨v', hv', he⟩ := strip_value Δ v t hv hnn
  have hΓ : CompsOK Δ (typeName o) Γ := by
    intro m s' hlk
    obtain ⟨hcm, hcand⟩ := hl.1 m s' hlk
    obtain ⟨hp, n, hmem⟩ := mem_candidatesFor hcand
    obtain ⟨hne, htn⟩ := wrong_false hw' hmem hcm hp
    have hrel := (hc _ hmem).1 hne
    exact ⟨n, htn, declared_of_props hrel hp, relS_mono hmono s' _ hrel⟩
  rw [← he] at hn ⊢
  exact encode_sound_partial Δ (typeName o) Γ (stripPtr t) s v' hΓ hinj (relS_mono hmono s _ hr) hv'
    (by unfold HasQuoted at hq ⊢; rwa [heredAll_strip]) (by unfold DupNames at hd ⊢; rwa [heredAll_strip]) hn

/-! ### reuse: a sequence of `GenerateSchemaRef` calls on one `Generator` (state kept between the calls) -/

/-- **The generator establishes the relation after any history of calls on the same generator** (all types, option
sets, histories of any length, pointer types at the root included): what `g.GenerateSchemaRef(t)` returns after
`g.GenerateSchemaRef(p)` for every `p` of `pre` describes `t`, and every entry recorded for the export loop — by this call
or an earlier one — describes the declared struct it is named after. At full strength since the repair of F-C18-7 (the
non-nullable schema of a root pointer is no longer entered into the type table; `regression_root_ptr_before`). -/
theorem gen_rel_reuse (Δ : Decls) (o : Opts) (fuel : Nat) (pre : List GoType) (t : GoType) (s : Sch) (σ : St)
    (hg : genAfter Δ o fuel pre t = (.ok s, σ)) (ha : σ.anon = false) :
    RelS Δ (typeName o) (okσ σ) (stripPtr t) s ∧ ∀ e, e ∈ σ.refs → RefGood Δ o σ e := by
  have hi0 : Inv Δ o {} := ⟨fun _ _ h => (by cases h), fun _ h => (by cases h)⟩
  unfold genAfter at hg
  have ha1 : (genSeq Δ o fuel pre {}).anon = false := by
    have hm := (gen_mono Δ o fuel).1 [] "_root" t (genSeq Δ o fuel pre {})
    rw [hg] at hm
    exact hm.2 ha
  have hi := genSeq_inv Δ o fuel pre {} hi0 ha1
  have h := (gen_good Δ o fuel).1 [] "_root" t _ hi
  rw [hg] at h
  obtain ⟨h1, _, h3⟩ := h ha
  exact ⟨h3 s rfl, h1⟩

/-- **Soundness after any history of calls on the same generator (partial).** The statement of `gen_sound_partial`
for the schema returned by the LAST of a sequence of `GenerateSchemaRef` calls on one generator and any component map
the export loop can produce from the accumulated state — outside the five classes of `gen_sound_partial` and nothing
else (the sixth class `RootPtrBefore` was deleted with the repair of F-C18-7). -/
theorem gen_sound_reuse_partial (Δ : Decls) (o : Opts) (fuel : Nat) (pre : List GoType) (t : GoType) (s : Sch) (σ : St)
    (Γ : Comps) (v : GoVal)
    (hg : genAfter Δ o fuel pre t = (.ok s, σ)) (hinj : TnInj Δ (typeName o))
    (hl : LoopResult σ Γ) (hdg : ¬ Dangling σ) (hw : ¬ WrongComponent o σ)
    (hv : HasType Δ v t) (hnn : encode Δ t v ≠ .null)
    (hq : ¬ HasQuoted Δ t) (hd : ¬ DupNames Δ t) (hn : ¬ NilAtCycle Γ s (encode Δ t v)) :
    Sat Γ s (encode Δ t v) := by
  have hw' : wrongCandB o σ = false := by
    cases h : wrongCandB o σ with | false => rfl | true => exact absurd h hw
  have ha : σ.anon = false := by
    simp only [wrongCandB, Bool.or_eq_false_iff] at hw'; exact hw'.1
  have hd' : danglingB σ = false := by
    cases h : danglingB σ with | false => rfl | true => exact absurd h hdg
  obtain ⟨hr, hc⟩ := gen_rel_reuse Δ o fuel pre t s σ hg ha
  have hco := complete_of_loop hl hd'
  have hmono := okΓ_of_complete hco
  obtain ⟨v', hv', he⟩ := strip_value Δ v t hv hnn
  have hΓ : CompsOK Δ (typeName o) Γ := by
    intro m s' hlk
    obtain ⟨hcm, hcand⟩ := hl.1 m s' hlk
    obtain ⟨hp, n, hmem⟩ := mem_candidatesFor hcand
    obtain ⟨hne, htn⟩ := wrong_false hw' hmem hcm hp
    have hrel := (hc _ hmem).1 hne
    exact ⟨n, htn, declared_of_props hrel hp, relS_mono hmono s' _ hrel⟩
  rw [← he] at hn ⊢
  exact encode_sound_partial Δ (typeName o) Γ (stripPtr t) s v' hΓ hinj (relS_mono hmono s _ hr) hv'
    (by unfold HasQuoted at hq ⊢; rwa [heredAll_strip]) (by unfold DupNames at hd ⊢; rwa [heredAll_strip]) hn

/-- … and the references of the last schema and of every stored component resolve in that map. -/
theorem gen_refs_resolve_reuse (Δ : Decls) (o : Opts) (fuel : Nat) (pre : List GoType) (t : GoType) (s : Sch)
    (σ : St) (Γ : Comps) (hg : genAfter Δ o fuel pre t = (.ok s, σ)) (ha : σ.anon = false)
    (hl : LoopResult σ Γ) (hd : ¬ Dangling σ) : Resolves Γ s := by
  obtain ⟨hr, hc⟩ := gen_rel_reuse Δ o fuel pre t s σ hg ha
  have hd' : danglingB σ = false := by
    cases h : danglingB σ with | false => rfl | true => exact absurd h hd
  have hco := complete_of_loop hl hd'
  have hres : ∀ n, okσ σ n → (resolve Γ (.ref n)).isSome = true := by
    intro n hn
    obtain ⟨nd, hnd⟩ := okΓ_of_complete hco n hn
    simp [hnd]
  refine ⟨fun n hn => hres n (relS_refNames _ _ hr n hn), ?_⟩
  intro k c hk n hn
  obtain ⟨_, g, hmem⟩ := mem_candidatesFor (hl.1 k c hk).2
  exact hres n ((hc _ hmem).2 n hn)

/-- **Finite after any history, full strength**: on a generator that was used before — for any types, pointer types
included, whatever those calls returned — `GenerateSchemaRef(t)` terminates within the bound of `gen_finite` (the state
never lengthens a run: a hit in the type table returns at once). -/
theorem gen_finite_reuse (Δ : Decls) (o : Opts) (pre : List GoType) (t : GoType) (fuel : Nat) (h : enoughFuel Δ t ≤ fuel) :
    (genAfter Δ o fuel pre t).1 ≠ .nofuel := by
  unfold genAfter
  exact gen_enough_fuel_state Δ o t fuel _ h

/-- a history of no calls is the single call of `gen_sound_partial` -/
theorem genAfter_nil (Δ : Decls) (o : Opts) (fuel : Nat) (t : GoType) : genAfter Δ o fuel [] t = genRoot Δ o fuel t := rfl

/-- **No dangling component under the default option set** (no type-name generator, no component export, no
customizer; UseAllExportedFields and ThrowErrorOnCycle arbitrary): every name registered by cycle cutting is the name
of a declared struct that is still on the parent chain (the chain below a container continues with its element type,
so a container met again lies above the struct at the end of its spine), and that struct is stored with at least
the property that led to the cut. `Dangling` (F-C18-4) therefore needs a type-name generator, component export or a
customizer. -/
theorem gen_no_dangling_default (Δ : Decls) (o : Opts) (ho : o.tng = none ∧ o.exp = false ∧ o.cust = false)
    (fuel : Nat) (t : GoType) (s : Sch) (σ : St) (hg : genRoot Δ o fuel t = (.ok s, σ)) (ha : σ.anon = false) :
    ¬ Dangling σ := by
  have := default_no_dangling Δ o ⟨ho.1, ho.2.1, ho.2.2⟩ fuel t s σ hg ha
  unfold Dangling; rw [this]; simp

/-- … hence, under the default option set, references resolve with no hypothesis besides the ghost flag … -/
theorem gen_refs_resolve_default (Δ : Decls) (o : Opts) (ho : o.tng = none ∧ o.exp = false ∧ o.cust = false)
    (fuel : Nat) (t : GoType) (s : Sch) (σ : St) (Γ : Comps)
    (hg : genRoot Δ o fuel t = (.ok s, σ)) (ha : σ.anon = false) (hl : LoopResult σ Γ) : Resolves Γ s :=
  gen_refs_resolve Δ o fuel t s σ Γ hg ha hl (gen_no_dangling_default Δ o ho fuel t s σ hg ha)

/-- … and soundness needs neither the `Dangling` exclusion nor the injectivity hypothesis. -/
theorem gen_sound_default (Δ : Decls) (o : Opts) (ho : o.tng = none ∧ o.exp = false ∧ o.cust = false)
    (fuel : Nat) (t : GoType) (s : Sch) (σ : St) (Γ : Comps) (v : GoVal)
    (hg : genRoot Δ o fuel t = (.ok s, σ)) (hl : LoopResult σ Γ) (hw : ¬ WrongComponent o σ)
    (hv : HasType Δ v t) (hnn : encode Δ t v ≠ .null)
    (hq : ¬ HasQuoted Δ t) (hd : ¬ DupNames Δ t) (hn : ¬ NilAtCycle Γ s (encode Δ t v)) :
    Sat Γ s (encode Δ t v) := by
  have ha : σ.anon = false := by
    cases h : σ.anon with
    | false => rfl
    | true => exact absurd (by simp [WrongComponent, wrongCandB, h]) hw
  exact gen_sound_partial Δ o fuel t s σ Γ v hg (tnInj_none Δ o ho.1) hl
    (gen_no_dangling_default Δ o ho fuel t s σ hg ha) hw hv hnn hq hd hn

/-- Under the default option set `WrongComponent` (F-C18-5) is the ghost flag alone — a cycle cut at an anonymous
struct — provided no component is named "" (the name all anonymous structs are stored under; decidable on the outcome):
every stored entry is keyed by the Go name of its own type. The other two forms of F-C18-5 need ExportComponentSchemas. -/
theorem gen_wrong_component_default (Δ : Decls) (o : Opts) (ho : o.tng = none ∧ o.exp = false ∧ o.cust = false)
    (fuel : Nat) (t : GoType) (s : Sch) (σ : St) (hg : genRoot Δ o fuel t = (.ok s, σ)) (he : "" ∉ σ.comps) :
    WrongComponent o σ ↔ σ.anon = true := by
  unfold WrongComponent
  rw [default_wrong_iff_anon Δ o ⟨ho.1, ho.2.1, ho.2.2⟩ fuel t σ (.ok s) hg he]

/-- The injectivity hypothesis of `gen_sound_partial` holds outright for the usual type-name generators: none, and
"prefix + Go name"; for a generator with an exception table it is the decidable check `tnInj_of_check`. -/
theorem type_names_injective (Δ : Decls) (o : Opts) (h : o.tng = none ∨ ∃ p, o.tng = some ⟨p, []⟩) :
    TnInj Δ (typeName o) := by
  rcases h with h | ⟨p, h⟩
  · exact tnInj_none Δ o h
  · exact tnInj_prefix Δ o p h

/-- **"Schemas generated for recursive types are finite"** — the generator terminates on every type graph, for every
option set, at full strength: with `enoughFuel Δ t` fuel (a bound computed from the declarations: along the parent
chain every declared struct is entered at most once; between two declared structs the recursion descends into the
type) the model never runs out of fuel, and running out of fuel is the only way it can fail to return: since the repair
of F-C18-6 (0916db1) generateCycleSchemaRef is structurally recursive (`cycleSch` is a total function; it gives a
container met again below itself an unconstrained schema). No hypothesis on the declarations or the type: cyclic,
mutually recursive, undeclared names, `type L []L`. -/
theorem gen_finite (Δ : Decls) (o : Opts) (t : GoType) (fuel : Nat) (h : enoughFuel Δ t ≤ fuel) :
    (genRoot Δ o fuel t).1 ≠ .nofuel :=
  gen_enough_fuel Δ o t fuel h

/-! ### the tables read off the source (regenerated by every run: go/cmd/extract, table GenKinds) -/

/-- the translator could read every case of the kind switch, every tag access and the option structs -/
theorem gen_tables_read : Gen.genUnrecognised = [] := by decide

/-- the kind switch of generateWithoutSaving — type, format, minimum, maximum per kind, the bounds resolved from the
package's constants (`float64(math.MaxUint64)` is 2^64) — is the model's table … -/
theorem genKinds_is_model : Gen.genKinds = modelKinds := by decide

/-- … and that table is what the model's `genBody` produces for each of these kinds -/
theorem modelKinds_is_genBody (r : GoType × String × String × String × Option Int × Option Int) (hr : r ∈ modelKindsT)
    (nl : Bool) : (genBody [] {} 1 [] true "_root" nl r.1 {}).1 = .ok (leaf r.2.2.1 nl r.2.2.2.1 r.2.2.2.2.1 r.2.2.2.2.2) := by
  simp only [modelKindsT, allIntKinds, List.map, List.cons_append, List.nil_append, List.mem_cons, List.not_mem_nil, or_false] at hr
  rcases hr with rfl | rfl | rfl | rfl | rfl | rfl | rfl | rfl | rfl | rfl | rfl | rfl | rfl | rfl <;> rfl

/-- the kinds with code of their own are the ones modelled by hand (Func/Chan are outside the supported kinds) -/
theorem genKindsOther_is_model : Gen.genKindsOther = modelKindsOther := by decide

/-- the struct tags openapi3gen reads (`json` in appendFields, `yaml` in the struct loop under UseAllExportedFields) and
the `json` options it recognises are the ones in the model (`FMeta`) -/
theorem genTags_is_model : Gen.genTagKeys.map (·.2.1) = modelTagKeys ∧ Gen.genTagOptions = modelTagOptions := by decide

/-- the option set of the generator is the one in the model (`Opts`) -/
theorem genOpts_is_model : Gen.genOptFields = modelOptFields := by decide

/-! ### the statement skeleton of the generator functions (regenerated by every run: table GenFlow) -/

/-- the walker could read every statement of the nine functions (and found each of them exactly once) -/
theorem genFlow_read : Gen.genFlowUnrecognised = [] := by decide

set_option maxRecDepth 20000

/-- **The code the model transcribes is the code of the tree under test.** Every condition, switch tag, case list,
loop header, return expression and assignment of `NewSchemaRefForValue` (both), `NewGenerator`, `GenerateSchemaRef`,
`generateSchemaRefFor`, `getStructField`, `generateWithoutSaving`, `generateTypeName` and `generateCycleSchemaRef`, in
source order, is the one `Gen3.lean` was written against (`modelFlow_…`, one definition per function naming the model
definitions that transcribe it): e.g. the byte-slice test looks at the element's KIND (`isU8`), the cycle reference is
named by `generateTypeName` (`cycleName`), `isRoot` is `cap(parents) == 0`, the early `$ref` return is guarded by
ExportComponentSchemas. One theorem per function so that a broken obligation names the function that changed. -/
theorem genFlow_is_model_entry :
    Gen.genFlow_NewSchemaRefForValue = modelFlow_NewSchemaRefForValue ∧ Gen.genFlow_NewGenerator = modelFlow_NewGenerator ∧
    Gen.genFlow_Generator_GenerateSchemaRef = modelFlow_Generator_GenerateSchemaRef := by decide
theorem genFlow_is_model_export_loop :
    Gen.genFlow_Generator_NewSchemaRefForValue = modelFlow_Generator_NewSchemaRefForValue := by decide
theorem genFlow_is_model_schemaRefFor :
    Gen.genFlow_Generator_generateSchemaRefFor = modelFlow_Generator_generateSchemaRefFor := by decide
theorem genFlow_is_model_getStructField : Gen.genFlow_getStructField = modelFlow_getStructField := by decide
theorem genFlow_is_model_withoutSaving :
    Gen.genFlow_Generator_generateWithoutSaving = modelFlow_Generator_generateWithoutSaving := by decide
theorem genFlow_is_model_typeName :
    Gen.genFlow_Generator_generateTypeName = modelFlow_Generator_generateTypeName := by decide
theorem genFlow_is_model_cycleRef :
    Gen.genFlow_Generator_generateCycleSchemaRef = modelFlow_Generator_generateCycleSchemaRef := by decide
/-- … hence the whole table is the transcript -/
theorem genFlow_is_model : Gen.genFlow = modelFlow := by
  unfold Gen.genFlow modelFlow
  rw [genFlow_is_model_entry.1, genFlow_is_model_entry.2.1, genFlow_is_model_entry.2.2, genFlow_is_model_export_loop,
    genFlow_is_model_schemaRefFor, genFlow_is_model_getStructField, genFlow_is_model_withoutSaving,
    genFlow_is_model_typeName, genFlow_is_model_cycleRef]

/-- The integer bounds table admits every value of the kind (all ten kinds, extremes included). -/
theorem int_bounds_admit (k : IntKind) (n : Int) (h : inRange k n = true) :
    NumOK "integer" (kindFmt k) (kindLo k) (kindHi k) n 0 := by
  simp only [inRange, decide_eq_true_eq] at h
  cases k <;>
    simp [NumOK, GeOpt, LeOpt, fmtLo, fmtHi, kindFmt, kindLo, kindHi, intLo, intHi] at h ⊢ <;> omega

/-- … and for the kinds with two-sided bounds it admits nothing else (the table is exact). -/
theorem int_bounds_exact (k : IntKind) (n : Int) (hk : k ≠ .int ∧ k ≠ .uint ∧ k ≠ .uint64)
    (h : NumOK "integer" (kindFmt k) (kindLo k) (kindHi k) n 0) : inRange k n = true := by
  simp only [inRange, decide_eq_true_eq]
  cases k <;>
    simp [NumOK, GeOpt, LeOpt, fmtLo, fmtHi, kindFmt, kindLo, kindHi, intLo, intHi] at h hk ⊢ <;> omega

/-- The validator's `int64` format check (`f.Validate(int64(value))`, which cannot reject a float64 beyond ±2^63) and
the exact reading used by `Sat` agree on every integer of the int64 range — in particular on every encoding of an
`int`/`int64` value; the differential run compares with the validator as built. -/
theorem int64_format_exact_in_range (ty : String) (lo hi : Option Int) (n : Int)
    (h : -9223372036854775808 ≤ n ∧ n ≤ 9223372036854775807) :
    NumOK ty "int64" lo hi n 0 ↔ NumOK ty "" lo hi n 0 := by
  obtain ⟨h1, h2⟩ := h
  simp only [NumOK, GeOpt, LeOpt, fmtLo, fmtHi]
  constructor
  · rintro ⟨h3, h4⟩
    refine ⟨?_, h4⟩
    rcases h3 with h3 | h3 | ⟨h3, h5, _, _⟩
    · exact Or.inl h3
    · exact Or.inr (Or.inl h3)
    · exact Or.inr (Or.inr ⟨h3, h5, by simp, by simp⟩)
  · rintro ⟨h3, h4⟩
    refine ⟨?_, h4⟩
    rcases h3 with h3 | h3 | ⟨h3, h5, _, _⟩
    · exact Or.inl h3
    · exact Or.inr (Or.inl h3)
    · refine Or.inr (Or.inr ⟨h3, h5, ?_, ?_⟩)
      · intro l hl; simp at hl; subst hl; omega
      · intro l hl; simp at hl; subst hl; omega

/-- the check the driver performs on a case implies the injectivity hypothesis of `gen_sound_partial` -/
theorem tnInj_of_check (Δ : Decls) (o : Opts) (h : dupNames (Δ.map (fun d => typeName o d.1)) = false) :
    TnInj Δ (typeName o) := by
  intro a b ha hb hab
  have mem : ∀ {l : List (String × Fields)} {k}, (lookup k l).isSome = true → ∃ v, (k, v) ∈ l := by
    intro l k hk
    cases hl : lookup k l with
    | none => simp [hl] at hk
    | some v => exact ⟨v, lookup_mem hl⟩
  obtain ⟨x, hx⟩ := mem ha
  obtain ⟨y, hy⟩ := mem hb
  clear ha hb
  induction Δ with
  | nil => cases hx
  | cons d r ih =>
    have e : dupNames ((d :: r).map (fun d => typeName o d.1)) =
        ((r.map (fun d => typeName o d.1)).contains (typeName o d.1) || dupNames (r.map (fun d => typeName o d.1))) := rfl
    rw [e] at h
    obtain ⟨h1, h2⟩ := Bool.or_eq_false_iff.mp h
    have hnot : ∀ k v, (k, v) ∈ r → typeName o k ≠ typeName o d.1 := by
      intro k v hm he
      have : (r.map (fun d => typeName o d.1)).contains (typeName o d.1) = true := by
        simp only [List.contains_eq_mem, List.mem_map, decide_eq_true_eq]
        exact ⟨(k, v), hm, he⟩
      rw [this] at h1; cases h1
    rcases List.mem_cons.mp hx with e1 | hx'
    · rcases List.mem_cons.mp hy with e2 | hy'
      · rw [← e1] at e2; exact (Prod.mk.inj e2).1.symm
      · exact absurd (by rw [← hab, ← e1]) (hnot b y hy')
    · rcases List.mem_cons.mp hy with e2 | hy'
      · exact absurd (by rw [hab, ← e2]) (hnot a x hx')
      · exact ih h2 hx' hy'

/-! ### witnesses (kernel-checked on the model; the same inputs are in corpus/C18 and replayed on the Go code) -/

def tagF (go tag : String) : FMeta := { goName := go, hasTag := true, tagName := tag }
def o0 : Opts := {}

/-- `type Node struct { Next *Node `json:"next"` }` -/
def ΔNode : Decls := [("Node", [(tagF "Next" "next", .ptr (.named "Node"))])]
def sNode : Sch := .node "object" false "" none none none [("next", .ref "Node")] none false

/-- Finding #19: the generator's output for `Node` (root and component), the value `Node{}`, its encoding
`{"next":null}`: in the domain, inside `NilAtCycle`, and rejected. -/
theorem witness_nil_at_cycle :
    (genRoot ΔNode o0 10 (.named "Node")).1 = .ok sNode ∧
    candidatesFor (genRoot ΔNode o0 10 (.named "Node")).2 "Node" = [sNode] ∧
    HasType ΔNode (.struct [.nil]) (.named "Node") ∧
    encode ΔNode (.named "Node") (.struct [.nil]) = .obj [("next", .null)] ∧
    NilAtCycle [("Node", sNode)] sNode (.obj [("next", .null)]) ∧
    acceptB [("Node", sNode)] sNode (.obj [("next", .null)]) = false := by
  refine ⟨by rfl, by rfl, by decide, by rfl, by decide, by decide⟩

/-- Finding #32: `struct { N int `json:"n,string"` }` with N = 5 encodes `{"n":"5"}`; the generated schema
demands an integer. -/
def tQuoted : GoType := .struct [({ goName := "N", hasTag := true, tagName := "n", quoted := true }, .int .int)]
theorem witness_quoted :
    (genRoot [] o0 10 tQuoted).1 = .ok (.node "object" false "" none none none [("n", leaf "integer" false "" none none)] none false) ∧
    HasType [] (.struct [.i 5]) tQuoted ∧ HasQuoted [] tQuoted ∧
    encode [] tQuoted (.struct [.i 5]) = .obj [("n", .str "5")] ∧
    acceptB [] (.node "object" false "" none none none [("n", leaf "integer" false "" none none)] none false)
      (.obj [("n", .str "5")]) = false := by
  refine ⟨by rfl, by decide, by decide, by rfl, by decide⟩

/-- Finding F-C18-3: `struct { X string `json:"x"`; Inner }` with `Inner struct { X int `json:"x"` }`:
encoding/json keeps the outer field (`{"x":"a"}`), the generator keeps the embedded one (integer). -/
def tDup : GoType := .struct [(tagF "X" "x", .string),
  ({ goName := "Inner", embedded := true }, .struct [(tagF "X" "x", .int .int)])]
theorem witness_dup_names :
    (genRoot [] o0 10 tDup).1 = .ok (.node "object" false "" none none none [("x", leaf "integer" false "" none none)] none false) ∧
    HasType [] (.struct [.s "a", .struct [.i 1]]) tDup ∧ DupNames [] tDup ∧
    encode [] tDup (.struct [.s "a", .struct [.i 1]]) = .obj [("x", .str "a")] ∧
    acceptB [] (.node "object" false "" none none none [("x", leaf "integer" false "" none none)] none false)
      (.obj [("x", .str "a")]) = false := by
  refine ⟨by rfl, by decide, by decide, by rfl, by decide⟩

/-- Map-order nondeterminism of the component export: for `struct { A Node; B *Node }` the name `Node` has
two candidates, one nullable and one not; with the first `{"next":null}` below the reference is accepted,
with the second it is rejected. -/
def tBoth : GoType := .struct [(tagF "A" "a", .named "Node"), (tagF "B" "b", .ptr (.named "Node"))]
theorem witness_component_choice :
    (candidatesFor (genRoot ΔNode o0 10 tBoth).2 "Node").map
      (fun s => match s with | .node _ nl _ _ _ _ _ _ _ => nl | _ => false) = [true, false] := by
  decide

/-- Finding F-C18-4 (a): with `CreateTypeNameGenerator(t => "X_" + t.Name())` and no export the cycle reference
of `Node` names `X_Node`; the struct itself is looked up under `Node`: the only possible component map is empty and
`#/components/schemas/X_Node` does not resolve. -/
def oNames : Opts := { tng := some ⟨"X_", []⟩ }
theorem witness_dangling_names :
    (genRoot ΔNode oNames 10 (.named "Node")).1 =
      .ok (.node "object" false "" none none none [("next", .ref "X_Node")] none false) ∧
    (genRoot ΔNode oNames 10 (.named "Node")).2.comps = ["X_Node"] ∧
    candidatesFor (genRoot ΔNode oNames 10 (.named "Node")).2 "X_Node" = [] ∧
    Dangling (genRoot ΔNode oNames 10 (.named "Node")).2 ∧
    (resolve [] (.ref "X_Node")).isSome = false := by
  refine ⟨by rfl, by rfl, by rfl, by decide, by rfl⟩

/-- Finding F-C18-4 (c): `type Empty struct{}`, `type H struct { E Empty `json:"e"` }` with ExportComponentSchemas:
`Empty` is registered and referenced but has no properties, so the export loop never stores it. -/
def ΔEmpty : Decls := [("Empty", []), ("H", [(tagF "E" "e", .named "Empty")])]
def oExport : Opts := { exp := true }
theorem witness_dangling_empty :
    (genRoot ΔEmpty oExport 10 (.named "H")).1 =
      .ok (.node "object" false "" none none none [("e", .ref "Empty")] none false) ∧
    (genRoot ΔEmpty oExport 10 (.named "H")).2.comps = ["Empty"] ∧
    Dangling (genRoot ΔEmpty oExport 10 (.named "H")).2 := by
  refine ⟨by rfl, by rfl, by decide⟩

/-- Finding F-C18-5 (a): `type A struct { B *B `json:"b"`; V int32 `json:"v"` }`, `type B struct { A *A `json:"a"`;
V string `json:"v"` }` with ExportComponentSchemas: the cycle reference created in B's field loop carries B's schema
and is a candidate for component `A`; with that choice the encoding of `A{B: &B{A: &A{V: 1}, V: "x"}, V: 2}` is
rejected (`/b/a/v` must be a string). -/
def ΔAB : Decls := [("A", [(tagF "B" "b", .ptr (.named "B")), (tagF "V" "v", .int .int32)]),
                    ("B", [(tagF "A" "a", .ptr (.named "A")), (tagF "V" "v", .string)])]
def sA : Sch := .node "object" false "" none none none [("b", .ref "B"), ("v", leaf "integer" false "int32" none none)] none false
def sB : Sch := .node "object" true "" none none none [("a", .ref "A"), ("v", leaf "string" false "" none none)] none false
def vAB : GoVal := .struct [.ref (.struct [.ref (.struct [.nil, .i 1]), .s "x"]), .i 2]
theorem witness_wrong_component :
    (genRoot ΔAB oExport 12 (.named "A")).1 = .ok sA ∧
    candidatesFor (genRoot ΔAB oExport 12 (.named "A")).2 "A" = [sA, sB] ∧
    WrongComponent oExport (genRoot ΔAB oExport 12 (.named "A")).2 ∧
    HasType ΔAB vAB (.named "A") ∧
    acceptB [("A", sA), ("B", sB)] sA (encode ΔAB (.named "A") vAB) = true ∧
    acceptB [("A", sB), ("B", sB)] sA (encode ΔAB (.named "A") vAB) = false := by
  refine ⟨by rfl, by rfl, by decide, by decide, by decide, by decide⟩

/-- Regression for F-C18-6 (repaired by 0916db1): on `type L []L` generateCycleSchemaRef used to recurse forever (a
fatal stack overflow in Go). Now the element of the cycle reference is unconstrained: the schema is
`{type: array, items: {type: array, items: {}}}`, no component is registered, every encoding is accepted; likewise for
`type M map[string]M`. -/
def sL : Sch := .node "array" false "" none none (some (arrWrap emptySch)) [] none false
theorem regression_rec_container :
    (∀ fuel, 3 ≤ fuel → genRoot [] o0 fuel (.recs false) = (.ok sL, { cache := [(.recs false, sL)], trace := ["cycle.cut"] })) ∧
    HasType [] (.slice [.slice [], .slice [.slice []]]) (.recs false) ∧
    acceptB [] sL (encode [] (.recs false) (.slice [.slice [], .slice [.slice []]])) = true ∧
    (genRoot [] o0 10 (.recs true)).1 = .ok (.node "object" false "" none none none [] (some (mapWrap emptySch)) false) ∧
    (genRoot [] { throwCycle := true } 10 (.recs false)).1 = .cycle := by
  refine ⟨?_, by decide, by decide, by rfl, by rfl⟩
  intro fuel h
  obtain ⟨k, rfl⟩ : ∃ k, fuel = k + 3 := ⟨fuel - 3, by omega⟩
  rfl

/-- Regression for F-C18-7 (reuse of a generator; repaired by `repairs/C18-root-pointer-type-table.diff`):
`type T struct { N int `json:"n"` }`, `type H struct { F *T `json:"f"` }`. `g.GenerateSchemaRef(*T)` used to store the ROOT
schema — not nullable — in the type table under `*T`, where a later `g.GenerateSchemaRef(H)` on the same generator found it
for field `F`, so that `H{}` = `{"f":null}` was rejected. Now nothing is stored for the root pointer: after that history
`H` gets the schema it gets on a fresh generator (nullable `f`) and the value is accepted; the first call's result is
unchanged (not nullable). -/
def ΔTH : Decls := [("T", [(tagF "N" "n", .int .int)]), ("H", [(tagF "F" "f", .ptr (.named "T"))])]
def sT (nl : Bool) : Sch := .node "object" nl "" none none none [("n", leaf "integer" false "" none none)] none false
def sH (nl : Bool) : Sch := .node "object" false "" none none none [("f", sT nl)] none false
theorem regression_root_ptr_before :
    (genRoot ΔTH o0 10 (.ptr (.named "T"))).1 = .ok (sT false) ∧
    cacheLookup (.ptr (.named "T")) (genRoot ΔTH o0 10 (.ptr (.named "T"))).2.cache = none ∧
    (genAfter ΔTH o0 10 [.ptr (.named "T")] (.named "H")).1 = .ok (sH true) ∧
    (genAfter ΔTH o0 10 [] (.named "H")).1 = .ok (sH true) ∧
    HasType ΔTH (.struct [.nil]) (.named "H") ∧
    encode ΔTH (.named "H") (.struct [.nil]) = .obj [("f", .null)] ∧
    acceptB [] (sH true) (.obj [("f", .null)]) = true ∧
    acceptB [] (sH false) (.obj [("f", .null)]) = false := by
  refine ⟨by rfl, by rfl, by rfl, by rfl, by decide, by rfl, by decide, by decide⟩

/-! ### non-vacuity -/

/-- `type T struct { Kids []*T `json:"kids"`; N int8 `json:"n"` }` with `T{Kids: {&T{Kids: {}, N: -128}}, N: 127}`:
a recursive type, a value with a non-nil and a nil pointer outside every exclusion class -/
def ΔKids : Decls := [("T", [(tagF "Kids" "kids", .slice (.ptr (.named "T"))), (tagF "N" "n", .int .int8)])]
def vKids : GoVal := .struct [.slice [.ref (.struct [.slice [], .i (-128)])], .i 127]
def sKids : Sch := .node "object" false "" none none none
  [("kids", .node "array" false "" none none (some (.ref "T")) [] none false),
   ("n", leaf "integer" false "" (some (-128)) (some 127))] none false

example : (genRoot ΔKids o0 12 (.named "T")).1 = .ok sKids ∧
    HasType ΔKids vKids (.named "T") ∧ ¬ HasQuoted ΔKids (.named "T") ∧ ¬ DupNames ΔKids (.named "T") ∧
    ¬ Dangling (genRoot ΔKids o0 12 (.named "T")).2 ∧ ¬ WrongComponent o0 (genRoot ΔKids o0 12 (.named "T")).2 ∧
    ¬ NilAtCycle [("T", sKids)] sKids (encode ΔKids (.named "T") vKids) ∧
    acceptB [("T", sKids)] sKids (encode ΔKids (.named "T") vKids) = true := by
  refine ⟨by rfl, by decide, by decide, by decide, by decide, by decide, by decide, by decide⟩

/-- the same type under CreateComponentSchemas{Export, TopLevel} and a prefixing type-name generator: the root is a
reference to `X_T`, which the export loop fills; outside every exclusion class, accepted -/
def oAll : Opts := { exp := true, expTop := true, tng := some ⟨"X_", []⟩ }
def sKidsX : Sch := .node "object" false "" none none none
  [("kids", .node "array" false "" none none (some (.ref "X_T")) [] none false),
   ("n", leaf "integer" false "" (some (-128)) (some 127))] none false
example : (genRoot ΔKids oAll 12 (.named "T")).1 = .ok (.ref "X_T") ∧
    candidatesFor (genRoot ΔKids oAll 12 (.named "T")).2 "X_T" = [sKidsX] ∧
    TnInj ΔKids (typeName oAll) ∧
    ¬ Dangling (genRoot ΔKids oAll 12 (.named "T")).2 ∧ ¬ WrongComponent oAll (genRoot ΔKids oAll 12 (.named "T")).2 ∧
    ¬ NilAtCycle [("X_T", sKidsX)] (.ref "X_T") (encode ΔKids (.named "T") vKids) ∧
    acceptB [("X_T", sKidsX)] (.ref "X_T") (encode ΔKids (.named "T") vKids) = true := by
  refine ⟨by rfl, by rfl, tnInj_of_check _ _ (by decide), by decide, by decide, by decide, by decide⟩

/-- a slice of a DEFINED uint8 type (`type Octet uint8; []Octet`) is base64 text for encoding/json and a
`string`/`byte` schema for the generator; so is a defined slice type over it -/
def tOctets : GoType := .slice (.defd "Octet" (.int .uint8))
example : (genRoot [] o0 10 tOctets).1 = .ok (leaf "string" false "byte" none none) ∧
    (genRoot [] o0 10 (.defd "Octets" tOctets)).1 = .ok (leaf "string" false "byte" none none) ∧
    HasType [] (.bytes "AQID") tOctets ∧ ¬ HasType [] (.slice [.i 1]) tOctets ∧
    acceptB [] (leaf "string" false "byte" none none) (encode [] tOctets (.bytes "AQID")) = true := by
  refine ⟨by rfl, by rfl, by decide, by decide, by decide⟩

/-- reuse: after `g.GenerateSchemaRef(T)` twice (by value) the schema for `H` on the same generator has a nullable `f`
and accepts `{"f":null}`; the type table answers the second request for `T` -/
example :
    (genAfter ΔTH o0 10 [.named "T", .named "T"] (.named "H")).1 = .ok (sH true) ∧
    (genAfter ΔTH o0 10 [.named "T", .named "T"] (.named "H")).2.trace.contains "cache.hit" = true ∧
    ¬ Dangling (genAfter ΔTH o0 10 [.named "T", .named "T"] (.named "H")).2 ∧
    ¬ WrongComponent o0 (genAfter ΔTH o0 10 [.named "T", .named "T"] (.named "H")).2 ∧
    acceptB [] (sH true) (encode ΔTH (.named "H") (.struct [.nil])) = true := by
  refine ⟨by rfl, by decide, by decide, by decide, by decide⟩

end KinModel.Gen3
