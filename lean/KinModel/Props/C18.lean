/-
C18 — a schema generated from a Go type accepts every JSON encoding of that type.
Property theorems only (model and spec: KinModel/Gen3.lean).
-/
import KinModel.Gen3
namespace KinModel.Gen3

theorem placeholder_true : True := trivial

end KinModel.Gen3
