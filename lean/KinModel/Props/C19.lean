/-
C19 — schema error reasons never contain the rejected value.

Three layers:
 (T) the regenerated table `Gen.reasonSites` lists every expression of the source that becomes the Reason of a
     SchemaError (and every format-validator error text), each formatted argument classified by provenance;
     `sites_clean` (no argument derives from the validated value; no unreadable shape) and
     `sites_are_the_modelled_ones` (the templates are exactly the ones the model renders) are decided over the
     WHOLE table;
 (M) in the model every reason is a list of provenance-typed fragments; `reasons_value_free` proves by induction
     over the event generator that no fragment of any error, at any nesting level (Origin chains included), is a
     string value of the validated input, for every schema, value and environment;
 (D) the correspondence run checks the rendered model reasons against the real texts and searches real reasons
     and messages for marker strings planted at every string leaf.
-/
import KinModel.Gen.ReasonSites
import KinModel.Gen.VisitSites
import KinModel.Gen.SettingsFlow
import KinModel.Gen.ErrorRender
import KinModel.Schema.Events
import KinModel.C19Message
namespace KinModel.Schema

/-! ### (T) obligations over the regenerated table -/

def cleanArg (a : String) : Bool := a != "VALUE" && a != "unknown"

/-- no Reason expression of the source takes the validated value (or a part of it) as an argument, and the
translator could read every site -/
theorem sites_clean : Gen.reasonSites.all (fun r => r.args.all cleanArg && r.format != "<unrecognised>") = true := by decide

/-- (SchemaField, format string) of every reason site, in source order: the templates the model renders -/
def expectedTemplates : List (String × String) := [
  ("type", "cannot convert json.Number to float64"),
  ("type", "unhandled value of type %T"),
  ("enum", "value is not one of the allowed values %s"),
  ("not", "Doesn't match schema \"not\""),
  ("discriminator", "input does not contain the discriminator property %q"),
  ("discriminator", "value of discriminator property %q is not a string"),
  ("discriminator", "discriminator property %q has invalid value"),
  ("oneOf", ""),
  ("<assigned>", "value matches more than one schema from \"oneOf\" (matches schemas at indices %v)"),
  ("<assigned>", "value doesn't match any schema from \"oneOf\""),
  ("anyOf", "doesn't match any schema from \"anyOf\""),
  ("allOf", "doesn't match all schemas from \"allOf\""),
  ("nullable", "Value is not nullable"),
  ("type", "value must be an integer"),
  ("format", "integer doesn't match the format %q (%v) | number doesn't match the format %q (%v)"),
  ("exclusiveMinimum", "number must be more than %g"),
  ("exclusiveMaximum", "number must be less than %g"),
  ("minimum", "number must be at least %g"),
  ("maximum", "number must be at most %g"),
  ("multipleOf", "number must be a multiple of %g"),
  ("minLength", "minimum string length is %d"),
  ("maxLength", "maximum string length is %d"),
  ("pattern", "string doesn't match the regular expression \"%s\""),
  ("format", "string doesn't match the format %q (%v)"),
  ("minItems", "minimum number of items is %d"),
  ("maxItems", "maximum number of items is %d"),
  ("uniqueItems", "duplicate items found"),
  ("minProperties", "there must be at least %d properties"),
  ("maxProperties", "there must be at most %d properties"),
  ("properties", "property %q is unsupported"),
  ("required", "property %q is missing"),
  ("type", "value must be %s %s"),
  ("<validator>", "string doesn't match pattern \"%s\""),
  ("<validator>", "value should be between %v and %v"),
  ("", "Not an IP address"),
  ("", "Not an IPv4 address (it's IPv6)"),
  ("", "Not an IPv6 address (it's IPv4)"),
  ("pattern", "cannot compile pattern %q: %v")
]

theorem sites_are_the_modelled_ones :
    Gen.reasonSites.map (fun r => (r.field, r.format)) = expectedTemplates := by decide

/-! ### (M) provenance invariant of the model -/

def Frag.fromValue : Frag → Bool
  | .valueStr _ => true
  | _ => false

def Err.clean (e : Err) : Bool := e.reason.all (fun f => !f.fromValue)

mutual
/-- every error of the event, including those kept only as Origin of a composition error, is clean -/
def Ev.clean : Ev → Bool
  | .fail e _ => e.clean
  | .child _ sub => cleanL sub
  | .comp _ e subs => e.clean && cleanLL subs
def cleanL : List Ev → Bool
  | [] => true
  | e :: es => e.clean && cleanL es
def cleanLL : List (List Ev) → Bool
  | [] => true
  | t :: ts => cleanL t && cleanLL ts
end

theorem cleanL_append (a b : List Ev) : cleanL (a ++ b) = (cleanL a && cleanL b) := by
  induction a with
  | nil => simp [cleanL]
  | cons e es ih => simp [cleanL, ih, Bool.and_assoc]

theorem mark_clean (t : Tok) (e : Err) : (mark t e).clean = e.clean := by simp [mark, Err.clean]

theorem chk_clean (bad : Bool) (e : Err) (f : Bool) (h : e.clean = true) : cleanL (chk bad e f) = true := by
  unfold chk; split <;> simp [cleanL, Ev.clean, h]

theorem checkEvs_clean (cs : List Check) (h : ∀ c ∈ cs, c.2.1.clean = true) : cleanL (checkEvs cs) = true := by
  induction cs with
  | nil => simp [checkEvs, cleanL]
  | cons c cs ih =>
    have : checkEvs (c :: cs) = chk c.1 c.2.1 c.2.2 ++ checkEvs cs := by simp [checkEvs]
    rw [this, cleanL_append, chk_clean _ _ _ (h c (by simp)), ih (fun c' hc' => h c' (by simp [hc']))]; rfl

theorem ownEvsQ_clean (env : Env) (kw : Kw) (p : List (String × S)) (v q : J) (ch : List Ev) (hch : cleanL ch = true) :
    cleanL (ownEvsQ env kw p v q ch) = true := by
  cases v with
  | null => simp [ownEvsQ, cleanL, Ev.clean, Err.clean, nullErr, Frag.fromValue]
  | bool b => exact chk_clean _ _ _ (by simp [typeErr, here, Err.clean, Frag.fromValue])
  | num x =>
    apply checkEvs_clean
    intro c hc
    simp only [numChecks, List.mem_cons, List.mem_nil_iff, or_false] at hc
    rcases hc with rfl | rfl | rfl | rfl | rfl | rfl | rfl
    · simp only; split <;> simp [typeErr, here, Err.clean, Frag.fromValue]
    all_goals simp [here, hereSoft, Err.clean, Frag.fromValue]
  | str x =>
    apply checkEvs_clean
    intro c hc
    simp only [strChecks, List.mem_cons, List.mem_nil_iff, or_false] at hc
    rcases hc with rfl | rfl | rfl | rfl | rfl | rfl <;>
      simp [typeErr, here, hereSoft, patCompileErr, Err.clean, Frag.fromValue]
  | arr xs =>
    simp only [ownEvsQ, arrEvsQ, cleanL_append, hch, Bool.and_true]
    apply checkEvs_clean
    intro c hc
    simp only [arrChecksQ, List.mem_cons, List.mem_nil_iff, or_false] at hc
    rcases hc with rfl | rfl | rfl | rfl <;> simp [typeErr, here, Err.clean, Frag.fromValue]
  | obj kvs =>
    simp only [ownEvsQ, objEvsQ, cleanL_append, hch, Bool.and_true, Bool.and_eq_true]
    refine ⟨⟨?_, ?_⟩, chk_clean _ _ _ (by simp [roErr, Err.clean])⟩
    · apply checkEvs_clean
      intro c hc
      simp only [objChecksQ, List.mem_cons, List.mem_nil_iff, or_false] at hc
      rcases hc with rfl | rfl | rfl <;> simp [typeErr, here, Err.clean, Frag.fromValue]
    · apply checkEvs_clean
      intro c hc
      simp only [reqChecks, List.mem_map] at hc
      obtain ⟨k, _, rfl⟩ := hc
      simp [mark, here, Err.clean, Frag.fromValue]

theorem ownEvs_clean (env : Env) (kw : Kw) (p : List (String × S)) (v : J) (ch : List Ev) (hch : cleanL ch = true) :
    cleanL (ownEvs env kw p v ch) = true := ownEvsQ_clean env kw p v v ch hch

theorem oneOfReason_clean (subs : List (List Ev)) : (oneOfReason subs).all (fun f => !f.fromValue) = true := by
  unfold oneOfReason; split <;> simp [Frag.fromValue]

theorem discEvs_clean (kw : Kw) (v : J) : cleanL (discEvs kw v) = true := by
  unfold discEvs
  cases discCheck kw v <;>
    simp [cleanL, Ev.clean, Err.clean, discMissingErr, discNotStringErr, discUnmappedErr, mark, here, Frag.fromValue]

theorem evCombine_clean (env : Env) (kw : Kw) (a b c : List S) (p : List (String × S)) (sc : Bool) (v : J)
    (notEvs : List Ev) (oneSubs anySubs allSubs : List (List Ev)) (childEvs : List Ev)
    (hNot : cleanL notEvs = true) (h1 : cleanLL oneSubs = true) (h2 : cleanLL anySubs = true) (h3 : cleanLL allSubs = true)
    (hch : cleanL childEvs = true) :
    cleanL (evCombine env kw a b c p sc v notEvs oneSubs anySubs allSubs childEvs) = true := by
  unfold evCombine
  split
  · simp [cleanL]
  · split
    · split <;> simp [cleanL, Ev.clean, Err.clean, nullErr, Frag.fromValue]
    · simp only [cleanL_append, hNot, Bool.true_and, Bool.and_eq_true]
      refine ⟨⟨⟨?_, ?_⟩, ?_⟩, ?_⟩
      · split <;> simp [cleanL, cleanL_append, discEvs_clean, Ev.clean, Err.clean, here, h1, oneOfReason_clean]
      · split <;> simp [cleanL, Ev.clean, Err.clean, here, h2, Frag.fromValue]
      · split <;> simp [cleanL, Ev.clean, Err.clean, here, h3, Frag.fromValue]
      · split
        · simp [cleanL]
        · rw [cleanL_append, ownEvs_clean env kw p v childEvs hch]
          simp only [Bool.and_true]
          exact chk_clean _ _ _ (by simp [here, Err.clean, Frag.fromValue])

theorem notEvs_clean (env : Env) (n : Option S) (v : J) :
    (match n with | none => True | some s => cleanL (events env s v) = true) →
    cleanL (match n with | none => [] | some s => [Ev.comp CompKind.not (here "not" v [.lit "Doesn't match schema \"not\""]) [events env s v]]) = true := by
  intro ih
  cases n with
  | none => simp [cleanL]
  | some t => simp only at ih; simp [cleanL, Ev.clean, cleanLL, ih, here, Err.clean, Frag.fromValue]

theorem childEvs_clean (env : Env) (kw : Kw) (i : Option S) (p : List (String × S)) (ad : Option S) (v : J) :
    (match v with
      | .arr xs => (match i with | none => True | some s => cleanL (itemsEvs env s xs 0) = true)
      | .obj kvs => cleanL (propsEvs env p ad kw.addHas v kvs) = true
      | _ => True) →
    cleanL (match v with
          | .arr xs => (match i with | none => [] | some s => itemsEvs env s xs 0)
          | .obj kvs => propsEvs env p ad kw.addHas v kvs
          | _ => []) = true := by
  intro ih
  cases v with
  | arr xs => cases i with
    | none => simp [cleanL]
    | some t => simpa using ih
  | obj kvs => simpa using ih
  | null => simp [cleanL]
  | bool x => simp [cleanL]
  | num q => simp [cleanL]
  | str x => simp [cleanL]

/-- **C19 on the model.** For every schema, value and environment, no fragment of the reason of any error in
the event tree — at any nesting level, Origin chains of compositions included — is a string value taken from
the validated input. -/
theorem reasons_value_free_all (env : Env) :
    (∀ s v, cleanL (events env s v) = true) ∧
    (∀ p ad has whole kvs, cleanL (propsEvs env p ad has whole kvs) = true) ∧
    (∀ s xs i, cleanL (itemsEvs env s xs i) = true) ∧
    (∀ ss v, cleanLL (eventsEach env ss v) = true) ∧
    (∀ dr ss v, cleanLL (eventsSel env dr ss v) = true) := by
  refine events.mutual_induct
    (motive1 := fun s v => cleanL (events env s v) = true)
    (motive2 := fun p ad has whole kvs => cleanL (propsEvs env p ad has whole kvs) = true)
    (motive3 := fun s xs i => cleanL (itemsEvs env s xs i) = true)
    (motive4 := fun ss v => cleanLL (eventsEach env ss v) = true)
    (motive5 := fun dr ss v => cleanLL (eventsSel env dr ss v) = true)
    ?node ?pnil ?pcons ?inil ?icons ?enil ?econs ?snil ?scons
  case node =>
    intro kw a b c n i p ad v ihn ihc ihb iha ihch
    rw [events.eq_def]
    simp only
    exact evCombine_clean env kw a b c p _ v _ _ _ _ _ (notEvs_clean env n v ihn) ihc ihb iha (childEvs_clean env kw i p ad v ihch)
  case pnil => intro p ad has whole; simp [propsEvs, cleanL]
  case pcons =>
    intro p ad has whole k x r ih1 ih2 ih3
    rw [propsEvs.eq_def, cleanL_append, ih3, Bool.and_true]
    unfold propEv
    cases hl : lookup k p with
    | some s => simp [cleanL, Ev.clean, ih1 s]
    | none =>
      simp only
      split
      · cases ad with
        | none => simp [cleanL]
        | some t => simp only at ih2; simp [cleanL, Ev.clean, ih2]
      · simp [cleanL, Ev.clean, here, Err.clean, Frag.fromValue]
  case inil => intro s i; simp [itemsEvs, cleanL]
  case icons => intro s x xs i ih1 ih2; rw [itemsEvs]; simp [cleanL, Ev.clean, ih1, ih2]
  case enil => intro v; simp [eventsEach, cleanLL]
  case econs => intro s ss v ih1 ih2; rw [eventsEach]; simp [cleanLL, ih1, ih2]
  case snil => intro dr v; simp [eventsSel, cleanLL]
  case scons =>
    intro dr s ss v ih1 ih2
    rw [eventsSel]
    cases selOK dr s <;> simp [cleanLL, ih1, ih2, skipped, skippedErr, cleanL, Ev.clean, Err.clean]

theorem reasons_value_free (env : Env) (s : S) (v : J) : cleanL (events env s v) = true :=
  (reasons_value_free_all env).1 s v

/-- whatever a mode reports comes out of the event tree with its reason unchanged -/
theorem reported_clean :
    (∀ ev : Ev, ev.clean = true → (∀ e, ev.firstErr = some e → e.clean = true) ∧ (∀ e ∈ ev.collect.1, e.clean = true)) ∧
    (∀ _ts : List (List Ev), True) ∧
    (∀ t : List Ev, cleanL t = true → (∀ e, firstErrL t = some e → e.clean = true) ∧ (∀ e ∈ collectL t, e.clean = true)) := by
  refine Ev.passes.mutual_induct
    (motive_1 := fun ev => ev.clean = true → (∀ e, ev.firstErr = some e → e.clean = true) ∧ (∀ e ∈ ev.collect.1, e.clean = true))
    (motive_2 := fun _ => True)
    (motive_3 := fun t => cleanL t = true → (∀ e, firstErrL t = some e → e.clean = true) ∧ (∀ e ∈ collectL t, e.clean = true))
    ?f ?ch ?co ?nil ?cons ?nil2 ?cons2
  case f =>
    intro e fatal h
    simp only [Ev.clean] at h
    simp only [Ev.firstErr, Ev.collect]
    exact ⟨fun e' he' => by cases he'; exact h, fun e' he' => by simp at he'; subst he'; exact h⟩
  case ch =>
    intro tok sub ih h
    simp only [Ev.clean] at h
    obtain ⟨h1, h2⟩ := ih h
    simp only [Ev.firstErr, Ev.collect]
    constructor
    · intro e he
      cases hf : firstErrL sub with
      | none => simp [hf] at he
      | some e0 => simp [hf] at he; subst he; rw [mark_clean]; exact h1 e0 hf
    · intro e he
      simp only [List.mem_map] at he
      obtain ⟨e0, he0, rfl⟩ := he
      rw [mark_clean]; exact h2 e0 he0
  case co =>
    intro k e subs _ h
    simp only [Ev.clean, Bool.and_eq_true] at h
    simp only [Ev.firstErr, Ev.collect]
    constructor
    · intro e' he'; split at he' <;> simp at he'; subst he'; exact h.1
    · intro e' he'; split at he' <;> simp at he'; subst he'; exact h.1
  case nil => intro _; simp [firstErrL, collectL]
  case cons =>
    intro ev es ih1 ih2 h
    simp only [cleanL, Bool.and_eq_true] at h
    obtain ⟨a1, a2⟩ := ih1 h.1
    obtain ⟨b1, b2⟩ := ih2 h.2
    constructor
    · intro e he
      simp only [firstErrL] at he
      cases hf : ev.firstErr with
      | none => simp [hf] at he; exact b1 e he
      | some e0 => simp [hf] at he; subst he; exact a1 e0 hf
    · intro e he
      simp only [collectL] at he
      split at he
      · exact a2 e he
      · rcases List.mem_append.mp he with he | he
        · exact a2 e he
        · exact b2 e he
  case nil2 => trivial
  case cons2 => intros; trivial

/-- **C19.** In every mode, the reason of every schema error reported for any schema and value contains no
fragment taken from a string value of the input. -/
theorem reported_reasons_value_free (m : Mode) (env : Env) (s : S) (v : J) :
    ∀ e ∈ (validate m env s v).errs, ∀ f ∈ e.reason, f.fromValue = false := by
  obtain ⟨h1, h2⟩ := reported_clean.2.2 (events env s v) (reasons_value_free env s v)
  have key : ∀ e : Err, e.clean = true → ∀ f ∈ e.reason, f.fromValue = false := by
    intro e he f hf
    simp only [Err.clean, List.all_eq_true, Bool.not_eq_true'] at he
    exact he f hf
  unfold validate report
  cases m with
  | dflt =>
    cases hf : firstErrL (events env s v) with
    | none => simp [Res.errs]
    | some e0 => simp only [Res.errs, List.mem_singleton]; intro e he; rw [he]; exact key e0 (h1 e0 hf)
  | failfast => cases firstErrL (events env s v) <;> simp [Res.errs]
  | multi =>
    cases hc : collectL (events env s v) with
    | nil => simp [Res.errs]
    | cons a b => simp only [Res.errs]; intro e he; exact key e (h2 e (by rw [hc]; exact he))
  | ffmulti => cases (runL Mode.ffmulti.policy (events env s v)).1 <;> simp [Res.errs]

/-! ### the second sentence: messages assembled from reasons — the customizer must reach every schema visit

`SchemaError.Error()` returns the customizer's text when one is attached, and the attachment is made by the visitor from
`settings.customizeMessageError`; a VisitJSON call of openapi3filter that is not handed
`SetSchemaErrorMessageCustomizer(options.customSchemaErrorFunc)` renders the default text (schema and VALUE dump) instead.
Table Gen/VisitSites lists every such call with the options that dominate it. -/

/-- the rule could read every call site -/
theorem visit_sites_readable : Gen.visitSites.all (fun r => !r.opts.contains "unrecognised") = true := by decide

/-- every VisitJSON call of openapi3filter (parameters, request body, response headers, response body) receives the
configured schema-error function, before the call, under the only condition that one is configured -/
theorem every_visit_gets_customizer :
    Gen.visitSites.all (fun r => r.opts.contains "SetSchemaErrorMessageCustomizer=if options.customSchemaErrorFunc != nil") = true := by
  decide

/-- the call sites are the four the differential run exercises (parameter, request body, response body, response header) -/
theorem visit_sites_are_the_exercised_ones :
    Gen.visitSites.map (fun r => (r.fn, r.via)) =
      [("ValidateParameter", ""), ("ValidateRequestBody", ""), ("ValidateResponse", ""), ("validateResponseHeader", "ValidateResponse")] := by
  decide

/-! ### the settings (and with them the customizer) reach every error site of the visitor — table Gen/SettingsFlow

Inside openapi3 the customizer lives in `*schemaValidationSettings`. An error gets it only if (1) the literal that builds
the error copies `settings.customizeMessageError`, and (2) the `settings` in scope are the caller's: every call from one
visitor function to another hands the parameter on unchanged, none goes through an exported wrapper (`VisitJSONArray`, …,
which build FRESH default settings), and the parameter is never reassigned. -/

/-- the rule could read every site -/
theorem settings_flow_readable :
    Gen.settingsFlow.all (fun r => ["passes", "fresh", "reassigned", "carries", "empty", "missing", "no-settings"].contains r.status) = true := by
  decide

/-- (2) every call between visitor functions passes the caller's settings on; no call builds fresh ones; no reassignment -/
theorem settings_reach_every_visit :
    (Gen.settingsFlow.filter (fun r => r.kind != "lit")).all (fun r => r.kind == "call" && r.status == "passes") = true := by
  decide

/-- (1) every SchemaError literal of a visitor function carries the customizer of the settings (the field-less
`&SchemaError{}` is the target of an `errors.As`, not an error) -/
theorem every_error_carries_customizer :
    (Gen.settingsFlow.filter (fun r => r.kind == "lit" && r.status != "no-settings")).all
      (fun r => r.status == "carries" || r.status == "empty") = true := by decide

/-- the literals built without settings in scope are the format validator's and the pattern compiler's: the visitor
wraps both into an error of its own (`format`, `pattern`) that carries the customizer -/
theorem errors_without_settings_are_wrapped_ones :
    (Gen.settingsFlow.filter (fun r => r.status == "no-settings")).map (fun r => r.fn) =
      ["NewIPValidator", "NewIPValidator", "NewIPValidator", "compilePattern"] := by decide

/-- the functions through which the settings travel are the visitor functions of the model -/
theorem settings_holders_are_the_visitors :
    ((Gen.settingsFlow.filter (fun r => r.status != "no-settings")).map (fun r => r.fn)).eraseDups =
      ["visitJSON", "visitEnumOperation", "visitNotOperation", "visitXOFOperations", "visitJSONNull", "visitJSONBoolean",
       "visitJSONNumber", "visitJSONString", "visitJSONArray", "visitJSONObject", "expectedType"] := by decide

/-- the typed-slice and YAML-map branches of `visitJSON` (a Go value that is not `[]any` / `map[string]any`) continue
with the internal functions like the plain ones: `visitJSON` calls `visitJSONArray` twice and `visitJSONObject` twice -/
theorem typed_collections_continue_with_settings :
    ((Gen.settingsFlow.filter (fun r => r.fn == "visitJSON" && r.callee == "visitJSONArray")).map (fun r => r.status),
     (Gen.settingsFlow.filter (fun r => r.fn == "visitJSON" && r.callee == "visitJSONObject")).map (fun r => r.status)) =
      (["passes", "passes"], ["passes", "passes"]) := by decide

/-! ### the message of one error, assembled from its reason

Full statement (does not hold): with a reason-only customizer attached, or with details disabled, no part of the message
of a reported error comes from the value. The code deviates for an error whose reason is EMPTY: `Error()` ignores an
empty customizer text and renders the default text, value dump included. -/

/-! #### `errorMessage` against the code: table Gen/ErrorRender (every use of a field of the receiver in
`(*SchemaError).Error()`, with the conditions of the enclosing `if`s) -/

/-- the rule could read the whole method -/
theorem error_render_readable : Gen.errorRender.all (fun r => r.field != "<unrecognised>") = true := by decide

/-- the first statement is the customizer block: with a customizer attached its text is returned whenever it is not
empty, before anything else is looked at (first branch of `errorMessage`) -/
theorem customizer_text_returned_first :
    Gen.errorRender.filter (fun r => r.after == "in-customizer") =
      [⟨"customizeMessageError", [], "in-customizer"⟩,
       ⟨"customizeMessageError", ["err.customizeMessageError != nil"], "in-customizer"⟩,
       ⟨"<whole>", ["err.customizeMessageError != nil"], "in-customizer"⟩,
       ⟨"<return>", ["err.customizeMessageError != nil", "msg := err.customizeMessageError(err); msg != \"\""], "in-customizer"⟩] := by
  decide

/-- the default text reads the rejected value (and the schema) only inside the `!SchemaErrorDetailsDisabled` block, and
hands the error as a whole to nobody (last branch of `errorMessage`) -/
theorem value_printed_only_with_details :
    (Gen.errorRender.filter (fun r => r.after == "after-customizer")).all
      (fun r => r.field != "<whole>" &&
        (!(r.field == "Value" || r.field == "Schema") || r.guards.head? == some "!SchemaErrorDetailsDisabled")) = true := by
  decide

/-- the fields the default text is made of, in order, are the parts of `errorMessage` (path, [origin text — not modelled],
reason, field name, schema dump, value dump) -/
theorem error_render_fields_are_the_modelled_ones :
    ((Gen.errorRender.filter (fun r => r.after == "after-customizer")).map (fun r => r.field)).eraseDups =
      ["reversePath", "Origin", "Reason", "SchemaField", "Schema", "Value"] := by decide

/-- `RequestError.Error()` and `ResponseError.Error()` (openapi3filter/errors.go), the texts wrapped around a schema error:
the rule could read both methods, and both are in the table -/
theorem filter_error_texts_readable :
    (Gen.filterErrorRender.all (fun r => r.field != "<unrecognised>") &&
      ((Gen.filterErrorRender.map (fun r => r.after)).eraseDups == ["RequestError", "ResponseError"])) = true := by decide

/-- they print their own `Reason`, the text of the wrapped error and the declared parameter's name / location — never the
`Input` (the request or response itself) and never the error as a whole -/
theorem filter_error_texts_never_read_input :
    Gen.filterErrorRender.all (fun r => ["Reason", "Err", "Parameter", "RequestBody"].contains r.field) = true := by decide

/-- exclusion: the customizer's text would be empty -/
def emptyReason (e : Err) : Bool := e.reason.isEmpty

theorem message_from_reasons_value_free_partial (m : Mode) (env : Env) (s : S) (v : J) (configured detailsDisabled : Bool)
    (fl : SiteFlow) (hfl : fl = SiteFlow.sound) (hcfg : configured = true ∨ detailsDisabled = true) :
    ∀ e ∈ (validate m env s v).errs, (emptyReason e = false ∨ detailsDisabled = true) →
      ∀ p ∈ errorMessage (fl.attached configured) detailsDisabled e, p.fromValue = false := by
  intro e he hex p hp
  have hr := reported_reasons_value_free m env s v e he
  have hreason : ∀ q ∈ e.reason.map MsgPart.reason, q.fromValue = false := by
    intro q hq
    simp only [List.mem_map] at hq
    obtain ⟨f, hf, rfl⟩ := hq
    have := hr f hf
    cases f <;> simp_all [MsgPart.fromValue, Frag.fromValue]
  subst hfl
  unfold errorMessage at hp
  split at hp
  · exact hreason p hp
  · rename_i hna
    simp only [List.mem_append] at hp
    rcases hp with (hp | hp) | hp
    · simp only [List.mem_map] at hp; obtain ⟨t, _, rfl⟩ := hp; rfl
    · split at hp
      · simp only [List.mem_singleton] at hp; subst hp; rfl
      · exact hreason p hp
    · cases hdd : detailsDisabled with
      | true => simp [hdd] at hp
      | false =>
        -- details enabled: then a customizer is configured and the reason is not empty, so the first branch was taken
        exfalso
        have hc : configured = true := by rcases hcfg with h | h <;> simp_all
        have hne : emptyReason e = false := by rcases hex with h | h <;> simp_all
        simp [SiteFlow.attached, SiteFlow.sound, hc, emptyReason] at hna hne
        simp [hne] at hna

/-- the text of the whole report (`MultiError.Error()` joins the members' texts): same statement over the list -/
theorem multi_message_from_reasons_value_free_partial (m : Mode) (env : Env) (s : S) (v : J) (configured detailsDisabled : Bool)
    (hcfg : configured = true ∨ detailsDisabled = true)
    (hex : ∀ e ∈ (validate m env s v).errs, emptyReason e = false ∨ detailsDisabled = true) :
    ∀ p ∈ multiMessage (SiteFlow.sound.attached configured) detailsDisabled (validate m env s v).errs, p.fromValue = false := by
  intro p hp
  simp only [multiMessage, List.mem_flatMap] at hp
  obtain ⟨e, he, hpe⟩ := hp
  exact message_from_reasons_value_free_partial m env s v configured detailsDisabled SiteFlow.sound rfl hcfg e he (hex e he) p hpe

/-- witness (inside the exclusion the message differs): an attached reason-only customizer that returns "" falls back to
the default text with the value dump -/
theorem message_empty_reason_witness :
    (errorMessage true false { field := "x", value := some (.str "secret") }).any MsgPart.fromValue = true := by decide

/-- why the table obligations matter: where the customizer is NOT attached (a literal without the field, or fresh settings
on the way) the default text discloses the value although the reason is clean -/
theorem message_without_customizer_discloses :
    (errorMessage (({ carries := true, callerSettings := false } : SiteFlow).attached true) false
      { field := "maxItems", value := some (.arr [.str "secret"]), reason := [.lit "maximum number of items is ", .schemaNat 0] }).any
      MsgPart.fromValue = true := by decide

/-- non-vacuity: a rejected value with a non-empty reason under a configured customizer -/
example : (errorMessage (SiteFlow.sound.attached true) false
    { field := "maxItems", value := some (.arr [.str "secret"]), reason := [.lit "maximum number of items is ", .schemaNat 0] }).any
      MsgPart.fromValue = false := by decide

/-- the invariant is not vacuous: a fragment that does come from the value is detected -/
example : (Err.clean { field := "x", reason := [.lit "bad value ", .valueStr "secret"] }) = false := by decide

end KinModel.Schema
