/-
C09 — routers return the declared operation whose template matches the URL.
Property theorems, witnesses and non-vacuity examples only; models in KinModel/Router.lean (code side) and
KinModel/RouterSpec.lean (property side), helper lemmas in KinModel/Lemmas/C09*.lean.
-/
import KinModel.Router
import KinModel.RouterSpec
import KinModel.Lemmas.C09Legacy
import KinModel.Lemmas.C09LegacyComplete
import KinModel.Lemmas.C09Gorilla
import KinModel.Lemmas.C09Spec
import KinModel.Lemmas.C09Witness
namespace KinModel.Props.C09
open KinModel.Router

/-! ## legacy router -/

/-- the keys stored by NewRouter are exactly the declared (method, template) pairs -/
theorem docKeys_declared (d : Doc) (k : Key) :
    k ∈ docKeys d ↔ ∃ pd ∈ d.paths, pd.template = k.template ∧ k.method ∈ pd.methods := by
  simp only [docKeys, List.mem_flatMap, List.mem_map]
  constructor
  · rintro ⟨pd, hpd, m, hm, rfl⟩; exact ⟨pd, hpd, rfl, hm⟩
  · rintro ⟨pd, hpd, ht, hm⟩; exact ⟨pd, hpd, k.method, hm, by cases k; simp_all⟩

/- Full statement (false for the code, finding #14):
     legacyMatch d m rem = some (k, vals) → k ∈ docKeys d ∧ spell k.sufs vals = some (m ++ ' ' :: rem)
   What holds: under non-empty bindings the returned values substituted into the returned key "METHOD template"
   spell exactly the looked-up string "METHOD remainingPath" with its trailing slashes stripped. -/
theorem legacy_match_sound_partial (d : Doc) (m rem : Str) (k : Key) (vals : List Str)
    (h : legacyMatch d m rem = some (k, vals)) (hne : ∀ v ∈ vals, v ≠ []) :
    k ∈ docKeys d ∧ spell k.sufs vals = some (stripSlashes (m ++ ' ' :: rem)) := by
  obtain ⟨ext, path, e0, e1, e3⟩ := match_sound.1 (legacyRoot d) _ [] (k, vals) h
  simp only [List.nil_append] at e1
  subst e1
  rcases build_paths (docKeys d) emptyNode (path, k) e0 with h0 | ⟨h1, h2⟩
  · simp [paths_empty] at h0
  · simp only at h1 h2
    subst h2
    exact ⟨h1, e3 hne (key_sufs_wf k)⟩

/-- whatever the trie returns is a declared (method, template) pair (no exclusion needed) -/
theorem legacy_match_declared (d : Doc) (m rem : Str) (k : Key) (vals : List Str)
    (h : legacyMatch d m rem = some (k, vals)) : k ∈ docKeys d := by
  obtain ⟨ext, path, e0, _, _⟩ := match_sound.1 (legacyRoot d) _ [] (k, vals) h
  rcases build_paths (docKeys d) emptyNode (path, k) e0 with h0 | ⟨h1, _⟩
  · simp [paths_empty] at h0
  · exact h1

/-- a route returned by the legacy router is a declared (method, template) pair, found under a matching server,
    and (non-empty bindings) its key spells the request -/
theorem legacy_route_sound_partial (d : Doc) (r : Req) (t m : Str) (ps : List (Str × Str))
    (h : legacyFind d r = .route t m ps) :
    ∃ sp rem k vals, legacyServer d r = some (sp, rem) ∧ legacyMatch d r.method rem = some (k, vals) ∧
      k.template = t ∧ k.method = m ∧
      (∃ pd ∈ d.paths, pd.template = t ∧ m ∈ pd.methods) ∧
      ((∀ v ∈ vals, v ≠ []) → spell k.sufs vals = some (stripSlashes (r.method ++ ' ' :: rem))) := by
  unfold legacyFind at h
  split at h
  · simp at h
  · split at h
    · simp at h
    · rename_i sp rem hs
      split at h
      · rename_i k vals hm
        simp only [Outcome.route.injEq] at h
        obtain ⟨h1, h2, _⟩ := h
        refine ⟨sp, rem, k, vals, hs, hm, h1, h2, ?_, fun hne => (legacy_match_sound_partial d _ _ _ _ hm hne).2⟩
        have hk := legacy_match_declared d _ _ _ _ hm
        obtain ⟨pd, hpd, e1, e2⟩ := (docKeys_declared d k).1 hk
        exact ⟨pd, hpd, by rw [e1, h1], by rw [← h2]; exact e2⟩
      · split at h
        · simp at h
        · split at h <;> simp at h

/- Full statement (false for the code: documented limitation "variable followed by text in the same segment"):
     k ∈ docKeys d, "METHOD path" is k's key with its variables replaced by non-empty slash-free values → matched.
   What holds: every string that a declared key *reads* (`Reads`: constants literally, a variable takes a slash-free
   value and is followed by '/' or the end of the string) is matched by the trie — to some declared key
   (`legacy_match_declared`), not necessarily this one when templates overlap. -/
theorem legacy_match_complete_partial (d : Doc) (m rem : Str) (k : Key) (vals : List Str)
    (hk : k ∈ docKeys d) (hr : Reads k.sufs vals (stripSlashes (m ++ ' ' :: rem))) :
    (legacyMatch d m rem).isSome := by
  obtain ⟨k2, h2⟩ := (build_has_path (docKeys d) emptyNode).2 k hk
  exact match_complete k.sufs (legacyRoot d) k2 vals _ [] h2 hr

/-- route_complete (legacy, partial): under a matching server, a request that some declared key reads is routed -/
theorem legacy_route_complete_partial (d : Doc) (r : Req) (sp : List (Str × Str)) (rem : Str) (k : Key) (vals : List Str)
    (hb : legacyBuildOK d = true) (hs : legacyServer d r = some (sp, rem))
    (hk : k ∈ docKeys d) (hr : Reads k.sufs vals (stripSlashes (r.method ++ ' ' :: rem))) :
    ∃ t m ps, legacyFind d r = .route t m ps := by
  have hm := legacy_match_complete_partial d r.method rem k vals hk hr
  unfold legacyFind
  simp only [hb, Bool.not_true, Bool.false_eq_true, if_false, hs]
  cases hmm : legacyMatch d r.method rem with
  | none => simp [hmm] at hm
  | some kv => exact ⟨_, _, _, rfl⟩

/-- no_match_is_error (legacy): no matching server, or no trie match and no path key spelled by the remaining path,
    yields path-not-found; and the router never answers with the nil-dereference outcome -/
theorem legacy_no_match_is_error (d : Doc) (r : Req) (hb : legacyBuildOK d = true) :
    (legacyServer d r = none → legacyFind d r = .notFound) ∧
    (∀ sp rem, legacyServer d r = some (sp, rem) → legacyMatch d r.method rem = none →
        legacyFind d r = .notFound ∨ legacyFind d r = .methodNotAllowed) ∧
    legacyFind d r ≠ .panic := by
  refine ⟨?_, ?_, ?_⟩
  · intro h; simp [legacyFind, hb, h]
  · intro sp rem hs hm
    simp only [legacyFind, hb, Bool.not_true, Bool.false_eq_true, if_false, hs, hm]
    split
    · exact Or.inl rfl
    · split
      · exact Or.inl rfl
      · exact Or.inr rfl
  · unfold legacyFind
    simp only [hb, Bool.not_true, Bool.false_eq_true, if_false]
    split
    · simp
    · split
      · simp
      · split
        · simp
        · split <;> simp

/-! ## gorillamux router -/

/-- every compiled mux route comes from a declared path item and one server -/
theorem gorilla_routes_declared {d : Doc} {rs : List GRoute} (h : gorillaRoutes d = some rs) {r : GRoute} (hr : r ∈ rs) :
    ∃ pd ∈ d.paths, ∃ s, mkRoute pd s = some r := by
  unfold gorillaRoutes at h
  split at h
  · simp at h
  · rename_i srvs _
    have e := allSome_eq h
    have : some r ∈ rs.map some := by simp [hr]
    rw [← e] at this
    simp only [List.mem_flatMap, List.mem_map] at this
    obtain ⟨pd, hpd, s, _, hs⟩ := this
    exact ⟨pd, (mem_inMatchingOrder _ _).1 hpd, s, hs⟩

/-- route_sound (gorillamux, full strength): a returned route carries the request method, its template is declared
    with that method, and some assignment of non-empty slash-free values to the variables of
    "server base path + template" reproduces the request path exactly -/
theorem gorilla_route_sound (d : Doc) (req : Req) (t m : Str) (ps : List (Str × Str))
    (h : gorillaFind d req = .route t m ps) :
    m = req.method ∧ ∃ pd ∈ d.paths, pd.template = t ∧ m ∈ pd.methods ∧
      ∃ base toks b, gparseS (base ++ t) = some toks ∧ gsubst toks b = some req.path ∧ ∀ p ∈ b, GoodFor '/' p.2 := by
  unfold gorillaFind at h
  split at h
  · simp at h
  · rename_i rs hrs
    obtain ⟨pre, r, post, b, e, _, hm, ht, hmeth, hdecl⟩ := gFirst_route h
    have hr : r ∈ rs := by rw [e]; simp
    obtain ⟨pd, hpd, s, hmk⟩ := gorilla_routes_declared hrs hr
    obtain ⟨e1, e2, e3, e4, _⟩ := mkRoute_some hmk
    obtain ⟨pb, hpb⟩ := gRouteMatch_path hm
    obtain ⟨g1, g2⟩ := gmatch_sound '/' _ _ _ hpb
    refine ⟨hmeth, pd, hpd, by rw [← e1, ht], by rw [hmeth, ← e2]; exact hdecl, s.base, r.pathToks, pb, ?_, g1, g2⟩
    rw [← ht, e1]; exact e4

/-- no_match_is_error (gorillamux): the answer is path-not-found exactly when no compiled route matches the URL
    (path template, scheme set, host template) -/
theorem gorilla_not_found_iff (d : Doc) (req : Req) (rs : List GRoute) (h : gorillaRoutes d = some rs) :
    gorillaFind d req = .notFound ↔ ∀ r ∈ rs, gRouteMatch r req = none := by
  unfold gorillaFind
  rw [h]
  exact gFirst_notFound_iff rs req

/-- … in particular a path that fills no "base + template" yields path-not-found, never a route -/
theorem gorilla_no_match_is_error (d : Doc) (req : Req) (rs : List GRoute) (h : gorillaRoutes d = some rs)
    (hno : ∀ r ∈ rs, ∀ b, (∀ p ∈ b, GoodFor '/' p.2) → gsubst r.pathToks b ≠ some req.path) :
    gorillaFind d req = .notFound := by
  rw [gorilla_not_found_iff d req rs h]
  intro r hr
  cases hm : gRouteMatch r req with
  | none => rfl
  | some b =>
    obtain ⟨pb, hpb⟩ := gRouteMatch_path hm
    obtain ⟨g1, g2⟩ := gmatch_sound '/' _ _ _ hpb
    exact absurd g1 (hno r hr pb g2)

/- Full statement (false for the code, finding #40):
     r ∈ routes, the request fills r's template and satisfies r's scheme/host, method declared under r → routed.
   What holds: … provided no matching route lacks the method (the first matching mux route decides). -/
theorem gorilla_route_complete_partial (d : Doc) (req : Req) (rs : List GRoute) (h : gorillaRoutes d = some rs)
    (r : GRoute) (hr : r ∈ rs) (b : List (Str × Str))
    (hfill : gsubst r.pathToks b = some req.path) (hgood : ∀ p ∈ b, GoodFor '/' p.2)
    (hscheme : schemeOK r req = true) (hhost : r.srv.host = [])
    (hnoshadow : ∀ r' ∈ rs, gRouteMatch r' req ≠ none → req.method ∈ r'.methods) :
    ∃ t ps, gorillaFind d req = .route t req.method ps := by
  unfold gorillaFind
  rw [h]
  apply gFirst_complete _ hnoshadow
  refine ⟨r, hr, ?_⟩
  have hc := gmatch_complete '/' _ _ _ hfill hgood
  unfold gRouteMatch
  cases hm : gmatch '/' r.pathToks req.path with
  | none => simp [hm] at hc
  | some pb => simp [hscheme, hhost]

/-- route_complete for a document without servers: filling a declared template with non-empty slash-free values
    and asking with a declared method is routed, unless another matching template lacks the method (#40) -/
theorem gorilla_route_complete_noservers_partial (d : Doc) (req : Req) (rs : List GRoute)
    (hs : d.servers = []) (h : gorillaRoutes d = some rs)
    (pd : PathDecl) (hpd : pd ∈ d.paths) (toks : List GTok) (hp : gparseS pd.template = some toks)
    (hslash : pd.template.head? = some '/')
    (b : List (Str × Str)) (hfill : gsubst toks b = some req.path) (hgood : ∀ p ∈ b, GoodFor '/' p.2)
    (hnoshadow : ∀ r' ∈ rs, gRouteMatch r' req ≠ none → req.method ∈ r'.methods) :
    ∃ t ps, gorillaFind d req = .route t req.method ps := by
  have hr : (⟨pd.template, pd.methods, ⟨[], [], [], none⟩, toks, []⟩ : GRoute) ∈ rs := by
    have h' := h
    unfold gorillaRoutes at h'
    simp only [hs, gMakeServers] at h'
    have e := allSome_eq h'
    have hm : mkRoute pd ⟨[], [], [], none⟩ = some ⟨pd.template, pd.methods, ⟨[], [], [], none⟩, toks, []⟩ := by
      have hh : gparseS ([] : Str) = some [] := by simp [gparseS, gparse]
      unfold mkRoute
      simp only [List.nil_append, hp, hh]
      simp [hslash, varNamesG]
    have : some (⟨pd.template, pd.methods, ⟨[], [], [], none⟩, toks, []⟩ : GRoute) ∈ rs.map some := by
      rw [← e]
      simp only [List.mem_flatMap, List.mem_map]
      exact ⟨pd, (mem_inMatchingOrder _ _).2 hpd, ⟨[], [], [], none⟩, by simp, hm⟩
    simpa using this
  exact gorilla_route_complete_partial d req rs h _ hr b hfill hgood (by simp [schemeOK]) rfl hnoshadow

/-- literal_wins (gorillamux): a route is returned only if no compiled route of a path with fewer variables
    matches the URL — in particular a templated path never wins over a matching literal path -/
theorem gorilla_literal_wins (d : Doc) (req : Req) (rs : List GRoute) (hrs : gorillaRoutes d = some rs)
    (t m : Str) (ps : List (Str × Str)) (h : gorillaFind d req = .route t m ps) :
    ∀ r0 ∈ rs, nvars r0.template < nvars t → gRouteMatch r0 req = none := by
  unfold gorillaFind at h
  rw [hrs] at h
  obtain ⟨pre, r, post, b, e, hpre, _, ht, _, _⟩ := gFirst_route h
  have hpw := pairwise_routes hrs
  rw [e, List.pairwise_append] at hpw
  obtain ⟨_, hpost, _⟩ := hpw
  rw [List.pairwise_cons] at hpost
  intro r0 hr0 hlt
  rw [e] at hr0
  simp only [List.mem_append, List.mem_cons] at hr0
  rcases hr0 with h0 | rfl | h0
  · exact hpre r0 h0
  · rw [ht] at hlt; omega
  · have := hpost.1 r0 h0
    rw [ht] at this; omega

/-- inMatchingOrder_sorted: the order in which gorillamux compiles the paths has non-decreasing numbers of
    variables, and is a rearrangement of the declared paths -/
theorem inMatchingOrder_sorted (ps : List PathDecl) :
    (inMatchingOrder ps).Pairwise (fun a b => nvars a.template ≤ nvars b.template) ∧
    ∀ z, z ∈ inMatchingOrder ps ↔ z ∈ ps :=
  ⟨pairwise_inMatchingOrder ps, mem_inMatchingOrder ps⟩

/-! ## the spec: executable oracle = declarative relation; coherence of the required outcome -/

/-- the oracle's enumeration `smatchP` is exactly "non-empty slash-free values fill the template to a prefix" -/
theorem spec_oracle_iff (toks : List STok) (s : Str) (vs : List Str) (rest : Str) :
    (vs, rest) ∈ smatchP toks s ↔ Fills toks vs s rest := smatchP_iff toks s vs rest

/-- every candidate of the spec is a declared template filled with good values that reproduces a remaining path -/
theorem spec_cand_sound (method rem : Str) (pd : PathDecl) (c : Cand) (h : c ∈ candsFor method rem pd) :
    c.template = pd.template ∧ c.declares = pd.methods.contains method ∧
      ∃ vs, Fills (sparseS pd.template) vs rem [] ∧ c.params = (svarNames (sparseS pd.template)).zip vs := by
  simp only [candsFor, List.mem_filterMap] at h
  obtain ⟨⟨vs, rest⟩, hm, hc⟩ := h
  split at hc
  · rename_i hr
    simp only at hr
    subst hr
    simp only [Option.some.injEq] at hc
    subst hc
    exact ⟨rfl, rfl, vs, (smatchP_iff _ _ _ _).1 hm, rfl⟩
  · simp at hc

/-- the spec requires path-not-found exactly when there is no candidate -/
theorem spec_notFound_iff (e : Bool) (d : Doc) (r : Req) :
    (specOutcome e d r).1 = .notFound ↔ specCands e d r = [] := by
  unfold specOutcome
  simp only
  split
  · rename_i h; simp [h]
  · rename_i h
    simp only [h, iff_false]
    split
    · simp
    · split <;> simp

/-- when the spec requires a route, every allowed route is a candidate that declares the method; and if a literal
    candidate declares the method, only literal candidates are allowed ("a literal path wins") -/
theorem spec_route_allowed (e : Bool) (d : Doc) (r : Req) (cs : List Cand) (h : specOutcome e d r = (.route, cs)) :
    (∀ c ∈ cs, c ∈ specCands e d r ∧ c.declares = true) ∧
    ((∃ c ∈ specCands e d r, isLiteralT c.template = true ∧ c.declares = true) → ∀ c ∈ cs, isLiteralT c.template = true) := by
  unfold specOutcome at h
  simp only at h
  split at h
  · simp at h
  · split at h
    · rename_i hl
      simp only [Prod.mk.injEq, true_and] at h
      subst h
      refine ⟨?_, ?_⟩
      · intro c hc
        simp only [List.mem_filter, Bool.and_eq_true] at hc
        exact ⟨hc.1, hc.2.2⟩
      · intro _ c hc
        simp only [List.mem_filter, Bool.and_eq_true] at hc
        exact hc.2.1
    · rename_i hl
      split at h
      · simp at h
      · simp only [Prod.mk.injEq, true_and] at h
        subst h
        refine ⟨?_, ?_⟩
        · intro c hc
          simp only [List.mem_filter] at hc
          exact hc
        · rintro ⟨c0, hc0, h1, h2⟩
          exfalso
          apply hl
          intro hnil
          have : c0 ∈ List.filter (fun c => isLiteralT c.template && c.declares) (specCands e d r) := by
            simp [List.mem_filter, hc0, h1, h2]
          rw [hnil] at this
          simp at this

/-! ## witnesses: inside each exclusion class the modelled code really differs from the spec -/

open W in
/-- finding #14: legacy routes GET /b to /b/{x} with x = "" ; the property requires path-not-found -/
theorem witness_legacy14_empty_binding :
    legacyFind d14 (req "GET" "/b") = .route (s "/b/{x}") get [(s "x", [])] ∧
    specOutcome true d14 (req "GET" "/b") = (.notFound, []) ∧
    specAccepts d14 (req "GET" "/b") (legacyFind d14 (req "GET" "/b")) = false ∧
    exclLegacy14 .legacy d14 (req "GET" "/b") = true ∧
    gorillaFind d14 (req "GET" "/b") = .notFound := by decide +kernel

open W in
/-- finding #14: /a//c/1 is routed to /a/{x}/c/{y} with x = "" -/
theorem witness_legacy14_double_slash :
    legacyFind d14b (req "GET" "/a//c/1") = .route (s "/a/{x}/c/{y}") get [(s "x", []), (s "y", s "1")] ∧
    specAccepts d14b (req "GET" "/a//c/1") (legacyFind d14b (req "GET" "/a//c/1")) = false ∧
    exclLegacy14 .legacy d14b (req "GET" "/a//c/1") = true ∧
    gorillaFind d14b (req "GET" "/a//c/1") = .notFound := by decide +kernel

open W in
/-- finding #14: the trailing slash of /a/zz/ is stripped and the request routed to /a/{x} -/
theorem witness_legacy14_trailing_slash :
    legacyFind d14c (req "GET" "/a/zz/") = .route (s "/a/{x}") get [(s "x", s "zz")] ∧
    specAccepts d14c (req "GET" "/a/zz/") (legacyFind d14c (req "GET" "/a/zz/")) = false ∧
    exclLegacy14 .legacy d14c (req "GET" "/a/zz/") = true ∧
    gorillaFind d14c (req "GET" "/a/zz/") = .notFound := by decide +kernel

open W in
/-- finding #40: gorillamux answers method-not-allowed for GET /a/b; the spec (and the legacy router) route it to /a/{x} -/
theorem witness_gorilla_shadow40 :
    gorillaFind d40 (req "GET" "/a/b") = .methodNotAllowed ∧
    specOutcome true d40 (req "GET" "/a/b") = (.route, [⟨s "/a/{x}", [(s "x", s "b")], true⟩]) ∧
    specAccepts d40 (req "GET" "/a/b") (gorillaFind d40 (req "GET" "/a/b")) = false ∧
    exclGorillaShadow40 .gorilla d40 (req "GET" "/a/b") = true ∧
    legacyFind d40 (req "GET" "/a/b") = .route (s "/a/{x}") get [(s "x", s "b")] := by decide +kernel

open W in
/-- finding #33: both routers accept env = qa although enum = [prod, dev] -/
theorem witness_srv_enum33 :
    legacyFind d33 r33 = .route (s "/a") get [(s "env", s "qa")] ∧
    gorillaFind d33 r33 = .route (s "/a") get [(s "env", s "qa")] ∧
    specOutcome true d33 r33 = (.notFound, []) ∧
    exclSrvEnum33 d33 r33 = true ∧
    exclSrvEnum33 d33 r33ok = false ∧
    specAccepts d33 r33ok (gorillaFind d33 r33ok) = true := by decide +kernel

open W in
/-- documented legacy limitation: /books/7.json is not routed to /books/{id}.json (gorillamux routes it) -/
theorem witness_legacy_var_then_literal :
    legacyFind dMid (req "GET" "/books/7.json") = .notFound ∧
    gorillaFind dMid (req "GET" "/books/7.json") = .route (s "/books/{id}.json") get [(s "id", s "7")] ∧
    (specOutcome true dMid (req "GET" "/books/7.json")).1 = .route ∧
    exclLegacyVarThenLiteral .legacy dMid = true := by decide +kernel

open W in
/-- legacy URL form: a relative server does not match an absolute request URL (it does match the path-only form) -/
theorem witness_legacy_url_form :
    legacyFind dForm rFormAbs = .notFound ∧
    (specOutcome true dForm rFormAbs).1 = .route ∧
    exclLegacyURLForm .legacy dForm rFormAbs = true ∧
    legacyFind dForm rFormRel = .route (s "/a") get [] ∧
    exclLegacyURLForm .legacy dForm rFormRel = false ∧
    gorillaFind dForm rFormAbs = .route (s "/a") get [] := by decide +kernel

open W in
/-- new finding: the legacy router commits to the first matching server; gorillamux and the spec route the request -/
theorem witness_legacy_first_server :
    legacyFind dFirst rFirst = .notFound ∧
    gorillaFind dFirst rFirst = .route (s "/b") (s "PUT") [(s "ver", s "v2")] ∧
    specOutcome true dFirst rFirst = (.route, [⟨s "/b", [], true⟩]) ∧
    exclLegacyFirstServer .legacy dFirst rFirst = true := by decide +kernel

/-! ## non-vacuity: the hypotheses of the theorems are satisfiable on a non-trivial document -/

open W in
/-- both routers, family with shared prefixes, server with host and port variables and a trailing slash:
    literal wins, two variables are extracted, mid-segment variable, unknown method, near miss -/
example :
    legacyFind dFam (rFam "GET" "/v1/a/b") = .route (s "/a/b") get [(s "env", s "dev"), (s "port", s "8443")] ∧
    gorillaFind dFam (rFam "GET" "/v1/a/b") = .route (s "/a/b") get [(s "env", s "dev"), (s "port", s "8443")] ∧
    legacyFind dFam (rFam "GET" "/v1/a/7/c/9") =
      .route (s "/a/{x}/c/{y}") get [(s "env", s "dev"), (s "port", s "8443"), (s "x", s "7"), (s "y", s "9")] ∧
    gorillaFind dFam (rFam "GET" "/v1/a/7/c/9") =
      .route (s "/a/{x}/c/{y}") get [(s "env", s "dev"), (s "x", s "7"), (s "y", s "9"), (s "port", s "8443")] ∧
    gorillaFind dFam (rFam "GET" "/v1/report.pdf") = .route (s "/report.{format}") get [(s "env", s "dev"), (s "format", s "pdf"), (s "port", s "8443")] ∧
    legacyFind dFam (rFam "POST" "/v1/a/7") = .route (s "/a/{x}") post [(s "env", s "dev"), (s "port", s "8443"), (s "x", s "7")] ∧
    specAccepts dFam (rFam "GET" "/v1/a/7/c/9") (legacyFind dFam (rFam "GET" "/v1/a/7/c/9")) = true ∧
    specAccepts dFam (rFam "GET" "/v1/a/b") (gorillaFind dFam (rFam "GET" "/v1/a/b")) = true ∧
    exclLegacy14 .legacy dFam (rFam "GET" "/v1/a/7/c/9") = false ∧
    legacyFind dFam (rFam "FOO" "/v1/a/b") = .methodNotAllowed ∧
    legacyFind dFam (rFam "GET" "/v2/a/b") = .notFound ∧
    gorillaFind dFam (rFam "GET" "/v1/zz") = .notFound := by decide +kernel

open W in
/-- the hypotheses of `legacy_match_sound_partial` hold on a match with two non-empty bindings -/
example : ∃ k vals, legacyMatch dFam get (s "/a/7/c/9") = some (k, vals) ∧ (∀ v ∈ vals, v ≠ []) ∧ vals.length = 2 :=
  ⟨⟨get, s "/a/{x}/c/{y}"⟩, [s "7", s "9"], by decide +kernel, by decide +kernel, rfl⟩

open W in
/-- the hypotheses of `legacy_match_complete_partial` hold: the key "GET /a/{x}/c/{y}" reads "GET /a/7/c/9" -/
example : (⟨get, s "/a/{x}/c/{y}"⟩ : Key) ∈ docKeys dFam ∧
    Reads (⟨get, s "/a/{x}/c/{y}"⟩ : Key).sufs [s "7", s "9"] (stripSlashes (get ++ ' ' :: s "/a/7/c/9")) := by
  refine ⟨by decide +kernel, ?_⟩
  have e1 : (⟨get, s "/a/{x}/c/{y}"⟩ : Key).sufs =
      [.const (s "GET "), .const (s "/"), .const (s "a"), .const (s "/"), .var, .const (s "/"), .const (s "c"), .const (s "/"), .var] := by
    decide +kernel
  have e2 : stripSlashes (get ++ ' ' :: s "/a/7/c/9") =
      s "GET " ++ (s "/" ++ (s "a" ++ (s "/" ++ (s "7" ++ (s "/" ++ (s "c" ++ (s "/" ++ (s "9" ++ [])))))))) := by
    decide +kernel
  rw [e1, e2]
  refine .const _ (.const _ (.const _ (.const _ (.var (by decide +kernel) (by decide +kernel)
    (.const _ (.const _ (.const _ (.var (by decide +kernel) (by decide +kernel) .nil))))))))

open W in
/-- the hypotheses of `gorilla_route_complete_noservers_partial` (no shadowing route) hold for GET /a/zz on d40 -/
example : ∃ rs, gorillaRoutes d40 = some rs ∧ (∀ r' ∈ rs, gRouteMatch r' (req "GET" "/a/zz") ≠ none → get ∈ r'.methods) ∧
    gorillaFind d40 (req "GET" "/a/zz") = .route (s "/a/{x}") get [(s "x", s "zz")] := by
  refine ⟨(gorillaRoutes d40).getD [], by decide +kernel, ?_, by decide +kernel⟩
  decide +kernel

end KinModel.Props.C09
