/-
C09 — routers return the declared operation whose template matches the URL.
Property theorems, witnesses and non-vacuity examples only; models in KinModel/Router.lean (code side) and
KinModel/RouterSpec.lean (property side), helper lemmas in KinModel/Lemmas/C09*.lean.
-/
import KinModel.Router
import KinModel.RouterSpec
import KinModel.RouterHist
import KinModel.Lemmas.C09Legacy
import KinModel.Lemmas.C09LegacyComplete
import KinModel.Lemmas.C09LegacyLiteral
import KinModel.Lemmas.C09Server
import KinModel.Lemmas.C09Facts
import KinModel.Lemmas.C09Refine
import KinModel.Lemmas.C09RefineAbs
import KinModel.Lemmas.C09LegacyRefine
import KinModel.Lemmas.C09LegacyOrder
import KinModel.Lemmas.C09Gorilla
import KinModel.Lemmas.C09Spec
import KinModel.Lemmas.C09Witness
namespace KinModel.Props.C09
open KinModel.Router

/-! ## the source facts the models copy by hand (table `RouterFacts`, regenerated from the source on every run) -/

/-- the translator could read every code shape it looks for -/
theorem router_facts_recognised : ∀ r ∈ KinModel.Gen.routerFacts, factRecognised r = true := by decide +kernel

/-- pathpattern: the numbers of the suffix kinds are those of `sufKind` (constant < regexp < variable < everything),
    `SuffixList.Less` is "kind first, then the larger pattern first" (`sufLess`), CreateNode and Match strip trailing slashes
    with the same loop (`stripSlashes` on both sides) -/
theorem router_facts_pathpattern :
    routerFact "suffixKind.SuffixKindConstant" = some "0" ∧ sufKind (.const []) = 0 ∧
    routerFact "suffixKind.SuffixKindRegExp" = some "1" ∧
    routerFact "suffixKind.SuffixKindVariable" = some "2" ∧ sufKind .var = 2 ∧
    routerFact "suffixKind.SuffixKindEverything" = some "3" ∧ sufKind .all = 3 ∧
    routerFact "less.body" = some "{ a, b := list[i], list[j] ak, bk := a.Kind, b.Kind if ak < bk { return true } else if bk < ak { return false } return a.Pattern > b.Pattern }" ∧
    routerFact "stripLoop.CreateNode" = some "for strings.HasSuffix(path, \"/\") { path = path[:len(path)-1] }" ∧
    routerFact "stripLoop.Match" = routerFact "stripLoop.CreateNode" := by decide +kernel

/-- Paths.InMatchingOrder counts '}' per template, walks the counts upwards and sorts each group in descending string order
    (`pathBefore`) -/
theorem router_facts_matching_order :
    routerFact "inMatchingOrder.count" = some "strings.Count(path, \"}\")" ∧
    routerFact "inMatchingOrder.loop" = some "c := 0; c <= max; c++" ∧
    routerFact "inMatchingOrder.sort" = some "sort.Sort(sort.Reverse(sort.StringSlice(ps)))" := by decide +kernel

/-- gorillamux: encoded-path mux router; one fresh Route per (path, server) carrying that server; FindRoute returns a copy
    and its only writes through a field go to that copy (Method, Operation: `stepCopy` of RouterHist.lean);
    newSrv drops one trailing slash of any non-empty base path; a path item's servers are assigned to a variable that the
    loop body redeclares on every iteration (`servers := servers`: no leak to the following path items, `gLoop`) -/
theorem router_facts_gorillamux :
    routerFact "gorilla.newRouter.mux" = some "muxRouter := mux.NewRouter().UseEncodedPath()" ∧
    routerFact "gorilla.newRouter.routeLiterals" = some "1" ∧
    routerFact "gorilla.newRouter.routePerServer" = some "true" ∧
    routerFact "gorilla.newRouter.route" = some "Spec: doc, Server: s.server, Path: path, PathItem: pathItem, Method: \"\", Operation: nil" ∧
    routerFact "gorilla.newRouter.pathServers" = some "servers := servers | servers, err = makeServers(pathItem.Servers)" ∧
    routerFact "gorilla.findRoute.copy" = some "route := *r.routes[i]" ∧
    routerFact "gorilla.findRoute.fieldWrites" = some "route.Method = req.Method | route.Operation = route.Spec.Paths.Value(route.Path).GetOperation(route.Method)" ∧
    routerFact "gorilla.findRoute.returns" = some "return &route, vars, nil | return nil, nil, routers.ErrMethodNotAllowed | return nil, nil, routers.ErrPathNotFound" ∧
    routerFact "gorilla.newSrv.trim" = some "len(path) > 0 && path[len(path)-1] == '/'" := by decide +kernel

/-- legacy: NewRouter ranges over two Go maps (hence the arbitrary key order of the legacy theorems), its stored routes have
    no Server and FindRoute stores the matched one into the copy it returns (its only writes through a field or index go to
    that copy and to the fresh parameter map: `stepCopy`); only the document's servers are read (F-C09-9); the
    decoded `url.Path` is matched without servers, the escaped `url.String()` with servers (`legacyFindW`) -/
theorem router_facts_legacy :
    routerFact "legacy.newRouter.ranges" = some "doc.Paths.Map() | pathItem.Operations()" ∧
    routerFact "legacy.newRouter.routeFields" = some "Spec,Path,PathItem,Method,Operation" ∧
    routerFact "legacy.findRoute.setsRouteServer" = some "r.Server = server" ∧
    routerFact "legacy.findRoute.copyBranch" = some "if server != nil { r := *route r.Server = server route = &r }" ∧
    routerFact "legacy.findRoute.fieldWrites" = some "pathParams[name] = value | r.Server = server | pathParams[key] = value" ∧
    routerFact "legacy.findRoute.serversFrom" = some "doc.Servers" ∧
    routerFact "legacy.findRoute.remainingPath" = some "remainingPath = url.Path | server, paramValues, remainingPath = servers.MatchURL(url)" ∧
    routerFact "servers.matchURL.input" = some "rawURL := parsedURL.String()" ∧
    routerFact "errors.ErrPathNotFound" = some "&RouteError{\"no matching operation was found\"}" ∧
    routerFact "errors.ErrMethodNotAllowed" = some "&RouteError{\"method not allowed\"}" := by decide +kernel

/-- percent-encoding: when nothing in the path is encoded, the wire-level routers are the routers of the theorems below on
    the one path string; otherwise gorillamux is that router on the escaped path and the legacy router on the decoded path
    (no servers) or the escaped URL (servers) -/
theorem wire_readings (d : Doc) (w : Wire) :
    gorillaFindW d w = gorillaFind d w.raw ∧
    legacyFindW d w = legacyFind d (if d.servers = [] then w.req else w.raw) ∧
    (w.epath = w.req.path → w.raw = w.req ∧ gorillaFindW d w = gorillaFind d w.req ∧ legacyFindW d w = legacyFind d w.req ∧
      ∀ o, specAcceptsW d w o = specAccepts d w.req o) := by
  refine ⟨rfl, rfl, ?_⟩
  intro h
  have e : w.raw = w.req := by
    unfold Wire.raw
    rw [h]
  refine ⟨e, by unfold gorillaFindW; rw [e], by unfold legacyFindW; rw [e]; simp, ?_⟩
  intro o
  unfold specAcceptsW
  rw [e, Bool.or_self]

/-! ## legacy router -/

/-- the keys stored by NewRouter are exactly the declared (method, template) pairs -/
theorem docKeys_declared (d : Doc) (k : Key) :
    k ∈ docKeys d ↔ ∃ pd ∈ d.paths, pd.template = k.template ∧ k.method ∈ pd.methods := by
  simp only [docKeys, List.mem_flatMap, List.mem_map]
  constructor
  · rintro ⟨pd, hpd, m, hm, rfl⟩; exact ⟨pd, hpd, rfl, hm⟩
  · rintro ⟨pd, hpd, ht, hm⟩; exact ⟨pd, hpd, k.method, hm, by cases k; simp_all⟩

/- NewRouter adds the keys while ranging over Go maps, so the legacy theorems are stated for the trie built from an
   arbitrary list `ks` of keys (instantiate `ks` with any rearrangement of `docKeys d`); `legacyFind d r` is the
   instance `ks = docKeys d`. -/

/- Full statement (false for the code, finding #14):
     legacyMatchOf ks m rem = some (k, vals) → k ∈ ks ∧ spell k.sufs vals = some (m ++ ' ' :: rem)
   What holds: under non-empty bindings the returned values substituted into the returned key "METHOD template"
   spell exactly the looked-up string "METHOD remainingPath" with its trailing slashes stripped. -/
theorem legacy_match_sound_partial (ks : List Key) (m rem : Str) (k : Key) (vals : List Str)
    (h : legacyMatchOf ks m rem = some (k, vals)) (hne : ∀ v ∈ vals, v ≠ []) :
    k ∈ ks ∧ spell k.sufs vals = some (stripSlashes (m ++ ' ' :: rem)) := by
  obtain ⟨ext, path, e0, e1, e3, _⟩ := match_sound.1 (legacyRootOf ks) _ [] (k, vals) h
  simp only [List.nil_append] at e1
  subst e1
  rcases build_paths ks emptyNode (path, k) e0 with h0 | ⟨h1, h2⟩
  · simp [paths_empty] at h0
  · simp only at h1 h2
    subst h2
    exact ⟨h1, e3 hne (key_sufs_wf k)⟩

/-- whatever the trie returns is one of the keys it was built from (no exclusion needed, any insertion order) -/
theorem legacy_match_declared (ks : List Key) (m rem : Str) (k : Key) (vals : List Str)
    (h : legacyMatchOf ks m rem = some (k, vals)) : k ∈ ks := by
  obtain ⟨ext, path, e0, _, _, _⟩ := match_sound.1 (legacyRootOf ks) _ [] (k, vals) h
  rcases build_paths ks emptyNode (path, k) e0 with h0 | ⟨h1, _⟩
  · simp [paths_empty] at h0
  · exact h1

/-- a route returned by the legacy router is a declared (method, template) pair, found in what remains of the URL after
    the first matching document-level server, and (non-empty bindings) its key spells that remainder; the `Route.Server`
    it carries is that matched server (nil for a document without servers) -/
theorem legacy_route_sound_partial (d : Doc) (ks : List Key) (hks : ∀ k ∈ ks, k ∈ docKeys d)
    (r : Req) (t m : Str) (ps : List (Str × Str)) (sv : SrvRef)
    (h : legacyFindOrd d ks r = .route t m ps sv) :
    ∃ si sp rem k vals, legacyServer d r = some (si, sp, rem) ∧ legacyMatchOf ks r.method rem = some (k, vals) ∧
      k.template = t ∧ k.method = m ∧
      sv = (match si with | some i => SrvRef.doc i | none => SrvRef.none) ∧
      (∃ pd ∈ d.paths, pd.template = t ∧ m ∈ pd.methods) ∧
      ((∀ v ∈ vals, v ≠ []) → spell k.sufs vals = some (stripSlashes (r.method ++ ' ' :: rem))) := by
  unfold legacyFindOrd at h
  split at h
  · simp at h
  · split at h
    · simp at h
    · rename_i si sp rem hs
      split at h
      · rename_i k vals hm
        simp only [Outcome.route.injEq] at h
        obtain ⟨h1, h2, _, h4⟩ := h
        refine ⟨si, sp, rem, k, vals, hs, hm, h1, h2, h4.symm, ?_, fun hne => (legacy_match_sound_partial ks _ _ _ _ hm hne).2⟩
        have hk := hks k (legacy_match_declared ks _ _ _ _ hm)
        obtain ⟨pd, hpd, e1, e2⟩ := (docKeys_declared d k).1 hk
        exact ⟨pd, hpd, by rw [e1, h1], by rw [← h2]; exact e2⟩
      · split at h
        · simp at h
        · split at h <;> simp at h

/- Full statement (false for the code: documented limitation "variable followed by text in the same segment"):
     k ∈ ks, "METHOD path" is k's key with its variables replaced by non-empty slash-free values → matched.
   What holds: every string that a stored key *reads* (`Reads`: constants literally, a variable takes a slash-free
   value and is followed by '/' or the end of the string) is matched by the trie — to some stored key
   (`legacy_match_declared`), not necessarily this one when templates overlap. -/
theorem legacy_match_complete_partial (ks : List Key) (m rem : Str) (k : Key) (vals : List Str)
    (hk : k ∈ ks) (hr : Reads k.sufs vals (stripSlashes (m ++ ' ' :: rem))) :
    (legacyMatchOf ks m rem).isSome := by
  obtain ⟨k2, h2⟩ := (build_has_path ks emptyNode).2 k hk
  exact match_complete k.sufs (legacyRootOf ks) k2 vals _ [] h2 hr

/-- route_complete (legacy, partial): under a matching server, a request that some stored key reads is routed -/
theorem legacy_route_complete_partial (d : Doc) (ks : List Key) (r : Req) (si : Option Nat)
    (sp : List (Str × Str)) (rem : Str) (k : Key) (vals : List Str)
    (hb : legacyBuildOK d = true) (hs : legacyServer d r = some (si, sp, rem))
    (hk : k ∈ ks) (hr : Reads k.sufs vals (stripSlashes (r.method ++ ' ' :: rem))) :
    ∃ t m ps sv, legacyFindOrd d ks r = .route t m ps sv := by
  have hm := legacy_match_complete_partial ks r.method rem k vals hk hr
  unfold legacyFindOrd
  simp only [hb, Bool.not_true, Bool.false_eq_true, if_false, hs]
  cases hmm : legacyMatchOf ks r.method rem with
  | none => simp [hmm] at hm
  | some kv => exact ⟨_, _, _, _, rfl⟩

/-- literal_wins (legacy trie, any insertion order): when the looked-up string "METHOD remainingPath" is, up to trailing
    slashes, a stored key without variables, the trie returns a key stored at that key's node (the key itself unless
    another key collides with it, F-C09-7) and binds no variable — a templated sibling (`/a/{x}` next to `/a/b`) never
    wins, whatever the suffix lists hold, because constants are tried before variables, longer constants first -/
theorem legacy_literal_wins (ks : List Key) (k0 : Key) (hk : k0 ∈ ks) (hlit : '{' ∉ k0.str) (m rem : Str)
    (hreq : stripSlashes (m ++ ' ' :: rem) = stripSlashes k0.str) :
    ∃ k', legacyMatchOf ks m rem = some (k', []) ∧ k' ∈ ks ∧ k'.sufs = k0.sufs := by
  obtain ⟨k2, h2⟩ := (build_has_path ks emptyNode).2 k0 hk
  obtain ⟨k', h3, h4⟩ := lit_match k0.sufs (legacyRootOf ks) k2 (stripSlashes k0.str) [] (legacyRoot_good ks) h2 (key_lit k0 hlit)
  refine ⟨k', by unfold legacyMatchOf; rw [hreq]; exact h3, ?_⟩
  rcases build_paths ks emptyNode (k0.sufs, k') h4 with h0 | ⟨h5, h6⟩
  · simp [paths_empty] at h0
  · exact ⟨h5, h6.symm⟩

/-- … and FindRoute then returns that key's route (no path parameter from the template) -/
theorem legacy_literal_route (d : Doc) (ks : List Key) (r : Req) (hb : legacyBuildOK d = true)
    (si : Option Nat) (sp : List (Str × Str)) (rem : Str) (hs : legacyServer d r = some (si, sp, rem))
    (k0 : Key) (hk : k0 ∈ ks) (hlit : '{' ∉ k0.str)
    (hreq : stripSlashes (r.method ++ ' ' :: rem) = stripSlashes k0.str) :
    ∃ k' sv, k' ∈ ks ∧ k'.sufs = k0.sufs ∧
      legacyFindOrd d ks r = .route k'.template k'.method (mapSetAll (mapSetAll [] sp) (((Tok.names k'.toks).map trimStar).zip [])) sv := by
  obtain ⟨k', h1, h2, h3⟩ := legacy_literal_wins ks k0 hk hlit r.method rem hreq
  refine ⟨k', (match si with | some i => SrvRef.doc i | none => SrvRef.none), h2, h3, ?_⟩
  unfold legacyFindOrd
  simp only [hb, Bool.not_true, Bool.false_eq_true, if_false, hs, h1]
  cases si <;> rfl

/-- the server part of the legacy FindRoute: the matched server is the first declared document-level server whose pattern
    matches the request URL; its URL with the extracted (slash-free) values substituted, a final "/" ignored, is a prefix of
    the request URL and the remaining path is what follows (an empty remainder reads as "/") -/
theorem legacy_server_sound (d : Doc) (r : Req) (i : Nat) (sp : List (Str × Str)) (rem : Str)
    (h : legacyServer d r = some (some i, sp, rem)) :
    ∃ s, d.servers[i]? = some s ∧
      (∀ j s', j < i → d.servers[j]? = some s' → matchRawURL (s'.url.length + 1) s'.url (rawURL r) [] = none) ∧
      ∃ vals p rem', PatSpell s.url vals p ∧ (∀ v ∈ vals, '/' ∉ v) ∧ rawURL r = p ++ rem' ∧ RemOf rem' rem ∧
        sp = (paramNames (s.url.length + 1) s.url).zip vals := by
  unfold legacyServer at h
  split at h
  · simp at h
  · split at h
    · simp at h
    · rename_i i' s vals' rem0 hm
      simp only [Option.some.injEq, Prod.mk.injEq] at h
      obtain ⟨rfl, rfl, rfl⟩ := h
      obtain ⟨k, e1, e2, e3, e4⟩ := matchServersFrom_some _ _ _ _ _ _ _ hm
      simp only [Nat.zero_add] at e1
      subst e1
      obtain ⟨vals, p, rem', f1, f2, f3, f4, f5⟩ := matchRawURL_sound _ _ _ _ _ _ e3
      simp only [List.nil_append] at f1
      subst f1
      exact ⟨s, e2, e4, vals', p, rem', f2, f3, f4, f5, rfl⟩

/-- … and without document-level servers the whole URL path is matched, no server is involved -/
theorem legacy_server_none (d : Doc) (r : Req) (sp : List (Str × Str)) (rem : Str) :
    legacyServer d r = some (none, sp, rem) ↔ d.servers = [] ∧ sp = [] ∧ rem = r.path := by
  unfold legacyServer
  split
  · rename_i h; simp [h, eq_comm]
  · rename_i h
    split <;> simp [h]

/- Full statement (false for the code, finding F-C09-7): the router's answers do not depend on the order in which NewRouter
   meets the (method, template) pairs — a Go map iteration order.
   What holds: … when no two different keys share a suffix path (`keyCollision = false`): then every rearrangement of the
   keys builds the same trie. -/
theorem legacy_order_independent_partial (d : Doc) (ks : List Key) (hp : ks.Perm (docKeys d))
    (hnc : keyCollision (docKeys d) = false) (r : Req) :
    legacyRootOf ks = legacyRoot d ∧ legacyFindOrd d ks r = legacyFindOrd d (docKeys d) r := by
  have hroot : legacyRootOf ks = legacyRootOf (docKeys d) :=
    (build_perm hp.symm (noCollision_of_keyCollision hnc) emptyNode).symm
  refine ⟨hroot, ?_⟩
  unfold legacyFindOrd legacyMatchOf
  rw [hroot]

/-- … at full strength for the router after the repair proposed for F-C09-7 (construction refuses two keys on one node):
    its answers do not depend on the order in which the keys are met -/
theorem legacy_order_independent_after_repair (d : Doc) (ks : List Key) (hp : ks.Perm (docKeys d)) (r : Req) :
    legacyFindOrdStrict d ks r = legacyFindOrdStrict d (docKeys d) r := by
  unfold legacyFindOrdStrict
  cases hb : legacyBuildOKStrict d with
  | false => rfl
  | true =>
    simp only [Bool.not_true, Bool.false_eq_true, if_false]
    have hnc : keyCollision (docKeys d) = false := by
      unfold legacyBuildOKStrict at hb
      simp only [Bool.and_eq_true, Bool.not_eq_true'] at hb
      exact hb.2
    exact (legacy_order_independent_partial d ks hp hnc r).2

/-- no_match_is_error (legacy): no matching server, or no trie match and no path key spelled by the remaining path,
    yields path-not-found; and the router never answers with the nil-dereference outcome -/
theorem legacy_no_match_is_error (d : Doc) (ks : List Key) (r : Req) (hb : legacyBuildOK d = true) :
    (legacyServer d r = none → legacyFindOrd d ks r = .notFound) ∧
    (∀ si sp rem, legacyServer d r = some (si, sp, rem) → legacyMatchOf ks r.method rem = none →
        legacyFindOrd d ks r = .notFound ∨ legacyFindOrd d ks r = .methodNotAllowed) ∧
    legacyFindOrd d ks r ≠ .panic := by
  refine ⟨?_, ?_, ?_⟩
  · intro h; simp [legacyFindOrd, hb, h]
  · intro si sp rem hs hm
    simp only [legacyFindOrd, hb, Bool.not_true, Bool.false_eq_true, if_false, hs, hm]
    split
    · exact Or.inl rfl
    · split
      · exact Or.inl rfl
      · exact Or.inr rfl
  · unfold legacyFindOrd
    simp only [hb, Bool.not_true, Bool.false_eq_true, if_false]
    split
    · simp
    · split
      · simp
      · split
        · simp
        · split <;> simp

/-- error kinds (legacy): the answer is method-not-allowed exactly when a server matches, the trie finds nothing and the
    remaining path is literally a declared template that lacks the request method; every other failure is path-not-found -/
theorem legacy_method_not_allowed_iff (d : Doc) (ks : List Key) (r : Req) (hb : legacyBuildOK d = true) :
    legacyFindOrd d ks r = .methodNotAllowed ↔
      ∃ si sp rem pd, legacyServer d r = some (si, sp, rem) ∧ legacyMatchOf ks r.method rem = none ∧
        lookupPath rem d.paths = some pd ∧ r.method ∉ pd.methods := by
  unfold legacyFindOrd
  simp only [hb, Bool.not_true, Bool.false_eq_true, if_false]
  constructor
  · intro h
    split at h
    · simp at h
    · rename_i si sp rem hs
      split at h
      · simp at h
      · rename_i hm
        split at h
        · simp at h
        · rename_i pd hl
          split at h
          · simp at h
          · rename_i hmem
            exact ⟨si, sp, rem, pd, hs, hm, hl, hmem⟩
  · rintro ⟨si, sp, rem, pd, hs, hm, hl, hmem⟩
    simp [hs, hm, hl, hmem]

/-! ## gorillamux router -/

/-- every compiled mux route comes from a declared path item and one of the servers that apply to it (its own when it
    declares some, otherwise the document's; the placeholder only when neither declares one) -/
theorem gorilla_routes_declared {d : Doc} {rs : List GRoute} (h : gorillaRoutes d = some rs) {r : GRoute} (hr : r ∈ rs) :
    ∃ pd ∈ d.paths, ∃ g, mkRoute pd g = some r ∧ EffSrv d pd g := by
  obtain ⟨pd, hpd, g, hg, hmk⟩ := ((routes_effective h).1 r).1 hr
  exact ⟨pd, hpd, g, hmk, hg⟩

/-- route_sound (gorillamux, full strength — since the repair of F-C09-10 without the leak-shape hypothesis): a returned
    route carries the request method; its template is declared with that method; its `Route.Server` is (the pointer kept
    in) a compiled server `g` that applies to the route's own path item and that, together with the template, reproduces
    the request: path = base path of g + template filled with non-empty slash-free values, scheme and host match g; the
    returned parameters are exactly the extracted values (plus the default of a port variable) -/
theorem gorilla_route_sound (d : Doc) (req : Req) (t m : Str) (ps : List (Str × Str)) (sv : SrvRef)
    (h : gorillaFind d req = .route t m ps sv) :
    m = req.method ∧ ∃ pd ∈ d.paths, pd.template = t ∧ m ∈ pd.methods ∧
      ∃ g b, g.ref = sv ∧ EffSrv d pd g ∧ Reproduces g t req b ∧
        ps = mapSetAll (mapSetAll [] b) (match g.upd with | some kv => [kv] | none => []) := by
  unfold gorillaFind at h
  split at h
  · simp at h
  · rename_i rs hrs
    obtain ⟨pre, r, post, b, e, _, hm, ht, hmeth, hdecl, hsv, hps⟩ := gFirst_route h
    have hr : r ∈ rs := by rw [e]; simp
    obtain ⟨pd, hpd, g, hmk, hg⟩ := gorilla_routes_declared hrs hr
    obtain ⟨e1, e2, e3, _, _⟩ := mkRoute_some hmk
    refine ⟨hmeth, pd, hpd, by rw [← e1, ht], by rw [hmeth, ← e2]; exact hdecl, g, b, by rw [← e3]; exact hsv, hg, ?_, by rw [← e3]; exact hps⟩
    rw [← ht, e1]
    exact gRouteMatch_reproduces hmk hm

/-- the `Route.Server` pointer of a server that applies to a path item: nil only if neither the path item nor the document
    declares servers, otherwise the i-th server of the path item's own list, or of the document's when it has none -/
theorem effSrv_ref (d : Doc) (pd : PathDecl) (g : GSrv) (h : EffSrv d pd g) :
    (g.ref = .none ∧ pd.servers = [] ∧ d.servers = []) ∨
    (∃ i, g.ref = .doc i ∧ pd.servers = [] ∧ i < d.servers.length) ∨
    (∃ i, g.ref = .path pd.template i ∧ i < pd.servers.length) := by
  unfold EffSrv at h
  split at h
  · rename_i he
    rcases h with ⟨h1, h2⟩ | ⟨i, s, h1, h2⟩
    · subst h2; exact Or.inl ⟨rfl, he, h1⟩
    · refine Or.inr (Or.inl ⟨i, gMakeServer_ref h2, he, ?_⟩)
      exact (List.getElem?_eq_some_iff.1 h1).1
  · rename_i he
    rcases h with ⟨h1, _⟩ | ⟨i, s, h1, h2⟩
    · exact absurd h1 he
    · refine Or.inr (Or.inr ⟨i, gMakeServer_ref h2, ?_⟩)
      exact (List.getElem?_eq_some_iff.1 h1).1

/-- no_match_is_error (gorillamux): the answer is path-not-found exactly when no compiled route matches the URL
    (path template, scheme set, host template) -/
theorem gorilla_not_found_iff (d : Doc) (req : Req) (rs : List GRoute) (h : gorillaRoutes d = some rs) :
    gorillaFind d req = .notFound ↔ ∀ r ∈ rs, gRouteMatch r req = none := by
  unfold gorillaFind
  rw [h]
  exact gFirst_notFound_iff rs req

/-- … in particular a path that fills no "base + template" yields path-not-found, never a route -/
theorem gorilla_no_match_is_error (d : Doc) (req : Req) (rs : List GRoute) (h : gorillaRoutes d = some rs)
    (hno : ∀ r ∈ rs, ∀ b, (∀ p ∈ b, GoodFor '/' p.2) → gsubst r.pathToks b ≠ some req.path) :
    gorillaFind d req = .notFound := by
  rw [gorilla_not_found_iff d req rs h]
  intro r hr
  cases hm : gRouteMatch r req with
  | none => rfl
  | some b =>
    obtain ⟨pb, hpb⟩ := gRouteMatch_path hm
    obtain ⟨g1, g2⟩ := gmatch_sound '/' _ _ _ hpb
    exact absurd g1 (hno r hr pb g2)

/-- error kinds (gorillamux): method-not-allowed exactly when the first compiled route that matches the URL lacks the method -/
theorem gorilla_method_not_allowed_iff (d : Doc) (req : Req) (rs : List GRoute) (h : gorillaRoutes d = some rs) :
    gorillaFind d req = .methodNotAllowed ↔
      ∃ pre r post, rs = pre ++ r :: post ∧ (∀ r' ∈ pre, gRouteMatch r' req = none) ∧
        gRouteMatch r req ≠ none ∧ req.method ∉ r.methods := by
  unfold gorillaFind
  rw [h]
  clear h
  induction rs with
  | nil => simp [gFirst]
  | cons r0 rs ih =>
    simp only [gFirst]
    split
    · rename_i b hb
      constructor
      · intro hh
        split at hh
        · simp at hh
        · rename_i hmeth
          exact ⟨[], r0, rs, rfl, by simp, by simp [hb], hmeth⟩
      · rintro ⟨pre, r, post, e, hpre, hm, hmeth⟩
        cases pre with
        | nil =>
          simp only [List.nil_append, List.cons.injEq] at e
          obtain ⟨rfl, _⟩ := e
          simp [hmeth]
        | cons p pre' =>
          simp only [List.cons_append, List.cons.injEq] at e
          obtain ⟨rfl, _⟩ := e
          have := hpre r0 (by simp)
          rw [hb] at this; simp at this
    · rename_i hn
      rw [ih]
      constructor
      · rintro ⟨pre, r, post, e, hpre, hm, hmeth⟩
        refine ⟨r0 :: pre, r, post, by simp [e], ?_, hm, hmeth⟩
        intro r' hr'
        simp only [List.mem_cons] at hr'
        rcases hr' with rfl | hr'
        · exact hn
        · exact hpre r' hr'
      · rintro ⟨pre, r, post, e, hpre, hm, hmeth⟩
        cases pre with
        | nil =>
          simp only [List.nil_append, List.cons.injEq] at e
          obtain ⟨rfl, _⟩ := e
          exact absurd hn hm
        | cons p pre' =>
          simp only [List.cons_append, List.cons.injEq] at e
          obtain ⟨rfl, rfl⟩ := e
          exact ⟨pre', r, post, rfl, fun r' hr' => hpre r' (by simp [hr']), hm, hmeth⟩

/- Full statement (false for the code, finding #40):
     r ∈ routes, the request fills r's template and satisfies r's scheme/host, method declared under r → routed.
   What holds: … provided no matching route lacks the method (the first matching mux route decides). -/
theorem gorilla_route_complete_partial (d : Doc) (req : Req) (rs : List GRoute) (h : gorillaRoutes d = some rs)
    (r : GRoute) (hr : r ∈ rs) (b : List (Str × Str))
    (hfill : gsubst r.pathToks b = some req.path) (hgood : ∀ p ∈ b, GoodFor '/' p.2)
    (hscheme : schemeOK r req = true)
    (hhost : r.srv.host = [] ∨ ∃ hb, gsubst r.hostToks hb = some (hostFor r req) ∧ ∀ p ∈ hb, GoodFor '.' p.2)
    (hnoshadow : ∀ r' ∈ rs, gRouteMatch r' req ≠ none → req.method ∈ r'.methods) :
    ∃ t ps sv, gorillaFind d req = .route t req.method ps sv := by
  unfold gorillaFind
  rw [h]
  apply gFirst_complete _ hnoshadow
  refine ⟨r, hr, ?_⟩
  have hc := gmatch_complete '/' _ _ _ hfill hgood
  unfold gRouteMatch
  cases hm : gmatch '/' r.pathToks req.path with
  | none => simp [hm] at hc
  | some pb =>
    rcases hhost with hh | ⟨hb, h1, h2⟩
    · simp [hscheme, hh]
    · have hc2 := gmatch_complete '.' _ _ _ h1 h2
      cases hm2 : gmatch '.' r.hostToks (hostFor r req) with
      | none => simp [hm2] at hc2
      | some x => by_cases hh : r.srv.host = [] <;> simp [hscheme, hh]

/-- the compiled route of a path item and a server that applies to it is in the route list -/
theorem gorilla_route_listed (d : Doc) (rs : List GRoute) (h : gorillaRoutes d = some rs)
    (pd : PathDecl) (hpd : pd ∈ d.paths) (g : GSrv) (hg : EffSrv d pd g) (r : GRoute) (hmk : mkRoute pd g = some r) : r ∈ rs :=
  ((routes_effective h).1 r).2 ⟨pd, hpd, g, hg, hmk⟩

/-- route_complete (gorillamux) under declared servers: a request that fills "base path + template" of a path item and
    one of the servers that apply to it, with the server's scheme and host, and a declared method, is routed — unless
    another matching route lacks the method (#40) -/
theorem gorilla_route_complete_servers_partial (d : Doc) (req : Req) (rs : List GRoute) (h : gorillaRoutes d = some rs)
    (pd : PathDecl) (hpd : pd ∈ d.paths) (g : GSrv) (hg : EffSrv d pd g) (r : GRoute) (hmk : mkRoute pd g = some r)
    (b : List (Str × Str)) (hfill : gsubst r.pathToks b = some req.path) (hgood : ∀ p ∈ b, GoodFor '/' p.2)
    (hscheme : schemeOK r req = true)
    (hhost : r.srv.host = [] ∨ ∃ hb, gsubst r.hostToks hb = some (hostFor r req) ∧ ∀ p ∈ hb, GoodFor '.' p.2)
    (hnoshadow : ∀ r' ∈ rs, gRouteMatch r' req ≠ none → req.method ∈ r'.methods) :
    ∃ t ps sv, gorillaFind d req = .route t req.method ps sv :=
  gorilla_route_complete_partial d req rs h r (gorilla_route_listed d rs h pd hpd g hg r hmk) b hfill hgood hscheme hhost hnoshadow

/-- route_complete for a document without servers (none at document level, none at path-item level): filling a declared
    template with non-empty slash-free values and asking with a declared method is routed, unless another matching
    template lacks the method (#40) -/
theorem gorilla_route_complete_noservers_partial (d : Doc) (req : Req) (rs : List GRoute)
    (hs : d.servers = []) (hps : ∀ p ∈ d.paths, p.servers = []) (h : gorillaRoutes d = some rs)
    (pd : PathDecl) (hpd : pd ∈ d.paths) (toks : List GTok) (hp : gparseS pd.template = some toks)
    (hslash : pd.template.head? = some '/')
    (b : List (Str × Str)) (hfill : gsubst toks b = some req.path) (hgood : ∀ p ∈ b, GoodFor '/' p.2)
    (hnoshadow : ∀ r' ∈ rs, gRouteMatch r' req ≠ none → req.method ∈ r'.methods) :
    ∃ t ps sv, gorillaFind d req = .route t req.method ps sv := by
  have hm : mkRoute pd noSrv = some ⟨pd.template, pd.methods, noSrv, toks, []⟩ := by
    have hh : gparseS ([] : Str) = some [] := by simp [gparseS, gparse]
    unfold mkRoute
    simp only [noSrv, List.nil_append, hp, hh]
    simp [hslash, varNamesG]
  have hg : EffSrv d pd noSrv := by
    unfold EffSrv
    simp only [hps pd hpd, if_true]
    exact Or.inl ⟨hs, rfl⟩
  exact gorilla_route_complete_servers_partial d req rs h pd hpd noSrv hg _ hm b hfill hgood (by simp [schemeOK, noSrv])
    (Or.inl rfl) hnoshadow

/-- literal_wins (gorillamux): a route is returned only if no compiled route of a path with fewer variables
    matches the URL — in particular a templated path never wins over a matching literal path -/
theorem gorilla_literal_wins (d : Doc) (req : Req) (rs : List GRoute) (hrs : gorillaRoutes d = some rs)
    (t m : Str) (ps : List (Str × Str)) (sv : SrvRef) (h : gorillaFind d req = .route t m ps sv) :
    ∀ r0 ∈ rs, nvars r0.template < nvars t → gRouteMatch r0 req = none := by
  unfold gorillaFind at h
  rw [hrs] at h
  obtain ⟨pre, r, post, b, e, hpre, _, ht, _, _⟩ := gFirst_route h
  have hpw := pairwise_routes hrs
  rw [e, List.pairwise_append] at hpw
  obtain ⟨_, hpost, _⟩ := hpw
  rw [List.pairwise_cons] at hpost
  intro r0 hr0 hlt
  rw [e] at hr0
  simp only [List.mem_append, List.mem_cons] at hr0
  rcases hr0 with h0 | rfl | h0
  · exact hpre r0 h0
  · rw [ht] at hlt; omega
  · have := hpost.1 r0 h0
    rw [ht] at this; omega

/-- inMatchingOrder_sorted: the order in which gorillamux compiles the paths has non-decreasing numbers of
    variables, and is a rearrangement of the declared paths -/
theorem inMatchingOrder_sorted (ps : List PathDecl) :
    (inMatchingOrder ps).Pairwise (fun a b => nvars a.template ≤ nvars b.template) ∧
    ∀ z, z ∈ inMatchingOrder ps ↔ z ∈ ps :=
  ⟨pairwise_inMatchingOrder ps, mem_inMatchingOrder ps⟩

/-! ## the spec: executable oracle = declarative relation; coherence of the required outcome -/

/-- the oracle's enumeration `smatchP` is exactly "non-empty slash-free values fill the template to a prefix" -/
theorem spec_oracle_iff (toks : List STok) (s : Str) (vs : List Str) (rest : Str) :
    (vs, rest) ∈ smatchP toks s ↔ Fills toks vs s rest := smatchP_iff toks s vs rest

/-- every candidate of the spec is a declared template filled with good values that reproduces a remaining path -/
theorem spec_cand_sound (method rem : Str) (ref : SrvRef) (pd : PathDecl) (c : Cand) (h : c ∈ candsFor method rem ref pd) :
    c.template = pd.template ∧ c.declares = pd.methods.contains method ∧ c.server = ref ∧
      ∃ vs, Fills (sparseS pd.template) vs rem [] ∧ c.params = (svarNames (sparseS pd.template)).zip vs := by
  simp only [candsFor, List.mem_filterMap] at h
  obtain ⟨⟨vs, rest⟩, hm, hc⟩ := h
  split at hc
  · rename_i hr
    simp only at hr
    subst hr
    simp only [Option.some.injEq] at hc
    subst hc
    exact ⟨rfl, rfl, rfl, vs, (smatchP_iff _ _ _ _).1 hm, rfl⟩
  · simp at hc

/-- a remaining path of the spec under a server: the server URL (one trailing slash ignored) with non-empty slash-free
    values for its variables is a prefix of the request URL (relative server: of the request path) that ends at a segment
    boundary, and the remaining path is what follows -/
theorem spec_server_rem_sound (e : Bool) (s : Server) (r : Req) (rem : Str) (h : rem ∈ specServerRems e s r) :
    ∃ vals, Fills (sparseS (dropOneSlash s.url)) vals
        (if isRelativeURL (dropOneSlash s.url) then r.path else fullURL r) rem ∧
      (rem = [] ∨ rem.head? = some '/') ∧
      (e = true → enumOK s (svarNames (sparseS (dropOneSlash s.url))) vals = true) :=
  specServerRems_sound e s r rem h

/-- every candidate of the spec is a declared template, matched against what remains of the request after one of the
    servers that apply to the template's path item — and the candidate names that server (`Route.Server` must be it) -/
theorem spec_cand_server (e : Bool) (d : Doc) (r : Req) (c : Cand) (h : c ∈ specCands e d r) :
    ∃ pd ∈ d.paths, c.template = pd.template ∧ c.declares = pd.methods.contains r.method ∧
      ((pd.servers = [] ∧ d.servers = [] ∧ c.server = .none ∧ ∃ vs, Fills (sparseS pd.template) vs r.path []) ∨
       (∃ i s, ((pd.servers = [] ∧ d.servers[i]? = some s ∧ c.server = .doc i) ∨
                (pd.servers ≠ [] ∧ pd.servers[i]? = some s ∧ c.server = .path pd.template i)) ∧
          ∃ rem ∈ specServerRems e s r, ∃ vs, Fills (sparseS pd.template) vs rem [])) := by
  simp only [specCands, List.mem_flatMap] at h
  obtain ⟨pd, hpd, hc⟩ := h
  refine ⟨pd, hpd, ?_⟩
  unfold specCandsPath at hc
  split at hc
  · rename_i heff
    obtain ⟨h1, h2, h3, vs, h4, _⟩ := spec_cand_sound _ _ _ _ _ hc
    refine ⟨h1, h2, Or.inl ?_⟩
    unfold effServers at heff
    split at heff
    · rename_i hp
      cases hd : d.servers with
      | nil => exact ⟨hp, rfl, h3, vs, h4⟩
      | cons a b => rw [hd] at heff; simp [tagFrom] at heff
    · rename_i hp
      cases hd : pd.servers with
      | nil => exact absurd hd hp
      | cons a b => rw [hd] at heff; simp [tagFrom] at heff
  · rename_i ss hne
    simp only [List.mem_flatMap] at hc
    obtain ⟨⟨ref, s⟩, hrs, rem, hrem, hc⟩ := hc
    obtain ⟨h1, h2, h3, vs, h4, _⟩ := spec_cand_sound _ _ _ _ _ hc
    refine ⟨h1, h2, Or.inr ?_⟩
    unfold effServers at hrs
    split at hrs
    · rename_i hp
      obtain ⟨i, hi, href⟩ := mem_tagFrom hrs
      exact ⟨i, s, Or.inl ⟨hp, hi, by rw [h3]; simpa using href⟩, rem, hrem, vs, h4⟩
    · rename_i hp
      obtain ⟨i, hi, href⟩ := mem_tagFrom hrs
      exact ⟨i, s, Or.inr ⟨hp, hi, by rw [h3]; simpa using href⟩, rem, hrem, vs, h4⟩

/-- the spec requires path-not-found exactly when there is no candidate -/
theorem spec_notFound_iff (e : Bool) (d : Doc) (r : Req) :
    (specOutcome e d r).1 = .notFound ↔ specCands e d r = [] := by
  unfold specOutcome
  simp only
  split
  · rename_i h; simp [h]
  · rename_i h
    simp only [h, iff_false]
    split
    · simp
    · split <;> simp

/-- when the spec requires a route, every allowed route is a candidate that declares the method; and if a literal
    candidate declares the method, only literal candidates are allowed ("a literal path wins") -/
theorem spec_route_allowed (e : Bool) (d : Doc) (r : Req) (cs : List Cand) (h : specOutcome e d r = (.route, cs)) :
    (∀ c ∈ cs, c ∈ specCands e d r ∧ c.declares = true) ∧
    ((∃ c ∈ specCands e d r, isLiteralT c.template = true ∧ c.declares = true) → ∀ c ∈ cs, isLiteralT c.template = true) := by
  unfold specOutcome at h
  simp only at h
  split at h
  · simp at h
  · split at h
    · rename_i hl
      simp only [Prod.mk.injEq, true_and] at h
      subst h
      refine ⟨?_, ?_⟩
      · intro c hc
        simp only [List.mem_filter, Bool.and_eq_true] at hc
        exact ⟨hc.1, hc.2.2⟩
      · intro _ c hc
        simp only [List.mem_filter, Bool.and_eq_true] at hc
        exact hc.2.1
    · rename_i hl
      split at h
      · simp at h
      · simp only [Prod.mk.injEq, true_and] at h
        subst h
        refine ⟨?_, ?_⟩
        · intro c hc
          simp only [List.mem_filter] at hc
          exact hc
        · rintro ⟨c0, hc0, h1, h2⟩
          exfalso
          apply hl
          intro hnil
          have : c0 ∈ List.filter (fun c => isLiteralT c.template && c.declares) (specCands e d r) := by
            simp [List.mem_filter, hc0, h1, h2]
          rw [hnil] at this
          simp at this

/-- a route is accepted by the oracle only if it carries the request method and names the template, the parameters and the
    server of one candidate that declares the method -/
theorem spec_accepts_route (d : Doc) (r : Req) (t m : Str) (ps : List (Str × Str)) (sv : SrvRef)
    (h : specAccepts d r (.route t m ps sv) = true) :
    m = r.method ∧ ∃ c ∈ specCands true d r, c.declares = true ∧ c.template = t ∧ c.server = sv ∧ paramsAgree c.params ps = true := by
  unfold specAccepts at h
  cases hso : specOutcome true d r with
  | mk mu cs =>
    rw [hso] at h
    cases mu with
    | notFound => simp at h
    | error => simp at h
    | route =>
      simp only [Bool.and_eq_true, decide_eq_true_eq, List.any_eq_true] at h
      obtain ⟨hm, c, hc, ⟨hct, hcp⟩, hcs⟩ := h
      have hh := (spec_route_allowed true d r cs hso).1 c hc
      exact ⟨hm, c, hh.1, hh.2, hct, hcs, hcp⟩

/-! ## the gorillamux model against the spec, on documents whose servers are plain relative paths (`PlainDoc`: no server
    variables, no scheme/host; document-level and path-item level servers, several base paths) without the leak shape -/

/-- route_sound against the spec: a returned route is a candidate of the spec — same template, same binding, and the
    `Route.Server` it names is the server under which the spec found the candidate — that declares the method -/
theorem gorilla_refines_spec_sound (e : Bool) (d : Doc) (hd : PlainDoc d)
    (req : Req) (t m : Str) (ps : List (Str × Str)) (sv : SrvRef) (h : gorillaFind d req = .route t m ps sv) :
    m = req.method ∧ ∃ c ∈ specCands e d req, c.template = t ∧ c.server = sv ∧ c.declares = true ∧
      ps = mapSetAll (mapSetAll [] c.params) [] := by
  unfold gorillaFind at h
  split at h
  · simp at h
  · rename_i rs hrs
    obtain ⟨pre, r, post, b, e0, _, hm, ht, hmeth, hdecl, hsv, hps⟩ := gFirst_route h
    have hr : r ∈ rs := by rw [e0]; simp
    obtain ⟨pd, hpd, g, hg, hmk⟩ := ((routes_effective hrs).1 r).1 hr
    obtain ⟨e1, e2, e3, _, _⟩ := mkRoute_some hmk
    have hc := cand_of_match e d hd req pd hpd g hg b (gRouteMatch_reproduces hmk hm)
    refine ⟨hmeth, _, List.mem_flatMap.2 ⟨pd, hpd, hc⟩, by rw [← e1, ht], by rw [← e3]; exact hsv, ?_, ?_⟩
    · simp only [List.contains_iff_mem, decide_eq_true_eq]
      rw [← e2]; exact hdecl
    · have hupd : g.upd = none := by
        unfold EffSrv at hg
        have hcf : ∀ mk l, (∀ s ∈ l, PlainRel s) → CompiledFrom mk l g → g.upd = none := by
          intro mk l hl hcf
          rcases hcf with ⟨_, rfl⟩ | ⟨i, s, hi, hmks⟩
          · rfl
          · rw [gMakeServer_plainRel _ s (hl s (getElem?_mem' hi))] at hmks
            simp only [Option.some.injEq] at hmks
            subst hmks; rfl
        split at hg
        · exact hcf _ _ hd.1 hg
        · exact hcf _ _ (hd.2 pd hpd).1 hg
      rw [hps, e3, hupd]

/-- route_sound against the spec, absolute servers included: on documents whose servers are plain relative paths or
    `scheme://host[:port][/base]` without variables (`AbsDoc`), for a request that names a port only where the matched kind of
    server does (`PortOK`: mux ignores the request's port when the host template has none), a returned route is a candidate of
    the spec — same template, binding and `Route.Server` — that declares the method -/
theorem gorilla_refines_spec_sound_abs (e : Bool) (d : Doc) (hd : AbsDoc d) (req : Req) (hport : PortOK d req)
    (t m : Str) (ps : List (Str × Str)) (sv : SrvRef) (h : gorillaFind d req = .route t m ps sv) :
    m = req.method ∧ ∃ c ∈ specCands e d req, c.template = t ∧ c.server = sv ∧ c.declares = true ∧
      ps = mapSetAll (mapSetAll [] c.params) [] := by
  unfold gorillaFind at h
  split at h
  · simp at h
  · rename_i rs hrs
    obtain ⟨pre, r, post, b, e0, _, hm, ht, hmeth, hdecl, hsv, hps⟩ := gFirst_route h
    have hr : r ∈ rs := by rw [e0]; simp
    obtain ⟨pd, hpd, g, hg, hmk⟩ := ((routes_effective hrs).1 r).1 hr
    obtain ⟨e1, e2, e3, _, _⟩ := mkRoute_some hmk
    obtain ⟨hc, hupd⟩ := cand_of_match_abs e d hd req hport pd hpd g hg b (gRouteMatch_reproduces hmk hm)
    refine ⟨hmeth, _, List.mem_flatMap.2 ⟨pd, hpd, hc⟩, by rw [← e1, ht], by rw [← e3]; exact hsv, ?_, ?_⟩
    · simp only [List.contains_iff_mem, decide_eq_true_eq]
      rw [← e2]; exact hdecl
    · rw [hps, e3, hupd]

/-- no_match_is_error against the spec, absolute servers included (request well formed, port only where the server names one) -/
theorem gorilla_refines_spec_not_found_abs (e : Bool) (d : Doc) (hd : AbsDoc d) (rs : List GRoute) (hrs : gorillaRoutes d = some rs)
    (req : Req) (hwf : ReqWF req) (hport : PortOK d req) :
    gorillaFind d req = .notFound ↔ specCands e d req = [] := by
  rw [gorilla_not_found_iff d req rs hrs]
  obtain ⟨heff, hbuilt⟩ := routes_effective hrs
  constructor
  · intro hall
    apply List.eq_nil_iff_forall_not_mem.2
    intro c hc
    simp only [specCands, List.mem_flatMap] at hc
    obtain ⟨pd, hpd, hcp⟩ := hc
    obtain ⟨_, _, g, hg, _, hmatch⟩ := match_of_cand_abs e d hd req hwf pd hpd c hcp
    obtain ⟨r, hmk⟩ := hbuilt pd hpd g hg
    exact hmatch r hmk (hall r ((heff r).2 ⟨pd, hpd, g, hg, hmk⟩))
  · intro hnil r hr
    cases hm : gRouteMatch r req with
    | none => rfl
    | some b =>
      exfalso
      obtain ⟨pd, hpd, g, hg, hmk⟩ := (heff r).1 hr
      have hc := (cand_of_match_abs e d hd req hport pd hpd g hg b (gRouteMatch_reproduces hmk hm)).1
      have : (⟨pd.template, b, pd.methods.contains req.method, g.ref⟩ : Cand) ∈ specCands e d req :=
        List.mem_flatMap.2 ⟨pd, hpd, hc⟩
      rw [hnil] at this
      simp at this

/- Full statement (false for the code, finding #40): some candidate declares the method → routed.
   What holds (absolute servers included): … when every candidate of the spec declares the method. -/
theorem gorilla_refines_spec_complete_abs_partial (e : Bool) (d : Doc) (hd : AbsDoc d) (rs : List GRoute)
    (hrs : gorillaRoutes d = some rs) (req : Req) (hwf : ReqWF req) (hport : PortOK d req)
    (hex : specCands e d req ≠ []) (hall : ∀ c ∈ specCands e d req, c.declares = true) :
    ∃ t ps sv, gorillaFind d req = .route t req.method ps sv := by
  unfold gorillaFind
  rw [hrs]
  obtain ⟨heff, hbuilt⟩ := routes_effective hrs
  apply gFirst_complete
  · obtain ⟨c, hc⟩ := List.exists_mem_of_ne_nil _ hex
    simp only [specCands, List.mem_flatMap] at hc
    obtain ⟨pd, hpd, hcp⟩ := hc
    obtain ⟨_, _, g, hg, _, hmatch⟩ := match_of_cand_abs e d hd req hwf pd hpd c hcp
    obtain ⟨r, hmk⟩ := hbuilt pd hpd g hg
    exact ⟨r, (heff r).2 ⟨pd, hpd, g, hg, hmk⟩, hmatch r hmk⟩
  · intro r hr hm
    cases hmm : gRouteMatch r req with
    | none => exact absurd hmm hm
    | some b =>
      obtain ⟨pd, hpd, g, hg, hmk⟩ := (heff r).1 hr
      have hc := (cand_of_match_abs e d hd req hport pd hpd g hg b (gRouteMatch_reproduces hmk hmm)).1
      have hdecl := hall _ (List.mem_flatMap.2 ⟨pd, hpd, hc⟩)
      simp only [List.contains_iff_mem, decide_eq_true_eq] at hdecl
      rw [(mkRoute_some hmk).2.1]
      exact hdecl

/-- no_match_is_error against the spec: the router answers path-not-found exactly when the spec has no candidate -/
theorem gorilla_refines_spec_not_found (e : Bool) (d : Doc) (hd : PlainDoc d)
    (rs : List GRoute) (hrs : gorillaRoutes d = some rs) (req : Req) :
    gorillaFind d req = .notFound ↔ specCands e d req = [] := by
  rw [gorilla_not_found_iff d req rs hrs]
  obtain ⟨heff, hbuilt⟩ := routes_effective hrs
  constructor
  · intro hall
    apply List.eq_nil_iff_forall_not_mem.2
    intro c hc
    simp only [specCands, List.mem_flatMap] at hc
    obtain ⟨pd, hpd, hcp⟩ := hc
    obtain ⟨_, _, g, hg, _, hmatch⟩ := match_of_cand e d hd req pd hpd c hcp
    obtain ⟨r, hmk⟩ := hbuilt pd hpd g hg
    exact hmatch r hmk (hall r ((heff r).2 ⟨pd, hpd, g, hg, hmk⟩))
  · intro hnil r hr
    cases hm : gRouteMatch r req with
    | none => rfl
    | some b =>
      exfalso
      obtain ⟨pd, hpd, g, hg, hmk⟩ := (heff r).1 hr
      have hc := cand_of_match e d hd req pd hpd g hg b (gRouteMatch_reproduces hmk hm)
      have : (⟨pd.template, b, pd.methods.contains req.method, g.ref⟩ : Cand) ∈ specCands e d req :=
        List.mem_flatMap.2 ⟨pd, hpd, hc⟩
      rw [hnil] at this
      simp at this

/- Full statement (false for the code, finding #40): some candidate declares the method → routed.
   What holds: … when every candidate of the spec declares the method (no matching template lacks it). -/
theorem gorilla_refines_spec_complete_partial (e : Bool) (d : Doc) (hd : PlainDoc d)
    (rs : List GRoute) (hrs : gorillaRoutes d = some rs) (req : Req)
    (hex : specCands e d req ≠ []) (hall : ∀ c ∈ specCands e d req, c.declares = true) :
    ∃ t ps sv, gorillaFind d req = .route t req.method ps sv := by
  unfold gorillaFind
  rw [hrs]
  obtain ⟨heff, hbuilt⟩ := routes_effective hrs
  apply gFirst_complete
  · obtain ⟨c, hc⟩ := List.exists_mem_of_ne_nil _ hex
    simp only [specCands, List.mem_flatMap] at hc
    obtain ⟨pd, hpd, hcp⟩ := hc
    obtain ⟨_, _, g, hg, _, hmatch⟩ := match_of_cand e d hd req pd hpd c hcp
    obtain ⟨r, hmk⟩ := hbuilt pd hpd g hg
    exact ⟨r, (heff r).2 ⟨pd, hpd, g, hg, hmk⟩, hmatch r hmk⟩
  · intro r hr hm
    cases hmm : gRouteMatch r req with
    | none => exact absurd hmm hm
    | some b =>
      obtain ⟨pd, hpd, g, hg, hmk⟩ := (heff r).1 hr
      have hc := cand_of_match e d hd req pd hpd g hg b (gRouteMatch_reproduces hmk hmm)
      have hdecl := hall _ (List.mem_flatMap.2 ⟨pd, hpd, hc⟩)
      simp only [List.contains_iff_mem, decide_eq_true_eq] at hdecl
      rw [(mkRoute_some hmk).2.1]
      exact hdecl

/-- literal_wins against the spec: when some literal template is a candidate, the returned route is a literal template
    (so, by `gorilla_refines_spec_sound`, one of the literal candidates) -/
theorem gorilla_refines_spec_literal_wins (e : Bool) (d : Doc) (hd : PlainDoc d)
    (rs : List GRoute) (hrs : gorillaRoutes d = some rs) (req : Req)
    (t m : Str) (ps : List (Str × Str)) (sv : SrvRef) (h : gorillaFind d req = .route t m ps sv)
    (c0 : Cand) (hc0 : c0 ∈ specCands e d req) (hlit : isLiteralT c0.template = true) : isLiteralT t = true := by
  have hwin := gorilla_literal_wins d req rs hrs t m ps sv h
  have hrs' := hrs
  obtain ⟨heff, hbuilt⟩ := routes_effective hrs'
  -- the literal candidate's route matches the request
  simp only [specCands, List.mem_flatMap] at hc0
  obtain ⟨pd0, hpd0, hcp0⟩ := hc0
  obtain ⟨ht0, _, g0, hg0, _, hmatch0⟩ := match_of_cand e d hd req pd0 hpd0 c0 hcp0
  obtain ⟨r0, hmk0⟩ := hbuilt pd0 hpd0 g0 hg0
  have hr0 : r0 ∈ rs := (heff r0).2 ⟨pd0, hpd0, g0, hg0, hmk0⟩
  obtain ⟨tt0, htt0⟩ := template_parses hd hpd0 hg0 hmk0
  have hn0 : nvars r0.template = 0 := by
    rw [(mkRoute_some hmk0).1, ← ht0]
    exact (isLiteralT_iff_nvars (by rw [ht0]; exact htt0)).1 hlit
  -- the returned route's template parses as well
  unfold gorillaFind at h
  rw [hrs'] at h
  obtain ⟨pre, r, post, b, e0, _, _, ht, _, _, _, _⟩ := gFirst_route h
  have hr : r ∈ rs := by rw [e0]; simp
  obtain ⟨pd, hpd, g, hg, hmk⟩ := (heff r).1 hr
  obtain ⟨tt, htt⟩ := template_parses hd hpd hg hmk
  have htpl : pd.template = t := by rw [← (mkRoute_some hmk).1, ht]
  rw [htpl] at htt
  refine (isLiteralT_iff_nvars htt).2 ?_
  cases hnt : nvars t with
  | zero => rfl
  | succ n =>
    exfalso
    exact hmatch0 r0 hmk0 (hwin r0 hr0 (by rw [hn0, hnt]; omega))

/-! ## the legacy model against the spec, on documents without servers -/

/- Full statement (false for the code, finding #14): a route returned by the legacy router is a candidate of the spec.
   What holds: … when every bound value is non-empty and neither the request path nor the returned template ends in '/'
   (document without servers, no `{name*}` wildcard, method names without '/', '{' or space). -/
theorem legacy_refines_spec_sound_partial (e : Bool) (d : Doc) (hs : d.servers = []) (hps : ∀ p ∈ d.paths, p.servers = [])
    (ks : List Key) (hks : ∀ k ∈ ks, k ∈ docKeys d) (r : Req) (t m : Str) (ps : List (Str × Str)) (sv : SrvRef)
    (h : legacyFindOrd d ks r = .route t m ps sv)
    (hmeth : '/' ∉ m ∧ '{' ∉ m ∧ ' ' ∉ m ∧ ' ' ∉ r.method)
    (ht : t.head? = some '/') (htl : t.getLast? ≠ some '/') (hrl : r.path.getLast? ≠ some '/')
    (hne : ∀ k vals, legacyMatchOf ks r.method r.path = some (k, vals) → (∀ v ∈ vals, v ≠ []) ∧ NoWildcard k.toks) :
    m = r.method ∧ sv = .none ∧ ∃ c ∈ specCands e d r, c.template = t ∧ c.server = .none ∧ c.declares = true := by
  have hbuild : legacyBuildOK d = true := by
    unfold legacyFindOrd at h
    cases hb : legacyBuildOK d with
    | true => rfl
    | false => simp [hb] at h
  obtain ⟨si, sp, rem, k, vals, hsrv, hmatch, hkt, hkm, hsv, ⟨pd, hpd, hpt, hpm⟩, _⟩ :=
    legacy_route_sound_partial d ks hks r t m ps sv h
  have hsrv' := (legacy_server_none d r [] r.path).2 ⟨hs, rfl, rfl⟩
  rw [hsrv'] at hsrv
  simp only [Option.some.injEq, Prod.mk.injEq] at hsrv
  obtain ⟨rfl, rfl, rfl⟩ := hsrv
  simp only at hsv
  obtain ⟨hvne, hnw⟩ := hne k vals hmatch
  -- the path of the trie that was followed is the key's own
  obtain ⟨ext, path, e0, e1, e3, e4⟩ := match_sound.1 (legacyRootOf ks) _ [] (k, vals) hmatch
  simp only [List.nil_append] at e1
  subst e1
  have hpath : path = k.sufs := by
    rcases build_paths ks emptyNode (path, k) e0 with h0 | ⟨_, h2⟩
    · simp [paths_empty] at h0
    · exact h2
  subst hpath
  have hspell := e3 hvne (key_sufs_wf k)
  -- the looked-up string has no trailing slash
  have hlast : (r.method ++ ' ' :: r.path).getLast? ≠ some '/' := by
    cases hp : r.path with
    | nil => simp
    | cons c cs =>
      have e : r.method ++ ' ' :: (c :: cs) = (r.method ++ [' ']) ++ (c :: cs) := by simp
      rw [e, getLast?_append_of_ne_nil _ (by simp), ← hp]
      exact hrl
  rw [stripSlashes_id hlast] at hspell
  -- the key's tokens
  have hk : k ∈ docKeys d := hks k (legacy_match_declared ks _ _ _ _ hmatch)
  have htok : (tokenize k.str).isSome = true := by
    unfold legacyBuildOK at hbuild
    exact List.all_eq_true.1 hbuild k hk
  cases hto : tokenize k.str with
  | none => rw [hto] at htok; simp at htok
  | some toks =>
    have hstr : k.str = k.method ++ ' ' :: k.template := rfl
    rw [hstr, hkt, hkm] at hto
    obtain ⟨toks', rfl, htl'⟩ := key_toks m t hmeth.1 hmeth.2.1 ht htl toks hto
    have hsufs : k.sufs = Suf.const (m ++ [' ']) :: toks'.map Tok.suf := by
      unfold Key.sufs Key.toks
      rw [hstr, hkt, hkm, hto]
      rfl
    have hktoks : k.toks = Tok.const (m ++ [' ']) :: toks' := by
      unfold Key.toks
      rw [hstr, hkt, hkm, hto]
      rfl
    rw [hsufs] at hspell e4
    simp only [spell, Option.map_eq_some_iff] at hspell
    obtain ⟨x, hx, hxe⟩ := hspell
    have hxe' : m ++ ' ' :: x = r.method ++ ' ' :: r.path := by simpa using hxe
    obtain ⟨hmm, rfl⟩ := split_at_space m r.method x r.path hmeth.2.2.1 hmeth.2.2.2 hxe'
    have hnw' : NoWildcard toks' := by
      intro tk htk n
      exact hnw tk (by rw [hktoks]; simp [htk]) n
    have hfill := ssubst_of_spell _ t toks' htl' hnw' vals r.path hx
    have hslash : ∀ v ∈ vals, '/' ∉ v := by
      apply varVals_slashfree (toks'.map Tok.suf) vals (by simpa [VarVals] using e4) ?_ r.path hx
      intro s hs' heq
      simp only [List.mem_map] at hs'
      obtain ⟨tk, htk, rfl⟩ := hs'
      cases tk with
      | const p => simp [Tok.suf] at heq
      | var n => simp [Tok.suf] at heq
      | all n => exact hnw' _ htk n rfl
    refine ⟨hmm, hsv, ⟨t, (svarNames (sparseS t)).zip vals, pd.methods.contains r.method, SrvRef.none⟩, ?_, rfl, rfl, ?_⟩
    · simp only [specCands, List.mem_flatMap]
      refine ⟨pd, hpd, ?_⟩
      have heff : effServers d pd = [] := by simp [effServers, hps pd hpd, hs, tagFrom]
      unfold specCandsPath
      rw [heff]
      simp only [candsFor, List.mem_filterMap]
      refine ⟨(vals, []), ?_, by simp [hpt]⟩
      rw [hpt]
      exact (smatchP_iff _ _ _ _).2 ⟨fun v hv => ⟨hvne v hv, hslash v hv⟩, r.path, hfill, by simp⟩
    · simp only [List.contains_iff_mem, decide_eq_true_eq]
      rw [← hmm]; exact hpm

/- Full statement (false for the code, findings #14 and F-C09-5): a route returned by the legacy router is a candidate of
   the spec, found under the server the route names.
   What holds: … on documents whose document-level servers are plain relative paths (any number, different base paths; no
   path-item level servers, which this router does not read: F-C09-9), for server-style requests (F-C09-5), when every
   bound value is non-empty and neither the remaining path nor the returned template ends in '/'. -/
theorem legacy_refines_spec_sound_servers_partial (e : Bool) (d : Doc) (hrel : ∀ s ∈ d.servers, PlainRel s)
    (hps : ∀ p ∈ d.paths, p.servers = []) (ks : List Key) (hks : ∀ k ∈ ks, k ∈ docKeys d) (r : Req) (habs : r.abs = false)
    (t m : Str) (ps : List (Str × Str)) (sv : SrvRef) (h : legacyFindOrd d ks r = .route t m ps sv)
    (hmeth : '/' ∉ m ∧ '{' ∉ m ∧ ' ' ∉ m ∧ ' ' ∉ r.method)
    (ht : t.head? = some '/') (htl : t.getLast? ≠ some '/')
    (hne : ∀ si sp rem k vals, legacyServer d r = some (si, sp, rem) → legacyMatchOf ks r.method rem = some (k, vals) →
      rem.getLast? ≠ some '/' ∧ (∀ v ∈ vals, v ≠ []) ∧ NoWildcard k.toks) :
    m = r.method ∧ ∃ c ∈ specCands e d r, c.template = t ∧ c.server = sv ∧ c.declares = true := by
  have hbuild : legacyBuildOK d = true := by
    unfold legacyFindOrd at h
    cases hb : legacyBuildOK d with
    | true => rfl
    | false => simp [hb] at h
  obtain ⟨si, sp, rem, k, vals, hsrv, hmatch, hkt, hkm, hsv, ⟨pd, hpd, hpt, hpm⟩, _⟩ :=
    legacy_route_sound_partial d ks hks r t m ps sv h
  obtain ⟨hrl, hvne, hnw⟩ := hne si sp rem k vals hsrv hmatch
  have hk : k ∈ docKeys d := hks k (legacy_match_declared ks _ _ _ _ hmatch)
  have htok : (tokenize k.str).isSome = true := by
    unfold legacyBuildOK at hbuild
    exact List.all_eq_true.1 hbuild k hk
  obtain ⟨hmm, hfill⟩ := legacy_match_fill ks r.method rem k vals hmatch htok
    (by rw [hkm]; exact hmeth) (by rw [hkt]; exact ht) (by rw [hkt]; exact htl) hrl hvne hnw
  rw [hkm] at hmm
  rw [hkt] at hfill
  have hdecl : pd.methods.contains r.method = true := by
    simp only [List.contains_iff_mem, decide_eq_true_eq]
    rw [← hmm]; exact hpm
  have hcand : ∀ ref, (⟨t, (svarNames (sparseS t)).zip vals, pd.methods.contains r.method, ref⟩ : Cand) ∈ candsFor r.method rem ref pd := by
    intro ref
    simp only [candsFor, List.mem_filterMap]
    refine ⟨(vals, []), ?_, by simp [hpt]⟩
    rw [hpt]
    exact (smatchP_iff _ _ _ _).2 hfill
  refine ⟨hmm, ⟨t, (svarNames (sparseS t)).zip vals, pd.methods.contains r.method, sv⟩, ?_, rfl, rfl, hdecl⟩
  simp only [specCands, List.mem_flatMap]
  refine ⟨pd, hpd, ?_⟩
  cases si with
  | none =>
    obtain ⟨hs0, _, hrem⟩ := (legacy_server_none d r sp rem).1 hsrv
    subst hrem
    simp only at hsv
    subst hsv
    have heff : effServers d pd = [] := by simp [effServers, hps pd hpd, hs0, tagFrom]
    unfold specCandsPath
    rw [heff]
    exact hcand SrvRef.none
  | some i =>
    simp only at hsv
    subst hsv
    obtain ⟨s, hi, _, vals', p, rem', hpat, _, hraw, hrem, _⟩ := legacy_server_sound d r i sp rem hsrv
    have hs : PlainRel s := hrel s (getElem?_mem' hi)
    obtain ⟨_, rfl⟩ := patSpell_plain hpat hs.2.1
    have hraw' : r.path = dropOneSlash s.url ++ rem' := by
      simpa [rawURL, habs] using hraw
    rcases hrem with ⟨_, h2⟩ | ⟨h1, h2⟩
    · rw [h2] at hrl; simp at hrl
    · subst h1
      have hx : (SrvRef.doc i, s) ∈ effServers d pd := by
        have := tagFrom_get (mk := SrvRef.doc) (j := 0) hi
        simpa [effServers, hps pd hpd] using this
      exact mem_effServers_ne hx e r _ rem' (specServerRems_plainRel e s hs r rem' hraw' (Or.inr h2)) (hcand (SrvRef.doc i))

/- Full statement (false for the code: documented limitation "variable followed by text in the same segment", F-C09-4):
     a candidate of the spec that declares the method → the legacy router returns a route.
   What holds: … when no variable of the candidate's template is followed by more text in its segment (document without
   servers; no trailing slashes, no wildcard, method names without '/' and '{'); the route may be that of another
   overlapping template (`legacy_match_declared`), a literal one if there is one (`legacy_literal_wins`). -/
theorem legacy_refines_spec_complete_partial (e : Bool) (d : Doc) (hs : d.servers = []) (hps : ∀ p ∈ d.paths, p.servers = [])
    (hb : legacyBuildOK d = true) (ks : List Key) (hks : ∀ k ∈ docKeys d, k ∈ ks) (r : Req)
    (c : Cand) (hc : c ∈ specCands e d r) (hdecl : c.declares = true)
    (hmeth : '/' ∉ r.method ∧ '{' ∉ r.method) (hrl : r.path.getLast? ≠ some '/')
    (ht : c.template.head? = some '/') (htl : c.template.getLast? ≠ some '/')
    (hnw : NoWildcard (⟨r.method, c.template⟩ : Key).toks) (hvt : varThenLiteral (sparseS c.template) = false) :
    ∃ t m ps sv, legacyFindOrd d ks r = .route t m ps sv := by
  obtain ⟨pd, hpd, hct, hcd, hcase⟩ := spec_cand_server e d r c hc
  have hfill : ∃ vs, Fills (sparseS pd.template) vs r.path [] := by
    rcases hcase with ⟨_, _, _, h⟩ | ⟨i, s, hh, _⟩
    · exact h
    · rcases hh with ⟨_, hi, _⟩ | ⟨hne, _, _⟩
      · rw [hs] at hi; simp at hi
      · exact absurd (hps pd hpd) hne
  obtain ⟨vs, hgood, p, hp, hpp⟩ := hfill
  simp only [List.append_nil] at hpp
  subst hpp
  have hm : r.method ∈ pd.methods := by
    rw [hcd] at hdecl
    simpa [List.contains_iff_mem] using hdecl
  let k : Key := ⟨r.method, c.template⟩
  have hk : k ∈ docKeys d := (docKeys_declared d k).2 ⟨pd, hpd, hct.symm, hm⟩
  have htok : (tokenize k.str).isSome = true := by
    unfold legacyBuildOK at hb
    exact List.all_eq_true.1 hb k hk
  cases hto : tokenize k.str with
  | none => rw [hto] at htok; simp at htok
  | some toks =>
    have hstr : k.str = r.method ++ ' ' :: c.template := rfl
    have hto' := hto
    rw [hstr] at hto'
    obtain ⟨toks', rfl, htl'⟩ := key_toks r.method c.template hmeth.1 hmeth.2 ht htl toks hto'
    have hktoks : k.toks = Tok.const (r.method ++ [' ']) :: toks' := by
      show (tokenize k.str).getD [] = _
      rw [hto]; rfl
    have hsufs : k.sufs = Suf.const (r.method ++ [' ']) :: toks'.map Tok.suf := by
      show k.toks.map Tok.suf = _
      rw [hktoks]; rfl
    have hnw' : NoWildcard toks' := by
      intro tk htk n
      exact hnw tk (by show tk ∈ k.toks; rw [hktoks]; simp [htk]) n
    rw [← hct] at hp
    have hreads := reads_of_ssubst _ c.template toks' htl' hnw' hvt vs r.path (fun v hv => (hgood v hv).2) hp
    have hlast : (r.method ++ ' ' :: r.path).getLast? ≠ some '/' := by
      cases hpth : r.path with
      | nil => simp
      | cons c0 cs0 =>
        have e0 : r.method ++ ' ' :: (c0 :: cs0) = (r.method ++ [' ']) ++ (c0 :: cs0) := by simp
        rw [e0, getLast?_append_of_ne_nil _ (by simp), ← hpth]
        exact hrl
    have hr : Reads k.sufs vs (stripSlashes (r.method ++ ' ' :: r.path)) := by
      rw [stripSlashes_id hlast, hsufs]
      have := Reads.const (r.method ++ [' ']) hreads
      simpa using this
    have hsrv : legacyServer d r = some (none, [], r.path) := (legacy_server_none d r [] r.path).2 ⟨hs, rfl, rfl⟩
    exact legacy_route_complete_partial d ks r none [] r.path k vs hb hsrv (hks k hk) hr

/-- no_match_is_error against the spec (legacy, partial as `legacy_refines_spec_sound_servers_partial`): when the spec has no
    candidate the router does not return a route (with non-empty bindings and no trailing slashes) -/
theorem legacy_refines_spec_not_found_partial (e : Bool) (d : Doc) (hrel : ∀ s ∈ d.servers, PlainRel s)
    (hps : ∀ p ∈ d.paths, p.servers = []) (ks : List Key) (hks : ∀ k ∈ ks, k ∈ docKeys d) (r : Req) (habs : r.abs = false)
    (hnil : specCands e d r = [])
    (t m : Str) (ps : List (Str × Str)) (sv : SrvRef)
    (hmeth : '/' ∉ m ∧ '{' ∉ m ∧ ' ' ∉ m ∧ ' ' ∉ r.method)
    (ht : t.head? = some '/') (htl : t.getLast? ≠ some '/')
    (hne : ∀ si sp rem k vals, legacyServer d r = some (si, sp, rem) → legacyMatchOf ks r.method rem = some (k, vals) →
      rem.getLast? ≠ some '/' ∧ (∀ v ∈ vals, v ≠ []) ∧ NoWildcard k.toks) :
    legacyFindOrd d ks r ≠ .route t m ps sv := by
  intro h
  obtain ⟨_, c, hc, _⟩ := legacy_refines_spec_sound_servers_partial e d hrel hps ks hks r habs t m ps sv h hmeth ht htl hne
  rw [hnil] at hc
  simp at hc

/-- … and, the other way round (server-less documents): when the router answers with an error, no candidate whose variables end
    their segments declares the method (contrapositive of `legacy_refines_spec_complete_partial`) -/
theorem legacy_error_no_declared_candidate_partial (e : Bool) (d : Doc) (hs : d.servers = []) (hps : ∀ p ∈ d.paths, p.servers = [])
    (hb : legacyBuildOK d = true) (ks : List Key) (hks : ∀ k ∈ docKeys d, k ∈ ks) (r : Req)
    (herr : legacyFindOrd d ks r = .notFound ∨ legacyFindOrd d ks r = .methodNotAllowed)
    (hmeth : '/' ∉ r.method ∧ '{' ∉ r.method) (hrl : r.path.getLast? ≠ some '/')
    (c : Cand) (hc : c ∈ specCands e d r)
    (ht : c.template.head? = some '/') (htl : c.template.getLast? ≠ some '/')
    (hnw : NoWildcard (⟨r.method, c.template⟩ : Key).toks) (hvt : varThenLiteral (sparseS c.template) = false) :
    c.declares = false := by
  cases hd : c.declares with
  | false => rfl
  | true =>
    exfalso
    obtain ⟨t, m, ps, sv, hroute⟩ := legacy_refines_spec_complete_partial e d hs hps hb ks hks r c hc hd hmeth hrl ht htl hnw hvt
    rcases herr with h | h <;> (rw [hroute] at h; simp at h)

/-! ## witnesses: inside each exclusion class the modelled code really differs from the spec -/

open W in
/-- finding #14: legacy routes GET /b to /b/{x} with x = "" ; the property requires path-not-found -/
theorem witness_legacy14_empty_binding :
    legacyFind d14 (req "GET" "/b") = .route (s "/b/{x}") get [(s "x", [])] .none ∧
    specOutcome true d14 (req "GET" "/b") = (.notFound, []) ∧
    specAccepts d14 (req "GET" "/b") (legacyFind d14 (req "GET" "/b")) = false ∧
    exclLegacy14 .legacy d14 (req "GET" "/b") = true ∧
    gorillaFind d14 (req "GET" "/b") = .notFound := by decide +kernel

open W in
/-- finding #14: /a//c/1 is routed to /a/{x}/c/{y} with x = "" -/
theorem witness_legacy14_double_slash :
    legacyFind d14b (req "GET" "/a//c/1") = .route (s "/a/{x}/c/{y}") get [(s "x", []), (s "y", s "1")] .none ∧
    specAccepts d14b (req "GET" "/a//c/1") (legacyFind d14b (req "GET" "/a//c/1")) = false ∧
    exclLegacy14 .legacy d14b (req "GET" "/a//c/1") = true ∧
    gorillaFind d14b (req "GET" "/a//c/1") = .notFound := by decide +kernel

open W in
/-- finding #14: the trailing slash of /a/zz/ is stripped and the request routed to /a/{x} -/
theorem witness_legacy14_trailing_slash :
    legacyFind d14c (req "GET" "/a/zz/") = .route (s "/a/{x}") get [(s "x", s "zz")] .none ∧
    specAccepts d14c (req "GET" "/a/zz/") (legacyFind d14c (req "GET" "/a/zz/")) = false ∧
    exclLegacy14 .legacy d14c (req "GET" "/a/zz/") = true ∧
    gorillaFind d14c (req "GET" "/a/zz/") = .notFound := by decide +kernel

open W in
/-- finding #40: gorillamux answers method-not-allowed for GET /a/b; the spec (and the legacy router) route it to /a/{x} -/
theorem witness_gorilla_shadow40 :
    gorillaFind d40 (req "GET" "/a/b") = .methodNotAllowed ∧
    specOutcome true d40 (req "GET" "/a/b") = (.route, [⟨s "/a/{x}", [(s "x", s "b")], true, .none⟩]) ∧
    specAccepts d40 (req "GET" "/a/b") (gorillaFind d40 (req "GET" "/a/b")) = false ∧
    exclGorillaShadow40 .gorilla d40 (req "GET" "/a/b") = true ∧
    legacyFind d40 (req "GET" "/a/b") = .route (s "/a/{x}") get [(s "x", s "b")] .none := by decide +kernel

open W in
/-- finding #33: both routers accept env = qa although enum = [prod, dev] -/
theorem witness_srv_enum33 :
    legacyFind d33 r33 = .route (s "/a") get [(s "env", s "qa")] (.doc 0) ∧
    gorillaFind d33 r33 = .route (s "/a") get [(s "env", s "qa")] (.doc 0) ∧
    specOutcome true d33 r33 = (.notFound, []) ∧
    exclSrvEnum33 d33 r33 = true ∧
    exclSrvEnum33 d33 r33ok = false ∧
    specAccepts d33 r33ok (gorillaFind d33 r33ok) = true := by decide +kernel

open W in
/-- documented legacy limitation: /books/7.json is not routed to /books/{id}.json (gorillamux routes it) -/
theorem witness_legacy_var_then_literal :
    legacyFind dMid (req "GET" "/books/7.json") = .notFound ∧
    gorillaFind dMid (req "GET" "/books/7.json") = .route (s "/books/{id}.json") get [(s "id", s "7")] .none ∧
    (specOutcome true dMid (req "GET" "/books/7.json")).1 = .route ∧
    exclLegacyVarThenLiteral .legacy dMid = true := by decide +kernel

open W in
/-- legacy URL form: a relative server does not match an absolute request URL (it does match the path-only form) -/
theorem witness_legacy_url_form :
    legacyFind dForm rFormAbs = .notFound ∧
    (specOutcome true dForm rFormAbs).1 = .route ∧
    exclLegacyURLForm .legacy dForm rFormAbs = true ∧
    legacyFind dForm rFormRel = .route (s "/a") get [] (.doc 0) ∧
    exclLegacyURLForm .legacy dForm rFormRel = false ∧
    gorillaFind dForm rFormAbs = .route (s "/a") get [] (.doc 0) := by decide +kernel

open W in
/-- new finding: the legacy router commits to the first matching server; gorillamux and the spec route the request -/
theorem witness_legacy_first_server :
    legacyFind dFirst rFirst = .notFound ∧
    gorillaFind dFirst rFirst = .route (s "/b") (s "PUT") [(s "ver", s "v2")] (.doc 1) ∧
    specOutcome true dFirst rFirst = (.route, [⟨s "/b", [], true, .doc 1⟩]) ∧
    exclLegacyFirstServer .legacy dFirst rFirst = true := by decide +kernel

open W in
/-- regression for F-C09-8 (fixed by a8dc95c): with two servers of different base paths both routers return the server the
    request came through; a route naming the other server is not accepted -/
theorem regression_legacy_route_server :
    gorillaFind dTwo (reqRel "GET" "/v2/x/a") = .route (s "/a") get [] (.doc 1) ∧
    gorillaFind dTwo (reqRel "GET" "/v1/b/7") = .route (s "/b/{x}") get [(s "x", s "7")] (.doc 0) ∧
    legacyFind dTwo (reqRel "GET" "/v2/x/a") = .route (s "/a") get [] (.doc 1) ∧
    legacyFind dTwo (reqRel "GET" "/v1/b/7") = .route (s "/b/{x}") get [(s "x", s "7")] (.doc 0) ∧
    specOutcome true dTwo (reqRel "GET" "/v2/x/a") = (.route, [⟨s "/a", [], true, .doc 1⟩]) ∧
    specAccepts dTwo (reqRel "GET" "/v2/x/a") (legacyFind dTwo (reqRel "GET" "/v2/x/a")) = true ∧
    specAccepts dTwo (reqRel "GET" "/v2/x/a") (gorillaFind dTwo (reqRel "GET" "/v2/x/a")) = true ∧
    specAccepts dTwo (reqRel "GET" "/v2/x/a") (.route (s "/a") get [] (.doc 0)) = false ∧
    specAccepts dTwo (reqRel "GET" "/v2/x/a") (.route (s "/a") get [] .none) = false := by decide +kernel

open W in
/-- F-C09-7: /a and /a/ share a node of the legacy trie; the key added last wins, so GET /a reaches /a/ in one insertion
    order and /a in the other; the property requires the literal /a; gorillamux keeps the two apart -/
theorem witness_legacy_key_collision :
    legacyFindOrd dColl (docKeys dColl) (req "GET" "/a") = .route (s "/a/") get [] .none ∧
    legacyFindOrd dColl (docKeys dColl).reverse (req "GET" "/a") = .route (s "/a") get [] .none ∧
    (legacyFindAll dColl (req "GET" "/a")).length = 2 ∧
    specOutcome true dColl (req "GET" "/a") = (.route, [⟨s "/a", [], true, .none⟩]) ∧
    exclLegacyKeyCollision .legacy dColl = true ∧
    gorillaFind dColl (req "GET" "/a") = .route (s "/a") get [] .none ∧
    gorillaFind dColl (req "GET" "/a/") = .route (s "/a/") get [] .none := by decide +kernel

open W in
/-- regression for F-C09-10 (fixed by ad7d462): the servers of path item /b do not apply to /a, which comes after it in
    matching order and declares none -/
theorem regression_gorilla_path_servers :
    gorillaFind dLeak (reqRel "GET" "/v1/a") = .route (s "/a") get [] (.doc 0) ∧
    gorillaFind dLeak (reqRel "GET" "/p/a") = .notFound ∧
    specOutcome true dLeak (reqRel "GET" "/v1/a") = (.route, [⟨s "/a", [], true, .doc 0⟩]) ∧
    specOutcome true dLeak (reqRel "GET" "/p/a") = (.notFound, []) ∧
    gorillaFind dLeak (reqRel "GET" "/p/b") = .route (s "/b") get [] (.path (s "/b") 0) ∧
    gorillaFind dLeak (reqRel "GET" "/v1/b") = .notFound := by decide +kernel

open W in
/-- F-C09-9: the legacy router does not read path-item level servers -/
theorem witness_legacy_path_servers :
    legacyFind dPathSrv (reqRel "GET" "/v1/a") = .route (s "/a") get [] (.doc 0) ∧
    specOutcome true dPathSrv (reqRel "GET" "/v1/a") = (.notFound, []) ∧
    legacyFind dPathSrv (reqRel "GET" "/p/a") = .notFound ∧
    specOutcome true dPathSrv (reqRel "GET" "/p/a") = (.route, [⟨s "/a", [], true, .path (s "/a") 0⟩]) ∧
    gorillaFind dPathSrv (reqRel "GET" "/p/a") = .route (s "/a") get [] (.path (s "/a") 0) ∧
    exclLegacyPathServers .legacy dPathSrv (reqRel "GET" "/v1/a") = true ∧
    exclLegacyPathServers .legacy dPathSrv (reqRel "GET" "/p/a") = true := by decide +kernel

open W in
/-- F-C09-11: `https://a.b.api.test/a` is under the declared server `https://{tenant}.api.test` (tenant = "a.b", no enum), the
    property requires the route; both routers answer path-not-found (a host variable never takes a dotted value) -/
theorem witness_srv_var_dot :
    gorillaFind dDot rDot = .notFound ∧ legacyFind dDot rDot = .notFound ∧
    specOutcome true dDot rDot = (.route, [⟨s "/a", [], true, .doc 0⟩]) ∧
    exclSrvVarDot dDot rDot = true ∧
    exclSrvVarDot dDot rDotOK = false ∧
    gorillaFind dDot rDotOK = .route (s "/a") get [(s "tenant", s "acme")] (.doc 0) ∧
    legacyFind dDot rDotOK = .route (s "/a") get [(s "tenant", s "acme")] (.doc 0) := by decide +kernel

/-! ## non-vacuity: the hypotheses of the theorems are satisfiable on a non-trivial document -/

open W in
/-- both routers, family with shared prefixes, server with host and port variables and a trailing slash:
    literal wins, two variables are extracted, mid-segment variable, unknown method, near miss -/
example :
    legacyFind dFam (rFam "GET" "/v1/a/b") = .route (s "/a/b") get [(s "env", s "dev"), (s "port", s "8443")] (.doc 0) ∧
    gorillaFind dFam (rFam "GET" "/v1/a/b") = .route (s "/a/b") get [(s "env", s "dev"), (s "port", s "8443")] (.doc 0) ∧
    legacyFind dFam (rFam "GET" "/v1/a/7/c/9") =
      .route (s "/a/{x}/c/{y}") get [(s "env", s "dev"), (s "port", s "8443"), (s "x", s "7"), (s "y", s "9")] (.doc 0) ∧
    gorillaFind dFam (rFam "GET" "/v1/a/7/c/9") =
      .route (s "/a/{x}/c/{y}") get [(s "env", s "dev"), (s "x", s "7"), (s "y", s "9"), (s "port", s "8443")] (.doc 0) ∧
    gorillaFind dFam (rFam "GET" "/v1/report.pdf") = .route (s "/report.{format}") get [(s "env", s "dev"), (s "format", s "pdf"), (s "port", s "8443")] (.doc 0) ∧
    legacyFind dFam (rFam "POST" "/v1/a/7") = .route (s "/a/{x}") post [(s "env", s "dev"), (s "port", s "8443"), (s "x", s "7")] (.doc 0) ∧
    specAccepts dFam (rFam "GET" "/v1/a/7/c/9") (legacyFind dFam (rFam "GET" "/v1/a/7/c/9")) = true ∧
    specAccepts dFam (rFam "GET" "/v1/a/b") (gorillaFind dFam (rFam "GET" "/v1/a/b")) = true ∧
    exclLegacy14 .legacy dFam (rFam "GET" "/v1/a/7/c/9") = false ∧
    legacyFind dFam (rFam "FOO" "/v1/a/b") = .methodNotAllowed ∧
    legacyFind dFam (rFam "GET" "/v2/a/b") = .notFound ∧
    gorillaFind dFam (rFam "GET" "/v1/zz") = .notFound := by decide +kernel

open W in
/-- the hypotheses of `legacy_match_sound_partial` hold on a match with two non-empty bindings -/
example : ∃ k vals, legacyMatch dFam get (s "/a/7/c/9") = some (k, vals) ∧ (∀ v ∈ vals, v ≠ []) ∧ vals.length = 2 :=
  ⟨⟨get, s "/a/{x}/c/{y}"⟩, [s "7", s "9"], by decide +kernel, by decide +kernel, rfl⟩

open W in
/-- the hypotheses of `legacy_match_complete_partial` hold: the key "GET /a/{x}/c/{y}" reads "GET /a/7/c/9" -/
example : (⟨get, s "/a/{x}/c/{y}"⟩ : Key) ∈ docKeys dFam ∧
    Reads (⟨get, s "/a/{x}/c/{y}"⟩ : Key).sufs [s "7", s "9"] (stripSlashes (get ++ ' ' :: s "/a/7/c/9")) := by
  refine ⟨by decide +kernel, ?_⟩
  have e1 : (⟨get, s "/a/{x}/c/{y}"⟩ : Key).sufs =
      [.const (s "GET "), .const (s "/"), .const (s "a"), .const (s "/"), .var, .const (s "/"), .const (s "c"), .const (s "/"), .var] := by
    decide +kernel
  have e2 : stripSlashes (get ++ ' ' :: s "/a/7/c/9") =
      s "GET " ++ (s "/" ++ (s "a" ++ (s "/" ++ (s "7" ++ (s "/" ++ (s "c" ++ (s "/" ++ (s "9" ++ [])))))))) := by
    decide +kernel
  rw [e1, e2]
  refine .const _ (.const _ (.const _ (.const _ (.var (by decide +kernel) (by decide +kernel)
    (.const _ (.const _ (.const _ (.var (by decide +kernel) (by decide +kernel) .nil))))))))

open W in
/-- the hypotheses of `gorilla_route_complete_noservers_partial` (no shadowing route) hold for GET /a/zz on d40 -/
example : ∃ rs, gorillaRoutes d40 = some rs ∧ (∀ r' ∈ rs, gRouteMatch r' (req "GET" "/a/zz") ≠ none → get ∈ r'.methods) ∧
    gorillaFind d40 (req "GET" "/a/zz") = .route (s "/a/{x}") get [(s "x", s "zz")] .none := by
  refine ⟨(gorillaRoutes d40).getD [], by decide +kernel, ?_, by decide +kernel⟩
  decide +kernel

open W in
/-- `gorilla_route_sound` is not vacuous: a route through the second of two servers, and one through a path item's own server -/
example : gorillaFind dTwo (reqRel "GET" "/v2/x/b/7") = .route (s "/b/{x}") get [(s "x", s "7")] (.doc 1) ∧
    gorillaFind dPathSrv (reqRel "GET" "/p/a") = .route (s "/a") get [] (.path (s "/a") 0) := by decide +kernel

open W in
/-- the hypotheses of `legacy_literal_wins` hold for the literal key GET /a/b of the family (which also holds /a/{x}), in
    both insertion orders, with a trailing slash on the request -/
example : (⟨get, s "/a/b"⟩ : Key) ∈ docKeys dFam ∧ '{' ∉ (⟨get, s "/a/b"⟩ : Key).str ∧
    stripSlashes (get ++ ' ' :: s "/a/b/") = stripSlashes (⟨get, s "/a/b"⟩ : Key).str ∧
    legacyMatchOf (docKeys dFam) get (s "/a/b/") = some (⟨get, s "/a/b"⟩, []) ∧
    legacyMatchOf (docKeys dFam).reverse get (s "/a/b") = some (⟨get, s "/a/b"⟩, []) := by decide +kernel

open W in
/-- the hypotheses of `legacy_server_sound` hold: second of two servers matched, first one rejected -/
example : legacyServer dTwo (reqRel "GET" "/v2/x/a") = some (some 1, [], s "/a") := by decide +kernel

open W in
/-- the hypotheses of the `gorilla_refines_spec_*` theorems hold for the document with two servers of different base
    paths and for the one whose only path item has its own server: plain relative servers, route list
    built; a candidate exists and every candidate declares the method -/
example : PlainDoc dTwo ∧ PlainDoc dPathSrv ∧ PlainDoc dLeak ∧
    (gorillaRoutes dTwo).isSome = true ∧
    specCands true dTwo (reqRel "GET" "/v2/x/b/7") = [⟨s "/b/{x}", [(s "x", s "7")], true, .doc 1⟩] := by
  refine ⟨?_, ?_, ?_, by decide +kernel, by decide +kernel⟩
  · unfold PlainDoc PlainRel; decide +kernel
  · unfold PlainDoc PlainRel; decide +kernel
  · unfold PlainDoc PlainRel; decide +kernel

open W in
/-- the hypotheses of `legacy_refines_spec_sound_partial` hold for GET /a/zz on the server-less document d40: one non-empty
    binding, no wildcard token, no trailing slashes -/
example : d40.servers = [] ∧ (∀ p ∈ d40.paths, p.servers = []) ∧
    legacyMatchOf (docKeys d40) get (s "/a/zz") = some (⟨get, s "/a/{x}"⟩, [s "zz"]) ∧
    (⟨get, s "/a/{x}"⟩ : Key).toks = [.const (s "GET "), .const (s "/"), .const (s "a"), .const (s "/"), .var (s "x")] ∧
    legacyFind d40 (req "GET" "/a/zz") = .route (s "/a/{x}") get [(s "x", s "zz")] .none := by decide +kernel

open W in
/-- the hypotheses of `legacy_order_independent_partial` hold for the family (no two keys collide) and its reversed key list;
    they fail for /a next to /a/ -/
example : keyCollision (docKeys dFam) = false ∧ (docKeys dFam).reverse.Perm (docKeys dFam) ∧ keyCollision (docKeys dColl) = true :=
  ⟨by decide +kernel, List.reverse_perm _, by decide +kernel⟩

open W in
/-- the hypotheses of `legacy_refines_spec_complete_partial` hold for GET /a/zz on d40: the candidate /a/{x} declares GET, its
    variable ends its segment, the key has no wildcard token -/
example : legacyBuildOK d40 = true ∧
    (⟨s "/a/{x}", [(s "x", s "zz")], true, .none⟩ : Cand) ∈ specCands true d40 (req "GET" "/a/zz") ∧
    varThenLiteral (sparseS (s "/a/{x}")) = false ∧ varThenLiteral (sparseS (s "/books/{id}.json")) = true := by decide +kernel

open W in
/-- the hypotheses of `legacy_refines_spec_sound_servers_partial` hold for a request through the second of two plain relative
    servers: server-style request, remaining path /b/7 without trailing slash, one non-empty binding, no wildcard token -/
example : (∀ sv ∈ dTwo.servers, PlainRel sv) ∧ (reqRel "GET" "/v2/x/b/7").abs = false ∧
    legacyServer dTwo (reqRel "GET" "/v2/x/b/7") = some (some 1, [], s "/b/7") ∧
    legacyMatchOf (docKeys dTwo) get (s "/b/7") = some (⟨get, s "/b/{x}"⟩, [s "7"]) ∧
    legacyFind dTwo (reqRel "GET" "/v2/x/b/7") = .route (s "/b/{x}") get [(s "x", s "7")] (.doc 1) ∧
    specCands true dTwo (reqRel "GET" "/v2/x/b/7") = [⟨s "/b/{x}", [(s "x", s "7")], true, .doc 1⟩] := by
  refine ⟨?_, by decide +kernel, by decide +kernel, by decide +kernel, by decide +kernel, by decide +kernel⟩
  unfold PlainRel; decide +kernel

open W in
/-- the hypotheses of `gorilla_refines_spec_sound_abs` hold: a document with an absolute server (trailing slash on its base path)
    next to a relative one, a request without port; the route names the absolute server -/
example : AbsPlain ⟨s "https://example.com/api/v2/", []⟩ (s "https") (s "example.com") (s "/api/v2/") ∧
    gorillaFind ⟨[⟨s "/a", [get], []⟩], [⟨s "/alt", []⟩, ⟨s "https://example.com/api/v2/", []⟩]⟩
      ⟨get, true, s "https", s "example.com", s "/api/v2/a"⟩ = .route (s "/a") get [] (.doc 1) ∧
    specCands true ⟨[⟨s "/a", [get], []⟩], [⟨s "/alt", []⟩, ⟨s "https://example.com/api/v2/", []⟩]⟩
      ⟨get, true, s "https", s "example.com", s "/api/v2/a"⟩ = [⟨s "/a", [], true, .doc 1⟩] := by
  refine ⟨?_, by decide +kernel, by decide +kernel⟩
  unfold AbsPlain; decide +kernel

open W in
/-- the request side of the `*_abs` theorems: well separated scheme / host / path, no port -/
example : ReqWF ⟨get, true, s "https", s "example.com", s "/api/v2/a"⟩ ∧ ':' ∉ s "example.com" := by
  unfold ReqWF; decide +kernel

/-! ## the history dimension: many `FindRoute` calls on one router, callers keep the routes of earlier calls
    (`KinModel/RouterHist.lean`; tied by the rows `gorilla.findRoute.copy`, `legacy.findRoute.setsRouteServer` of `RouterFacts`
    and by the runner, which re-inspects a returned route after later calls with another method and through other servers) -/

/-- a step that hands out copies (or unwritten stored pointers) leaves the store alone, for every pick function -/
theorem history_copy_store_unchanged (find : Req → Option Pick) (st : Store) (reqs : List Req) :
    (runHist (stepCopy find) st reqs).1 = st :=
  runHist_store_of_pure _ (stepCopy_store find) st reqs

/-- every answer within a history is the answer the freshly built router gives to that request alone -/
theorem history_copy_answers (find : Req → Option Pick) (st : Store) (reqs : List Req) :
    (runHist (stepCopy find) st reqs).2 = reqs.map (fun r => (stepCopy find st r).2) :=
  runHist_handles_of_pure _ (stepCopy_store find) st reqs

/-- a route a caller holds reads the same after any later history on the same router (both routers: `stepCopy`) -/
theorem history_copy_results_stable (find : Req → Option Pick) (st : Store) (r : Req) (later : List Req) (h : RHandle)
    (_hh : (stepCopy find st r).2 = some h) :
    observe (runHist (stepCopy find) (stepCopy find st r).1 later).1 h = observe st h := by
  rw [history_copy_store_unchanged, stepCopy_store]

/-- gorillamux: whatever was asked before (`before`) and whatever is asked afterwards (`later`), the route returned for
    `req` names exactly what the one-shot model `gFirst` names (template, method, server), at return time and for ever -/
theorem gorilla_history_route (rs : List GRoute) (before later : List Req) (req : Req) (t m : Str)
    (ps : List (Str × Str)) (sv : SrvRef) (h : gFirst rs req = .route t m ps sv) :
    ∃ hd, (runHist (stepCopy (gPick rs)) (gStore rs) (before ++ req :: later)).2[before.length]? = some (some hd) ∧
      observe (runHist (stepCopy (gPick rs)) (gStore rs) (before ++ req :: later)).1 hd = some ⟨t, m, sv⟩ := by
  obtain ⟨i, r, hi, hr, h1, h2, h3⟩ := gFirstIdx_route rs req t m ps sv h
  refine ⟨.copy ⟨t, m, sv⟩, ?_, rfl⟩
  rw [history_copy_answers]
  simp only [List.map_append, List.map_cons]
  rw [List.getElem?_append_right (by simp)]
  simp only [List.length_map, Nat.sub_self, List.getElem?_cons_zero, Option.some.injEq]
  have hst : (gStore rs)[i]? = some ⟨r.template, [], r.srv.ref⟩ := by simp [gStore, hr]
  simp [stepCopy, gPick, hi, hst, Pick.apply, h1, h2, h3]

/-- gorillamux: an error answer of the history model is an error answer of `gFirst` (no route is invented by reuse) -/
theorem gorilla_history_error (rs : List GRoute) (st : Store) (req : Req) (h : gPick rs req = none) :
    (stepCopy (gPick rs) st req).2 = none ∧ (gFirst rs req = .notFound ∨ gFirst rs req = .methodNotAllowed) := by
  refine ⟨by simp [stepCopy, h], gFirstIdx_none rs req ?_⟩
  simpa [gPick] using h

/-- position in the history: the handle returned for `req` after any earlier requests is the one the fresh router returns -/
theorem history_copy_nth (find : Req → Option Pick) (st : Store) (before later : List Req) (req : Req) :
    (runHist (stepCopy find) st (before ++ req :: later)).2[before.length]? = some (stepCopy find st req).2 := by
  rw [history_copy_answers]
  simp only [List.map_append, List.map_cons]
  rw [List.getElem?_append_right (by simp)]
  simp

/-- legacy router, any insertion order of the keys: whatever was asked before and whatever is asked afterwards, the route
    returned for `r` reads exactly what the one-shot model `legacyFindOrd` names (template, method, matched server) — a
    private copy when a server was matched, the stored route itself (never written) on server-less documents -/
theorem legacy_history_route (d : Doc) (ks : List Key) (before later : List Req) (r : Req) (t m : Str)
    (ps : List (Str × Str)) (sv : SrvRef) (h : legacyFindOrd d ks r = .route t m ps sv) :
    ∃ hd, (runHist (stepCopy (lPick d ks)) (lStore ks) (before ++ r :: later)).2[before.length]? = some (some hd) ∧
      observe (runHist (stepCopy (lPick d ks)) (lStore ks) (before ++ r :: later)).1 hd = some ⟨t, m, sv⟩ := by
  obtain ⟨hd, h1, h2⟩ := legacy_step_route d ks r t m ps sv
    (fun rem k vals hm => legacy_match_declared ks r.method rem k vals hm) h
  refine ⟨hd, ?_, ?_⟩
  · rw [history_copy_nth, h1]
  · rw [history_copy_store_unchanged]; exact h2

/-- the copy is needed: with the write made in place, whenever two requests are answered by the same stored route and the
    second write changes what the first wrote (another method, another server), the route the first caller holds reads
    differently after the second call than when it was returned -/
theorem history_in_place_changes (find : Req → Option Pick) (st : Store) (r1 r2 : Req) (p1 p2 : Pick) (v : RFields)
    (h1 : find r1 = some p1) (h2 : find r2 = some p2) (hi : p2.idx = p1.idx) (hv : st[p1.idx]? = some v)
    (hne : p2.apply (p1.apply v) ≠ p1.apply v) :
    let a := stepInPlace find st r1
    let b := stepInPlace find a.1 r2
    a.2 = some (.stored p1.idx) ∧ observe a.1 (.stored p1.idx) = some (p1.apply v) ∧
      observe b.1 (.stored p1.idx) = some (p2.apply (p1.apply v)) ∧
      observe b.1 (.stored p1.idx) ≠ observe a.1 (.stored p1.idx) := by
  have hlt : p1.idx < st.length := by
    rcases Nat.lt_or_ge p1.idx st.length with h | h
    · exact h
    · rw [List.getElem?_eq_none h] at hv; cases hv
  have ha : stepInPlace find st r1 = (st.set p1.idx (p1.apply v), some (.stored p1.idx)) := by
    simp [stepInPlace, h1, hv]
  have hget : (st.set p1.idx (p1.apply v))[p1.idx]? = some (p1.apply v) := by
    simp [hlt]
  have hb : stepInPlace find (st.set p1.idx (p1.apply v)) r2 =
      ((st.set p1.idx (p1.apply v)).set p1.idx (p2.apply (p1.apply v)), some (.stored p1.idx)) := by
    simp [stepInPlace, h2, hi, hget]
  simp only [ha, hb, observe, hget]
  have hget2 : ((st.set p1.idx (p1.apply v)).set p1.idx (p2.apply (p1.apply v)))[p1.idx]? = some (p2.apply (p1.apply v)) := by
    simp [hlt]
  rw [hget2]
  refine ⟨trivial, trivial, rfl, ?_⟩
  intro h
  exact hne (Option.some.inj h)

open W in
/-- witness for the class the copy protects against (seeded change C09-r3m2 and its twins): with the write made in place,
    the route returned for GET reads POST after the next call -/
theorem witness_history_in_place :
    let find : Req → Option Pick := fun r => some ⟨0, some r.method, none⟩
    let st : Store := [⟨s "/a", [], .doc 0⟩]
    let a := stepInPlace find st (req "GET" "/a")
    let b := runHist (stepInPlace find) a.1 [req "POST" "/a"]
    a.2.bind (observe a.1) = some ⟨s "/a", get, .doc 0⟩ ∧ a.2.bind (observe b.1) = some ⟨s "/a", post, .doc 0⟩ := by
  decide +kernel

open W in
/-- non-vacuity of `gorilla_history_route`: two requests through the two servers of `dTwo` on one router; both handles read
    their own server after the whole history -/
example : ∃ rs, gorillaRoutes dTwo = some rs ∧
    (let h := runHist (stepCopy (gPick rs)) (gStore rs) [reqRel "GET" "/v1/a", reqRel "GET" "/v2/x/a"]
     h.2.map (fun o => o.bind (observe h.1)) =
       [some ⟨s "/a", get, .doc 0⟩, some ⟨s "/a", get, .doc 1⟩]) := by
  refine ⟨(gorillaRoutes dTwo).getD [], by decide +kernel, ?_⟩
  decide +kernel

open W in
/-- non-vacuity of `legacy_history_route`: the same template through the two servers of `dTwo` on one router (two private
    copies naming their own server), and a server-less document where the stored route itself is handed out twice -/
example :
    (let h := runHist (stepCopy (lPick dTwo (docKeys dTwo))) (lStore (docKeys dTwo)) [reqRel "GET" "/v1/a", reqRel "GET" "/v2/x/a"]
     h.2.map (fun o => o.bind (observe h.1)) = [some ⟨s "/a", get, .doc 0⟩, some ⟨s "/a", get, .doc 1⟩]) ∧
    (let h := runHist (stepCopy (lPick d40 (docKeys d40))) (lStore (docKeys d40)) [req "GET" "/a/zz", req "GET" "/a/yy"]
     h.2.all (fun o => match o with | some (.stored _) => true | _ => false) = true ∧
     h.2.map (fun o => o.bind (observe h.1)) = [some ⟨s "/a/{x}", get, .none⟩, some ⟨s "/a/{x}", get, .none⟩]) := by
  decide +kernel

open W in
/-- the hypotheses of `history_in_place_changes` hold for GET then POST on one stored route, and for one template asked
    through two servers (the write of Server) -/
example :
    (⟨0, some post, none⟩ : Pick).apply ((⟨0, some get, none⟩ : Pick).apply ⟨s "/a", [], .doc 0⟩) ≠
      (⟨0, some get, none⟩ : Pick).apply ⟨s "/a", [], .doc 0⟩ ∧
    (⟨0, none, some (.doc 1)⟩ : Pick).apply ((⟨0, none, some (.doc 0)⟩ : Pick).apply ⟨s "/a", get, .none⟩) ≠
      (⟨0, none, some (.doc 0)⟩ : Pick).apply ⟨s "/a", get, .none⟩ := by decide +kernel

end KinModel.Props.C09
