import KinModel.Router
import KinModel.RouterSpec
namespace KinModel.Props.C09
open KinModel.Router

theorem placeholder : takeSeg ([] : Str) = ([], []) := rfl

end KinModel.Props.C09
