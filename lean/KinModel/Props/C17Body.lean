/-
C17 — document level WITH body parameters: documents whose operations take query / header / path parameters and at
most one body parameter, inline or by reference to a shared parameter (shared parameters: query / header / path /
body). ToV3 splits the parameter list into parameters and the request body, FromV3 appends the body parameter after
the others: the order of the request inputs of an operation (and of the shared parameters, which come out of Go
maps) is not part of the API, so the statements are `Api.sim` — equality up to that order (`List.Perm`).
Theorems only.
-/
import KinModel.Props.C17Doc
namespace KinModel.Conv

/-! ### position-wise relations -/

theorem rel2_append {α β : Type} {R : α → β → Prop} {a1 a2 : List α} {b1 b2 : List β}
    (h1 : rel2 R a1 b1) (h2 : rel2 R a2 b2) : rel2 R (a1 ++ a2) (b1 ++ b2) := by
  induction a1 generalizing b1 with
  | nil => cases b1 with
    | nil => simpa using h2
    | cons _ _ => simp [rel2] at h1
  | cons x xs ih => cases b1 with
    | nil => simp [rel2] at h1
    | cons y ys => exact ⟨h1.1, ih h1.2⟩

theorem rel2_map {α β γ δ : Type} {R : α → β → Prop} {S : γ → δ → Prop} (f : α → γ) (g : β → δ)
    (hRS : ∀ a b, R a b → S (f a) (g b)) {as : List α} {bs : List β} (h : rel2 R as bs) :
    rel2 S (as.map f) (bs.map g) := by
  induction as generalizing bs with
  | nil => cases bs with
    | nil => trivial
    | cons _ _ => simp [rel2] at h
  | cons x xs ih => cases bs with
    | nil => simp [rel2] at h
    | cons y ys => exact ⟨hRS _ _ h.1, ih h.2⟩

theorem rel2_flatMap {α β γ δ : Type} {S : γ → δ → Prop} (F : α → List γ) (G : β → List δ)
    {as : List α} {bs : List β} (h : rel2 (fun a b => rel2 S (F a) (G b)) as bs) :
    rel2 S (as.flatMap F) (bs.flatMap G) := by
  induction as generalizing bs with
  | nil => cases bs with
    | nil => trivial
    | cons _ _ => simp [rel2] at h
  | cons x xs ih => cases bs with
    | nil => simp [rel2] at h
    | cons y ys =>
      simp only [List.flatMap_cons]
      exact rel2_append h.1 (ih h.2)

theorem rel2_map_same {α γ δ : Type} {S : γ → δ → Prop} (f : α → γ) (g : α → δ) (l : List α)
    (h : ∀ a ∈ l, S (f a) (g a)) : rel2 S (l.map f) (l.map g) := by
  induction l with
  | nil => trivial
  | cons x xs ih => exact ⟨h x (by simp), ih (fun a ha => h a (by simp [ha]))⟩

/-- a conversion that succeeds on every element with a related result succeeds on the list -/
theorem mapRes_rel {α β : Type} {R : β → α → Prop} (f : α → Res β) (l : List α)
    (h : ∀ a ∈ l, ∃ b, f a = .ok b ∧ R b a) : ∃ bs, mapRes f l = .ok bs ∧ rel2 R bs l := by
  induction l with
  | nil => exact ⟨[], rfl, trivial⟩
  | cons a rest ih =>
    obtain ⟨b, hb, hr⟩ := h a (by simp)
    obtain ⟨bs, hbs, hrs⟩ := ih (fun x hx => h x (by simp [hx]))
    exact ⟨b :: bs, by simp [mapRes, hb, hbs], hr, hrs⟩

theorem OpA.sim_of_eq {V : Type} (a b : OpA V) (h : a = b) : OpA.sim a b := by
  subst h; exact ⟨rfl, rfl, rfl, List.Perm.refl _, rfl, rfl, rfl⟩

/-! ### ToV3Parameter on one request input of the fragment -/

theorem formMime_star : isFormMime "*/*" = false := by decide

/-- the request body ToV3Parameter builds from an inline body parameter says what the parameter says -/
theorem bodyA3_toV3BodyS {V : Type} (cs : List String) (p : Param2 V) (hl : p.loc = "body")
    (hs : schemaOK3 p.schema = true) (hc : p.schema.isNone = true ∨ cs.any isFormMime = false) :
    bodyA3 (toV3BodyS cs p) = [inputA2 (.val p)] := by
  cases hsch : p.schema with
  | none => simp [bodyA3, toV3BodyS, inputA2, hl, hsch]
  | some s =>
    have hc' : cs.any isFormMime = false := by
      rcases hc with hc | hc
      · simp [hsch] at hc
      · exact hc
    simp only [schemaOK3, hsch, Option.all_some, Bool.and_eq_true, Bool.not_eq_true'] at hs
    have hm : (if cs.isEmpty then ["*/*"] else cs).any isFormMime = false := by
      by_cases he : cs.isEmpty
      · simp [he, formMime_star]
      · simp [he, hc']
    have hb : toV3BodyS cs p = .val { required := p.required, mimes := if cs.isEmpty then ["*/*"] else cs,
                                      schema := some (toV3S s), origName := p.name != "" } := by
      simp [toV3BodyS, hsch]
    rw [hb]
    simp only [bodyA3, hm, Bool.false_eq_true, if_false]
    simp [inputA2, hl, hsch, toV3S_preserves_partial s hs.1 hs.2]

/-- what ToV3Parameter makes of one request input of the fragment (`bks` = the keys of the shared body
    parameters, `cbs` = the component request bodies built from them) -/
theorem toV3P_input {V : Type} (cbs : List (String × BRef3 V)) (bks : List String)
    (hcb : ∀ n, (alookup n cbs).isSome = bks.contains n) (cs : List String) (q : PRef2 V)
    (h : inputOK3 cs q = true) :
    (∃ x, toV3P { cbodies := cbs, cschemas := [] } cs q = .param x ∧ isBodyIn bks q = false ∧ paramA3 x = inputA2 q) ∨
    (∃ b, toV3P { cbodies := cbs, cschemas := [] } cs q = .body b ∧ isBodyIn bks q = true ∧ bodyA3 b = [inputA2 q]) := by
  cases q with
  | ref k n =>
    have hk : k.isV2 = true := by simpa [inputOK3, paramSimple, bodyOK3] using h
    by_cases hb : k = RK.par2 ∧ bks.contains n = true
    · right
      have hmem : n ∈ bks := by simpa using hb.2
      refine ⟨.ref RK.rb3 n, ?_, ?_, ?_⟩
      · simp [toV3P, hb.1, hcb n, hmem]
      · simp [isBodyIn, hb.1, hmem]
      · simp [bodyA3, inputA2, hb.1, absRK3, absRK2]
    · left
      refine ⟨.ref (toV3RK k) n, ?_, ?_, ?_⟩
      · by_cases hk2 : k = RK.par2
        · have hnm : ¬ n ∈ bks := by simpa [hk2] using hb
          simp [toV3P, hk2, hcb n, hnm, alookup]
        · simp [toV3P, hk2]
      · by_cases hk2 : k = RK.par2
        · have hnm : ¬ n ∈ bks := by simpa [hk2] using hb
          simp [isBodyIn, hk2, hnm]
        · simp [isBodyIn, hk2]
      · cases k <;> simp_all [paramA3, inputA2, toV3RK, absRK3, absRK2, RK.isV2]
  | val p =>
    by_cases hl : p.loc = "body"
    · right
      have hb : bodyOK3 cs (.val p) = true := by
        simpa [inputOK3, paramSimple, hl] using h
      simp only [bodyOK3, Bool.and_eq_true, Bool.or_eq_true, Bool.not_eq_true'] at hb
      refine ⟨toV3BodyS cs p, ?_, ?_, ?_⟩
      · simp [toV3P, hl, toV3BodyS]
      · simp [isBodyIn, hl]
      · exact bodyA3_toV3BodyS cs p hl hb.1.2 hb.2
    · left
      have hs : paramSimple (.val p) = true := by
        simpa [inputOK3, bodyOK3, hl] using h
      simp only [paramSimple, Bool.and_eq_true, bne_iff_ne, ne_eq] at hs
      refine ⟨.val (toV3Param p), ?_, ?_, ?_⟩
      · simp [toV3P, hs.1.1, hs.1.2]
      · simp [isBodyIn, hl]
      · exact toV3Param_preserves p hs.1.1 hs.1.2 hs.2

/-- **the split of a parameter list into parameters and request bodies loses and invents nothing**: no form
    schema, as many bodies as body parameters, and the inputs the parts describe are the inputs of the list
    (up to order) -/
theorem inputs_split {V : Type} (cbs : List (String × BRef3 V)) (bks : List String)
    (hcb : ∀ n, (alookup n cbs).isSome = bks.contains n) (cs : List String) (l : List (PRef2 V))
    (h : l.all (inputOK3 cs) = true) :
    (splitP3 (l.map (toV3P { cbodies := cbs, cschemas := [] } cs))).2.2 = [] ∧
    (splitP3 (l.map (toV3P { cbodies := cbs, cschemas := [] } cs))).2.1.length = (l.filter (isBodyIn bks)).length ∧
    ((splitP3 (l.map (toV3P { cbodies := cbs, cschemas := [] } cs))).1.map paramA3 ++
      (splitP3 (l.map (toV3P { cbodies := cbs, cschemas := [] } cs))).2.1.flatMap bodyA3).Perm (l.map inputA2) := by
  induction l with
  | nil => simp [splitP3]
  | cons q rest ih =>
    simp only [List.all_cons, Bool.and_eq_true] at h
    obtain ⟨i1, i2, i3⟩ := ih h.2
    rcases toV3P_input cbs bks hcb cs q h.1 with ⟨x, hx, hnb, hA⟩ | ⟨b, hb, hib, hA⟩
    · simp only [List.map_cons, hx, splitP3, List.filter_cons, hnb, Bool.false_eq_true, if_false]
      refine ⟨i1, i2, ?_⟩
      simp only [List.cons_append, hA]
      exact List.Perm.cons _ i3
    · simp only [List.map_cons, hb, splitP3, List.filter_cons, hib, if_true, List.length_cons]
      refine ⟨i1, by rw [i2], ?_⟩
      simp only [List.flatMap_cons, hA]
      exact (List.perm_middle).trans (List.Perm.cons _ i3)

/-! ### operations, path items -/

/-- **ToV3Operation on an operation with a body parameter**: it converts, and the converted operation says the same
    (parameters and request body together are the parameter list, up to order) -/
theorem toV3Op_body {V : Type} (cbs : List (String × BRef3 V)) (bks : List String)
    (hcb : ∀ n, (alookup n cbs).isSome = bks.contains n) (dc : List String) (path : String) (o : Op2 V)
    (h : opBodyOK bks dc o = true) :
    ∃ o3, toV3Op { cbodies := cbs, cschemas := [] } dc o = .ok o3 ∧ OpA.sim (opA3 path o3) (opA2 path o) := by
  simp only [opBodyOK, Bool.and_eq_true, decide_eq_true_eq] at h
  obtain ⟨⟨hin, hone⟩, hresp⟩ := h
  obtain ⟨s1, s2, s3⟩ := inputs_split cbs bks hcb (effConsumes dc o) o.params hin
  unfold toV3Op
  simp only [effConsumes] at s1 s2 s3 ⊢
  generalize hsp : splitP3 (o.params.map (toV3P { cbodies := cbs, cschemas := [] } (if o.consumes.isEmpty then dc else o.consumes))) = sp at s1 s2 s3
  obtain ⟨ps, bodies, forms⟩ := sp
  simp only at s1 s2 s3 ⊢
  subst s1
  have hlen : bodies.length ≤ 1 := by omega
  cases bodies with
  | nil =>
    refine ⟨_, rfl, rfl, rfl, rfl, ?_, ?_, ?_, rfl⟩
    · simpa [opA3, opA2] using s3
    · simp [opA3, opA2, responses_simple o.produces o.responses hresp]
    · simp [opA3, opA2, meta_toV3]
  | cons b rest =>
    cases rest with
    | cons _ _ => simp at hlen
    | nil =>
      refine ⟨_, rfl, rfl, rfl, rfl, ?_, ?_, ?_, rfl⟩
      · simpa [opA3, opA2] using s3
      · simp [opA3, opA2, responses_simple o.produces o.responses hresp]
      · simp [opA3, opA2, meta_toV3]

theorem pathParam_body {V : Type} (cbs : List (String × BRef3 V)) (bks : List String)
    (hcb : ∀ n, (alookup n cbs).isSome = bks.contains n) (dc : List String) (q : PRef2 V)
    (h : pathParamOK bks q = true) :
    pathParam3 { cbodies := cbs, cschemas := [] } dc q = .ok (toV3PS q) := by
  simp only [pathParamOK, Bool.and_eq_true, Bool.not_eq_true'] at h
  cases q with
  | ref k n =>
    by_cases hk2 : k = RK.par2
    · have hnm : ¬ n ∈ bks := by simpa [isBodyIn, hk2] using h.2
      simp [pathParam3, toV3P, toV3PS, hk2, hcb n, hnm, alookup]
    · simp [pathParam3, toV3P, toV3PS, hk2]
  | val p =>
    have hs := h.1
    simp only [paramSimple, Bool.and_eq_true, bne_iff_ne, ne_eq] at hs
    simp [pathParam3, toV3P, toV3PS, hs.1.1, hs.1.2]

theorem toV3Path_body {V : Type} (cbs : List (String × BRef3 V)) (bks : List String)
    (hcb : ∀ n, (alookup n cbs).isSome = bks.contains n) (dc : List String) (p : Path2 V)
    (h : pathBodyOK bks dc p = true) :
    ∃ p3, toV3Path { cbodies := cbs, cschemas := [] } dc p = .ok p3 ∧ PathRel3 p3 p := by
  simp only [pathBodyOK, Bool.and_eq_true] at h
  obtain ⟨ops3, ho1, ho2⟩ := mapRes_rel (R := fun o3 o => OpA.sim (opA3 p.path o3) (opA2 p.path o))
    (toV3Op { cbodies := cbs, cschemas := [] } dc) p.ops
    (fun o ho => toV3Op_body cbs bks hcb dc p.path o (List.all_eq_true.mp h.2 o ho))
  have hp : mapRes (pathParam3 { cbodies := cbs, cschemas := [] } dc) p.params = .ok (p.params.map toV3PS) :=
    mapRes_ok _ _ _ (fun q hq => pathParam_body cbs bks hcb dc q (List.all_eq_true.mp h.1 q hq))
  refine ⟨{ path := p.path, params := p.params.map toV3PS, ops := ops3 }, by simp [toV3Path, ho1, hp], rfl, ?_, ?_⟩
  · apply inputs_simple
    apply List.all_eq_true.mpr
    intro q hq
    have := List.all_eq_true.mp h.1 q hq
    simp only [pathParamOK, Bool.and_eq_true] at this
    exact this.1
  · exact rel2_map (opA3 p.path) (opA2 p.path) (fun _ _ hr => hr) ho2

theorem pathParams_rel {V : Type} (ps3 : List (Path3 V)) (ps : List (Path2 V)) (h : rel2 PathRel3 ps3 ps) :
    (ps3.filter (fun p => !p.params.isEmpty)).map (fun p => (p.path, p.params.map paramA3)) =
    (ps.filter (fun p => !p.params.isEmpty)).map (fun p => (p.path, p.params.map inputA2)) := by
  induction ps3 generalizing ps with
  | nil => cases ps with
    | nil => rfl
    | cons _ _ => simp [rel2] at h
  | cons x xs ih => cases ps with
    | nil => simp [rel2] at h
    | cons y ys =>
      obtain ⟨⟨hpath, hpar, _⟩, hrest⟩ := h
      have hemp : x.params.isEmpty = y.params.isEmpty := by
        have := congrArg List.length hpar
        simp only [List.length_map] at this
        cases hx : x.params <;> cases hy : y.params <;> simp_all
      simp only [List.filter_cons, hemp]
      cases y.params.isEmpty with
      | true => simpa using ih ys hrest
      | false => simp [ih ys hrest, hpath, hpar]

/-! ### shared parameters -/

theorem sharedP3_body {V : Type} (dc : List String) (l : List (String × PRef2 V))
    (h : l.all (fun kp => sharedOK3 dc kp.2) = true) :
    (sharedP3 dc l).2.2 = [] ∧
    (∀ n, (alookup n (sharedP3 dc l).2.1).isSome = (bodyKeys l).contains n) ∧
    ((sharedP3 dc l).1.map (fun (kp : String × PRef3 V) => (kp.1, paramA3 kp.2)) ++
      (sharedP3 dc l).2.1.flatMap (fun (kb : String × BRef3 V) => (bodyA3 kb.2).map (fun i => (kb.1, i)))).Perm
      (l.map (fun (kp : String × PRef2 V) => (kp.1, inputA2 kp.2))) := by
  induction l with
  | nil => simp [sharedP3, bodyKeys, alookup]
  | cons kp rest ih =>
    obtain ⟨k, q⟩ := kp
    simp only [List.all_cons, Bool.and_eq_true] at h
    obtain ⟨i1, i2, i3⟩ := ih h.2
    have hq : inputOK3 dc q = true := by
      have := h.1
      simp only [sharedOK3, Bool.or_eq_true] at this
      rcases this with hs | hb
      · cases q with
        | ref _ _ => simp [sharedSimple] at hs
        | val p => simpa [inputOK3, paramSimple, sharedSimple] using Or.inl hs
      · simp [inputOK3, hb]
    have hnr : ∃ p, q = .val p := by
      cases q with
      | ref _ _ =>
        have := h.1
        simp [sharedOK3, sharedSimple, bodyOK3] at this
      | val p => exact ⟨p, rfl⟩
    obtain ⟨p, rfl⟩ := hnr
    unfold sharedP3
    generalize hsp : sharedP3 dc rest = sp at i1 i2 i3
    obtain ⟨a, b, c⟩ := sp
    simp only at i1 i2 i3 ⊢
    rcases toV3P_input ([] : List (String × BRef3 V)) [] (by intro n; simp [alookup]) dc (.val p) hq with
      ⟨x, hx, hnb, hA⟩ | ⟨y, hy, hib, hA⟩
    · have hbv : isBodyVal (PRef2.val p) = false := by simpa [isBodyIn, isBodyVal] using hnb
      simp only [hx, bodyKeys, hbv, Bool.false_eq_true, if_false]
      refine ⟨i1, i2, ?_⟩
      simp only [List.map_cons, List.cons_append, hA]
      exact List.Perm.cons _ i3
    · have hbv : isBodyVal (PRef2.val p) = true := by simpa [isBodyIn, isBodyVal] using hib
      simp only [hy, bodyKeys, hbv, if_true]
      refine ⟨i1, ?_, ?_⟩
      · intro n
        by_cases hn : n = k
        · simp [alookup, hn]
        · simp [alookup, hn, i2 n]
      · simp only [List.flatMap_cons, hA, List.map_cons, List.map_nil, List.singleton_append]
        exact (List.perm_middle).trans (List.Perm.cons _ i3)

/-! ### documents -/

theorem defs_toV3 {V : Type} (l : List (String × Sch V)) (hl : l.all (fun ks => !addlImpure ks.2 && v2Refs ks.2) = true) :
    (l.map (fun ks => (ks.1, ({ formName := none, schema := toV3S ks.2 } : CSchema V)))).filterMap
      (fun kc => match kc.2.formName with | none => some (kc.1, abs3S kc.2.schema) | some _ => none) =
    l.map (fun ks => (ks.1, abs2S ks.2)) := by
  induction l with
  | nil => rfl
  | cons ks rest ih =>
    simp only [List.all_cons, Bool.and_eq_true, Bool.not_eq_true'] at hl
    simp only [List.map_cons, List.filterMap_cons, ih hl.2, toV3S_preserves_partial ks.2 hl.1.1 hl.1.2]

theorem noforms_toV3 {V : Type} (l : List (String × Sch V)) :
    (l.map (fun ks => (ks.1, ({ formName := none, schema := toV3S ks.2 } : CSchema V)))).filterMap
      (fun kc => kc.2.formName.map (fun n => (kc.1, sharedForm3 n kc.2))) = [] := by
  induction l with
  | nil => rfl
  | cons ks rest ih => simp [ih]

theorem servers_toV3 (l : Loc2) (hloc : locOK l = true) : toV3Servers l = serversA2 l := by
  simp only [locOK, Bool.or_eq_true, bne_iff_ne, ne_eq, Bool.and_eq_true, beq_iff_eq, List.isEmpty_iff] at hloc
  rcases hloc with hh | ⟨hb, hs⟩
  · exact servers_preserved_partial l hh
  · by_cases hh : l.host = ""
    · simp [toV3Servers, serversA2, hh, hb, hs]
    · exact servers_preserved_partial l hh

/-- **Document level, ToV3, with body parameters**: a document whose operations take query / header / path parameters
    and at most one body parameter — inline or by reference to a shared parameter — converts, and the converted
    document describes the same API: `Api.sim`, i.e. equal operation by operation (path, method, operation id,
    responses, summary / description / deprecated / tags, security requirements; the request inputs — parameters
    and request body — up to order), equal path-level parameters, shared responses, definitions, servers,
    security schemes and document-level security requirements, and the same shared parameters (component
    parameters and component request bodies together) up to order. -/
theorem api3_toV3_body {V : Type} (d : Doc2 V) (h : docBody d = true) :
    ∃ d3, toV3Raw d = .ok d3 ∧ Api.sim (api3 d3) (api2 d) := by
  simp only [docBody, Bool.and_eq_true] at h
  obtain ⟨⟨⟨⟨⟨⟨hparams, hpaths⟩, hresps⟩, hnodup⟩, hdefs⟩, hsecs⟩, hloc⟩ := h
  obtain ⟨secs, hsecs1, hsecs2⟩ := mapSecs_preserves d.secs hsecs
  obtain ⟨sh1, sh2, sh3⟩ := sharedP3_body d.consumes d.params hparams
  generalize hsp : sharedP3 d.consumes d.params = sp at sh1 sh2 sh3
  obtain ⟨cps, cbs, cfs⟩ := sp
  simp only at sh1 sh2 sh3
  subst sh1
  obtain ⟨paths3, hp1, hp2⟩ := mapRes_rel (R := PathRel3) (toV3Path { cbodies := cbs, cschemas := [] } d.consumes) d.paths
    (fun p hp => toV3Path_body cbs (bodyKeys d.params) sh2 d.consumes p (List.all_eq_true.mp hpaths p hp))
  have hmerge : mergeSchemas ([] : List (String × CSchema V)) d.defs =
      d.defs.map (fun ks => (ks.1, ({ formName := none, schema := toV3S ks.2 } : CSchema V))) := by
    have := mergeSchemas_nodup d.defs [] hnodup (by intro kv _; rfl)
    simpa [mergeSchemas] using this
  have h3 : toV3Raw d = .ok
      { servers := toV3Servers d.loc, cparams := cps, cbodies := cbs,
        cschemas := mergeSchemas [] d.defs, cresponses := d.responses.map (fun kr => (kr.1, toV3Resp d.produces kr.2)),
        secs := secs, paths := paths3, security := d.security } := by
    simp only [toV3Raw, hsp, hp1, hsecs1]
  refine ⟨_, h3, ?_, ?_, ?_, ?_, ?_, ?_, ?_, ?_⟩
  · show rel2 OpA.sim (paths3.flatMap (fun p => p.ops.map (opA3 p.path))) (d.paths.flatMap (fun p => p.ops.map (opA2 p.path)))
    apply rel2_flatMap
    refine (rel2_map (R := PathRel3) id id ?_ hp2 |> fun x => by simpa using x)
    intro a b hab
    exact hab.2.2
  · exact pathParams_rel paths3 d.paths hp2
  · show (List.map _ cps ++ List.flatMap _ cbs ++ List.filterMap _ (mergeSchemas [] d.defs)).Perm _
    rw [hmerge, noforms_toV3, List.append_nil]
    exact sh3
  · exact responses_simple d.produces d.responses hresps
  · show List.filterMap _ (mergeSchemas [] d.defs) = _
    rw [hmerge]
    exact defs_toV3 d.defs hdefs
  · exact servers_toV3 d.loc hloc
  · exact hsecs2
  · rfl

/-- non-vacuity of `api3_toV3_body`: an operation with a query parameter between an inline body parameter and a
    reference to a shared header parameter, an operation whose body is a shared body parameter, a path-level
    parameter, consumes at both levels -/
example :
    let q : Param2 Nat := { name := "q", loc := "query", required := false, cons := { ty := some "integer", sc := [("minimum", 1)] },
                            items := none, schema := none }
    let hd : Param2 Nat := { name := "X-H", loc := "header", required := true, cons := { ty := some "string" }, items := none, schema := none }
    let bd : Param2 Nat := { name := "payload", loc := "body", required := true, cons := {}, items := none,
                             schema := some (.node { ty := some "object", disc := some "kind", req := ["kind"] }
                               [(Slot.prop "kind", .node { ty := some "string" } []), (Slot.addl, .ref RK.def2 "A")]) }
    let idp : Param2 Nat := { name := "id", loc := "path", required := true, cons := { ty := some "string" }, items := none, schema := none }
    let ok : RRef2 Nat := .val { desc := "ok", headers := [], schema := some (.ref RK.def2 "A") }
    let d : Doc2 Nat := {
      loc := { host := "h", basePath := "", schemes := [] }, consumes := ["application/json"], produces := [],
      params := [("hp", .val hd), ("bp", .val { bd with name := "shared" })], responses := [],
      defs := [("A", .node { ty := some "object" } [])], secs := [{ type := "basic" }].map (fun s => ("b", s)),
      security := some 1,
      paths := [{ path := "/p/{id}", params := [.val idp],
                  ops := [{ method := "post", opId := "a", consumes := ["application/xml", "application/json"], produces := [],
                            params := [.val bd, .val q, .ref RK.par2 "hp"], responses := [("200", ok)],
                            info := [("deprecated", 1), ("tags", 2)], security := some 0 },
                          { method := "put", opId := "b", consumes := [], produces := [],
                            params := [.val q, .ref RK.par2 "bp"], responses := [("200", ok)] }] }] }
    docBody d = true := by
  decide

/-! ## the way back -/

theorem mapRes_mapM_rel {α β γ : Type} {R : γ → α → Prop} (f : α → Res β) (g : β → Option γ) (l : List α)
    (h : ∀ a ∈ l, ∃ b, f a = .ok b ∧ ∃ c, g b = some c ∧ R c a) :
    ∃ bs cs, mapRes f l = .ok bs ∧ bs.mapM g = some cs ∧ rel2 R cs l := by
  induction l with
  | nil => exact ⟨[], [], rfl, rfl, trivial⟩
  | cons a rest ih =>
    obtain ⟨b, hb, c, hc, hr⟩ := h a (by simp)
    obtain ⟨bs, cs, hbs, hcs, hrs⟩ := ih (fun x hx => h x (by simp [hx]))
    exact ⟨b :: bs, c :: cs, by simp [mapRes, hb, hbs], by simp [List.mapM_cons, hc, hcs], hr, hrs⟩

theorem alookup_none_iff {α : Type} (k : String) (l : List (String × α)) :
    alookup k l = none ↔ k ∉ l.map (·.1) := by
  induction l with
  | nil => simp [alookup]
  | cons kv rest ih =>
    obtain ⟨k', v⟩ := kv
    by_cases hk : k = k'
    · simp [alookup, hk]
    · simp [alookup, hk, ih]

theorem nodupKeys_iff {α : Type} (l : List (String × α)) : nodupKeys l = true ↔ (l.map (·.1)).Nodup := by
  induction l with
  | nil => simp [nodupKeys]
  | cons kv rest ih =>
    obtain ⟨k, v⟩ := kv
    simp only [nodupKeys, Bool.and_eq_true, Option.isNone_iff_eq_none, alookup_none_iff, ih, List.map_cons,
      List.nodup_cons]

/-- FromV3RequestBody on the request body ToV3Parameter built from a body parameter with a schema: one body
    parameter with the schema converted back (for a shared body: under at most one media type, F-C17-11) -/
theorem fromV3Body_toV3BodyS {V : Type} (cs : List String) (p : Param2 V) (s : Sch V) (hs : p.schema = some s)
    (hc : cs.any isFormMime = false) (hnb : noBinary2 s = true) (sh : Bool) (nm : String)
    (hsh : sh = false ∨ cs.length ≤ 1) :
    fromV3Body [] sh nm (toV3BodyS cs p) =
      [.val { name := nm, loc := "body", required := p.required, cons := {}, items := none,
              schema := some (fromV3S (toV3S s)) }] := by
  have hb : toV3BodyS cs p = .val { required := p.required, mimes := if cs.isEmpty then ["*/*"] else cs,
                                    schema := some (toV3S s), origName := p.name != "" } := by
    simp [toV3BodyS, hs]
  have hm : (if cs.isEmpty then ["*/*"] else cs).any isFormMime = false := by
    by_cases he : cs.isEmpty
    · simp [he, formMime_star]
    · simp [he, hc]
  have hne : (if cs.isEmpty then ["*/*"] else cs).isEmpty = false := by
    by_cases he : cs.isEmpty
    · simp [he]
    · simp [he]
  have hcond : (sh && decide (((if cs.isEmpty then ["*/*"] else cs).filter (fun m => !isFormMime m)).length ≥ 2)) = false := by
    rcases hsh with h0 | h1
    · simp [h0]
    · have hle : ((if cs.isEmpty then ["*/*"] else cs).filter (fun m => !isFormMime m)).length ≤ 1 := by
        refine Nat.le_trans (List.length_filter_le _ _) ?_
        by_cases he : cs.isEmpty
        · simp [he]
        · simpa [he] using h1
      have : decide (((if cs.isEmpty then ["*/*"] else cs).filter (fun m => !isFormMime m)).length ≥ 2) = false :=
        decide_eq_false (by omega)
      rw [this, Bool.and_false]
  rw [hb]
  simp only [fromV3Body, hm, hne, Bool.false_eq_true, if_false, Option.bind_some, hcond,
    fromV3SO_eq [] (toV3S s) (noBinary3_toV3S s hnb)]

/-- one request input of the round-trip fragment: converted, and converted back to an input that says the same -/
theorem toV3P_input_back {V : Type} (cbs : List (String × BRef3 V)) (bks : List String)
    (hcb : ∀ n, (alookup n cbs).isSome = bks.contains n) (cs : List String) (q : PRef2 V)
    (h : inputOKBack cs q = true) :
    (∃ x q2, toV3P { cbodies := cbs, cschemas := [] } cs q = .param x ∧ fromV3PRefO [] x = some q2 ∧
        inputA2 q2 = inputA2 q) ∨
    (∃ b, toV3P { cbodies := cbs, cschemas := [] } cs q = .body b ∧
        (fromV3Body [] false "body" b).map inputA2 = [inputA2 q]) := by
  cases q with
  | ref k n =>
    have hk : k.isV2 = true := by simpa [inputOKBack, paramSimpleBack, bodyOKBack] using h
    by_cases hb : k = RK.par2 ∧ bks.contains n = true
    · right
      have hmem : n ∈ bks := by simpa using hb.2
      refine ⟨.ref RK.rb3 n, ?_, ?_⟩
      · simp [toV3P, hb.1, hcb n, hmem]
      · simp [fromV3Body, inputA2, hb.1, fromV3RK, absRK2]
    · left
      refine ⟨.ref (toV3RK k) n, .ref (fromV3RK (toV3RK k)) n, ?_, ?_, ?_⟩
      · by_cases hk2 : k = RK.par2
        · have hnm : ¬ n ∈ bks := by simpa [hk2] using hb
          simp [toV3P, hk2, hcb n, hnm, alookup]
        · simp [toV3P, hk2]
      · simp [fromV3PRefO]
      · cases k <;> simp_all [inputA2, toV3RK, fromV3RK, absRK2, RK.isV2]
  | val p =>
    by_cases hl : p.loc = "body"
    · right
      have hb : bodyOKBack cs (.val p) = true := by
        simpa [inputOKBack, paramSimpleBack, hl] using h
      simp only [bodyOKBack, Bool.and_eq_true, Bool.not_eq_true'] at hb
      cases hsch : p.schema with
      | none => simp [hsch] at hb
      | some s =>
        simp only [hsch, Bool.and_eq_true, Bool.not_eq_true'] at hb
        refine ⟨toV3BodyS cs p, ?_, ?_⟩
        · simp [toV3P, hl, toV3BodyS]
        · rw [fromV3Body_toV3BodyS cs p s hsch hb.1.2 hb.2.1.2 false "body" (Or.inl rfl)]
          simp [inputA2, hl, hsch, roundtripS s hb.2.1.1]
    · left
      have hs : paramSimpleBack (.val p) = true := by
        simpa [inputOKBack, bodyOKBack, hl] using h
      simp only [paramSimpleBack, Bool.and_eq_true, bne_iff_ne, ne_eq] at hs
      refine ⟨.val (toV3Param p), .val (fromV3Param (toV3Param p)), ?_, ?_, ?_⟩
      · simp [toV3P, hs.1.1.1, hs.1.1.2]
      · simp [fromV3PRefO, fromV3ParamO_eq p hs.2]
      · exact roundtripParam p hs.1.1.1 hs.1.1.2 hs.1.2

/-- the parameters and the request body of a converted parameter list come back as the inputs of the list -/
theorem inputs_split_back {V : Type} (cbs : List (String × BRef3 V)) (bks : List String)
    (hcb : ∀ n, (alookup n cbs).isSome = bks.contains n) (cs : List String) (l : List (PRef2 V))
    (h : l.all (inputOKBack cs) = true) :
    ∃ ps2, (splitP3 (l.map (toV3P { cbodies := cbs, cschemas := [] } cs))).1.mapM (fromV3PRefO []) = some ps2 ∧
      (ps2.map inputA2 ++
        ((splitP3 (l.map (toV3P { cbodies := cbs, cschemas := [] } cs))).2.1.flatMap (fromV3Body [] false "body")).map inputA2).Perm
        (l.map inputA2) := by
  induction l with
  | nil => exact ⟨[], rfl, by simp [splitP3]⟩
  | cons q rest ih =>
    simp only [List.all_cons, Bool.and_eq_true] at h
    obtain ⟨ps2, i1, i2⟩ := ih h.2
    rcases toV3P_input_back cbs bks hcb cs q h.1 with ⟨x, q2, hx, hq2, hA⟩ | ⟨b, hb, hA⟩
    · refine ⟨q2 :: ps2, ?_, ?_⟩
      · simp [hx, splitP3, List.mapM_cons, hq2, i1]
      · simp only [List.map_cons, hx, splitP3, List.cons_append, hA]
        exact List.Perm.cons _ i2
    · refine ⟨ps2, ?_, ?_⟩
      · simp [hb, splitP3, i1]
      · simp only [List.map_cons, hb, splitP3, List.flatMap_cons, List.map_append, hA]
        exact (List.perm_middle).trans (List.Perm.cons _ i2)

/-- **every operation with a body parameter comes back saying the same** (up to the order of its inputs: the body
    parameter comes back after the other parameters) -/
theorem op_body_roundtrip {V : Type} (cbs : List (String × BRef3 V)) (bks : List String)
    (hcb : ∀ n, (alookup n cbs).isSome = bks.contains n) (dc : List String) (path : String) (o : Op2 V)
    (h3 : opBodyOK bks dc o = true) (h : opBodyBack bks dc o = true) :
    ∃ o3, toV3Op { cbodies := cbs, cschemas := [] } dc o = .ok o3 ∧ ∃ o2, fromV3Op [] o3 = some o2 ∧
      OpA.sim (opA2 path o2) (opA2 path o) := by
  simp only [opBodyOK, Bool.and_eq_true, decide_eq_true_eq] at h3
  obtain ⟨⟨hin, hone⟩, _⟩ := h3
  simp only [opBodyBack, Bool.and_eq_true, decide_eq_true_eq] at h
  obtain ⟨⟨hinb, _⟩, hresp⟩ := h
  obtain ⟨s1, s2, _⟩ := inputs_split cbs bks hcb (effConsumes dc o) o.params hin
  obtain ⟨ps2, b1, b2⟩ := inputs_split_back cbs bks hcb (effConsumes dc o) o.params hinb
  obtain ⟨rs, hr1, hr2⟩ := responses_roundtrip o.produces o.responses hresp
  unfold toV3Op
  simp only [effConsumes] at s1 s2 b1 b2 ⊢
  generalize hsp : splitP3 (o.params.map (toV3P { cbodies := cbs, cschemas := [] } (if o.consumes.isEmpty then dc else o.consumes))) = sp at s1 s2 b1 b2
  obtain ⟨ps, bodies, forms⟩ := sp
  simp only at s1 s2 b1 b2 ⊢
  subst s1
  have hlen : bodies.length ≤ 1 := by omega
  cases bodies with
  | nil =>
    refine ⟨_, rfl, ?_⟩
    simp only [fromV3Op, List.isEmpty_nil, if_true, b1, hr1]
    refine ⟨_, rfl, rfl, rfl, rfl, ?_, ?_, ?_, rfl⟩
    · simpa [opA2] using b2
    · simp [opA2, hr2]
    · simp [opA2, meta_roundtrip]
  | cons b rest =>
    cases rest with
    | cons _ _ => simp at hlen
    | nil =>
      refine ⟨_, rfl, ?_⟩
      simp only [fromV3Op, b1, hr1]
      refine ⟨_, rfl, rfl, rfl, rfl, ?_, ?_, ?_, rfl⟩
      · simpa [opA2] using b2
      · simp [opA2, hr2]
      · simp [opA2, meta_roundtrip]

theorem path_body_roundtrip {V : Type} (cbs : List (String × BRef3 V)) (bks : List String)
    (hcb : ∀ n, (alookup n cbs).isSome = bks.contains n) (dc : List String) (p : Path2 V)
    (h3 : pathBodyOK bks dc p = true) (h : pathBodyBack bks dc p = true) :
    ∃ p3 p2, toV3Path { cbodies := cbs, cschemas := [] } dc p = .ok p3 ∧ fromV3Path [] p3 = some p2 ∧
      PathRelBack p2 p := by
  simp only [pathBodyOK, Bool.and_eq_true] at h3
  simp only [pathBodyBack, Bool.and_eq_true] at h
  obtain ⟨ops3, ops2, ho1, ho2, ho3⟩ := mapRes_mapM_rel (R := fun o2 o => OpA.sim (opA2 p.path o2) (opA2 p.path o))
    (toV3Op { cbodies := cbs, cschemas := [] } dc) (fromV3Op []) p.ops
    (fun o ho => op_body_roundtrip cbs bks hcb dc p.path o (List.all_eq_true.mp h3.2 o ho) (List.all_eq_true.mp h.2 o ho))
  have hp : mapRes (pathParam3 { cbodies := cbs, cschemas := [] } dc) p.params = .ok (p.params.map toV3PS) :=
    mapRes_ok _ _ _ (fun q hq => pathParam_body cbs bks hcb dc q (List.all_eq_true.mp h3.1 q hq))
  have hsb : p.params.all paramSimpleBack = true := by
    apply List.all_eq_true.mpr
    intro q hq
    have := List.all_eq_true.mp h.1 q hq
    simp only [pathParamBack, Bool.and_eq_true] at this
    exact this.1
  obtain ⟨ps2, hq1, hq2⟩ := params_roundtrip p.params hsb
  refine ⟨{ path := p.path, params := p.params.map toV3PS, ops := ops3 }, { path := p.path, params := ps2, ops := ops2 },
    by simp [toV3Path, ho1, hp], by simp [fromV3Path, hq1, ho2], rfl, hq2, ?_⟩
  exact rel2_map (opA2 p.path) (opA2 p.path) (fun _ _ hr => hr) ho3

theorem pathParams_relBack {V : Type} (ps2 ps : List (Path2 V)) (h : rel2 PathRelBack ps2 ps) :
    (ps2.filter (fun p => !p.params.isEmpty)).map (fun p => (p.path, p.params.map inputA2)) =
    (ps.filter (fun p => !p.params.isEmpty)).map (fun p => (p.path, p.params.map inputA2)) := by
  induction ps2 generalizing ps with
  | nil => cases ps with
    | nil => rfl
    | cons _ _ => simp [rel2] at h
  | cons x xs ih => cases ps with
    | nil => simp [rel2] at h
    | cons y ys =>
      obtain ⟨⟨hpath, hpar, _⟩, hrest⟩ := h
      have hemp : x.params.isEmpty = y.params.isEmpty := by
        have := congrArg List.length hpar
        simp only [List.length_map] at this
        cases hx : x.params <;> cases hy : y.params <;> simp_all
      simp only [List.filter_cons, hemp]
      cases y.params.isEmpty with
      | true => simpa using ih ys hrest
      | false => simp [ih ys hrest, hpath, hpar]

/-- shared query / header / path / body parameters: the component parameters and component request bodies come
    back, under their keys, as parameters that say the same -/
theorem sharedP3_back {V : Type} (dc : List String) (l : List (String × PRef2 V))
    (h : l.all (fun kp => sharedOKBack dc kp.2) = true) :
    ∃ cps2, (sharedP3 dc l).1.mapM (fun (kp : String × PRef3 V) => (fromV3PRefO [] kp.2).map (fun p => (kp.1, p))) = some cps2 ∧
      ((cps2 ++ (sharedP3 dc l).2.1.flatMap (fun (kb : String × BRef3 V) => (fromV3Body [] true kb.1 kb.2).map (backKey kb.1))).map
          (fun (kp : String × PRef2 V) => (kp.1, inputA2 kp.2))).Perm
        (l.map (fun (kp : String × PRef2 V) => (kp.1, inputA2 kp.2))) := by
  induction l with
  | nil => exact ⟨[], rfl, by simp [sharedP3]⟩
  | cons kp rest ih =>
    obtain ⟨k, q⟩ := kp
    simp only [List.all_cons, Bool.and_eq_true] at h
    obtain ⟨cps2, i1, i2⟩ := ih h.2
    have hq := h.1
    simp only [sharedOKBack, Bool.or_eq_true, Bool.and_eq_true, decide_eq_true_eq] at hq
    unfold sharedP3
    generalize hsp : sharedP3 dc rest = sp at i1 i2
    obtain ⟨a, b, c⟩ := sp
    simp only at i1 i2 ⊢
    cases q with
    | ref _ _ => simp [sharedSimpleBack, bodyOKBack] at hq
    | val p =>
      rcases hq with hs | ⟨hb, hlen⟩
      · simp only [sharedSimpleBack, Bool.and_eq_true, bne_iff_ne, ne_eq] at hs
        have hx : toV3P ({ cbodies := [], cschemas := [] } : Env3 V) dc (.val p) = .param (.val (toV3Param p)) := by
          simp [toV3P, hs.1.1.1, hs.1.1.2]
        have e : fromV3PRefO [] (PRef3.val (toV3Param p)) = some (.val (fromV3Param (toV3Param p))) := by
          simp [fromV3PRefO, fromV3ParamO_eq p hs.2]
        refine ⟨(k, .val (fromV3Param (toV3Param p))) :: cps2, ?_, ?_⟩
        · simp only [hx, List.mapM_cons, e, i1]
          rfl
        · simp only [hx, List.cons_append, List.map_cons, roundtripParam p hs.1.1.1 hs.1.1.2 hs.1.2]
          exact List.Perm.cons _ i2
      · simp only [bodyOKBack, Bool.and_eq_true, Bool.not_eq_true', beq_iff_eq] at hb
        cases hsch : p.schema with
        | none => simp [hsch] at hb
        | some s =>
          simp only [hsch, Bool.and_eq_true, Bool.not_eq_true'] at hb
          have hx : toV3P ({ cbodies := [], cschemas := [] } : Env3 V) dc (.val p) = .body (toV3BodyS dc p) := by
            simp [toV3P, hb.1.1, toV3BodyS]
          refine ⟨cps2, ?_, ?_⟩
          · simp [hx, i1]
          · simp only [hx, List.flatMap_cons,
              fromV3Body_toV3BodyS dc p s hsch hb.1.2 hb.2.1.2 true k (Or.inr hlen), List.map_cons, List.map_nil,
              List.map_append, List.singleton_append]
            generalize hq2 : ({ name := k, loc := "body", required := p.required, cons := {}, items := none, schema := some (fromV3S (toV3S s)) } : Param2 V) = q2
            have hk : backKey k (PRef2.val q2) = (k, PRef2.val q2) := by
              subst hq2; simp [backKey]
            rw [hk]
            have hA : inputA2 (PRef2.val q2) = inputA2 (.val p) := by
              subst hq2; simp [inputA2, hb.1.1, hsch, roundtripS s hb.2.1.1]
            simp only [hA]
            have i2' := i2
            simp only [List.map_append] at i2'
            exact (List.perm_middle).trans (List.Perm.cons _ i2')

theorem ops_relBack {V : Type} (ps2 ps : List (Path2 V)) (h : rel2 PathRelBack ps2 ps) :
    rel2 OpA.sim (ps2.flatMap (fun p => p.ops.map (opA2 p.path))) (ps.flatMap (fun p => p.ops.map (opA2 p.path))) := by
  apply rel2_flatMap
  have := rel2_map (R := PathRelBack) (S := fun (a b : Path2 V) => rel2 OpA.sim (a.ops.map (opA2 a.path)) (b.ops.map (opA2 b.path)))
    id id (fun a b hab => hab.2.2) h
  simpa using this

/-- the document-level round trip, given the round trip of every path item (shared parameters: query / header /
    path / body) -/
theorem api2_roundtrip_gen {V : Type} (d : Doc2 V)
    (hparams : d.params.all (fun kp => sharedOK3 d.consumes kp.2) = true)
    (hparamsB : d.params.all (fun kp => sharedOKBack d.consumes kp.2) = true) (hpnodup : nodupKeys d.params = true)
    (hrespsB : d.responses.all (fun kr => respSimpleBack d.produces kr.2) = true)
    (hnodup : nodupKeys d.defs = true) (hdefsB : d.defs.all (fun ks => defSimpleBack ks.2) = true)
    (hsecs : d.secs.all (fun ks => secInFragment ks.2) = true)
    (hhost : d.loc.host ≠ "") (hschemes : d.loc.schemes.all schemeOK = true)
    (hpathsRT : ∀ (cbs : List (String × BRef3 V)), (∀ n, (alookup n cbs).isSome = (bodyKeys d.params).contains n) →
      ∀ p ∈ d.paths, ∃ p3, toV3Path { cbodies := cbs, cschemas := [] } d.consumes p = .ok p3 ∧
        ∃ p2, fromV3Path [] p3 = some p2 ∧ PathRelBack p2 p) :
    ∃ d3 d2, toV3Raw d = .ok d3 ∧ fromV3 d3 = some d2 ∧
      rel2 OpA.sim (api2 d2).ops (api2 d).ops ∧ (api2 d2).pathParams = (api2 d).pathParams ∧
      (api2 d2).shared.Perm (api2 d).shared ∧ (api2 d2).sharedResponses = (api2 d).sharedResponses ∧
      (api2 d2).defs = (api2 d).defs ∧ (api2 d2).security = (api2 d).security ∧
      (api2 d2).securityReq = (api2 d).securityReq ∧
      (∀ x, x ∈ (api2 d2).servers ↔ x ∈ (api2 d).servers) := by
  obtain ⟨secs, hsecs1, hsecs2⟩ := secs_roundtrip d.secs hsecs
  obtain ⟨sh1, sh2, _⟩ := sharedP3_body d.consumes d.params hparams
  obtain ⟨cps2, hb1, hb2⟩ := sharedP3_back d.consumes d.params hparamsB
  generalize hsp : sharedP3 d.consumes d.params = sp at sh1 sh2 hb1 hb2
  obtain ⟨cps, cbs, cfs⟩ := sp
  simp only at sh1 sh2 hb1 hb2
  subst sh1
  obtain ⟨paths3, paths2, hp1, hp2, hp3⟩ := mapRes_mapM_rel (R := PathRelBack)
    (toV3Path { cbodies := cbs, cschemas := [] } d.consumes) (fromV3Path []) d.paths
    (fun p hp => hpathsRT cbs sh2 p hp)
  obtain ⟨crs, hr1, hr2⟩ := responses_roundtrip d.produces d.responses hrespsB
  obtain ⟨hbinfmt, hbin, hdefs2⟩ := defs_roundtrip d.defs hdefsB
  have hmerge : mergeSchemas ([] : List (String × CSchema V)) d.defs =
      d.defs.map (fun ks => (ks.1, ({ formName := none, schema := toV3S ks.2 } : CSchema V))) := by
    have := mergeSchemas_nodup d.defs [] hnodup (by intro kv _; rfl)
    simpa [mergeSchemas] using this
  have h3 : toV3Raw d = .ok
      { servers := toV3Servers d.loc, cparams := cps, cbodies := cbs,
        cschemas := d.defs.map (fun ks => (ks.1, ({ formName := none, schema := toV3S ks.2 } : CSchema V))),
        cresponses := d.responses.map (fun kr => (kr.1, toV3Resp d.produces kr.2)),
        secs := secs, paths := paths3, security := d.security } := by
    simp only [toV3Raw, hsp, hp1, hsecs1, hmerge]
  -- the shared parameters that come back have distinct keys: what the Go map holds is the list
  have hkeys : ((cps2 ++ cbs.flatMap (fun (kb : String × BRef3 V) => (fromV3Body [] true kb.1 kb.2).map (backKey kb.1))).map (·.1)).Perm
      (d.params.map (·.1)) := by
    have := List.Perm.map Prod.fst hb2
    simpa [List.map_map, Function.comp_def] using this
  have hnd : nodupKeys (cps2 ++ cbs.flatMap (fun (kb : String × BRef3 V) => (fromV3Body [] true kb.1 kb.2).map (backKey kb.1))) = true := by
    rw [nodupKeys_iff]
    exact (List.Perm.nodup_iff hkeys).2 ((nodupKeys_iff d.params).1 hpnodup)
  refine ⟨_, ?_, h3, ?_, ?_⟩
  · exact {
      loc := fromV3Servers (toV3Servers d.loc), consumes := [], produces := [],
      params := dedupLast ([] ++ cps2 ++ cbs.flatMap (fun (kb : String × BRef3 V) => (fromV3Body [] true kb.1 kb.2).map (backKey kb.1))),
      responses := crs,
      defs := ((d.defs.map (fun ks => (ks.1, ({ formName := none, schema := toV3S ks.2 } : CSchema V)))).filter
          (fun kc => !isBinary kc.2.schema)).filterMap (fun kc => (fromV3SO [] kc.2.schema).map (fun s => (kc.1, s))),
      secs := secs.filterMap (fun (ks : String × Sec3) => match fromV3Sec ks.2 with | .ok t => some (ks.1, t) | _ => none),
      paths := paths2, security := d.security }
  · simp only [fromV3]
    have e1 : (List.filter (fun (x : String × CSchema V) => isBinaryFmt x.2.schema)
        (d.defs.map (fun ks => (ks.1, ({ formName := none, schema := toV3S ks.2 } : CSchema V))))) = [] := hbinfmt
    have e2 : (List.filter (fun (x : String × CSchema V) => isBinary x.2.schema)
        (d.defs.map (fun ks => (ks.1, ({ formName := none, schema := toV3S ks.2 } : CSchema V))))) = [] := hbin
    simp only [e1, e2, List.map_nil, hp2, hr1, hb1]
    rfl
  · refine ⟨ops_relBack paths2 d.paths hp3, pathParams_relBack paths2 d.paths hp3, ?_, hr2, hdefs2, hsecs2, rfl, ?_⟩
    · show (List.map _ (dedupLast ([] ++ cps2 ++ _))).Perm _
      simp only [List.nil_append, dedupLast_nodup _ hnd]
      exact hb2
    · intro x
      exact servers_roundtrip_partial d.loc hhost (fun y hy => List.all_eq_true.mp hschemes y hy) x


/-- **Document level, round trip, with body parameters** (outside every exclusion class): the document converts, the
    way back does not panic, and the OpenAPI 2 document that comes back describes the same API — operation by
    operation (request inputs up to order: the body parameter comes back after the other parameters), the same
    path-level parameters, shared responses, definitions, security schemes and requirements, the same shared
    parameters up to order (they are stored in a Go map), the same servers as a set. -/
theorem api2_roundtrip_body {V : Type} (d : Doc2 V) (h : docBodyBack d = true) :
    ∃ d3 d2, toV3Raw d = .ok d3 ∧ fromV3 d3 = some d2 ∧
      rel2 OpA.sim (api2 d2).ops (api2 d).ops ∧ (api2 d2).pathParams = (api2 d).pathParams ∧
      (api2 d2).shared.Perm (api2 d).shared ∧ (api2 d2).sharedResponses = (api2 d).sharedResponses ∧
      (api2 d2).defs = (api2 d).defs ∧ (api2 d2).security = (api2 d).security ∧
      (api2 d2).securityReq = (api2 d).securityReq ∧
      (∀ x, x ∈ (api2 d2).servers ↔ x ∈ (api2 d).servers) := by
  simp only [docBodyBack, Bool.and_eq_true, bne_iff_ne, ne_eq] at h
  obtain ⟨⟨⟨⟨⟨⟨hbody, hparamsB⟩, hpnodup⟩, hpathsB⟩, hrespsB⟩, hdefsB⟩, hhost, hschemes⟩ := h
  simp only [docBody, Bool.and_eq_true] at hbody
  obtain ⟨⟨⟨⟨⟨⟨hparams, hpaths⟩, _⟩, hnodup⟩, _⟩, hsecs⟩, _⟩ := hbody
  refine api2_roundtrip_gen d hparams hparamsB hpnodup hrespsB hnodup hdefsB hsecs hhost hschemes ?_
  intro cbs hcb p hp
  obtain ⟨p3, p2, e1, e2, e3⟩ := path_body_roundtrip cbs (bodyKeys d.params) hcb d.consumes p
    (List.all_eq_true.mp hpaths p hp) (List.all_eq_true.mp hpathsB p hp)
  exact ⟨p3, e1, p2, e2, e3⟩

/-- non-vacuity of `api2_roundtrip_body`: the document of the example above (body parameter inline between other
    parameters and shared; discriminator and a reference inside additionalProperties in the body schema) with one
    document-level media type -/
example :
    let q : Param2 Nat := { name := "q", loc := "query", required := false, cons := { ty := some "integer", sc := [("minimum", 1)] },
                            items := none, schema := none }
    let hd : Param2 Nat := { name := "X-H", loc := "header", required := true, cons := { ty := some "string" }, items := none, schema := none }
    let bd : Param2 Nat := { name := "payload", loc := "body", required := true, cons := {}, items := none,
                             schema := some (.node { ty := some "object", disc := some "kind", req := ["kind"] }
                               [(Slot.prop "kind", .node { ty := some "string" } []), (Slot.addl, .ref RK.def2 "A")]) }
    let idp : Param2 Nat := { name := "id", loc := "path", required := true, cons := { ty := some "string" }, items := none, schema := none }
    let ok : RRef2 Nat := .val { desc := "ok", headers := [], schema := some (.ref RK.def2 "A") }
    let d : Doc2 Nat := {
      loc := { host := "h", basePath := "", schemes := [] }, consumes := ["application/json"], produces := [],
      params := [("hp", .val hd), ("bp", .val { bd with name := "shared" })], responses := [],
      defs := [("A", .node { ty := some "object" } [])], secs := [{ type := "basic" }].map (fun s => ("b", s)),
      security := some 1,
      paths := [{ path := "/p/{id}", params := [.val idp],
                  ops := [{ method := "post", opId := "a", consumes := ["application/xml", "application/json"], produces := [],
                            params := [.val bd, .val q, .ref RK.par2 "hp"], responses := [("200", ok)],
                            info := [("deprecated", 1), ("tags", 2)], security := some 0 },
                          { method := "put", opId := "b", consumes := [], produces := [],
                            params := [.val q, .ref RK.par2 "bp"], responses := [("200", ok)] }] }] }
    docBodyBack d = true := by
  decide

end KinModel.Conv
