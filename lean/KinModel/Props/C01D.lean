/-
C01 under default injection (VisitAsRequest()/VisitAsResponse() + DefaultsSet): theorems about the injection model `visitD`
(KinModel/Schema/Defaults.lean) that need C12's results on it (Props/C12D.lean: `nodeD_passes`, `visitD_inert`) —
Props/C12 imports Props/C01, so these cannot live in Props/C01.lean. Helper lemmas: KinModel/Lemmas/C01Inject.lean.
-/
import KinModel.Lemmas.C01Inject
namespace KinModel.Schema

/-- **A `not` child factors out of the verdict, with injection and at any depth of defaults.** For EVERY schema node with
a `not` child `t` — whatever defaults `t`, the other sub-schemas and the node's own properties declare, in every mode and
under every reading/option, no exclusion — validation with default injection accepts exactly when (null is admitted, or `t`
rejects the value handed in) and the SAME node without its `not` accepts the value handed in: nothing `t` writes is seen by
the node's other keywords (oneOf/anyOf/allOf, enum, items, properties, required, min/maxProperties, additionalProperties).
A validator that tried `t` on the caller's value (seeded C01-r4m1: for array values) falsifies this on
`{not:{items:{properties:{a:{default:"d"}},required:["zz"]}}, items:{required:["a"]}}`, `[{}]`. -/
theorem not_child_factors (m : Mode) (env : Env) (kw : Kw) (a b c : List S) (t : S) (i : Option S) (p : List (String × S))
    (ad : Option S) (v : J) :
    passesL (visitD m env (.mk kw a b c (some t) i p ad) v).1 =
      (((v.isNull && kw.permitsNull) || !passesL (visitD m env t v).1) &&
        passesL (visitD m env (.mk kw a b c none i p ad) v).1) := by
  have hs : (S.mk kw a b c (some t) i p ad).shortcut = false := by simp [S.shortcut, S.hasSub]
  cases hsc : (S.mk kw a b c none i p ad).shortcut with
  | false =>
    rw [visitD.eq_def, visitD.eq_def m env (.mk kw a b c none i p ad)]
    simp only [hs, hsc, nodeD_passes, notD]
    exact nodePass_not_factor m env kw a b c p v (visitD m env t v) _ _ _ _ _ _
  | true =>
    obtain ⟨rfl, rfl, rfl, rfl, rfl, rfl, hb, ha⟩ := shortcut_facts' hsc
    rw [visitD.eq_def, visitD.eq_def m env (.mk kw [] [] [] none none [] none)]
    simp only [hs, hsc, nodeD_passes, notD, selD, eachD, seqD, itemsD, propsD, addlD]
    rw [nodePass_not_factor]
    congr 1
    unfold nodePass
    by_cases h : (v.isNull && kw.permitsNull) = true
    · simp [h]
    · simp [h, notOK, oneOK, anyOK, allOK, afterOne, afterAny, seqFin, enumOK, (bare_facts hb).2.2.1,
        ownD_bare_passes m env kw v hb ha]

/-- … and when the rest of the node declares no property default (all defaults of the schema live below this `not`), the
second factor is plain validation: the verdict under injection is `¬(t accepts its private copy) ∧ Sat (rest) v` — the
reading of the property that the differential run uses for schemas whose defaults all live below `not`s -/
theorem not_child_verdict_iff_sat (m : Mode) (env : Env) (kw : Kw) (a b c : List S) (t : S) (i : Option S)
    (p : List (String × S)) (ad : Option S) (v : J) (hw : WFJ v)
    (h0 : env.injects = false ∨ (S.mk kw a b c none i p ad).hasPropDflt = false) :
    (validateD m env (.mk kw a b c (some t) i p ad) v).1.isOk = true ↔
      ((v.isNull = true ∧ kw.permitsNull = true) ∨ passesL (visitD m env t v).1 = false) ∧ Sat env (.mk kw a b c none i p ad) v := by
  unfold validateD
  rw [mode_independent, not_child_factors m env kw a b c t i p ad v, visitD_inert m env _ v hw h0]
  simp only [events_passes, Bool.and_eq_true, Bool.or_eq_true, Bool.not_eq_true', visit_iff_sat]

/-- non-vacuity: the hypotheses of `not_child_verdict_iff_sat` hold for the seeded input — rest `{items: {required: [a]}}`
declares no default, the value `[{}]` is well-formed -/
example : (S.mk {} [] [] [] none (some (.mk { required := ["a"] } [] [] [] none none [] none)) [] none).hasPropDflt = false := by
  decide

end KinModel.Schema
