/-
C01 under default injection (VisitAsRequest()/VisitAsResponse() + DefaultsSet): theorems about the injection model `visitD`
(KinModel/Schema/Defaults.lean) that need C12's results on it (Props/C12D.lean: `nodeD_passes`, `visitD_inert`) —
Props/C12 imports Props/C01, so these cannot live in Props/C01.lean.
-/
import KinModel.Props.C12D
namespace KinModel.Schema

/-- the node verdict with a `not` child = (null admitted ∨ the child rejects) ∧ the node verdict without it: the sub-visit
results other than `rn` are read the same way whether or not there is a `not` child -/
theorem nodePass_not_factor (m : Mode) (env : Env) (kw : Kw) (a b c : List S) (p : List (String × S)) (v : J) (o : Out)
    (ro ra rl items : List Out) (props addl : List (String × Out)) :
    nodePass m env kw a b c p false v ⟨some o, ro, ra, rl, items, props, addl⟩ =
      (((v.isNull && kw.permitsNull) || !passesL o.1) && nodePass m env kw a b c p false v ⟨none, ro, ra, rl, items, props, addl⟩) := by
  unfold nodePass
  by_cases h : (v.isNull && kw.permitsNull) = true
  · simp [h]
  · simp only [h, if_false, Bool.false_eq_true, notOK, Bool.false_or, Bool.true_and, Bool.and_assoc]

/-- the exclusion of the `_partial` theorems below: the schema is `{not: t}` and nothing else (its remainder is the empty
schema, which the validator answers by the IsEmpty shortcut instead of the keyword visitors). Not known to fail there; the
case needs the verdict of the keyword visitors on a bare schema through `ownD` and is not proved. -/
def OnlyNot (kw : Kw) (a b c : List S) (i : Option S) (p : List (String × S)) (ad : Option S) : Bool :=
  (S.mk kw a b c none i p ad).shortcut

/-- **A `not` child factors out of the verdict, with injection and at any depth of defaults.** For EVERY schema node with
a `not` child `t` — whatever defaults `t`, the other sub-schemas and the node's own properties declare, in every mode and
under every reading/option — validation with default injection accepts exactly when (null is admitted, or `t` rejects the
value handed in) and the SAME node without its `not` accepts the value handed in: nothing `t` writes is seen by the node's
other keywords (oneOf/anyOf/allOf, enum, items, properties, required, min/maxProperties, additionalProperties). A validator
that tried `t` on the caller's value (seeded C01-r4m1: for array values) falsifies this on
`{not:{items:{properties:{a:{default:"d"}},required:["zz"]}}, items:{required:["a"]}}`, `[{}]`.
Full statement: the same without `hsc`. -/
theorem not_child_factors_partial (m : Mode) (env : Env) (kw : Kw) (a b c : List S) (t : S) (i : Option S) (p : List (String × S))
    (ad : Option S) (v : J) (hsc : OnlyNot kw a b c i p ad = false) :
    passesL (visitD m env (.mk kw a b c (some t) i p ad) v).1 =
      (((v.isNull && kw.permitsNull) || !passesL (visitD m env t v).1) &&
        passesL (visitD m env (.mk kw a b c none i p ad) v).1) := by
  have hs : (S.mk kw a b c (some t) i p ad).shortcut = false := by simp [S.shortcut, S.hasSub]
  unfold OnlyNot at hsc
  rw [visitD.eq_def, visitD.eq_def m env (.mk kw a b c none i p ad)]
  simp only [hs, hsc, nodeD_passes, notD]
  exact nodePass_not_factor m env kw a b c p v (visitD m env t v) _ _ _ _ _ _

/-- … and when the rest of the node declares no property default (all defaults of the schema live below this `not`), the
second factor is plain validation: the verdict under injection is `¬(t accepts its private copy) ∧ Sat (rest) v` — the
reading of the property that the differential run uses for schemas whose defaults all live below `not`s -/
theorem not_child_verdict_iff_sat_partial (m : Mode) (env : Env) (kw : Kw) (a b c : List S) (t : S) (i : Option S)
    (p : List (String × S)) (ad : Option S) (v : J) (hw : WFJ v) (hsc : OnlyNot kw a b c i p ad = false)
    (h0 : env.injects = false ∨ (S.mk kw a b c none i p ad).hasPropDflt = false) :
    (validateD m env (.mk kw a b c (some t) i p ad) v).1.isOk = true ↔
      ((v.isNull = true ∧ kw.permitsNull = true) ∨ passesL (visitD m env t v).1 = false) ∧ Sat env (.mk kw a b c none i p ad) v := by
  unfold validateD
  rw [mode_independent, not_child_factors_partial m env kw a b c t i p ad v hsc, visitD_inert m env _ v hw h0]
  simp only [events_passes, Bool.and_eq_true, Bool.or_eq_true, Bool.not_eq_true', visit_iff_sat]

/-- non-vacuity: `{not: {…}, items: {required: [a]}}` is outside the exclusion -/
example : OnlyNot {} [] [] [] (some (.mk { required := ["a"] } [] [] [] none none [] none)) [] none = false := by decide
/-- … and `{not: t}` alone is inside -/
example : OnlyNot {} [] [] [] none [] none = true := by decide

end KinModel.Schema
