/-
C07 over ONE request (`KinModel/RequestOne.lean`): the composed main theorem with every parameter's view projected from
the same `HttpReq` (`request_accept_iff`), and what that buys: parts of the request no parameter in the lists looks up
cannot change the result (`unrelated_header_keeps_result`, `unrelated_cookie_keeps_result`), a second cookie of a name
is never seen (`shadowed_cookie_keeps_result`), every parameter sees the same query (`view_query`), header parameters
are looked up under the canonical key (`header_lookup_is_canonical`).
-/
import KinModel.RequestOne
import KinModel.Props.C07Compose
namespace KinModel.RequestOne
open KinModel.Request (In Param Opts Part)
open KinModel.RequestFlow KinModel.RequestCompose

/-- the declarations of `w` against the one request `r` -/
def withRequest (w : Wiring) (r : HttpReq) : Wiring := { w with carry := view r }

/-- **composition over one request**: validation succeeds exactly when security passes, the C05 decision accepts, for
every parameter in effect, what THIS request carries for it, and the C06 verdict accepts the body. -/
theorem request_accept_iff (o : Opts) (w : Wiring) (r : HttpReq) (env : Env) :
    (validateRequest o (opOf (withRequest w r)) env).isOk = true ↔
      SecSpec env (opOf (withRequest w r)) ∧
      (∀ p ∈ sEffective o w, Style.validateParameter p (view r p) = .accept) ∧
      (∀ rb, w.body = some rb → o.excludeBody = false → bodyVerdict w rb = true) :=
  composed_accept_iff o (withRequest w r) env

/-- every parameter, whatever its location, is shown the same query -/
theorem view_query (r : HttpReq) (p q : Style.Param) : (view r p).query = (view r q).query := rfl

theorem assoc_cons_ne {α : Type} (a : Str) (kv : Str × α) (l : List (Str × α)) (h : ¬ kv.1 = a) :
    assoc a (kv :: l) = assoc a l := by simp [assoc, h]

theorem assoc_cons_eq {α : Type} (a : Str) (kv : Str × α) (l : List (Str × α)) (h : kv.1 = a) :
    assoc a (kv :: l) = some kv.2 := by simp [assoc, h]

theorem assoc_filter_ne {α : Type} (a b : Str) (l : List (Str × α)) (h : a ≠ b) :
    assoc a (l.filter (fun kv => kv.1 ≠ b)) = assoc a l := by
  induction l with
  | nil => rfl
  | cons kv l ih =>
    by_cases hk : kv.1 = b
    · have ha : ¬ kv.1 = a := fun e => h (e.symm.trans hk)
      rw [List.filter_cons_of_neg (by simp [hk]), assoc_cons_ne _ _ _ ha]; exact ih
    · rw [List.filter_cons_of_pos (by simp [hk])]
      by_cases ha : kv.1 = a
      · rw [assoc_cons_eq _ _ _ ha, assoc_cons_eq _ _ _ ha]
      · rw [assoc_cons_ne _ _ _ ha, assoc_cons_ne _ _ _ ha]; exact ih

theorem assoc_append_ne {α : Type} (a k : Str) (v : α) (l : List (Str × α)) (h : a ≠ k) :
    assoc a (l ++ [(k, v)]) = assoc a l := by
  induction l with
  | nil => exact assoc_cons_ne a (k, v) [] (fun e => h e.symm)
  | cons kv l ih =>
    by_cases ha : kv.1 = a
    · rw [List.cons_append, assoc_cons_eq _ _ _ ha, assoc_cons_eq _ _ _ ha]
    · rw [List.cons_append, assoc_cons_ne _ _ _ ha, assoc_cons_ne _ _ _ ha]; exact ih

theorem assoc_append_shadowed {α : Type} (a k : Str) (v : α) (l : List (Str × α)) (h : (assoc k l).isSome = true) :
    assoc a (l ++ [(k, v)]) = assoc a l := by
  induction l with
  | nil => simp [assoc] at h
  | cons kv l ih =>
    by_cases ha : kv.1 = a
    · rw [List.cons_append, assoc_cons_eq _ _ _ ha, assoc_cons_eq _ _ _ ha]
    · rw [List.cons_append, assoc_cons_ne _ _ _ ha, assoc_cons_ne _ _ _ ha]
      by_cases hk : kv.1 = k
      · exact assoc_append_ne a k v l (fun e => ha (hk.trans e.symm))
      · rw [assoc_cons_ne _ _ _ hk] at h; exact ih h

/-- a header set under another canonical key is invisible to the parameter named `name` -/
theorem view_setHeader_other (r : HttpReq) (k : Str) (vs : List Str) (name : Str) (h : canonHeader name ≠ canonHeader k) :
    viewName (setHeader r k vs) name = viewName r name := by
  have e : assoc (canonHeader name) ((canonHeader k, vs) :: r.headers.filter (fun kv => kv.1 ≠ canonHeader k)) =
      assoc (canonHeader name) r.headers := by
    rw [assoc_cons_ne _ _ _ (fun e => h e.symm), assoc_filter_ne _ _ _ h]
  simp only [viewName, setHeader, e]

theorem view_addCookie_other (r : HttpReq) (k v name : Str) (h : name ≠ k) :
    viewName (addCookie r k v) name = viewName r name := by
  simp only [viewName, addCookie]
  rw [assoc_append_ne _ _ _ _ h]

theorem view_addCookie_shadowed (r : HttpReq) (k v name : Str) (h : (assoc k r.cookies).isSome = true) :
    viewName (addCookie r k v) name = viewName r name := by
  simp only [viewName, addCookie]
  rw [assoc_append_shadowed _ _ _ _ h]

/-- two requests that look the same to every listed parameter are the same operation facts -/
theorem opOf_congr (w : Wiring) (r r' : HttpReq)
    (h : ∀ p ∈ w.pathParams ++ w.opParams.getD [], view r' p = view r p) :
    opOf (withRequest w r') = opOf (withRequest w r) := by
  have hp : ∀ p ∈ w.pathParams ++ w.opParams.getD [], paramOf (withRequest w r') p = paramOf (withRequest w r) p := by
    intro p hpm; simp [paramOf, withRequest, h p hpm]
  have h1 : w.pathParams.map (paramOf (withRequest w r')) = w.pathParams.map (paramOf (withRequest w r)) :=
    List.map_congr_left (fun p hpm => hp p (List.mem_append_left _ hpm))
  have h2 : w.opParams.map (·.map (paramOf (withRequest w r'))) = w.opParams.map (·.map (paramOf (withRequest w r))) := by
    cases hop : w.opParams with
    | none => rfl
    | some l =>
      simp only [Option.map_some, Option.some.injEq]
      exact List.map_congr_left (fun p hpm => hp p (List.mem_append_right _ (by simp [hop, hpm])))
  simp only [opOf, withRequest] at h1 h2 ⊢
  rw [h1, h2]
  rfl

/-- **frame, headers**: setting a header whose canonical key is the key of no listed header name changes nothing — not
the verdict, not the reported parts, not what the callback is asked -/
theorem unrelated_header_keeps_result (o : Opts) (w : Wiring) (r : HttpReq) (env : Env) (k : Str) (vs : List Str)
    (h : ∀ p ∈ w.pathParams ++ w.opParams.getD [], canonHeader p.name ≠ canonHeader k) :
    validateRequest o (opOf (withRequest w (setHeader r k vs))) env = validateRequest o (opOf (withRequest w r)) env ∧
    authLog o (opOf (withRequest w (setHeader r k vs))) env = authLog o (opOf (withRequest w r)) env := by
  rw [opOf_congr w r (setHeader r k vs) (fun p hp => view_setHeader_other r k vs p.name (h p hp))]
  exact ⟨rfl, rfl⟩

/-- **frame, cookies**: a further cookie under a name no listed parameter has changes nothing -/
theorem unrelated_cookie_keeps_result (o : Opts) (w : Wiring) (r : HttpReq) (env : Env) (k v : Str)
    (h : ∀ p ∈ w.pathParams ++ w.opParams.getD [], p.name ≠ k) :
    validateRequest o (opOf (withRequest w (addCookie r k v))) env = validateRequest o (opOf (withRequest w r)) env := by
  rw [opOf_congr w r (addCookie r k v) (fun p hp => view_addCookie_other r k v p.name (h p hp))]

/-- a second cookie of a name the request already carries is never looked at (`req.Cookie` returns the first) -/
theorem shadowed_cookie_keeps_result (o : Opts) (w : Wiring) (r : HttpReq) (env : Env) (k v : Str)
    (h : (assoc k r.cookies).isSome = true) :
    validateRequest o (opOf (withRequest w (addCookie r k v))) env = validateRequest o (opOf (withRequest w r)) env := by
  rw [opOf_congr w r (addCookie r k v) (fun p _ => view_addCookie_shadowed r k v p.name h)]

/-- header parameters are looked up under `http.CanonicalHeaderKey(name)` -/
theorem header_lookup_is_canonical :
    canonHeader "x-request-id".toList = "X-Request-Id".toList ∧ canonHeader "h".toList = "H".toList ∧
    canonHeader "X-REQUEST-ID".toList = "X-Request-Id".toList ∧ canonHeader "a b".toList = "a b".toList := by decide

/-! ### Non-vacuity: the wiring of `Props/C07Compose.lean` against one request -/

def exDecl : Wiring := exWiring "" none "{\"a\":1}" (some (.obj [("a".toList, .int 1)]))

/-- `?n=5`, `H: x`, an unrelated header and cookie -/
def exReq : HttpReq :=
  { query := [("n".toList, ["5".toList])], headers := [("H".toList, ["x".toList]), ("X-Other".toList, ["1".toList])],
    cookies := [("n".toList, "true".toList)] }

example : (validateRequest {} (opOf (withRequest exDecl exReq)) exEnvC).isOk = true := by decide

/-- the header stored under a non-canonical key is not found: the required header parameter is reported -/
example : validateRequest { multiError := true } (opOf (withRequest exDecl { exReq with headers := [("h".toList, ["x".toList])] })) exEnvC =
    .multi [.param ⟨"h", .header, false⟩] := by decide

/-- the hypotheses of the frame theorems hold on the example -/
example : ∀ p ∈ exDecl.pathParams ++ exDecl.opParams.getD [], canonHeader p.name ≠ canonHeader "x-other".toList := by decide

end KinModel.RequestOne
