/-
C06, request construction variants: whether `ValidateRequestBody` reads the body depends on `Request.Body` alone
(not nil, not `http.NoBody`) — never on `Request.ContentLength`, which on a client request is 0 for "unknown" —
and the property holds for every request shape. The guard is the one of the source (table `C06BodyRead`).
-/
import KinModel.BodyReq
import KinModel.Props.C06
import KinModel.Gen.C06BodyRead
import KinModel.Gen.C06DefaultGuard
import KinModel.Gen.C06VisitOpts
namespace KinModel.Body

/-! ## the guard of the read is the source's -/

/-- every row of the regenerated table was readable, and no read of the body is unguarded -/
theorem readRows_recognised :
    Gen.c06BodyRead.all (fun r => match r with | .unrecognised _ => false | .unguardedRead => false | _ => true) = true := by
  decide

/-- the regenerated table is the one the model evaluates: the conjuncts of the guard in order, then the
`len(data) == 0 ⇒ missing-or-fine` block -/
theorem readRows_is_source :
    Gen.c06BodyRead.map (fun r => match r with
      | .bodyNotNoBody => ReadRow.atom .bodyNotNoBody
      | .bodyNotNil => ReadRow.atom .bodyNotNil
      | .contentLength op n => ReadRow.atom (.contentLength op n)
      | .unguardedRead => ReadRow.unguardedRead
      | .emptyMeansMissing => ReadRow.emptyMeansMissing
      | .unrecognised _ => ReadRow.atom .unreadable) = readRowsSrc := by
  decide

theorem guardSrc_is_table : guardOf readRowsSrc = guardSrc := rfl

/-- **the body is read exactly when the request has one**: for EVERY request shape — any `ContentLength`, also 0
("unknown" on a client request built from a reader that is not one of the three in-memory ones, or whose `Body` was
assigned afterwards), -1 (chunked), or a wrong announcement — the guard of the source holds iff `Body` is a stream -/
theorem source_reads_iff_body_present (r : ReqShape) :
    evalGuard (guardOf (Gen.c06BodyRead.map (fun r => match r with
      | .bodyNotNoBody => ReadRow.atom .bodyNotNoBody
      | .bodyNotNil => ReadRow.atom .bodyNotNil
      | .contentLength op n => ReadRow.atom (.contentLength op n)
      | .unguardedRead => ReadRow.unguardedRead
      | .emptyMeansMissing => ReadRow.emptyMeansMissing
      | .unrecognised _ => ReadRow.atom .unreadable))) r = decide (r.body = .stream) := by
  rw [readRows_is_source, guardSrc_is_table]
  obtain ⟨body, cl⟩ := r
  cases body <;> rfl

/-- what is validated is what the request carries -/
theorem dataRead_is_carried (r : ReqShape) (b : BodyIn) : dataRead guardSrc r b = carried r b := by
  obtain ⟨body, cl⟩ := r
  cases body <;> rfl

/-- the sensitivity of the two statements above (non-vacuity): one more conjunct on `ContentLength` — the seeded
class "skip the read when the request announces no content" — and a body of unknown length is not read -/
theorem guard_on_contentLength_differs :
    evalGuard (.contentLength "!=" 0 :: guardSrc) ⟨.stream, 0⟩ = false ∧ evalGuard guardSrc ⟨.stream, 0⟩ = true ∧
    evalGuard (.contentLength ">" 0 :: guardSrc) ⟨.stream, -1⟩ = false ∧ evalGuard guardSrc ⟨.stream, -1⟩ = true := by
  decide

/-! ## the guard of default injection is the source's (class of seeded change r3m2) -/

/-- every row and every conjunct of the regenerated table was readable -/
theorem defaultGuard_recognised :
    Gen.c06DefaultGuard.all (fun r => match r with
      | .unrecognised _ => false
      | .define _ c => c.all (fun a => match a with | .unreadable _ => false | _ => true)
      | .injectIf c => c.all (fun a => match a with | .unreadable _ => false | _ => true)) = true := by
  decide

/-- the regenerated rows are the rows the model evaluates -/
theorem defaultGuard_is_source :
    Gen.c06DefaultGuard.map (fun r =>
      let atom : Gen.C06DAtom → DAtom := fun a => match a with
        | .asreq => .asreq | .asrep => .asrep | .readOnly => .readOnly | .writeOnly => .writeOnly
        | .notRODisabled => .notRODisabled | .notWODisabled => .notWODisabled | .dfltNotNil => .dfltNotNil
        | .absent => .absent | .defaultsSet => .defaultsSet
        | .notVar .reqRO => .notVar .reqRO | .notVar .repWO => .notVar .repWO
        | .unreadable _ => .unreadable
      match r with
      | .define .reqRO c => DRow.define .reqRO (c.map atom)
      | .define .repWO c => DRow.define .repWO (c.map atom)
      | .injectIf c => DRow.injectIf (c.map atom)
      | .unrecognised _ => DRow.unrecognised) = dRowsSrc := by
  decide

/-- **what the source's guard means in a request**: for every property schema, either setting of the read-only
exclusion (and of the write-only one, which plays no role), the default is written exactly when the property is
absent and the model's `dfltFor` yields a default — i.e. it has one and is not read-only-in-a-request -/
theorem inject_guard_is_dfltFor (exro wod ab : Bool) (p : RS) :
    evalDRows dRowsSrc (fun _ => none) (reqEnv exro wod ab p) = some (ab && (dfltFor exro p).isSome) := by
  have key : ∀ ro wo dp : Bool,
      evalDRows dRowsSrc (fun _ => none) ⟨true, false, ro, wo, exro, wod, dp, ab, true⟩ = some (ab && (dp && !(ro && !exro))) := by
    intro ro wo dp
    cases ro <;> cases wo <;> cases dp <;> cases exro <;> cases wod <;> cases ab <;> rfl
  unfold reqEnv
  rw [key]
  unfold dfltFor reqRO
  cases p.ro <;> cases exro <;> cases p.dflt <;> simp

/-- a read-only property never receives its default in a request (unless read-only validation is excluded), by the
guard of the source -/
theorem source_guard_protects_readOnly (wod ab : Bool) (p : RS) (h : p.ro = true) :
    evalDRows dRowsSrc (fun _ => none) (reqEnv false wod ab p) = some false := by
  rw [inject_guard_is_dfltFor]
  simp [dfltFor, reqRO, h]

/-- sensitivity (non-vacuity): the seeded guard `!(reqRO && repWO)` — always true in a request — is another function -/
theorem weakened_guard_differs :
    evalDRows [.define .reqRO [.asreq, .readOnly, .notRODisabled], .define .repWO [.asrep, .writeOnly, .notWODisabled],
               .injectIf [.absent, .defaultsSet, .dfltNotNil]] (fun _ => none)
      ⟨true, false, true, false, false, false, true, true, true⟩ = some true ∧
    evalDRows dRowsSrc (fun _ => none) ⟨true, false, true, false, false, false, true, true, true⟩ = some false := by
  decide

/-! ## from `Options` to the settings of the visit (option combinations) -/

/-- the regenerated option wiring is the one the model evaluates (nothing unreadable: `unrecognised` ≠ any row of
`optRowsSrc`) -/
theorem visitOpts_is_source :
    Gen.c06VisitOpts.map (fun r => ((match r.1 with
      | .always => OptCond.always | .ifOpt o => .ifOpt o | .ifNotOpt o => .ifNotOpt o | .ifSet o => .ifSet o
      | .visit => .visit | .unrecognised _ => .unrecognised), r.2)) = optRowsSrc := by
  decide

/-- **every combination of the options** gives exactly these settings: always a request-side visit, never a
response-side one, `DefaultsSet` iff defaults are not skipped, read-only validation disabled iff
ExcludeReadOnlyValidations, write-only validation never disabled, MultiErrors iff MultiError — the parameters
`exro` / `ds` of `validateRequestBodyD` are these and nothing else -/
theorem options_to_settings (o : FilterOpts) :
    settingsOf (optsPassed optRowsSrc o) =
      { asreq := true, asrep := false, defaultsSet := !o.skipDefaults, roDisabled := o.exro, woDisabled := false, multi := o.multi } := by
  obtain ⟨a, b, c, d, e, f⟩ := o
  cases a <;> cases b <;> cases c <;> cases d <;> cases e <;> cases f <;> decide

/-- options → settings → guard → model: under the source's option wiring and the source's injection guard a default
is written exactly when defaults are not skipped, the property is absent and `dfltFor` (with `exro` =
ExcludeReadOnlyValidations) yields one -/
theorem options_decide_injection (o : FilterOpts) (ab : Bool) (p : RS) :
    evalDRows dRowsSrc (fun _ => none) (envOf (settingsOf (optsPassed optRowsSrc o)) ab p) =
      some (!o.skipDefaults && (ab && (dfltFor o.exro p).isSome)) := by
  rw [options_to_settings]
  cases hs : o.skipDefaults
  · have := inject_guard_is_dfltFor o.exro false ab p
    simpa [envOf, reqEnv] using this
  · unfold envOf
    cases ab <;> cases p.ro <;> cases p.wo <;> cases o.exro <;> cases p.dflt.isSome <;> rfl

/-! ## the verdict over request shapes -/

/-- `ContentLength` never influences the verdict -/
theorem contentLength_irrelevant (reg : List (Str × DecK)) (rb : ReqBody) (ct : Str) (r : ReqShape) (b : BodyIn)
    (exro ds : Bool) (n : Int) :
    validateRequestR guardSrc reg rb ct { r with contentLength := n } b exro ds =
      validateRequestR guardSrc reg rb ct r b exro ds := by
  unfold validateRequestR
  rw [dataRead_is_carried, dataRead_is_carried]
  rfl

/-- a request with a body stream is validated as `ValidateRequestBody` validates its bytes, whatever it announces -/
theorem stream_is_validated (reg : List (Str × DecK)) (rb : ReqBody) (ct : Str) (n : Int) (b : BodyIn) (exro ds : Bool) :
    validateRequestR guardSrc reg rb ct ⟨.stream, n⟩ b exro ds = validateRequestBodyD reg rb ct b exro ds := rfl

/-- a request without a body (`Body` nil or `http.NoBody`) is rejected exactly when the body is required — whatever
`ContentLength` says -/
theorem no_body_iff_not_required (reg : List (Str × DecK)) (rb : ReqBody) (ct : Str) (r : ReqShape) (b : BodyIn)
    (exro ds : Bool) (h : r.body ≠ .stream) :
    validateRequestR guardSrc reg rb ct r b exro ds = (if rb.required then .missing else .ok) := by
  obtain ⟨body, cl⟩ := r
  cases body
  · simp [validateRequestR, dataRead, evalGuard, guardSrc, GuardAtom.eval, validateRequestBodyD]
  · simp [validateRequestR, dataRead, evalGuard, guardSrc, GuardAtom.eval, validateRequestBodyD]
  · exact absurd rfl h

/- Full statement (does not hold of the code: finding #20, class FormFieldUnparsable, witness
`formUnparsable_witness` in Props/C06): for every request shape, validation accepts iff `AcceptR`. -/

/-- **C06 over request shapes.** Outside the one exclusion class (FormFieldUnparsable, #20), inside the model and where
defaults are neutral, for every request shape `r` (kind of `Body`, any `ContentLength`) validation accepts exactly
when the property says so of the body the request carries. -/
theorem accept_iff_partial_R (reg : List (Str × DecK)) (rb : ReqBody) (ct : Str) (r : ReqShape) (b : BodyIn) (exro ds : Bool)
    (hmod : validateRequestR guardSrc reg rb ct r b exro ds ≠ .panic ∧ validateRequestR guardSrc reg rb ct r b exro ds ≠ .unmodelled)
    (hwf : formEncsWF reg rb ct (carried r b) = true)
    (h1 : exclFormUnparsable reg rb ct (carried r b) = false)
    (hn : caseNeutral reg rb ct (carried r b) exro ds = true) (hw : caseWF reg rb ct (carried r b) = true) :
    (validateRequestR guardSrc reg rb ct r b exro ds).isOk = true ↔ AcceptR reg rb ct r b exro := by
  unfold validateRequestR AcceptR at *
  rw [dataRead_is_carried] at *
  exact accept_iff_partial_D reg rb ct (carried r b) exro ds hmod hwf h1 hn hw

theorem acceptRB_iff (reg : List (Str × DecK)) (rb : ReqBody) (ct : Str) (r : ReqShape) (b : BodyIn) (exro : Bool) :
    acceptRB reg rb ct r b exro = true ↔ AcceptR reg rb ct r b exro :=
  acceptB_iff reg rb ct (carried r b) exro

/-- non-vacuity: a required JSON body of unknown length (`ContentLength` 0, `Body` a stream) that violates the
schema is rejected, the same bytes with `Body = http.NoBody` are "missing", and with an optional body accepted -/
example :
    let s := RS.leaf (some .integer) false false false 0 none [] [] none none
    let rb : ReqBody := ⟨true, [("application/json".toList, ⟨some s, []⟩)]⟩
    let b : BodyIn := { text := ['"', 'x', '"'], json := some (.str ['x']), form := none, parts := none }
    validateRequestR guardSrc registry rb "application/json".toList ⟨.stream, 0⟩ b false true = .schemaErr ∧
    acceptRB registry rb "application/json".toList ⟨.stream, 0⟩ b false = false ∧
    validateRequestR guardSrc registry rb "application/json".toList ⟨.noBody, 3⟩ b false true = .missing ∧
    validateRequestR guardSrc registry { rb with required := false } "application/json".toList ⟨.nilBody, 3⟩ b false true = .ok := by
  decide

/-! ## the decoder registry as state: histories of Register / Unregister -/

/-- one operation: its own key gets what it says, every other key keeps its entry -/
theorem lookup_regApply (reg : List (Str × DecK)) (op : RegOp) (k : Str) :
    lookup k (regApply reg op) = if op.key = k then op.effect else lookup k reg := by
  cases op with
  | register k' d =>
    by_cases h : k' = k
    · simp [regApply, RegOp.key, RegOp.effect, h, lookup]
    · have h' : ¬ k = k' := fun e => h e.symm
      simp [regApply, RegOp.key, RegOp.effect, h, lookup, h', lookup_dropKey_other k' k h']
  | unregister k' =>
    by_cases h : k' = k
    · simp [regApply, RegOp.key, RegOp.effect, h, lookup_dropKey_self]
    · have h' : ¬ k = k' := fun e => h e.symm
      simp [regApply, RegOp.key, RegOp.effect, h, lookup_dropKey_other k' k h']

/-- **history**: after ANY sequence of registrations and removals, the decoder a media type is routed to is decided
by the last operation on that very key (none: the initial entry) — no operation on another key, and no earlier
operation on the same key, leaves a trace -/
theorem lookup_after_ops (k : Str) : ∀ (ops : List RegOp) (reg : List (Str × DecK)),
    lookup k (regApplyAll reg ops) = lastOn k ops (lookup k reg) := by
  intro ops
  induction ops with
  | nil => intro reg; rfl
  | cons op rest ih =>
    intro reg
    show lookup k (regApplyAll (regApply reg op) rest) = lastOn k rest (if op.key = k then op.effect else lookup k reg)
    rw [ih, lookup_regApply]

/-- the property holds in every state of the registry: `accept_iff_partial_R` after any history -/
theorem accept_iff_partial_after_ops (ops : List RegOp) (reg : List (Str × DecK)) (rb : ReqBody) (ct : Str) (r : ReqShape)
    (b : BodyIn) (exro ds : Bool)
    (hmod : validateRequestR guardSrc (regApplyAll reg ops) rb ct r b exro ds ≠ .panic ∧
            validateRequestR guardSrc (regApplyAll reg ops) rb ct r b exro ds ≠ .unmodelled)
    (hwf : formEncsWF (regApplyAll reg ops) rb ct (carried r b) = true)
    (h1 : exclFormUnparsable (regApplyAll reg ops) rb ct (carried r b) = false)
    (hn : caseNeutral (regApplyAll reg ops) rb ct (carried r b) exro ds = true)
    (hw : caseWF (regApplyAll reg ops) rb ct (carried r b) = true) :
    (validateRequestR guardSrc (regApplyAll reg ops) rb ct r b exro ds).isOk = true ↔
      AcceptR (regApplyAll reg ops) rb ct r b exro :=
  accept_iff_partial_R (regApplyAll reg ops) rb ct r b exro ds hmod hwf h1 hn hw

/-- non-vacuity: JSON unregistered ⇒ a JSON body cannot be decoded; registered again under the plain decoder ⇒ the
text itself is the value; an operation on another key changes nothing -/
example :
    let s := RS.leaf (some .string) false false false 0 none [] [] none none
    let rb : ReqBody := ⟨true, [("application/json".toList, ⟨some s, []⟩)]⟩
    let b : BodyIn := { text := ['7'], json := some (.int 7), form := none, parts := none }
    let aj := "application/json".toList
    validateRequestR guardSrc registry rb aj ⟨.stream, 1⟩ b false true = .schemaErr ∧
    validateRequestR guardSrc (regApplyAll registry [.unregister aj]) rb aj ⟨.stream, 1⟩ b false true = .decodeErr ∧
    validateRequestR guardSrc (regApplyAll registry [.unregister aj, .register aj .plain]) rb aj ⟨.stream, 1⟩ b false true = .ok ∧
    validateRequestR guardSrc (regApplyAll registry [.register "text/plain".toList .json, .unregister "a/b".toList]) rb aj ⟨.stream, 1⟩ b false true = .schemaErr := by
  decide

/-! ## one request object validated several times -/

/-- the read puts the body back as a stream: a request whose body was read is read again by the next call, one
whose body was not read stays as it was — for either way the length is restored -/
theorem shapeAfter_same_read (h : Bool) (n : Nat) (r : ReqShape) (b : BodyIn) :
    dataRead guardSrc (shapeAfter guardSrc h n r) b = dataRead guardSrc r b := by
  obtain ⟨body, cl⟩ := r
  cases body <;> cases h <;> rfl

/-- **reuse**: `k` successive validations of the same request object (defaults skipped, so nothing is rewritten)
all give the verdict of the first one -/
theorem repeated_same (reg : List (Str × DecK)) (rb : ReqBody) (ct : Str) (h : Bool) (b : BodyIn) (exro : Bool) :
    ∀ (k : Nat) (r : ReqShape), validateRepeated guardSrc reg rb ct h b exro k r =
      List.replicate k (validateRequestR guardSrc reg rb ct r b exro false) := by
  intro k
  induction k with
  | zero => intro r; rfl
  | succ k ih =>
    intro r
    rw [validateRepeated, ih, List.replicate_succ]
    unfold validateRequestR
    rw [shapeAfter_same_read]

end KinModel.Body
