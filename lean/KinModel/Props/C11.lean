import KinModel.Reads
namespace KinModel.Reads
theorem c11_placeholder : True := trivial
end KinModel.Reads
