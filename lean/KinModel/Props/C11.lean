/-
C11 — the loader reads nothing beyond the root unless external refs are allowed.
Property theorems only (model and spec: KinModel/Reads.lean; invariant lemmas: KinModel/Lemmas/C11.lean;
regenerated call-site table: KinModel/Gen/ReadSites.lean).
-/
import KinModel.Reads
import KinModel.ReadsMedium
import KinModel.Lemmas.C11
import KinModel.Gen.ReadSites
import KinModel.Gen.WalkSites
import KinModel.Gen.LoaderState
import KinModel.Gen.ReaderGuards
import KinModel.Lemmas.C11Readers
namespace KinModel.Reads

/-! ### first sentence: switch off -/

/-- With external references disallowed every location passed to the reader is the root's own location —
for every document, every reference form at every position, every entry point, every amount of fuel,
including the reads performed before a load error (the log is kept on every path of the model). -/
theorem switch_off_reads_root_only (inp : Input) (fuel : Nat) (hoff : inp.allowed = false) :
    ∀ u ∈ (load inp fuel).1.log, some u = inp.root :=
  (load_inv inp fuel).off hoff

/-- `LoadFromData` (no root location) with the switch off reads nothing at all. -/
theorem switch_off_data_reads_nothing (inp : Input) (fuel : Nat) (hoff : inp.allowed = false)
    (hd : inp.entry = Entry.data) : (load inp fuel).1.log = [] := by
  have h := switch_off_reads_root_only inp fuel hoff
  have hr : inp.root = none := by unfold Input.root; rw [hd]
  cases hl : (load inp fuel).1.log with
  | nil => rfl
  | cons u rest =>
    have := h u (by rw [hl]; simp)
    rw [hr] at this; cases this

/-! ### second sentence: switch on

Full-strength statement (does NOT hold of the code as it is, see `foreign_base_witness`):

    switch_on_reads_are_resolutions : ∀ (inp : Input) (fuel : Nat), AllJust inp (load inp fuel).1.log

What is proved: the statement outside the exclusion class `ForeignBase` — runs in which some guarded read goes to
a location that is NOT the resolution of its reference against the location of the document the reference was found
in (the loader used a `documentPath` that belongs to another document, and it mattered).  The class was narrowed
three times: the raw re-read fallback no longer produces it (f972c33; regression `raw_fallback_regression`), a
foreign `documentPath` that yields the same location (absolute reference, same directory) is outside it, and a
reference text in progress for another kind no longer leaves a child to the second walk (7245059; regression
`other_kind_regression`). -/

/-- exclusion predicate (decidable): some guarded read went to a location other than the resolution of its
    reference against its own document's location -/
def ForeignBase (inp : Input) (fuel : Nat) : Prop := (load inp fuel).1.foreign = true

instance (inp : Input) (fuel : Nat) : Decidable (ForeignBase inp fuel) := by unfold ForeignBase; infer_instance

/-- Every read is the root or the resolution of a reference found in an already-loaded document against
that document's own location — in read order, for both switch settings, every entry point. -/
theorem switch_on_reads_are_resolutions_partial (inp : Input) (fuel : Nat) (h : ¬ ForeignBase inp fuel) :
    AllJust inp (load inp fuel).1.log :=
  (load_inv inp fuel).just (by unfold ForeignBase at h; simpa using h)

/-- The exclusion class is empty with the switch off: a foreign base can only be used by a guarded read. -/
theorem switch_off_never_foreign (inp : Input) (fuel : Nat) (hoff : inp.allowed = false) :
    ¬ ForeignBase inp fuel := by
  unfold ForeignBase
  rw [(load_inv inp fuel).nfo hoff]; simp

/-- With the switch off the reads meet the spec at full strength (no exclusion). -/
theorem reads_meet_spec_off (inp : Input) (fuel : Nat) (hoff : inp.allowed = false) :
    Spec inp (load inp fuel).1.log := by
  unfold Spec; rw [hoff]; simp only [Bool.false_eq_true, if_false]
  exact switch_off_reads_root_only inp fuel hoff

/-- Both sentences together. -/
theorem reads_meet_spec_partial (inp : Input) (fuel : Nat) (h : ¬ ForeignBase inp fuel) :
    Spec inp (load inp fuel).1.log := by
  unfold Spec
  split
  · exact switch_on_reads_are_resolutions_partial inp fuel h
  · next ha => exact switch_off_reads_root_only inp fuel (by simpa using ha)

/-- The reads of an aligned prefix are justified even when a later read uses a foreign base: the first
unjustified read, if any, is one whose base location is not its document's. -/
theorem every_read_is_root_or_loaded_resolution_or_foreign (inp : Input) (fuel : Nat) :
    (load inp fuel).1.foreign = true ∨ AllJust inp (load inp fuel).1.log := by
  cases h : (load inp fuel).1.foreign with
  | true => exact Or.inl rfl
  | false => exact Or.inr ((load_inv inp fuel).just h)

/-! ### the caching reader (`URIMapCache`, hence `DefaultReadFromURI`) -/

/-- The property is stated for the locations passed to `ReadFromURIFunc`.  When that function is
`URIMapCache(reader)` the locations reaching the wrapped `reader` (files opened, HTTP requests sent) are a
sub-sequence; it meets the spec whenever the full sequence does — for ANY sequence of reads, both switch settings. -/
theorem cache_preserves_spec (inp : Input) (log : List Url) (h : Spec inp log) :
    Spec inp (cacheFilter inp [] log) := by
  unfold Spec at h ⊢
  split
  · next ha =>
    rw [if_pos ha] at h
    intro pre u post heq
    have := cacheFilter_just inp log [] [] [] (by simp) (by simp)
      (by intro s u t e; simpa using h s u t e) pre u post heq
    simpa using this
  · next ha =>
    rw [if_neg ha] at h
    intro u hu
    exact h u (cacheFilter_sub inp log [] u hu)

/-- "Is a document read at most once per location?"  Not by the loader (it reads before it consults its document
cache, and re-reads for the raw drill: see the example with the root read twice below) — but behind `URIMapCache` a
location that is cached (any location except a relative file path) and readable is fetched at most once, whatever the
loader does. -/
theorem cache_fetches_once (inp : Input) (log : List Url) (u : Url) (hc : u.cacheable = true)
    (hs : (storeAt inp u).isSome = true) : (cacheFilter inp [] log).count u ≤ 1 :=
  cacheFilter_once inp u hc hs log []

/-- With the switch off, nothing but the root reaches the wrapped reader either. -/
theorem switch_off_cached_reads_root_only (inp : Input) (fuel : Nat) (hoff : inp.allowed = false) :
    ∀ u ∈ cacheFilter inp [] (load inp fuel).1.log, some u = inp.root :=
  fun u hu => switch_off_reads_root_only inp fuel hoff u (cacheFilter_sub inp _ [] u hu)

/-- the wrapped reader sees only resolutions too (outside the exclusion) -/
theorem switch_on_cached_reads_are_resolutions_partial (inp : Input) (fuel : Nat) (h : ¬ ForeignBase inp fuel) :
    Spec inp (cacheFilter inp [] (load inp fuel).1.log) :=
  cache_preserves_spec inp _ (reads_meet_spec_partial inp fuel h)

/-! ### uniform universes: the second sentence at full strength, no exclusion

`Uniform inp` is a static, decidable condition on the file universe (not on the run): every non-'#' reference of every
file resolves to the same location from every location of the universe — e.g. all references absolute (absolute
paths, http(s) URLs), or all files in one directory. -/

/-- On a uniform universe the exclusion class is empty. -/
theorem uniform_never_foreign (inp : Input) (fuel : Nat) (h : Uniform inp) : ¬ ForeignBase inp fuel := by
  unfold ForeignBase
  rw [(load_inv inp fuel).uni h]; simp

/-- Full-strength second sentence on uniform universes: every read is the root or the resolution of a reference
found in an already-loaded document against that document's own location. -/
theorem switch_on_reads_are_resolutions_uniform (inp : Input) (fuel : Nat) (h : Uniform inp) :
    AllJust inp (load inp fuel).1.log :=
  switch_on_reads_are_resolutions_partial inp fuel (uniform_never_foreign inp fuel h)

/-- Both sentences, and the caching reader, on uniform universes. -/
theorem reads_meet_spec_uniform (inp : Input) (fuel : Nat) (h : Uniform inp) :
    Spec inp (load inp fuel).1.log ∧ Spec inp (cacheFilter inp [] (load inp fuel).1.log) :=
  ⟨reads_meet_spec_partial inp fuel (uniform_never_foreign inp fuel h),
   cache_preserves_spec inp _ (reads_meet_spec_partial inp fuel (uniform_never_foreign inp fuel h))⟩

/-! ### histories: several loads on one `Loader`

Every entry point resets the in-progress state and, since c555d93, the documents cache (table LoaderState:
`loader_state_as_modelled`, `loader_state_resets`); `rootLocation` / `rootDir` survive but are never read.  So a load on
a reused loader reads exactly what the same load reads on a fresh one, and every single-load theorem holds for every
load of every history, against that load's OWN root and references — no hypothesis on the history. -/

/-- a reused loader reads, load by load, exactly what fresh loaders read -/
theorem history_is_fresh_loads (steps : List Input) (fuel : Nat) :
    history steps fuel = steps.map (fun inp => ⟨inp, (load inp fuel).1, (load inp fuel).2⟩) :=
  runH_fresh fuel steps St.init

theorem history_mem (steps : List Input) (fuel : Nat) (e : StepOut) (he : e ∈ history steps fuel) :
    e.inp ∈ steps ∧ e.st = (load e.inp fuel).1 ∧ e.ok = (load e.inp fuel).2 := by
  rw [history_is_fresh_loads, List.mem_map] at he
  obtain ⟨inp, hi, rfl⟩ := he
  exact ⟨hi, rfl, rfl⟩

/-- first sentence, every load of every history, full strength: nothing but THIS load's root is read, whatever the
loader loaded before (a `LoadFromData` after a located load reads nothing at all) -/
theorem history_switch_off_reads_root_only (steps : List Input) (fuel : Nat) :
    ∀ e ∈ history steps fuel, e.inp.allowed = false → ∀ u ∈ e.st.log, some u = e.inp.root := by
  intro e he hoff
  rw [(history_mem steps fuel e he).2.1]
  exact switch_off_reads_root_only e.inp fuel hoff

/-- second sentence, every load of every history, outside the exclusion: justified by this load's own root and the
documents read in THIS load -/
theorem history_switch_on_reads_are_resolutions_partial (steps : List Input) (fuel : Nat) :
    ∀ e ∈ history steps fuel, e.st.foreign = false → AllJust e.inp e.st.log := by
  intro e he hf
  have hm := (history_mem steps fuel e he).2.1
  rw [hm] at hf ⊢
  exact (load_inv e.inp fuel).just hf

/-- … and at full strength for the loads over a uniform universe -/
theorem history_switch_on_reads_are_resolutions_uniform (steps : List Input) (fuel : Nat) :
    ∀ e ∈ history steps fuel, Uniform e.inp → AllJust e.inp e.st.log := by
  intro e he hu
  rw [(history_mem steps fuel e he).2.1]
  exact switch_on_reads_are_resolutions_uniform e.inp fuel hu

/-- both sentences for every load of a history -/
theorem history_reads_meet_spec_partial (steps : List Input) (fuel : Nat) :
    ∀ e ∈ history steps fuel, e.st.foreign = false → Spec e.inp e.st.log := by
  intro e he hf
  have hm := (history_mem steps fuel e he).2.1
  rw [hm] at hf ⊢
  exact reads_meet_spec_partial e.inp fuel (by unfold ForeignBase; simp [hf])

/-! ### the executable spec is the spec -/

theorem justifiedB_iff (inp : Input) (pre : List Url) (u : Url) :
    justifiedB inp pre u = true ↔ Justified inp pre u := by
  unfold justifiedB Justified Loaded
  simp only [Bool.or_eq_true, decide_eq_true_eq, List.any_eq_true, Bool.and_eq_true, List.mem_cons,
    List.mem_map]
  constructor
  · rintro (h | ⟨d, hd, r, hr, hf, hu⟩)
    · exact Or.inl h
    · refine Or.inr ⟨d, ?_, r, hr, hf, hu⟩
      rcases hd with hd | ⟨x, hx, hd⟩
      · exact Or.inl hd
      · exact Or.inr ⟨x, hx, hd.symm⟩
  · rintro (h | ⟨d, hd, r, hr, hf, hu⟩)
    · exact Or.inl h
    · refine Or.inr ⟨d, ?_, r, hr, hf, hu⟩
      rcases hd with hd | ⟨x, hx, hd⟩
      · exact Or.inl hd
      · exact Or.inr ⟨x, hx, hd.symm⟩

theorem allJustFrom_iff (inp : Input) : ∀ (log pre : List Url),
    allJustFrom inp pre log = true ↔ ∀ s u t, log = s ++ u :: t → Justified inp (pre ++ s) u
  | [], pre => by
    simp only [allJustFrom, true_iff]
    intro s u t h; cases s <;> simp at h
  | v :: rest, pre => by
    simp only [allJustFrom, Bool.and_eq_true, justifiedB_iff, allJustFrom_iff inp rest (pre ++ [v])]
    constructor
    · rintro ⟨h1, h2⟩ s u t heq
      cases s with
      | nil => simp at heq; obtain ⟨e1, _⟩ := heq; subst e1; simpa using h1
      | cons w s' =>
        simp at heq; obtain ⟨e1, e2⟩ := heq; subst e1
        have := h2 s' u t e2
        simpa using this
    · intro h
      refine ⟨by simpa using h [] v rest rfl, ?_⟩
      intro s u t heq
      have := h (v :: s) u t (by simp [heq])
      simpa using this

theorem allJustB_iff (inp : Input) (log : List Url) : allJustB inp log = true ↔ AllJust inp log := by
  unfold allJustB AllJust
  rw [allJustFrom_iff]
  simp

theorem onlyRootB_iff (inp : Input) (log : List Url) : onlyRootB inp log = true ↔ OnlyRoot inp log := by
  unfold onlyRootB OnlyRoot
  simp

theorem specB_iff (inp : Input) (log : List Url) : specB inp log = true ↔ Spec inp log := by
  unfold specB Spec
  split
  · exact allJustB_iff inp log
  · exact onlyRootB_iff inp log

/-! ### witness of the exclusion, non-vacuity -/

def fileUrl (segs : List String) : Url := ⟨"", "", true, segs⟩
def wholeRef (text : String) (segs : List String) : Ref := ⟨text, .whole, ⟨"", "", false, segs⟩, "", false⟩
def hashRef (frag : String) : Ref := ⟨"#" ++ frag, .internal, ⟨"", "", false, []⟩, frag, false⟩
def fragRef (text : String) (segs : List String) (frag : String) : Ref :=
  ⟨text, .fragment, ⟨"", "", false, segs⟩, frag, false⟩
def leafFile : File := { parses := true, tops := [], elems := [], typed := [], raw := [] }
/-- an element file of one kind -/
def elemView (k : Kind) (ns : List Node) : List (Kind × List Node) := [(k, ns)]

/-- finding F-C11-1: /r/a/root.json has parameter P → "../b/p.json" and schema X → "y.json";
    /r/b/p.json is a parameter whose schema is "#/components/schemas/X". -/
def x0 : Input :=
  { allowed := true, entry := .file, rootLoc := some (fileUrl ["r", "a", "root.json"]), rootInStore := true
    rootFile :=
      { parses := true, elems := [], raw := []
        tops := [ .mk 1 .parameter (some (wholeRef "../b/p.json" ["..", "b", "p.json"])) [],
                  .mk 2 .schema (some (wholeRef "y.json" ["y.json"])) [] ]
        typed := [("/components/schemas/X", .mk 2 .schema (some (wholeRef "y.json" ["y.json"])) [])] }
    store :=
      [ (fileUrl ["r", "b", "p.json"],
          { parses := true, tops := [], typed := [], raw := []
            elems := elemView .parameter [ .mk 1 .schema (some (hashRef "/components/schemas/X")) [] ] }),
        (fileUrl ["r", "a", "y.json"], leafFile),
        (fileUrl ["r", "b", "y.json"], leafFile) ] }

/-- The model (which agrees with the real loader on this input, corpus/C11/foreign_base_elem_hash_ref.json)
reads /r/b/y.json: inside the exclusion the reads do NOT meet the spec — the exclusion is not vacuous. -/
theorem foreign_base_witness :
    (load x0 16).1.log = [fileUrl ["r", "a", "root.json"], fileUrl ["r", "b", "p.json"],
                          fileUrl ["r", "b", "y.json"], fileUrl ["r", "a", "y.json"]] ∧
    ForeignBase x0 16 ∧ specB x0 (load x0 16).1.log = false := by
  decide

theorem foreign_base_witness_not_spec : ¬ Spec x0 (load x0 16).1.log := by
  rw [← specB_iff]; simp [foreign_base_witness.2.2]

/-- former witness of F-C11-1 (c) (corpus/C11/foreign_base_second_walk_otherkind.json): /r/a/root.json has header
    R → "b/d.json#/components/headers/H"; /r/a/b/d.json has header H → "x.json"; /r/a/b/x.json is a header whose schema
    is "x.json" again.  While the in-progress set was keyed by the text alone, the schema was skipped (text in progress
    for a HEADER), its callback ignored the value, and the second walk of R's value resolved "x.json" against /r/a/. -/
def x3 : Input :=
  { allowed := true, entry := .file, rootLoc := some (fileUrl ["r", "a", "root.json"]), rootInStore := true
    rootFile :=
      { parses := true, elems := [], raw := [], typed := []
        tops := [ .mk 1 .header (some (fragRef "b/d.json#/components/headers/H" ["b", "d.json"] "/components/headers/H")) [] ] }
    store :=
      [ (fileUrl ["r", "a", "b", "d.json"],
          { parses := true, elems := [], raw := []
            tops := [ .mk 1 .header (some (wholeRef "x.json" ["x.json"])) [] ]
            typed := [("/components/headers/H", .mk 1 .header (some (wholeRef "x.json" ["x.json"])) [])] }),
        (fileUrl ["r", "a", "b", "x.json"],
          { parses := true, tops := [], typed := [], raw := []
            elems := elemView .header [ .mk 1 .schema (some (wholeRef "x.json" ["x.json"])) [] ] }),
        (fileUrl ["r", "a", "x.json"], leafFile) ] }

/-- Regression for the repaired sub-case (c) (fixed by 7245059: the in-progress set is keyed by kind and text): the
schema "x.json" is resolved on its own, against /r/a/b/ (the file is read a second time, as a schema); /r/a/x.json is
not read, no foreign base, model = spec. -/
theorem other_kind_regression :
    (load x3 16).1.log = [fileUrl ["r", "a", "root.json"], fileUrl ["r", "a", "b", "d.json"],
                          fileUrl ["r", "a", "b", "x.json"], fileUrl ["r", "a", "b", "x.json"]] ∧
    (load x3 16).2 = true ∧ ¬ ForeignBase x3 16 ∧ specB x3 (load x3 16).1.log = true := by
  decide

/-- finding F-C11-1 (d) (corpus/C11/foreign_base_empty_pathitem_second_walk.json): the root has callbacks
    H → "b/cb.json" and R → "#/components/callbacks/H"; /r/a/b/cb.json has evt → "e.json"; /r/a/b/e.json is empty as a
    path item, so evt never counts as resolved and the second walk of R's value resolves "e.json" against the root. -/
def x6 : Input :=
  { allowed := true, entry := .file, rootLoc := some (fileUrl ["r", "a", "root.json"]), rootInStore := true
    rootFile :=
      { parses := true, elems := [], raw := []
        tops := [ .mk 1 .callback (some (wholeRef "b/cb.json" ["b", "cb.json"])) [],
                  .mk 2 .callback (some (hashRef "/components/callbacks/H")) [] ]
        typed := [("/components/callbacks/H", .mk 1 .callback (some (wholeRef "b/cb.json" ["b", "cb.json"])) [])] }
    store :=
      [ (fileUrl ["r", "a", "b", "cb.json"],
          { parses := true, tops := [], typed := [], raw := []
            elems := elemView .callback [ .mk 1 .pathItem (some (wholeRef "e.json" ["e.json"])) [] ] }),
        (fileUrl ["r", "a", "b", "e.json"], { leafFile with emptyPI := true }),
        (fileUrl ["r", "a", "e.json"], leafFile) ] }

theorem foreign_empty_pathitem_witness :
    (load x6 16).1.log = [fileUrl ["r", "a", "root.json"], fileUrl ["r", "a", "b", "cb.json"],
                          fileUrl ["r", "a", "b", "e.json"], fileUrl ["r", "a", "e.json"]] ∧
    ForeignBase x6 16 ∧ specB x6 (load x6 16).1.log = false := by
  decide

/-- former witness of F-C11-1 (b) (corpus/C11/foreign_base_raw_fallback.json): the root's callback C has a path item
    "../b/d.json#/paths/~1x", /r/b/d.json has no such path, the root itself has /paths/~1x with parameter "p.json". -/
def x2 : Input :=
  { allowed := true, entry := .file, rootLoc := some (fileUrl ["r", "a", "root.json"]), rootInStore := true
    rootFile :=
      { parses := true, elems := []
        tops := [ .mk 1 .callback none [ .mk 2 .pathItem (some (fragRef "../b/d.json#/paths/~1x" ["..", "b", "d.json"] "/paths/~1x")) [] ],
                  .mk 3 .pathItem none [ .mk 4 .parameter (some (wholeRef "p.json" ["p.json"])) [] ] ]
        typed := [("/components/callbacks/C", .mk 1 .callback none [ .mk 2 .pathItem (some (fragRef "../b/d.json#/paths/~1x" ["..", "b", "d.json"] "/paths/~1x")) [] ]),
                  ("/paths/~1x", .mk 3 .pathItem none [ .mk 4 .parameter (some (wholeRef "p.json" ["p.json"])) [] ])]
        raw := [("/paths/~1x", .mk 3 .pathItem none [ .mk 4 .parameter (some (wholeRef "p.json" ["p.json"])) [] ])] }
    store :=
      [ (fileUrl ["r", "b", "d.json"], leafFile),
        (fileUrl ["r", "a", "p.json"], leafFile),
        (fileUrl ["r", "b", "p.json"], leafFile) ] }

/-- Regression for the repaired sub-case (b) (fixed by f972c33): after the failed typed drill the REFERENCED document
is read again, the fragment is not found there, the load fails; /r/b/p.json is not read, no foreign base, model = spec. -/
theorem raw_fallback_regression :
    (load x2 16).1.log = [fileUrl ["r", "a", "root.json"], fileUrl ["r", "b", "d.json"], fileUrl ["r", "b", "d.json"]] ∧
    (load x2 16).2 = false ∧ ¬ ForeignBase x2 16 ∧ specB x2 (load x2 16).1.log = true := by
  decide

/-- 9b25d89: a path item whose target is itself a `$ref` path item: root /x → "b/d.json#/paths/~1x",
    d.json /x → "../c/e.json#/paths/~1y", e.json /y has parameter "p.json" — read as /r/a/c/p.json, all bases aligned. -/
def x4 : Input :=
  { allowed := true, entry := .file, rootLoc := some (fileUrl ["r", "a", "root.json"]), rootInStore := true
    rootFile :=
      { parses := true, elems := [], raw := [], typed := []
        tops := [ .mk 1 .pathItem (some (fragRef "b/d.json#/paths/~1x" ["b", "d.json"] "/paths/~1x")) [] ] }
    store :=
      [ (fileUrl ["r", "a", "b", "d.json"],
          { parses := true, elems := [], raw := []
            tops := [ .mk 1 .pathItem (some (fragRef "../c/e.json#/paths/~1y" ["..", "c", "e.json"] "/paths/~1y")) [] ]
            typed := [("/paths/~1x", .mk 1 .pathItem (some (fragRef "../c/e.json#/paths/~1y" ["..", "c", "e.json"] "/paths/~1y")) [])] }),
        (fileUrl ["r", "a", "c", "e.json"],
          { parses := true, elems := [], raw := []
            tops := [ .mk 1 .pathItem none [ .mk 2 .parameter (some (wholeRef "p.json" ["p.json"])) [] ] ]
            typed := [("/paths/~1y", .mk 1 .pathItem none [ .mk 2 .parameter (some (wholeRef "p.json" ["p.json"])) [] ])] }),
        (fileUrl ["r", "a", "c", "p.json"], leafFile) ] }

example : ¬ ForeignBase x4 16 ∧
    (load x4 16).1.log = [fileUrl ["r", "a", "root.json"], fileUrl ["r", "a", "b", "d.json"],
                          fileUrl ["r", "a", "c", "e.json"], fileUrl ["r", "a", "c", "p.json"]] ∧
    (load x4 16).2 = true := by decide

/-- a multi-file load with the switch on: chain root → /r/b/d.json#/components/schemas/A → "s.json" (whole file,
    resolved against /r/b/), all bases aligned -/
def x1 : Input :=
  { allowed := true, entry := .file, rootLoc := some (fileUrl ["r", "a", "root.json"]), rootInStore := true
    rootFile :=
      { parses := true, elems := [], raw := [], typed := []
        tops := [ .mk 1 .schema (some (fragRef "../b/d.json#/components/schemas/A" ["..", "b", "d.json"] "/components/schemas/A")) [] ] }
    store :=
      [ (fileUrl ["r", "b", "d.json"],
          { parses := true, elems := [], raw := []
            tops := [ .mk 1 .schema none [ .mk 2 .schema (some (wholeRef "s.json" ["s.json"])) [] ] ]
            typed := [("/components/schemas/A", .mk 1 .schema none [ .mk 2 .schema (some (wholeRef "s.json" ["s.json"])) [] ])] }),
        (fileUrl ["r", "b", "s.json"], leafFile) ] }

/-- non-vacuity of the partial theorem: a non-trivial input outside the exclusion, three reads -/
example : ¬ ForeignBase x1 16 ∧
    (load x1 16).1.log = [fileUrl ["r", "a", "root.json"], fileUrl ["r", "b", "d.json"], fileUrl ["r", "b", "s.json"]] ∧
    (load x1 16).2 = true := by decide

/-- non-vacuity of the switch-off theorem: the same documents with the switch off — one read, then the error -/
example : (load { x1 with allowed := false } 16).1.log = [fileUrl ["r", "a", "root.json"]] ∧
    (load { x1 with allowed := false } 16).2 = false := by decide

/-- the raw re-read of the current document (dangling '#'-reference) with the switch off: the root is read twice -/
example : (load { x1 with allowed := false, rootFile := { x1.rootFile with tops := [ .mk 1 .schema (some (hashRef "/components/schemas/Nope")) [] ] } } 16).1.log
    = [fileUrl ["r", "a", "root.json"], fileUrl ["r", "a", "root.json"]] := by decide

/-- non-vacuity: an absolute location read twice reaches the wrapped reader once, a relative file path every time -/
example : cacheFilter x1 [] [fileUrl ["r", "a", "root.json"], fileUrl ["r", "a", "root.json"], ⟨"", "", false, ["rel.json"]⟩, ⟨"", "", false, ["rel.json"]⟩]
    = [fileUrl ["r", "a", "root.json"], ⟨"", "", false, ["rel.json"]⟩, ⟨"", "", false, ["rel.json"]⟩] := by decide

/-- a single-directory universe: root → "d.json#/components/schemas/A" → "s.json", all in /r/a/ -/
def x5 : Input :=
  { allowed := true, entry := .file, rootLoc := some (fileUrl ["r", "a", "root.json"]), rootInStore := true
    rootFile :=
      { parses := true, elems := [], raw := [], typed := []
        tops := [ .mk 1 .schema (some (fragRef "d.json#/components/schemas/A" ["d.json"] "/components/schemas/A")) [] ] }
    store :=
      [ (fileUrl ["r", "a", "d.json"],
          { parses := true, elems := [], raw := []
            tops := [ .mk 1 .schema none [ .mk 2 .schema (some (wholeRef "s.json" ["s.json"])) [] ] ]
            typed := [("/components/schemas/A", .mk 1 .schema none [ .mk 2 .schema (some (wholeRef "s.json" ["s.json"])) [] ])] }),
        (fileUrl ["r", "a", "s.json"], leafFile) ] }

/-- non-vacuity of the uniform theorems: a three-file universe in one directory is uniform (three reads); the
    witnesses of F-C11-1 are not uniform -/
example : Uniform x5 ∧ (load x5 16).1.log.length = 3 ∧ ¬ Uniform x0 ∧ ¬ Uniform x6 := by decide

/-- a history: `LoadFromFile` of x5's root with the switch off (fails after the read), then `LoadFromData` of a document
    with a dangling '#'-reference: the second load reads NOTHING (the raw re-read has no location to read; it must not
    fall back to the first load's file), then the first file again with the switch on: since c555d93 the document
    cached by the failed first load is not returned — the load reads all three files, as on a fresh loader -/
def h1 : List Input :=
  [ { x5 with allowed := false, store := (fileUrl ["r", "a", "root.json"], x5.rootFile) :: x5.store },
    { x5 with allowed := false, entry := .data, store := (fileUrl ["r", "a", "root.json"], x5.rootFile) :: x5.store
              rootFile := { x5.rootFile with tops := [ .mk 1 .schema (some (hashRef "/components/schemas/Nope")) [] ] } },
    { x5 with allowed := true, store := (fileUrl ["r", "a", "root.json"], x5.rootFile) :: x5.store } ]

example : (history h1 16).map (fun e => (e.st.log, e.ok)) =
    [ ([fileUrl ["r", "a", "root.json"]], false), ([], false),
      ([fileUrl ["r", "a", "root.json"], fileUrl ["r", "a", "d.json"], fileUrl ["r", "a", "s.json"]], true) ] := by decide

/-- path algebra: "../b/p.json" against /r/a/root.json -/
example : resolvePath (some (fileUrl ["r", "a", "root.json"])) ⟨"", "", false, ["..", "b", "p.json"]⟩
    = fileUrl ["r", "b", "p.json"] := by decide

/-- a scheme-relative reference with the root's own path is another location -/
example : resolvePath (some (fileUrl ["r", "a", "root.json"])) ⟨"", "h.example", true, ["r", "a", "root.json"]⟩
    ≠ fileUrl ["r", "a", "root.json"] := by decide

/-! ### the call-site table regenerated from openapi3/loader.go (tie T) -/

open KinModel.Gen in
/-- every shape the extractor met was understood -/
theorem readsites_recognised : ∀ r ∈ readSites, r.callee ≠ "unrecognised" := by decide

open KinModel.Gen in
/-- The reader is reached only (1) from `loadFromURIInternal` with its own parameter, (2) from
`loadSingleElementFromURI` after the unconditional top-level guard, with the location resolved from the
reference, (3) from `resolveComponent` re-reading `componentPath` (see `component_path_origin`); the overridable
reader and the default reader are called from `readURL` only. -/
theorem every_nonroot_read_guarded : ∀ r ∈ readSites,
    (r.callee = "readURL" →
      (r.fn = "loadFromURIInternal" ∧ r.arg = "location" ∧ r.argIsParam = true) ∨
      (r.fn = "loadSingleElementFromURI" ∧ r.guard = "allowsExternalRefs" ∧ r.arg = "resolvedPath") ∨
      (r.fn = "resolveComponent" ∧ r.arg = "componentPath")) ∧
    ((r.callee = "ReadFromURIFunc" ∨ r.callee = "DefaultReadFromURI") → r.fn = "readURL") := by decide

open KinModel.Gen in
/-- `loadFromURIInternal` is entered from the root entry point, or from `resolveRefAndDocument` after the
'#'-prefix return and after `resolveRef`, with the location `resolveRef` returned; `resolveRef` obtains it from
`resolveRefPath`, whose guard is unconditional at top level after the '#'-prefix return. -/
theorem document_loads_guarded : ∀ r ∈ readSites,
    (r.callee = "loadFromURIInternal" →
      (r.fn = "LoadFromURI" ∧ r.argIsParam = true) ∨
      (r.fn = "resolveRefAndDocument" ∧ r.guard = "hash-return;resolveRef" ∧ r.arg = "resolvedPath")) ∧
    (r.callee = "resolveRefPath" ∧ r.fn = "resolveRef" → r.guard = "" ∧ r.arg = "path" ∧ r.argIsParam = true) ∧
    (r.callee = "resolveRef" →
      r.fn = "resolveRefAndDocument" ∧ r.guard = "hash-return" ∧ r.arg = "path" ∧ r.argIsParam = true ∧ r.lhs = "resolvedPath") ∧
    (r.callee = "resolvePathWithRef" →
      (r.fn = "loadSingleElementFromURI" ∧ r.guard = "allowsExternalRefs" ∧ r.arg = "rootPath" ∧ r.argIsParam = true ∧ r.lhs = "resolvedPath") ∨
      (r.fn = "resolveRefPath" ∧ r.guard = "hash-return;allowsExternalRefs" ∧ r.arg = "path" ∧ r.lhs = "resolvedPath")) ∧
    (r.callee = "allowsExternalRefs" →
      (r.fn = "loadSingleElementFromURI" ∧ r.guard = "") ∨ (r.fn = "resolveRefPath" ∧ r.guard = "hash-return")) := by
  decide

open KinModel.Gen in
/-- The location `resolveComponent` reads again is its `componentPath`, assigned exactly once, by the call of
`resolveRefAndDocument(doc, ref, path)` with the function's own unassigned parameter `path`; and
`resolveRefAndDocument` returns as location either that parameter (inside the '#'-prefix block), `nil` next to an
error, or `resolvedPath`, assigned once by `resolveRef` behind the '#'-prefix return — the location it has just passed
to `loadFromURIInternal` (`document_loads_guarded`).  So the re-read is a second read of the caller's `documentPath`
or of the document loaded a moment ago: the model's `drill`. -/
theorem component_path_origin : ∀ r ∈ readSites,
    (r.fn = "resolveComponent" ∧ r.callee = "readURL" → r.arg = "componentPath" ∧ r.argAssigns = 1) ∧
    (r.fn = "resolveComponent" ∧ r.callee = "resolveRefAndDocument" →
      r.lhs = "componentPath" ∧ r.arg = "path" ∧ r.argIsParam = true ∧ r.guard = "") ∧
    (r.fn = "resolveRefAndDocument" ∧ r.callee = "return" →
      (r.guard = "in-hash-return" ∧ r.arg = "path" ∧ r.argIsParam = true) ∨ (r.guard = "in-err" ∧ r.arg = "nil") ∨
      (r.guard = "hash-return;resolveRef" ∧ r.arg = "resolvedPath" ∧ r.argAssigns = 1)) := by decide

open KinModel.Gen in
/-- The other functions that hand a location back return `nil` next to an error, or the one location they computed
behind their guards (`resolveRefPath` inside its '#'-prefix block: a copy of the caller's path, used for `RefPath`
only — `resolveRef` is called behind the '#'-prefix return of `resolveRefAndDocument`). -/
theorem returned_locations : ∀ r ∈ readSites,
    (r.fn = "resolveRef" ∧ r.callee = "return" →
      (r.guard = "in-err" ∧ r.arg = "nil") ∨ (r.guard = "" ∧ r.arg = "resolvedPathRef" ∧ r.argAssigns = 1)) ∧
    (r.fn = "resolveRefPath" ∧ r.callee = "return" →
      r.guard = "in-hash-return" ∨ (r.guard = "in-err" ∧ r.arg = "nil") ∨
      (r.guard = "hash-return;allowsExternalRefs" ∧ r.arg = "resolvedPath" ∧ r.argAssigns = 1)) ∧
    (r.fn = "loadSingleElementFromURI" ∧ r.callee = "return" →
      r.arg = "nil" ∨ (r.guard = "allowsExternalRefs" ∧ r.arg = "resolvedPath" ∧ r.argAssigns = 1)) := by decide

open KinModel.Gen in
/-- the guards exist: both guarded functions call `allowsExternalRefs` -/
theorem guards_present :
    (∃ r ∈ readSites, r.callee = "allowsExternalRefs" ∧ r.fn = "loadSingleElementFromURI") ∧
    (∃ r ∈ readSites, r.callee = "allowsExternalRefs" ∧ r.fn = "resolveRefPath") := by decide

def kindOfResolver (fn : String) : Option Kind :=
  if fn = "resolveHeaderRef" then some .header else if fn = "resolveParameterRef" then some .parameter
  else if fn = "resolveRequestBodyRef" then some .requestBody else if fn = "resolveResponseRef" then some .response
  else if fn = "resolveSchemaRef" then some .schema else if fn = "resolveSecuritySchemeRef" then some .securityScheme
  else if fn = "resolveExampleRef" then some .example else if fn = "resolveCallbackRef" then some .callback
  else if fn = "resolveLinkRef" then some .link else if fn = "resolvePathItemRef" then some .pathItem else none

open KinModel.Gen in
/-- The ten resolvers call `loadSingleElementFromURI(ref, documentPath, …)` and `resolveComponent(doc, ref,
documentPath, …)` with their own `documentPath`, and ALL TEN assign the location returned by
`loadSingleElementFromURI` to `documentPath` (since 0a3c233; the model's whole-file branch does so for every kind);
only the path-item resolver re-assigns `documentPath` from `resolveComponent`. -/
theorem resolver_sites_agree_with_model : ∀ r ∈ readSites,
    (r.callee = "loadSingleElementFromURI" →
      r.arg = "documentPath" ∧ r.lhs = "documentPath" ∧ (kindOfResolver r.fn).isSome = true) ∧
    (r.callee = "resolveComponent" → r.arg = "documentPath" ∧ (kindOfResolver r.fn).isSome = true ∧
      (r.lhs = "componentPath" ∨ (r.fn = "resolvePathItemRef" ∧ r.lhs = "documentPath"))) := by decide

open KinModel.Gen in
/-- file and network primitives are used by the default readers only (loader_uri_reader.go) -/
theorem read_primitives_confined : ∀ r ∈ readSites,
    (r.callee = "os.ReadFile" ∨ r.callee = "os.Open" ∨ r.callee = "os.OpenFile" ∨ r.callee = "ioutil.ReadFile" ∨
      r.callee = "http.Get" ∨ r.callee = "http.Post") → r.fn = "ReadFromFile" := by decide

open KinModel.Gen in
/-- each of the ten resolvers has exactly one whole-file site and one fragment site -/
theorem resolver_sites_complete :
    (readSites.filter (fun r => r.callee == "loadSingleElementFromURI")).length = 10 ∧
    (readSites.filter (fun r => r.callee == "resolveComponent")).length = 10 ∧
    (readSites.filter (fun r => r.callee == "readURL")).length = 3 := by decide

/-! ### what a load leaves behind in the `Loader` (table LoaderState, tie T for histories) -/

open KinModel.Gen in
/-- `rootLocation` and `rootDir` are assigned (by the first located document of a load, by `LoadFromFile`) and NEVER
read: an earlier load's location cannot influence a later one through them.  `visitedDocuments` is touched by
`loadFromDataWithPathInternal` and reset (`= nil`) by `resetVisitedPathItemRefs` (c555d93); the in-progress set, its
callbacks and the path are touched by `resetVisitedPathItemRefs`, `visitRef`, `unvisitRef`, `shouldVisitRef` only. -/
theorem loader_state_as_modelled : ∀ r ∈ loaderState,
    (r.field = "rootLocation" → r.fn = "loadFromDataWithPathInternal" ∧ r.access = "assign" ∧ r.detail = "location.Path") ∧
    (r.field = "rootDir" → r.fn = "LoadFromFile" ∧ r.access = "assign") ∧
    (r.field = "visitedDocuments" → r.fn = "loadFromDataWithPathInternal" ∨
      (r.fn = "resetVisitedPathItemRefs" ∧ r.access = "assign" ∧ r.detail = "nil")) ∧
    (r.field = "visitedRefs" ∨ r.field = "backtrack" ∨ r.field = "visitedPath" →
      r.fn = "resetVisitedPathItemRefs" ∨ r.fn = "visitRef" ∨ r.fn = "unvisitRef" ∨ r.fn = "shouldVisitRef") ∧
    (r.field = "visitedPathItemRefs" → r.fn = "resetVisitedPathItemRefs" ∨ (r.fn = "ResolveRefsIn" ∧ r.access = "read")) := by decide

open KinModel.Gen in
/-- every load entry point calls `resetVisitedPathItemRefs`, which resets ALL the state a load builds up — the
in-progress set, the callbacks, the path and the documents cache: the model's `carry` is `St.init` -/
theorem loader_state_resets :
    (∀ f ∈ ["LoadFromURI", "LoadFromData", "LoadFromDataWithPath"],
      ∃ r ∈ loaderState, r.fn = f ∧ r.field = "resetVisitedPathItemRefs" ∧ r.access = "call") ∧
    (∀ fld ∈ ["visitedRefs", "backtrack", "visitedPath", "visitedPathItemRefs", "visitedDocuments"],
      ∃ r ∈ loaderState, r.fn = "resetVisitedPathItemRefs" ∧ r.field = fld ∧ r.access = "assign") ∧
    (∀ r ∈ loaderState, r.fn = "resetVisitedPathItemRefs" → r.access = "assign") := by decide

/-! ### the walked positions and their order, regenerated from openapi3/loader.go (tie T) -/

open KinModel.Gen in
theorem walksites_recognised : ∀ r ∈ walkSites, r.callee ≠ "unrecognised" := by decide

open KinModel.Gen in
/-- The positions `ResolveRefsIn`, the ten resolvers and the two shared walkers visit, in source order, are exactly
the ones the harness encodes as the order of a node's `kids` (`expectedWalk` in KinModel/Reads.lean, mirrored by
c11ChildKind / c11OrderKey in go/cmd/harness/c11.go).  A new, removed or re-ordered position in the source breaks this
obligation (that is how cbb0d05 shows up statically). -/
theorem walk_sites_as_modelled :
    walkSites.map (fun r => (r.fn, r.callee, r.arg, r.loops)) = expectedWalk := by decide

open KinModel.Gen in
/-- Every sub-element is resolved with the resolver's current `documentPath` (`location` in `ResolveRefsIn`) — the
model's `walk … cx` — and the only calls with another location are the recursive calls on the copy `&resolved`,
which pass `componentPath` (for a path item the re-assigned `documentPath`) — the model's `⟨cdoc, cpath⟩` — and the
call on the path item `&p` just loaded from a file that is itself a reference, with the file's location. -/
theorem walk_location_args : ∀ r ∈ walkSites,
    (r.arg ≠ "&resolved" → r.locArg = (if r.fn = "ResolveRefsIn" then "location" else "documentPath")) ∧
    (r.arg = "&resolved" → r.callee = r.fn ∧
      r.locArg = (if r.fn = "resolvePathItemRef" then "documentPath" else "componentPath")) ∧
    (r.arg = "&p" → r.callee = r.fn ∧ r.fn = "resolvePathItemRef") := by decide

/-! ### The library's own readers (openapi3/loader_uri_reader.go): the medium touched is the location handed over -/

theorem faithfulB_iff (m : Medium) (l : RLoc) : faithfulB m l = true ↔ Faithful m l := by
  cases m <;> simp [faithfulB, Faithful, and_assoc]

/-- ReadFromHTTP alone: it fetches only the location itself, and only one that names a scheme and a host. -/
theorem http_reader_reads_the_location (l : RLoc) : ∀ m, readFromHTTP l = some m → Faithful m l := by
  intro m h
  unfold readFromHTTP at h
  split at h
  · cases h
  · rename_i hn
    cases h
    simp only [not_or] at hn
    exact ⟨rfl, hn.1, hn.2⟩

/-- ReadFromFile alone: a local file is read only for a host-less location without scheme or with `file:`, and it is
the file at the location's path (a scheme-relative `//host/path` is NOT the local file `/path`). -/
theorem file_reader_reads_the_location (l : RLoc) : ∀ m, readFromFile l = some m → Faithful m l := by
  intro m h
  unfold readFromFile at h
  split at h
  · rename_i hf
    cases h
    simp [isFile] at hf
    exact ⟨hf.1.2, hf.2, rfl, hf.1.1⟩
  · cases h

/-- Every chain of the library's readers, in any order and of any length (`ReadFromURIs(...)`), reads the location it
is handed or nothing. -/
theorem reader_chain_reads_the_location (rs : List (RLoc → Option Medium)) (l : RLoc)
    (hrs : ∀ r ∈ rs, r = readFromHTTP ∨ r = readFromFile) : Faithful (readFromURIs rs l) l := by
  induction rs with
  | nil => simp [readFromURIs, Faithful]
  | cons r rest ih =>
    unfold readFromURIs
    cases hr : r l with
    | none => exact ih (fun r' h' => hrs r' (List.mem_cons_of_mem _ h'))
    | some m =>
      rcases hrs r (List.mem_cons_self) with h | h
      · subst h; exact http_reader_reads_the_location l m hr
      · subst h; exact file_reader_reads_the_location l m hr

/-- DefaultReadFromURI (below its cache): full strength, every location. -/
theorem default_reader_reads_the_location (l : RLoc) : Faithful (defaultRead l) l :=
  reader_chain_reads_the_location _ l (by simp)

/-- A location that names a host is never served from the local file system. -/
theorem host_location_never_local (l : RLoc) (h : l.host ≠ "") : ∀ p, defaultRead l ≠ .file p := by
  intro p hp
  have := default_reader_reads_the_location l
  rw [hp] at this
  exact h this.1

/-- non-vacuity: the scheme-relative location `//h.example/etc/passwd` is unsupported, `/etc/x.json` is the local file -/
example : defaultRead ⟨"", "h.example", "/etc/passwd"⟩ = .unsupported ∧ defaultRead ⟨"", "", "/etc/x.json"⟩ = .file "/etc/x.json" ∧
    defaultRead ⟨"https", "h.example", "/x"⟩ = .http ⟨"https", "h.example", "/x"⟩ := by decide

open KinModel.Gen in
theorem reader_guards_recognised : ∀ r ∈ readerGuards, gRecognised r.exp = true := by decide

open KinModel.Gen in
/-- The conditions of openapi3/loader_uri_reader.go, regenerated as expression trees and EVALUATED on an arbitrary
location, are the model's: `is_file` is `isFile`, ReadFromHTTP declines exactly when the model's does, ReadFromFile
declines exactly when `is_file` is false. (A regrouped, weakened or extended condition changes the value on some
location and breaks this obligation.) -/
theorem reader_guards_as_modelled (l : RLoc) :
    tableIsFile l = some (isFile l) ∧
    tableDeclines "ReadFromHTTP" l = some (readFromHTTP l).isNone ∧
    tableDeclines "ReadFromFile" l = some (readFromFile l).isNone := by
  have h1 : guardRows "is_file" "return" =
      [⟨"is_file", "return", .and (.and (.ne "Path" "") (.eq "Host" "")) (.or (.eq "Scheme" "") (.eq "Scheme" "file")), ""⟩] := by decide
  have h2 : guardRows "ReadFromHTTP" "decline-if" =
      [⟨"ReadFromHTTP", "decline-if", .or (.eq "Scheme" "") (.eq "Host" ""), ""⟩] := by decide
  have h3 : guardRows "ReadFromFile" "decline-if" =
      [⟨"ReadFromFile", "decline-if", .not (.call "is_file"), ""⟩] := by decide
  have hf : tableIsFile l = some (isFile l) := by
    simp [tableIsFile, h1, evalG, fieldOf, isFile]
  refine ⟨hf, ?_, ?_⟩
  · simp only [tableDeclines, h2, List.foldl, evalG, fieldOf]
    simp [readFromHTTP]
    by_cases a : l.scheme = "" <;> by_cases b : l.host = "" <;> simp [a, b]
  · simp only [tableDeclines, h3, List.foldl, evalG]
    simp [hf, readFromFile]
    cases isFile l <;> simp

open KinModel.Gen in
/-- What each reader touches once it does not decline: ReadFromHTTP requests `location.String()` (the location itself),
ReadFromFile reads `location.Path`, and the default reader is the chain [ReadFromHTTP, ReadFromFile] behind the cache —
the model's `defaultRead`. -/
theorem reader_media_as_modelled :
    readerGuards.filterMap (fun r => if r.role = "fetches" ∨ r.role = "reads" ∨ r.role = "compose" then some (r.fn, r.role, r.text) else none) =
      [("DefaultReadFromURI", "compose", "URIMapCache(ReadFromURIs(ReadFromHTTP(http.DefaultClient), ReadFromFile))"),
       ("ReadFromHTTP", "fetches", "\"GET\" location.String()"),
       ("ReadFromFile", "reads", "filepath.FromSlash(location.Path)")] := by decide

open KinModel.Gen in
/-- How the entry points build the root location (the model's `Input.root`): `LoadFromFile` hands `LoadFromURI` a
`url.URL` whose ONLY field is `Path`, the file path as given (never parsed as a URL reference: a '#', '?' or '%XX' in a
directory or file name stays part of the path); `LoadFromURI` / `LoadFromDataWithPath` pass their own, never re-assigned
`location` parameter on to `loadFromDataWithPathInternal`, which passes it to `ResolveRefsIn`; `LoadFromData` (and through it
`LoadFromIoReader` / `LoadFromStdin`) resolves with no location. All unconditional, at top level. -/
theorem entry_points_root_location : ∀ r ∈ readSites,
    (r.callee = "LoadFromURI" → r.fn = "LoadFromFile" ∧ r.guard = "" ∧ r.arg = "&url.URL{Path: filepath.ToSlash(location)}") ∧
    (r.callee = "loadFromDataWithPathInternal" →
      (r.fn = "loadFromURIInternal" ∨ r.fn = "LoadFromDataWithPath") ∧ r.guard = "" ∧ r.arg = "location" ∧ r.argIsParam = true ∧ r.argAssigns = 0) ∧
    (r.callee = "ResolveRefsIn" → r.guard = "" ∧
      ((r.fn = "LoadFromData" ∧ r.arg = "nil") ∨
       (r.fn = "loadFromDataWithPathInternal" ∧ r.arg = "location" ∧ r.argIsParam = true ∧ r.argAssigns = 0))) ∧
    (r.callee = "loadFromURIInternal" ∧ r.fn = "LoadFromURI" → r.arg = "location" ∧ r.argAssigns = 0) := by decide

open KinModel.Gen in
theorem entry_points_present :
    (readSites.filter (fun r => r.callee == "LoadFromURI")).length = 1 ∧
    (readSites.filter (fun r => r.callee == "loadFromDataWithPathInternal")).length = 2 ∧
    (readSites.filter (fun r => r.callee == "ResolveRefsIn")).length = 2 := by decide

/-! ### loader and default reader together -/

/-- Whatever the load (either switch setting, any fuel): every medium the default reader touches is faithful to a
location of the load's read log — so the theorems about the log are theorems about the files and URLs touched. -/
theorem media_are_logged_locations (inp : Input) (fuel : Nat) :
    ∀ m ∈ mediaOf (load inp fuel).1.log, ∃ u ∈ (load inp fuel).1.log, m = defaultRead u.toRLoc ∧ Faithful m u.toRLoc := by
  intro m hm
  obtain ⟨u, hu, rfl⟩ := List.mem_map.mp hm
  exact ⟨u, hu, rfl, default_reader_reads_the_location _⟩

/-- First sentence down to the medium: with the switch off, with the library's default reader, the only file or URL
touched is the root document's own (and it is touched faithfully: a root that names a host is never a local file). -/
theorem switch_off_default_reader_touches_root_only (inp : Input) (fuel : Nat) (hoff : inp.allowed = false) :
    ∀ m ∈ mediaOf (load inp fuel).1.log, ∃ r, inp.root = some r ∧ m = defaultRead r.toRLoc ∧ Faithful m r.toRLoc := by
  intro m hm
  obtain ⟨u, hu, hm', hf⟩ := media_are_logged_locations inp fuel m hm
  exact ⟨u, (switch_off_reads_root_only inp fuel hoff u hu).symm, hm', hf⟩

/-- `LoadFromData` with the switch off: the default reader touches nothing. -/
theorem switch_off_data_touches_nothing (inp : Input) (fuel : Nat) (hoff : inp.allowed = false)
    (hd : inp.entry = Entry.data) : mediaOf (load inp fuel).1.log = [] := by
  simp [mediaOf, switch_off_data_reads_nothing inp fuel hoff hd]

open KinModel.Gen in
/-- The Loader has exactly the fields the model knows: two exported switches, the context, and the private state of
`loader_state_as_modelled`. A new field — state kept between calls, or a private copy of a switch — breaks this. -/
theorem loader_fields_as_modelled :
    (loaderState.filter (fun r => r.access == "field")).map (fun r => r.detail) =
      ["IsExternalRefsAllowed bool", "ReadFromURIFunc ReadFromURIFunc", "Context context.Context", "rootDir string",
       "rootLocation string", "visitedPathItemRefs map[string]struct{}", "visitedDocuments map[string]*T",
       "visitedRefs map[string]struct{}", "visitedPath []string", "backtrack map[string][]func(value any)"] := by decide

open KinModel.Gen in
/-- The switch is READ, at the moment of every guard call, by `allowsExternalRefs` and by nothing else (never assigned,
never copied into other state by the library): the model's guard uses the `allowed` of the current call, for every
entry point including a direct `ResolveRefsIn` on a used Loader. Likewise the overridable reader is read by `readURL` only. -/
theorem switch_read_by_guard_only :
    (∀ r ∈ loaderState, r.field = "IsExternalRefsAllowed" → r.fn = "allowsExternalRefs" ∧ r.access = "read") ∧
    (∃ r ∈ loaderState, r.field = "IsExternalRefsAllowed" ∧ r.fn = "allowsExternalRefs") ∧
    (∀ r ∈ loaderState, r.field = "ReadFromURIFunc" → r.fn = "readURL" ∧ r.access = "read") := by decide

end KinModel.Reads
