/-
C03 — marshalling then reloading a document loses and invents nothing.
Property theorems only. Model and spec: KinModel/Marshal.lean; helper lemmas: KinModel/Lemmas/C03.lean (flat),
C03Deep.lean (deep stability), C03Normal.lean (deep normal form); table: KinModel/Gen/Descriptors.lean
(regenerated from the repository under test on every run).

Objects are Go maps: two objects are "the same JSON" when every key looks up the same value, which is how
the flat theorems state equality (`∀ k, lookup k a = lookup k b`); the deep theorems use `JV.same` (same
members under the same keys with the same values at every depth) and, for stability, plain equality.

Full-strength goal (DESIGN §4):   ∀ d ∈ descriptors, d.agree        — and from it, for every kind,
  normal-form round trip (`flat_normal_roundtrip`), stability (`flat_stable`), nothing lost
  (`flat_keeps_field`, `flat_keeps_unknown`), nothing invented (`flat_nothing_invented`);
  over the whole document tree, by induction: `rt_stable_partial` (stability for every input) and
  `rt_normal_partial` (normal-form documents come back as the same JSON); only exclusion `JV.clean` =
  DateExampleTrim at any depth.
`all_kinds_agree` holds of the tree at full strength since the repairs 901ea22 (RequestBody.content /
OAuthFlow.scopes: a nil map is written as {}, former class RequiredMapAbsent) and 2f6387f (an empty type list
is omitted, former class EmptyTypeList); `requiredMap_fixed`, `emptyTypes_fixed` are the regression theorems
on the former witnesses. Open: DateExampleTrim (`dateTrim_witness`).
-/
import KinModel.Lemmas.C03Deep
import KinModel.Lemmas.C03Normal
import KinModel.Gen.Descriptors
import KinModel.MarshalRefBlock
import KinModel.Gen.C03RefWrites
namespace KinModel.Marshal
open KinModel.Gen

/-! ## generic theorems: one kind, any descriptor that agrees, any object -/

/-- Unknown fields and specification extensions survive with their value (every key that is not a tag of
    the kind), unless the object is a reference (`$ref` early return). -/
theorem flat_keeps_unknown (c : TC → Guard → Bool) (d : Desc) (o : Obj) (k : String)
    (h : structAgreeWith c d = true) (hr : refTaken d o = false) (hk : k ∉ tagKeys d) :
    lookup k (flatRT d o) = lookup k o := by
  have w := wf_of_agree c d h
  rw [flatRT_lookup d o k w.ext w.unm w.asg w.nodupM]
  have hm : k ∉ marshKeys d := by
    rw [w.keysEq]; unfold expectedMarshKeys; split
    · intro hc; exact hk (List.mem_filter.mp hc).1
    · exact hk
  have hd : k ∉ d.dels := by rw [w.dels]; exact hk
  rw [flatSpec_none d o k hr (find_none_of_not_mem k d.marsh hm)]
  simp [hd]

/-- Every field the kind defines survives with its value, unless the value is a redundant default or the
    object is a reference. -/
theorem flat_keeps_field (d : Desc) (o : Obj) (m : MField) (f : Field) (v : JV)
    (h : structAgreeWith compat d = true) (hr : refTaken d o = false)
    (hm : d.marsh.find? (fun m' => m'.key == m.key) = some m) (hf : fieldByGo d m.goName = some f)
    (hv : lookup f.key o = some v) (hd : isDefault f.tc v = false) :
    lookup m.key (flatRT d o) = some v := by
  have w := wf_of_agree compat d h
  rw [flatRT_lookup d o m.key w.ext w.unm w.asg w.nodupM, flatSpec_some d o m.key m hr hm]
  obtain ⟨f', hf', _, hc⟩ := w.marshOK m (List.mem_of_find?_eq_some hm)
  rw [hf] at hf'; cases hf'
  have hval : fldVal d o m.goName = v := by
    simp only [fldVal, hf, hv]; exact decode_of_not_default f.tc v hd
  have htc : tcOfGo d m.goName = f.tc := by simp [tcOfGo, hf]
  simp [hval, htc, compat_keeps f.tc m.guard v hc hd, written_of_not_default f.tc m.guard v hd]

/-- Nothing that was not in the input appears, except the fields the specification requires (written
    unconditionally). -/
theorem flat_nothing_invented (d : Desc) (o : Obj) (k : String) (v : JV)
    (h : structAgreeWith compat d = true) (hv : lookup k (flatRT d o) = some v) :
    (lookup k o).isSome = true ∨ k ∈ specRequired d.name := by
  have w := wf_of_agree compat d h
  rw [flatRT_lookup d o k w.ext w.unm w.asg w.nodupM] at hv
  cases hr : refTaken d o with
  | true =>
    rw [flatSpec_ref d o k hr] at hv
    by_cases e : k = "$ref"
    · subst e
      left
      unfold refTaken at hr
      simp only [Bool.and_eq_true, Bool.not_eq_true'] at hr
      obtain ⟨f, hf, hk, htc⟩ := w.refField hr.1
      have := hr.2
      simp only [fldVal, hf, hk, htc] at this
      cases hl : lookup "$ref" o with
      | none => simp [hl, decode, zero, JV.isEmptyStr] at this
      | some x => rfl
    · simp [e] at hv
  | false =>
    cases hfind : d.marsh.find? (fun m => m.key == k) with
    | none =>
      rw [flatSpec_none d o k hr hfind] at hv
      by_cases hc : k ∈ d.dels
      · simp [hc] at hv
      · simp only [hc, if_false] at hv; left; simp [hv]
    | some m =>
      rw [flatSpec_some d o k m hr hfind] at hv
      have hkm : m.key = k := by simpa using List.find?_some hfind
      obtain ⟨f, hf, hfk, hc⟩ := w.marshOK m (List.mem_of_find?_eq_some hfind)
      have htc : tcOfGo d m.goName = f.tc := by simp [tcOfGo, hf]
      by_cases hg : guard (tcOfGo d m.goName) m.guard (fldVal d o m.goName) = true
      · cases hl : lookup k o with
        | some x => left; rfl
        | none =>
          right
          have hz : fldVal d o m.goName = zero f.tc := by
            simp [fldVal, hf, hfk, hkm, hl, decode]
          rw [hz, htc] at hg
          have := compat_zero f.tc m.guard hc hg
          rw [← w.required]
          simp only [alwaysKeys, List.mem_map, List.mem_filter]
          exact ⟨m, ⟨List.mem_of_find?_eq_some hfind, this⟩, hkm⟩
      · have hg' : guard (tcOfGo d m.goName) m.guard (fldVal d o m.goName) = false := by simpa using hg
        rw [hg'] at hv
        by_cases hc' : k ∈ d.dels
        · simp [hc'] at hv
        · left; simp [hc'] at hv; rw [hv]; rfl

/-- Stability: serialising, parsing and serialising again gives the same JSON (strict agreement). -/
theorem flat_stable (d : Desc) (o : Obj) (k : String) (h : structAgreeWith compat d = true) :
    lookup k (flatRT d (flatRT d o)) = lookup k (flatRT d o) := by
  have w := wf_of_agree compat d h
  have L : ∀ o' k', lookup k' (flatRT d o') = flatSpec d o' k' :=
    fun o' k' => flatRT_lookup d o' k' w.ext w.unm w.asg w.nodupM
  rw [L (flatRT d o) k, L o k]
  cases hr : refTaken d o with
  | true =>
    -- a reference stays the same reference
    have hre : d.refEarly = true := by
      unfold refTaken at hr; simp only [Bool.and_eq_true] at hr; exact hr.1
    obtain ⟨f, hf, hk, htc⟩ := w.refField hre
    have hR : (fldVal d o "Ref").isEmptyStr = false := by
      unfold refTaken at hr; simpa [hre] using hr
    have hRnn : decode .str (some (fldVal d o "Ref")) = fldVal d o "Ref" := by
      simp only [fldVal, hf, hk, htc]
      cases hl : lookup "$ref" o with
      | none => rfl
      | some x => cases x <;> rfl
    have h1 : fldVal d (flatRT d o) "Ref" = fldVal d o "Ref" := by
      have : lookup "$ref" (flatRT d o) = some (fldVal d o "Ref") := by
        rw [L o "$ref", flatSpec_ref d o "$ref" hr]; simp
      simp only [fldVal, hf, hk, htc] at this hRnn ⊢
      rw [this]; exact hRnn
    have hr1 : refTaken d (flatRT d o) = true := by
      unfold refTaken; rw [h1]; simp [hre, hR]
    rw [flatSpec_ref d _ k hr1, flatSpec_ref d o k hr, h1]
  | false =>
    have hr1 : refTaken d (flatRT d o) = false := by
      unfold refTaken
      cases hre : d.refEarly with
      | false => rfl
      | true =>
        obtain ⟨f, hf, hk, htc⟩ := w.refField hre
        have hnm : "$ref" ∉ marshKeys d := by
          rw [w.keysEq]; unfold expectedMarshKeys; simp [hre]
        have hdel : "$ref" ∈ d.dels := by
          rw [w.dels]; have := w.refTag; rw [hre] at this; simpa using this.symm
        have : lookup "$ref" (flatRT d o) = none := by
          rw [L o "$ref", flatSpec_none d o "$ref" hr (find_none_of_not_mem "$ref" d.marsh hnm)]
          simp [hdel]
        simp [fldVal, hf, hk, htc, this, decode, zero, JV.isEmptyStr]
    cases hfind : d.marsh.find? (fun m => m.key == k) with
    | none =>
      rw [flatSpec_none d _ k hr1 hfind, flatSpec_none d o k hr hfind]
      by_cases hc : k ∈ d.dels
      · simp [hc]
      · simp only [hc, if_false]
        rw [L o k, flatSpec_none d o k hr hfind]; simp [hc]
    | some m =>
      rw [flatSpec_some d _ k m hr1 hfind, flatSpec_some d o k m hr hfind]
      have hmem := List.mem_of_find?_eq_some hfind
      have hkm : m.key = k := by simpa using List.find?_some hfind
      obtain ⟨f, hf, hfk, hc⟩ := w.marshOK m hmem
      have htc : tcOfGo d m.goName = f.tc := by simp [tcOfGo, hf]
      have hdel : k ∈ d.dels := hkm ▸ marsh_key_in_dels compat d w m hmem
      have e1 : fldVal d o m.goName = decode f.tc (lookup k o) := by simp [fldVal, hf, hfk, hkm]
      have e2 : fldVal d (flatRT d o) m.goName = decode f.tc (lookup k (flatRT d o)) := by
        simp [fldVal, hf, hfk, hkm]
      have h1 : lookup k (flatRT d o) =
          if guard f.tc m.guard (decode f.tc (lookup k o)) then some (written m.guard (decode f.tc (lookup k o))) else none := by
        rw [L o k, flatSpec_some d o k m hr hfind, htc, e1]; simp [hdel]
      rw [e2, e1, htc, h1]
      simp only [hdel, if_true]
      cases hg : guard f.tc m.guard (decode f.tc (lookup k o)) with
      | true =>
        simp only [if_true]
        obtain ⟨s1, s2, s3⟩ := compat_stable f.tc m.guard _ hc hg
        rw [s1, s2, s3]; simp
      | false =>
        have hz := compat_omitted f.tc m.guard _ hc hg
        simp [decode, hz]

/-- A normal-form object (no redundant default, required fields present, nothing next to `$ref`) comes
    back unchanged: every key looks up the same value after the trip, and no key is added. -/
theorem flat_normal_roundtrip (d : Desc) (o : Obj) (k : String)
    (h : structAgreeWith compat d = true) (hn : normalObjB d o = true) :
    lookup k (flatRT d o) = lookup k o :=
  flat_normal_lookup d o k (wf_of_agree compat d h) hn

/-! ## composition over nesting: first level -/

/-- a struct kind all of whose fields are plain JSON (no child kind, no post-processing) -/
def leafKind (d : Desc) : Bool :=
  d.template == .struct && d.fields.all (fun f => f.shape == .leaf) && d.post.isEmpty

/-- For a kind with plain fields the deep round trip `rt` (what the driver evaluates and the differential
    run compares with the real marshallers) is the flat round trip the generic theorems are about. -/
theorem rt_leafKind (T : List Desc) (n : Nat) (k : String) (d : Desc) (o : Obj)
    (hf : findDesc T k = some d) (hl : leafKind d = true) :
    rt T (n + 2) (.kind k) (.obj o) = .ok (.obj (flatRT d o)) := by
  simp only [leafKind, Bool.and_eq_true, beq_iff_eq, List.all_eq_true, List.isEmpty_iff] at hl
  obtain ⟨⟨ht, hs⟩, hp⟩ := hl
  have hpost : applyPost d o = o := by simp [applyPost, dateTrimHit, hp]
  have hshape : ∀ g, shapeOfGo d g = .leaf := by
    intro g
    unfold shapeOfGo
    cases hg : fieldByGo d g with
    | none => rfl
    | some f => exact hs f (List.mem_of_find?_eq_some hg)
  have hchild : marshalDeep (rt T (n + 1)) d (unmarshal d o) = .ok (marshal d (unmarshal d o)) := by
    apply marshalDeep_of_children_fixed
    intro m _ _
    rw [hshape]
    rfl
  show rtStep T (rt T (n + 1)) (.kind k) (.obj o) = _
  simp only [rtStep, stepKind, hf, ht, hpost, hchild, Res.wrap, flatRT]

/-- … hence for those kinds the deep round trip is stable: a second trip changes no key. -/
theorem rt_leafKind_stable (T : List Desc) (n : Nat) (k : String) (d : Desc) (o : Obj)
    (hf : findDesc T k = some d) (hl : leafKind d = true) (ha : structAgreeWith compat d = true) :
    ∃ o1 o2, rt T (n + 2) (.kind k) (.obj o) = .ok (.obj o1) ∧
             rt T (n + 2) (.kind k) (.obj o1) = .ok (.obj o2) ∧
             ∀ key, lookup key o2 = lookup key o1 :=
  ⟨flatRT d o, flatRT d (flatRT d o), rt_leafKind T n k d o hf hl, rt_leafKind T n k d _ hf hl,
   fun key => flat_stable d o key ha⟩

/-- the kinds of the table this covers -/
theorem leaf_kinds :
    (descriptors.filter leafKind).map (·.name) =
      ["openapi3.Contact", "openapi3.Example", "openapi3.ExternalDocs", "openapi3.License", "openapi3.XML"] := by
  decide

/-! ## the regenerated table -/

/-- the translator read every statement of every marshaller / unmarshaller -/
theorem no_unrecognised : ∀ d ∈ descriptors, d.unrecognised = [] := by decide

/-- tags = marshal keys = delete list, every write reads the field of its key under a guard that fits the
    field's type, the unconditional writes are exactly the fields the specification requires, extension copy /
    second decode / assignment back / delegation present, reference wrappers and map-like containers are
    instances of their template — for EVERY kind (full strength: no kind is excluded any more) -/
theorem all_kinds_agree : ∀ d ∈ descriptors, d.agree = true := by decide

/-- the pieces of the round trip that are modelled by hand (`Types`, `AdditionalProperties`, the generic
    `unmarshalStringMap(P)` / `deepCast` behind every named map type) are in the table, and their source is
    still the text the model (`rtTypes`, `stepAddProps`, `entryStep`, `nullFix`) was written from; every named
    map type's unmarshaller is an instance of `unmarshalStringMap(P)` -/
theorem hand_modelled_pieces_unchanged :
    (descriptors.filter (fun d => d.template == .special)).map (·.name) =
      ["openapi3.Types", "openapi3.AdditionalProperties", "openapi3.unmarshalStringMapP",
       "openapi3.unmarshalStringMap", "openapi3.deepCast"] ∧
    (∀ d ∈ descriptors, (d.template = .namedMap ∨ d.template = .special) → d.uniform = true) := by decide

/-- a named-map shape met in a field, directly or as the element of a list -/
def namedMapShapeOf : Shape → Option Shape
  | .pmap s => some (.pmap s)
  | .list (.pmap s) => some (.pmap s)
  | _ => none

/-- every field whose shape is a named map is the shape of a named map type of the table -/
theorem named_map_fields_in_table :
    ∀ d ∈ descriptors, ∀ f ∈ d.fields, ∀ s, namedMapShapeOf f.shape = some s →
      descriptors.any (fun r => r.template == .namedMap && r.valueShape == s) = true := by decide

/-- kind names are unique, so that `findDesc` finds the row of the kind -/
theorem kind_names_distinct : (descriptors.map (·.name)).Nodup := by decide

/-- the nine v3 wrappers and the v2 one are in the table and follow the template -/
theorem ref_wrappers_uniform :
    (descriptors.filter (fun d => d.template == .ref)).length = 10 ∧
    ∀ d ∈ descriptors, d.template = .ref → d.uniform = true := by decide

/-! ## composition over nesting: the whole document tree -/

/-- the side conditions of the deep induction hold of every row of the regenerated table: struct kinds agree,
    every child shape fits the Go type class of its field, the date post-processing reads plain fields, no
    wrapper / alias / container stands for (a map of) bare type lists -/
theorem table_deepOK : ∀ d ∈ descriptors, d.deepOK = true := by decide

/- Full-strength statement (fails on this tree: open finding F-C03-1, `dateTrim_witness`):
     rt_stable : rt descriptors n s v = .ok v1 → rt descriptors n s v1 = .ok v1 -/

/-- Deep stability for any table that satisfies the side conditions — every shape (struct kinds, reference
    wrappers, map-like containers, named maps, lists, `Types`, `AdditionalProperties`), any nesting depth, any
    input (redundant defaults, nulls, unknown keys, extensions, siblings of `$ref` included): what the first trip
    (parse, serialise) writes is a fixed point — parsing and serialising it again gives exactly the same JSON.
    The only exclusion is `JV.clean`: no object of the input is changed by the date-trimming statement (class
    DateExampleTrim — open finding F-C03-1 — at every depth). Induction over the fuel with the invariant `Inv`
    (Lemmas/C03Deep.lean). -/
theorem rt_stable_of_table (T : List Desc) (hT : ∀ d ∈ T, d.deepOK = true) (n : Nat) (s : Shape) (v v1 : JV)
    (hc : v.clean = true) (h : rt T n s v = .ok v1) : rt T n s v1 = .ok v1 :=
  (rt_inv hT n).idem s v v1 hc h

/-- … and so for the table of this repository -/
theorem rt_stable_partial (n : Nat) (s : Shape) (v v1 : JV) (hc : v.clean = true)
    (h : rt descriptors n s v = .ok v1) : rt descriptors n s v1 = .ok v1 :=
  rt_stable_of_table descriptors table_deepOK n s v v1 hc h

/- Full-strength statement (fails on this tree: open finding F-C03-1, first part of `dateTrim_witness`):
     rt_normal : normalB descriptors n s v = true → ∃ v1, rt descriptors n s v = .ok v1 ∧ v.same v1 -/

/-- Deep normal-form round trip for any table that satisfies the side conditions: a document in deep normal
    form (no redundant default, no sibling next to `$ref`, no null entry, distinct keys, required fields
    present — at every object the shape grammar reaches, spec-side `normalB`) is parsed and serialised without
    panic or refusal, and what is written is the same JSON as the input: same members under the same keys with
    the same values at every depth, member order apart (`JV.same`). Exclusion: `JV.clean` (DateExampleTrim). -/
theorem rt_normal_of_table (T : List Desc) (hT : ∀ d ∈ T, d.deepOK = true) (n : Nat) (s : Shape) (v : JV)
    (hc : v.clean = true) (hn : normalB T n s v = true) : ∃ v1, rt T n s v = .ok v1 ∧ v.same v1 :=
  (rt_ninv hT n).ok s v hc hn

/-- … and so for the table of this repository -/
theorem rt_normal_partial (n : Nat) (s : Shape) (v : JV) (hc : v.clean = true)
    (hn : normalB descriptors n s v = true) : ∃ v1, rt descriptors n s v = .ok v1 ∧ v.same v1 :=
  rt_normal_of_table descriptors table_deepOK n s v hc hn

/-- both halves of the property for a normal-form document: the serialised JSON is the input, and parsing and
    serialising that output again gives exactly the same JSON -/
theorem rt_normal_and_stable_partial (n : Nat) (s : Shape) (v : JV) (hc : v.clean = true)
    (hn : normalB descriptors n s v = true) :
    ∃ v1, rt descriptors n s v = .ok v1 ∧ v.same v1 ∧ rt descriptors n s v1 = .ok v1 := by
  obtain ⟨v1, h1, h2⟩ := rt_normal_partial n s v hc hn
  exact ⟨v1, h1, h2, rt_stable_partial n s v v1 hc h1⟩

/-- `same` is not trivial: a changed value, a lost member and an invented member are all excluded -/
example : ¬ (JV.obj [("a", .num 1 0)]).same (.obj [("a", .num 2 0)]) ∧
    ¬ (JV.obj [("a", .num 1 0), ("b", .null)]).same (.obj [("a", .num 1 0)]) ∧
    ¬ (JV.obj [("a", .num 1 0)]).same (.obj [("a", .num 1 0), ("b", .null)]) ∧
    (JV.obj [("a", .num 1 0), ("b", .null)]).same (.obj [("b", .null), ("a", .num 1 0)]) := by
  refine ⟨?_, ?_, ?_, ?_⟩
  · simp [JV.same, sameO, lookup]
  · simp [JV.same, sameO, lookup]
  · simp [JV.same, sameO, lookup]
    exact ⟨"b", by simp⟩
  · simp [JV.same, sameO, lookup]
    intro k
    by_cases h1 : k = "a" <;> by_cases h2 : k = "b" <;> simp [h1, h2]

/-- non-vacuity of `rt_normal_partial`: a nested document (a whole OpenAPI 3 document with a path, an
    operation, a response, a media type and a schema with properties, an extension and an unknown key) is in
    deep normal form and in scope -/
example :
    let v : JV := .obj [("openapi", .str "3.0.3"), ("info", .obj [("title", .str "t"), ("version", .str "1")]),
      ("paths", .obj [("/a", .obj [("get", .obj [("responses", .obj [("200", .obj [("description", .str "ok"),
        ("content", .obj [("application/json", .obj [("schema", .obj [("type", .str "object"), ("x-e", .num 1 0),
          ("properties", .obj [("p", .obj [("$ref", .str "#/components/schemas/A")]),
                               ("q", .obj [("type", .arr [.str "string", .str "null"]), ("bogus", .null)])])])])])])])])])]),
      ("x-top", .arr [.null])]
    v.clean = true ∧ normalB descriptors 40 (.kind "openapi3.T") v = true := by decide

/-- The value of the deep round trip does not depend on the fuel: once `rt` returns a value, every larger fuel
    returns the same value (any table). So the fuel the driver passes can only matter by running out, which the
    driver reports as such and the differential run counts as a disagreement — never by changing an answer. -/
theorem rt_fuel_independent (T : List Desc) (n m : Nat) (h : n ≤ m) (s : Shape) (v r : JV)
    (hr : rt T n s v = .ok r) : rt T m s v = .ok r :=
  rt_mono T n m h s v r hr

/-- … hence stability and the normal-form round trip hold across fuels: the first output, computed with any
    fuel that suffices, is a fixed point under every fuel at least as large -/
theorem rt_stable_any_fuel_partial (n m : Nat) (h : n ≤ m) (s : Shape) (v v1 : JV) (hc : v.clean = true)
    (h1 : rt descriptors n s v = .ok v1) : rt descriptors m s v = .ok v1 ∧ rt descriptors m s v1 = .ok v1 :=
  ⟨rt_fuel_independent descriptors n m h s v v1 h1,
   rt_fuel_independent descriptors n m h s v1 v1 (rt_stable_partial n s v v1 hc h1)⟩

/-- no reference is invented at any depth: an object that is not a reference (no `$ref` member, or one
    that is not a non-empty string) is not serialised as one (no hypothesis on the input) -/
theorem rt_invents_no_ref (n : Nat) (s : Shape) (kvs kvs1 : Obj) (hs : refSafe s = true)
    (h : rt descriptors n s (.obj kvs) = .ok (.obj kvs1)) (hr : refString kvs = none) :
    refString kvs1 = none :=
  (rt_inv table_deepOK n).noRef s kvs kvs1 hs h hr

/-- Nothing is lost at any struct object of the deep round trip, whatever its children are: a key that is not
    a tag of the kind — a specification extension, an unknown field — is written back with its value (deep
    counterpart of `flat_keeps_unknown`; `example` is excluded because of the date post-processing). -/
theorem rt_keeps_unknown (n : Nat) (kind : String) (d : Desc) (kvs o1 : Obj) (key : String)
    (hf : findDesc descriptors kind = some d) (ht : d.template = .struct)
    (h : rt descriptors (n + 1) (.kind kind) (.obj kvs) = .ok (.obj o1))
    (hr : refTaken d (applyPost d kvs) = false) (hk : key ∉ tagKeys d) (hke : key ≠ "example") :
    lookup key o1 = lookup key kvs := by
  have h' : rtStep descriptors (rt descriptors n) (.kind kind) (.obj kvs) = .ok (.obj o1) := h
  simp only [rtStep, stepKind, hf, ht] at h'
  obtain ⟨o2, hm, e⟩ := wrap_ok _ _ _ h'
  cases e
  obtain ⟨w, _, _⟩ := deepOK_struct d (table_deepOK d (findDesc_mem descriptors kind d hf)) ht
  exact marshalDeep_keeps_unknown d w kvs o1 hm hr key hk hke

/-- a value never becomes null in the trip (only an empty type list does) -/
theorem rt_keeps_non_null (n : Nat) (s : Shape) (v v1 : JV) (hs : s ≠ .types)
    (h : rt descriptors n s v = .ok v1) (hn : v.isNull = false) : v1.isNull = false :=
  (rt_inv table_deepOK n).nn s v v1 hs h hn

/-- non-vacuity of `rt_stable_partial`: a nested document with redundant defaults, a null entry, an extension,
    an unknown key and a reference with a sibling is in scope, the first trip returns a value that differs from
    the input, and the second trip returns that value again -/
example :
    let v : JV := .obj [("type", .arr [.str "object"]), ("title", .str ""), ("x-e", .num 1 0), ("bogus", .null),
      ("properties", .obj [("a", .obj [("$ref", .str "#/components/schemas/A"), ("description", .str "sib")]),
                           ("b", .null),
                           ("c", .obj [("items", .obj [("type", .arr []), ("format", .str "date"), ("example", .str "2020-01-02")])])])]
    v.clean = true ∧
    (match rt descriptors 12 (.kind "openapi3.Schema") v with
     | .ok v1 => (match v1 with
                  | .obj [("properties", .obj [("a", .obj [("$ref", _)]), ("b", .null), ("c", .obj [("items", .obj [("example", _), ("format", _)])])]),
                          ("type", .str "object"), ("x-e", _), ("bogus", .null)] =>
                    (match rt descriptors 12 (.kind "openapi3.Schema") v1 with
                     | .ok (.obj [("properties", _), ("type", .str "object"), ("x-e", _), ("bogus", .null)]) => true
                     | _ => false)
                  | _ => false)
     | _ => false) = true := by decide

/-! ## the Loader route: a resolved reference is printed as the reference -/

/-- Reference wrappers (all ten are instances of the one template: `ref_wrappers_uniform`): after the loader
    has filled `Value`, the marshaller prints exactly what it prints for the unresolved wrapper — the `$ref`
    text alone, nothing of the resolved value. -/
theorem resolved_wrapper_marshal (w : Wrapper) (target : JV) (h : w.ref ≠ "") :
    (w.resolved target).marshal = w.marshal ∧ w.marshal = .obj [("$ref", .str w.ref)] := by
  simp [Wrapper.marshal, Wrapper.resolved, h]

/-- … and that is what the deep model writes for a reference, with or without siblings next to `$ref` -/
theorem rt_ref_is_wrapper_marshal (n : Nat) (w : String) (d : Desc) (r : String) (sib : Obj) (target : JV)
    (hd : findDesc descriptors w = some d) (hr : r ≠ "") :
    rt descriptors (n + 1) (.ref w) (.obj (("$ref", .str r) :: sib)) =
      .ok ((Wrapper.resolved ⟨r, none⟩ target).marshal) := by
  have h1 : refString (("$ref", JV.str r) :: sib) = some r := by simp [refString, lookup, hr]
  show rtStep descriptors (rt descriptors n) (.ref w) _ = _
  simp [rtStep, stepRef, hd, h1, Wrapper.marshal, Wrapper.resolved, hr]

/-- Path items have no wrapper: the loader copies the target's fields into the path item and restores its
    reference text. Any kind with the `$ref` early return prints a record with a non-empty `Ref` as the reference
    alone, whatever the other fields and the extensions hold — so the resolved path item serialises exactly as
    the unresolved one. -/
theorem resolved_refEarly_marshal (f : Shape → JV → Res JV) (d : Desc) (r target : Rec)
    (h : d.refEarly = true) (hr : (r.fld "Ref").isEmptyStr = false) :
    marshalDeep f d (r.resolvedFrom target) = marshalDeep f d r ∧
    marshalDeep f d r = .ok [("$ref", r.fld "Ref")] := by
  simp [marshalDeep, Rec.resolvedFrom, h, hr]

/-- The Loader route for whole documents, by induction over the tree of Go values: whatever the loader fills in
    at the references of a parsed document (any target, any depth of resolution, any file: `ρ`, `σ` arbitrary),
    serialising the loaded document gives exactly what serialising the merely parsed document gives — every `$ref`
    as written, nothing of a resolved value anywhere in the output:
    `marshal (resolve (unmarshal doc)) = marshal (unmarshal doc)`. -/
theorem marshal_resolve_eq (ρ : String → GoV) (σ : String → (List (String × JV) → JV) × GoV) (g : GoV) :
    marshalG (resolveG ρ σ g) = marshalG g := by
  induction g with
  | leaf v => rfl
  | wrapper ref hv value ih =>
    by_cases h : (ref != "") = true
    · simp only [resolveG, marshalG, h, if_true]
    · have h' : (ref != "") = false := by simpa using h
      simp only [resolveG, marshalG, h', Bool.false_eq_true, if_false, ih]
  | struct ref asm fields ih =>
    by_cases h : (ref != "") = true
    · simp only [resolveG, marshalG, h, if_true]
    · have h' : (ref != "") = false := by simpa using h
      simp only [resolveG, marshalG, h', Bool.false_eq_true, if_false, ih]
  | nilL => rfl
  | consL x rest ih1 ih2 => simp only [resolveG, marshalG, ih1, ih2]
  | nilM => rfl
  | consM k x rest ih1 ih2 => simp only [resolveG, marshalG, ih1, ih2]

/-- the two models meet at a reference: what the JSON-valued deep model writes for an object with a non-empty
    `$ref` (siblings or not) is what the tree model's marshaller prints for the wrapper, resolved or not -/
theorem rt_ref_is_marshalG (n : Nat) (w : String) (d : Desc) (r : String) (sib : Obj) (hv : Bool) (value : GoV)
    (hd : findDesc descriptors w = some d) (hr : r ≠ "") :
    rt descriptors (n + 1) (.ref w) (.obj (("$ref", .str r) :: sib)) = .ok (marshalG (.wrapper r hv value)) := by
  have h1 : refString (("$ref", JV.str r) :: sib) = some r := by simp [refString, lookup, hr]
  show rtStep descriptors (rt descriptors n) (.ref w) _ = _
  simp [rtStep, stepRef, hd, h1, marshalG, hr]

/-- loading twice changes nothing more as far as the output goes (a reused loader, `ResolveRefsIn` after
    `LoadFromData`) -/
theorem marshal_resolve_twice (ρ ρ' : String → GoV) (σ σ' : String → (List (String × JV) → JV) × GoV) (g : GoV) :
    marshalG (resolveG ρ' σ' (resolveG ρ σ g)) = marshalG g := by
  rw [marshal_resolve_eq, marshal_resolve_eq]

/-- non-vacuity: a document with a path item that is a reference, a path item with a parameter reference and a
    schema reference two levels down; the loader fills in targets that are printed nowhere -/
example :
    let asm : List (String × JV) → JV := fun kvs => .obj kvs
    let item := GoV.struct "" asm (.consM "parameters" (.consL (.wrapper "#/components/parameters/P" false (.leaf .null)) .nilL)
      (.consM "get" (.struct "" asm (.consM "schema" (.wrapper "#/components/schemas/A" false (.leaf .null)) .nilM)) .nilM))
    let doc := GoV.struct "" asm (.consM "paths" (.consM "/a" (.struct "#/paths/~1b" asm .nilM) (.consM "/b" item .nilM)) .nilM)
    let ρ : String → GoV := fun _ => .leaf (.str "RESOLVED")
    let σ : String → (List (String × JV) → JV) × GoV := fun _ => (asm, .consM "copied" (.leaf (.str "RESOLVED")) .nilM)
    doc.hasRef = true ∧
    (match resolveG ρ σ doc with
     | .struct _ _ (.consM _ (.consM _ (.struct _ _ (.consM "copied" _ _)) _) _) => true | _ => false) = true ∧
    (match marshalG (resolveG ρ σ doc) with
     | .obj [("paths", .obj [("/a", .obj [("$ref", .str "#/paths/~1b")]),
                             ("/b", .obj [("parameters", .arr [.obj [("$ref", .str "#/components/parameters/P")]]),
                                          ("get", .obj [("schema", .obj [("$ref", .str "#/components/schemas/A")])])])])] => true
     | _ => false) = true := by decide

/-! ## keys of the map-like containers and of the named maps -/

/-- One parse+serialise of a map-like container (Paths / Responses / Callback) gives back exactly the keys that were
    written — same spelling (no case folding, no normalisation: `2xx` stays `2xx` next to `2XX`), same number, same
    order — `__origin__` apart, whatever the entries are and whatever happens inside them. -/
theorem maplike_keeps_keys (T : List Desc) (f : Shape → JV → Res JV) (w : String) (d : Desc) (kvs out : Obj)
    (hd : findDesc T w = some d) (h : stepMaplike T f w (.obj kvs) = .ok (.obj out)) :
    out.map (·.1) = (kvs.filter (fun kv => kv.1 != "__origin__")).map (·.1) := by
  simp only [stepMaplike, hd] at h
  cases hm : mapKV (fun k x => if isExtKey k then .ok x else entryStep T f (entryShapeOf d) x)
      (kvs.filter (fun kv => kv.1 != "__origin__")) with
  | error e => simp [hm, Res.wrap] at h
  | ok o =>
    simp only [hm, Res.wrap, Except.ok.injEq, JV.obj.injEq] at h
    subst h
    exact mapKV_keys _ _ _ hm

/-- … and so do the named maps (components collections, properties, content, encoding, …): every key as written -/
theorem namedMap_keeps_keys (T : List Desc) (f : Shape → JV → Res JV) (s : Shape) (kvs out : Obj) :
    (stepMap f s (.obj kvs) = .ok (.obj out) → out.map (·.1) = kvs.map (·.1)) ∧
    (stepPMap T f s (.obj kvs) = .ok (.obj out) → out.map (·.1) = kvs.map (·.1)) := by
  constructor
  · intro h
    simp only [stepMap] at h
    cases hm : mapKV (fun _ x => f s (nullFix s x)) kvs with
    | error e => simp [hm, Res.wrap] at h
    | ok o =>
      simp only [hm, Res.wrap, Except.ok.injEq, JV.obj.injEq] at h
      subst h
      exact mapKV_keys _ _ _ hm
  · intro h
    simp only [stepPMap] at h
    cases hm : mapKV (fun _ x => entryStep T f s x) kvs with
    | error e => simp [hm, Res.wrap] at h
    | ok o =>
      simp only [hm, Res.wrap, Except.ok.injEq, JV.obj.injEq] at h
      subst h
      exact mapKV_keys _ _ _ hm

/-- the three map-like containers are rows of the regenerated table (so `findDesc` finds them) -/
theorem maplike_rows :
    (["openapi3.Paths", "openapi3.Responses", "openapi3.Callback"].map fun w => (findDesc descriptors w).isSome) =
      [true, true, true] := by decide

/-! ## the Loader route: the loader keeps every `Ref` text (table C03RefWrites, regenerated from openapi3/loader.go) -/

/-- the tree model's loader keeps the reference text of every node it touches … -/
theorem resolveG_keeps_refText (ρ : String → GoV) (σ : String → (List (String × JV) → JV) × GoV) (g : GoV) :
    (resolveG ρ σ g).refText = g.refText := by
  cases g with
  | wrapper ref hv value => by_cases h : (ref != "") = true <;> simp [resolveG, GoV.refText, h]
  | struct ref asm fields => by_cases h : (ref != "") = true <;> simp [resolveG, GoV.refText, h]
  | _ => rfl

/-- … and this is the code's reference block, statement by statement: the rows of one resolver -/
def topsOf (fn : String) : List RTop :=
  (c03RefTops.filter (·.fn == fn)).map fun r => ⟨r.overwrite, r.retAfter, r.hasReturn, r.restore, r.litCopy⟩

/-- the translator read every statement of loader.go that can change a `Ref` text -/
theorem refwrites_no_unrecognised : ∀ w ∈ c03RefWrites, w.kind ≠ "unrecognised" := by decide

/-- every such statement (assignment to a `.Ref`, assignment through a pointer) is the restore statement of the
    block of its own target or an overwrite of the block's owner inside that block: no resolver writes the `Ref` of
    a wrapper, of a copy, of a target (seeded classes C03-r3m3 `p.Ref = ref` / `resolved.Ref = ref`, C03-r4m2
    `component.Ref = resolved.Ref`) -/
theorem refwrites_all_accounted : ∀ w ∈ c03RefWrites, w.accounted = true := by decide

/-- all ten resolvers have their reference block, on their own node -/
theorem ref_blocks :
    c03RefBlocks.map (fun b => (b.1, b.2.1)) =
      [("resolveHeaderRef", "component"), ("resolveParameterRef", "component"), ("resolveRequestBodyRef", "component"),
       ("resolveResponseRef", "component"), ("resolveSchemaRef", "component"), ("resolveSecuritySchemeRef", "component"),
       ("resolveExampleRef", "component"), ("resolveCallbackRef", "component"), ("resolveLinkRef", "component"),
       ("resolvePathItemRef", "pathItem")] := by decide

/-- the statement rows of every block are complete and in source order -/
theorem ref_tops_complete :
    ∀ b ∈ c03RefBlocks, (c03RefTops.filter (·.fn == b.1)).map (·.idx) = List.range b.2.2.2 ∧
      (c03RefTops.filter (·.fn == b.1)).all (·.owner == b.2.1) = true := by decide

/-- every block passes the check: no return between an overwrite and the restore, nothing overwritten at the end -/
theorem ref_blocks_ok : ∀ b ∈ c03RefBlocks, okFrom false (topsOf b.1) = true := by decide

/-- the nine wrapper blocks neither overwrite nor restore nor copy -/
theorem wrapper_blocks_inert :
    ∀ b ∈ c03RefBlocks, b.1 ≠ "resolvePathItemRef" → (topsOf b.1).all RTop.inert = true := by decide

/-- The reference block of every resolver of this repository leaves the node's `Ref` as it was written in the
    document, for every control flow through the block (any branch, any early return, any `Ref` carried by the
    copied target `p` / `resolved`), given that the value registered under the block's key carries the block's text. -/
theorem loader_block_keeps_ref (b : String × String × String × Nat) (hb : b ∈ c03RefBlocks) (ref : String)
    (cs : List RChoice) : runTops ref ref (topsOf b.1) cs ref = ref :=
  refBlock_keeps_ref ref _ cs (ref_blocks_ok b hb)

/-- … and for the nine wrapper kinds without that proviso and from any state -/
theorem loader_wrapper_keeps_ref (b : String × String × String × Nat) (hb : b ∈ c03RefBlocks)
    (hne : b.1 ≠ "resolvePathItemRef") (ref regRef cur : String) (cs : List RChoice) :
    runTops ref regRef (topsOf b.1) cs cur = cur :=
  runTops_inert ref regRef _ (wrapper_blocks_inert b hb hne) cs cur

/-- the in-progress keys and the deferred hand-over as modelled: the key is the kind's prefix and the node's own
    text; `unvisitRef(key, value)` is deferred with the block's key and the resolved node (the path item itself, a
    wrapper's `Value`) -/
theorem ref_keys_as_modelled :
    c03RefKeys =
      [("resolveHeaderRef", "\"Header \" + ref", "key", "component.Value", 5),
       ("resolveParameterRef", "\"Parameter \" + ref", "key", "component.Value", 5),
       ("resolveRequestBodyRef", "\"RequestBody \" + ref", "key", "component.Value", 5),
       ("resolveResponseRef", "\"Response \" + ref", "key", "component.Value", 5),
       ("resolveSchemaRef", "\"Schema \" + ref", "key", "component.Value", 5),
       ("resolveSecuritySchemeRef", "\"SecurityScheme \" + ref", "key", "component.Value", 5),
       ("resolveExampleRef", "\"Example \" + ref", "key", "component.Value", 5),
       ("resolveCallbackRef", "\"Callback \" + ref", "key", "component.Value", 5),
       ("resolveLinkRef", "\"Link \" + ref", "key", "component.Value", 5),
       ("resolvePathItemRef", "\"PathItem \" + ref", "key", "pathItem", 6)] := by decide

/-- the hand-over is set up after the last statement of the block that touches the node's `Ref` -/
theorem ref_register_after_restore :
    ∀ k ∈ c03RefKeys, ∀ t ∈ c03RefTops, t.fn = k.1 → (t.restore || t.overwrite || t.litCopy) = true → t.idx < k.2.2.2.2 := by
  decide

/-- State kept between calls: for every history of resolver calls on one loader — blocks that run with any control
    flow, nodes queued on keys in progress and overwritten later by the deferred callback with the owner's node, in
    any order and number — every node keeps the `Ref` text it was written with. No proviso on the registered value. -/
theorem loader_history_keeps_ref (b : String × String × String × Nat) (hb : b ∈ c03RefBlocks) (regRef : String)
    (es : List REvent) (q : List (String × String)) (hs : es.all REvent.sync = true) (hq : queuedOK q = true) :
    queuedOK (runEvents (topsOf b.1) regRef es q).1 = true ∧ queuedOK (runEvents (topsOf b.1) regRef es q).2 = true :=
  runEvents_keeps_ref _ (ref_blocks_ok b hb) regRef es q hs hq

/-- non-vacuity: a path item queued on the key of a chain member, then the owner's block, which copies a target
    carrying another text and restores its own -/
example :
    runEvents (topsOf "resolvePathItemRef") "" [.queue "#/paths/~1b",
        .run "#/paths/~1b" [.skip, .skip, .skip, .skip, .write "#/paths/~1c"]] [] =
      ([("#/paths/~1b", "#/paths/~1b")], [("#/paths/~1b", "#/paths/~1b")]) := by decide

/-- what a store of loader.go may write into: the loader's own state; a wrapper's `Value` inside the reference block of
    that wrapper; the path item's `Ref` inside its block; locations (`url.URL` values of the function), the unexported
    `doc.url`, and the caller's fresh copy filled by `resolveComponent` -/
def docWriteOK (r : C03DocWrite) : Bool :=
  r.base == "loader" ||
  (r.lhs == "component.Value" && r.kind == "field" && r.inOwnerBlock) ||
  (r.lhs == "pathItem.Ref" && r.kind == "field" && r.inOwnerBlock) ||
  [("loadFromDataWithPathInternal", "doc.url"), ("join", "newPath.Path"), ("resolvePathWithRef", "resolvedPath.Fragment"),
   ("resolveRefPath", "path.Fragment"), ("resolveComponent", "pathRef.Fragment"),
   ("resolveComponent", "reflect.ValueOf(resolved).Elem()"), ("resolveRef", "resolvedPathRef.Fragment")].contains (r.fn, r.lhs)

/-- The loader stores nothing else into the document it resolves: every field / element store, `delete` and `Set`
    call of loader.go is one of the above — so outside the reference blocks (the `ref = ""` branches of `resolveG`) a
    node is only descended into, and inside them a wrapper gets its `Value` and nothing more (together with
    `refwrites_all_accounted` for the stores through a pointer). -/
theorem loader_stores_as_modelled : c03DocWrites.all docWriteOK = true := by decide

/-- non-vacuity: the table does hold the 27 `Value` stores (three per wrapper kind) and the restore -/
example : (c03DocWrites.filter (fun r => r.lhs == "component.Value" && r.inOwnerBlock)).length = 27 ∧
    (c03DocWrites.filter (fun r => r.lhs == "pathItem.Ref")).length = 1 := by decide

/-- non-vacuity: the path item's block does replace the node and does restore the text; and the check is not
    trivially true — the block with the restore folded into one branch (the shape of C03-r3m3) fails it and has a run
    that ends with the target's text -/
example :
    (topsOf "resolvePathItemRef").any (·.overwrite) = true ∧ (topsOf "resolvePathItemRef").any (·.restore) = true ∧
    (topsOf "resolvePathItemRef").any (·.litCopy) = true ∧
    okFrom false [⟨true, false, true, false, false⟩, ⟨false, false, false, false, false⟩] = false ∧
    runTops "#/paths/~1b" "#/paths/~1b" [⟨true, false, true, false, false⟩, ⟨false, false, false, false, false⟩]
      [.write "#/paths/~1c"] "#/paths/~1b" = "#/paths/~1c" := by decide

/-- the kinds that carry their own `$ref` (no wrapper) and are reached by the loader all have the early return -/
theorem refEarly_kinds :
    (descriptors.filter (fun d => d.refEarly)).map (·.name) =
      ["openapi3.PathItem", "openapi2.Parameter", "openapi2.PathItem", "openapi2.Response", "openapi2.SecurityScheme"] := by
  decide

/-! ## witnesses (inside the exclusions the model differs from the spec) and non-vacuity -/

def requestBodyDesc : Desc := (findDesc descriptors "openapi3.RequestBody").getD default
def oauthFlowDesc : Desc := (findDesc descriptors "openapi3.OAuthFlow").getD default

/-- F-C03-3 (repaired by 901ea22, former class RequiredMapAbsent): a request body without `content` / an OAuth
    flow without `scopes` — the first trip writes {} (not null), the second trip writes {} again, and the model
    agrees with the spec (stable) on the former witness inputs -/
theorem requiredMap_fixed :
    (let o : Obj := [("description", .str "d")]
     (lookup "content" (flatRT requestBodyDesc o)).map JV.isEmptyObj = some true ∧
     (lookup "content" (flatRT requestBodyDesc (flatRT requestBodyDesc o))).map JV.isEmptyObj = some true ∧
     (match rt descriptors 8 (.kind "openapi3.RequestBody") (.obj o) with
      | .ok (.obj [("content", .obj []), ("description", .str "d")]) => true | _ => false) = true ∧
     (match rt descriptors 8 (.kind "openapi3.RequestBody") (.obj [("content", .obj []), ("description", .str "d")]) with
      | .ok (.obj [("content", .obj []), ("description", .str "d")]) => true | _ => false) = true) ∧
    (let o : Obj := [("tokenUrl", .str "u")]
     (lookup "scopes" (flatRT oauthFlowDesc o)).map JV.isEmptyObj = some true ∧
     (lookup "scopes" (flatRT oauthFlowDesc (flatRT oauthFlowDesc o))).map JV.isEmptyObj = some true) := by
  decide

def schemaDesc : Desc := (findDesc descriptors "openapi3.Schema").getD default

/-- DateExampleTrim: the input reaches the trimming statement and comes back changed -/
theorem dateTrim_witness :
    let o : Obj := [("format", .str "date"), ("example", .str "2020-01-02T00:00:00Z")]
    dateTrimHit schemaDesc o = true ∧ normalObjB schemaDesc o = true ∧
    (match lookup "example" (applyPost schemaDesc o) with | some (.str e) => e == "2020-01-02" | _ => false) = true ∧
    -- and a second reload changes it again when the suffix occurs twice: the first output is not stable
    (let o2 : Obj := [("format", .str "date"), ("example", .str "2020T00:00:00ZT00:00:00Z")]
     (match rt descriptors 8 (.kind "openapi3.Schema") (.obj o2) with
      | .ok (.obj [("example", .str e1), ("format", _)]) =>
        (match rt descriptors 8 (.kind "openapi3.Schema") (.obj [("example", .str e1), ("format", .str "date")]) with
         | .ok (.obj [("example", .str e2), ("format", _)]) => e1 == "2020T00:00:00Z" && e2 == "2020"
         | _ => false)
      | _ => false) = true) := by
  decide

/-- F-C03-4 (repaired by 2f6387f, former class EmptyTypeList): `type: []` is omitted by the three marshallers
    that hold a `*Types` (v3 schema, v2 schema, v2 parameter), so the first serialisation is already the stable
    one; the model agrees with the spec on the former witness inputs -/
theorem emptyTypes_fixed :
    (match rt descriptors 8 (.kind "openapi3.Schema") (.obj [("type", .arr [])]) with
     | .ok (.obj []) => true | _ => false) = true ∧
    (match rt descriptors 8 (.kind "openapi2.Schema") (.obj [("type", .arr [])]) with
     | .ok (.obj []) => true | _ => false) = true ∧
    (match rt descriptors 8 (.kind "openapi2.Parameter") (.obj [("name", .str "p"), ("type", .arr [])]) with
     | .ok (.obj [("name", .str "p")]) => true | _ => false) = true ∧
    (match rt descriptors 8 (.kind "openapi2.Parameter") (.obj [("name", .str "p")]) with
     | .ok (.obj [("name", .str "p")]) => true | _ => false) = true := by
  decide

/-- every field of the table that holds a `*Types` is written under the guard that omits the empty list -/
theorem types_fields_guarded :
    ∀ d ∈ descriptors, ∀ f ∈ d.fields, f.shape = .types →
      f.tc = .ptypes ∧ d.marsh.any (fun m => m.goName == f.goName && m.guard == .neNilLenNe0) = true := by
  decide

/-- F-C03-2 (repaired): no position of any kind turns a null entry into a wrapper whose marshaller
    dereferences a nil `Value` — the nine v3 wrappers check `Value` themselves, and the v2 wrapper (which does
    not) never sits in a named map or map-like container -/
theorem no_null_entry_panic : nullEntryPanicReachable descriptors = false := by decide

/-- regression inputs of F-C03-2: a null entry is written back as null, both for value-receiver value kinds
    and for the nil-tolerant `Callback` -/
theorem nullRefEntry_fixed :
    (match rt descriptors 8 (.kind "openapi3.Components") (.obj [("schemas", .obj [("A", .null)])]) with
     | .ok (.obj [("schemas", .obj [("A", .null)])]) => true | _ => false) = true ∧
    (match rt descriptors 8 (.maplike "openapi3.Responses") (.obj [("200", .null)]) with
     | .ok (.obj [("200", .null)]) => true | _ => false) = true ∧
    (match rt descriptors 8 (.kind "openapi3.Components") (.obj [("callbacks", .obj [("A", .null)])]) with
     | .ok _ => true | _ => false) = true := by
  decide

/-- non-vacuity: the schema kind satisfies the hypotheses of the generic theorems, and a non-trivial
    normal-form schema object is a fixed point of the flat round trip, key by key -/
example : structAgreeWith compat schemaDesc = true ∧
    (let o : Obj := [("type", .str "string"), ("minLength", .num 3 0), ("x-ext", .bool false), ("bogus", .null)]
     normalObjB schemaDesc o = true ∧ refTaken schemaDesc o = false ∧
     (lookup "minLength" (flatRT schemaDesc o)).map JV.isZeroNum = some false ∧
     (lookup "bogus" (flatRT schemaDesc o)).map JV.isNull = some true ∧
     (lookup "title" (flatRT schemaDesc o)).isNone = true) := by decide

end KinModel.Marshal
