import KinModel.Marshal
import KinModel.Gen.Descriptors
namespace KinModel.Marshal
open KinModel.Gen

theorem all_kinds_agree : ∀ d ∈ descriptors, d.agree = true := by decide

end KinModel.Marshal
