/-
C07 — composition with the neighbours: the bits of the orchestration model (`Param.ok`, `Op.bodyOK`) are replaced by the
decision functions of the parameter model of property C05 (`KinModel/Style.lean`, `Style.validateParameter`) and of the
request-body model of property C06 (`KinModel/Body.lean`, `Body.validateRequestBodyD`). Both modules are imported
read-only. Property theorems only.

What fits and what does not (the interface lemmas that are missing are explicit, named hypotheses below):
  * `Style.Req` is what the request carries for ONE parameter; there is no Lean model of a whole request from which the
    per-parameter views are projected (C05's Go runner builds them). The composition therefore takes the projection as
    a function `carry : Style.Param → Style.Req`; missing interface lemma: "the views of two parameters are projections
    of one request" (not needed for the theorems below, which quantify over every `carry`).
  * `Style.validateParameter` has no default handling (C05 generates no defaults) and `content`-described parameters live
    in `StyleContent.lean`: the composition covers schema-described parameters without defaults.
  * code = specification for parameters (`Style.validateParameter = Style.validateSpec`) and for bodies
    (`(Body.validateRequestBodyD …).isOk ↔ Body.Accept …`) hold outside the exclusion classes of C05 / C06 only; the
    theorems that state them (`Style.validate_eq_spec_partial`, `Style.validate_eq_spec_enumfree_partial`,
    `Body.accept_iff_partial_D`) live in `Props/C05.lean` / `Props/C06.lean`, which need those properties' translator
    tables: they enter `composed_accept_iff_spec` as the hypotheses `hParams` and `hBody` in exactly the form those
    theorems conclude.
-/
import KinModel.RequestFlow
import KinModel.Style
import KinModel.Body
import KinModel.Props.C07Flow
namespace KinModel.RequestCompose
open KinModel.Request (In Param Opts Part overridden skipQuery)
open KinModel.RequestFlow

def locOf : Style.Loc → In
  | .path => .path | .query => .query | .header => .header | .cookie => .cookie

/-- an operation whose parameters and body are declarations of the C05 / C06 models, and a request seen through them -/
structure Wiring where
  pathParams  : List Style.Param
  opParams    : Option (List Style.Param)
  /-- what the request carries for a parameter -/
  carry       : Style.Param → Style.Req
  body        : Option Body.ReqBody
  reg         : List (Body.Str × Body.DecK)
  /-- the request's Content-Type header and what the trusted parsers make of its body -/
  ct          : Body.Str
  bodyIn      : Body.BodyIn
  /-- `Options.ExcludeReadOnlyValidations`, `!Options.SkipSettingDefaults` -/
  exro        : Bool
  ds          : Bool
  opSecurity  : Option (List Requirement)
  docSecurity : List Requirement

/-- the bit of the orchestration model for a styled parameter: `ValidateParameter` returns nil -/
def paramOf (w : Wiring) (p : Style.Param) : Param :=
  ⟨String.ofList p.name, locOf p.cell.loc, Style.validateParameter p (w.carry p) == .accept⟩

def bodyVerdict (w : Wiring) (rb : Body.ReqBody) : Bool :=
  (Body.validateRequestBodyD w.reg rb w.ct w.bodyIn w.exro w.ds).isOk

def opOf (w : Wiring) : Op :=
  { opParams := w.opParams.map (·.map (paramOf w)), pathParams := w.pathParams.map (paramOf w),
    opSecurity := w.opSecurity, docSecurity := w.docSecurity,
    hasBody := w.body.isSome,
    bodyOK := match w.body with | some rb => bodyVerdict w rb | none => true }

/-- "overridden by an operation parameter of the same name and location", on the declarations themselves -/
def sOverridden (ops : List Style.Param) (p : Style.Param) : Bool :=
  ops.any (fun q => q.name = p.name && q.cell.loc = p.cell.loc)

/-- the parameters in effect, as the property text describes them, on the declarations themselves -/
def sEffective (o : Opts) (w : Wiring) : List Style.Param :=
  ((w.opParams.getD []) ++ w.pathParams.filter (fun p => !sOverridden (w.opParams.getD []) p)).filter
    (fun p => !(o.excludeQuery && p.cell.loc = Style.Loc.query))

theorem locOf_inj (a b : Style.Loc) : locOf a = locOf b ↔ a = b := by
  cases a <;> cases b <;> simp [locOf]

theorem overridden_map (w : Wiring) (ops : List Style.Param) (p : Style.Param) :
    overridden (ops.map (paramOf w)) (paramOf w p) = sOverridden ops p := by
  unfold overridden sOverridden
  induction ops with
  | nil => rfl
  | cons q qs ih =>
    have hn : ((paramOf w q).name = (paramOf w p).name) ↔ q.name = p.name :=
      ⟨fun h => String.ofList_injective h, fun h => by simp [paramOf, h]⟩
    have hl : ((paramOf w q).loc = (paramOf w p).loc) ↔ q.cell.loc = p.cell.loc := by
      simp [paramOf, locOf_inj]
    simp only [List.map_cons, List.any_cons, ih]
    congr 1
    apply Bool.eq_iff_iff.mpr
    simp only [Bool.and_eq_true, decide_eq_true_eq, hn, hl]

theorem effective_map (o : Opts) (w : Wiring) :
    effective o (opOf w) = (sEffective o w).map (paramOf w) := by
  unfold effective sEffective
  have hop : opList (opOf w) = (w.opParams.getD []).map (paramOf w) := by
    unfold opList opOf; cases w.opParams <;> rfl
  have hpp : (opOf w).pathParams = w.pathParams.map (paramOf w) := rfl
  have e1 : ((fun p => !overridden ((w.opParams.getD []).map (paramOf w)) p) ∘ paramOf w) =
      (fun p => !sOverridden (w.opParams.getD []) p) := by
    funext p; simp [Function.comp, overridden_map]
  have e2 : ((fun p : Param => !(o.excludeQuery && decide (p.loc = In.query))) ∘ paramOf w) =
      fun p => !(o.excludeQuery && decide (p.cell.loc = Style.Loc.query)) := by
    funext p
    show (!(o.excludeQuery && decide ((paramOf w p).loc = In.query))) = _
    have hd : decide ((paramOf w p).loc = In.query) = decide (p.cell.loc = Style.Loc.query) := by
      apply Bool.eq_iff_iff.mpr
      simp only [decide_eq_true_eq]
      exact locOf_inj p.cell.loc .query
    rw [hd]
  rw [hop, hpp, List.filter_map, ← List.map_append, List.filter_map, e1, e2]

/-- **composition, code level.** With the verdict of every parameter computed by the C05 model of `ValidateParameter`
and the verdict of the body by the C06 model of `ValidateRequestBody`, request validation succeeds exactly when
security passes, `ValidateParameter` accepts every styled parameter in effect — the operation's own plus the path-level
ones not overridden by an operation parameter of the same name and location, minus the query parameters when they are
excluded — and `ValidateRequestBody` accepts the body when one is declared and not excluded. -/
theorem composed_accept_iff (o : Opts) (w : Wiring) (env : Env) :
    (validateRequest o (opOf w) env).isOk = true ↔
      SecSpec env (opOf w) ∧
      (∀ p ∈ sEffective o w, Style.validateParameter p (w.carry p) = .accept) ∧
      (∀ rb, w.body = some rb → o.excludeBody = false → bodyVerdict w rb = true) := by
  rw [accept_iff o (opOf w) env]
  unfold Accept
  rw [effective_map]
  constructor
  · rintro ⟨hs, hp, hb⟩
    refine ⟨hs, ?_, ?_⟩
    · intro p hpm
      have := hp (paramOf w p) (List.mem_map.mpr ⟨p, hpm, rfl⟩)
      simpa [paramOf] using this
    · intro rb hrb he
      have := hb (by simp [opOf, hrb]) he
      simpa [opOf, hrb] using this
  · rintro ⟨hs, hp, hb⟩
    refine ⟨hs, ?_, ?_⟩
    · intro q hq
      obtain ⟨p, hpm, rfl⟩ := List.mem_map.mp hq
      simp [paramOf, hp p hpm]
    · intro h1 he
      cases hbody : w.body with
      | none => simp [opOf, hbody] at h1
      | some rb => simpa [opOf, hbody] using hb rb hbody he

/-- **composition, specification level.** Under the two interface lemmas of the neighbours — `hParams`: for the
parameters in effect the code's verdict is the specification's (concluded by `Style.validate_eq_spec_partial` /
`Style.validate_eq_spec_enumfree_partial` outside C05's exclusion classes); `hBody`: the body model accepts iff the
property C06 says so (concluded by `Body.accept_iff_partial_D` outside C06's exclusion classes) — request validation
succeeds exactly when a security requirement is met, every parameter in effect decodes — as the inverse of the OpenAPI
style serialisation — to a value satisfying its schema, and the body, read by the decoder of its media type, satisfies
the schema read as a request. -/
theorem composed_accept_iff_spec (o : Opts) (w : Wiring) (env : Env)
    (hParams : ∀ p ∈ sEffective o w, Style.validateParameter p (w.carry p) = Style.validateSpec p (w.carry p))
    (hBody : ∀ rb, w.body = some rb →
      ((Body.validateRequestBodyD w.reg rb w.ct w.bodyIn w.exro w.ds).isOk = true ↔ Body.Accept w.reg rb w.ct w.bodyIn w.exro)) :
    (validateRequest o (opOf w) env).isOk = true ↔
      SecSpec env (opOf w) ∧
      (∀ p ∈ sEffective o w, Style.validateSpec p (w.carry p) = .accept) ∧
      (∀ rb, w.body = some rb → o.excludeBody = false → Body.Accept w.reg rb w.ct w.bodyIn w.exro) := by
  rw [composed_accept_iff o w env]
  constructor
  · rintro ⟨hs, hp, hb⟩
    exact ⟨hs, fun p hpm => by rw [← hParams p hpm]; exact hp p hpm,
      fun rb hrb he => (hBody rb hrb).mp (hb rb hrb he)⟩
  · rintro ⟨hs, hp, hb⟩
    exact ⟨hs, fun p hpm => by rw [hParams p hpm]; exact hp p hpm,
      fun rb hrb he => (hBody rb hrb).mpr (hb rb hrb he)⟩

/-- a failing styled parameter in effect, or a failing declared body that is checked, rejects the request — whatever
security says and whichever mode is chosen -/
theorem composed_part_rejects (o : Opts) (w : Wiring) (env : Env)
    (h : (∃ p ∈ sEffective o w, Style.validateParameter p (w.carry p) ≠ .accept) ∨
         (∃ rb, w.body = some rb ∧ o.excludeBody = false ∧ bodyVerdict w rb = false)) :
    (validateRequest o (opOf w) env).isOk = false := by
  rw [← Bool.not_eq_true, isOk_iff_failing_nil]
  intro hnil
  unfold failing at hnil
  simp only [List.append_eq_nil_iff, List.map_eq_nil_iff, List.filter_eq_nil_iff] at hnil
  obtain ⟨⟨_, hp⟩, hb⟩ := hnil
  rcases h with ⟨p, hpm, hne⟩ | ⟨rb, hrb, he, hv⟩
  · have hmem : paramOf w p ∈ visitedParams o (opOf w) := by
      rw [mem_visited_iff_effective, effective_map]
      exact List.mem_map.mpr ⟨p, hpm, rfl⟩
    have := hp (paramOf w p) hmem
    simp only [paramOf, Bool.not_eq_true', beq_eq_false_iff_ne, ne_eq, Decidable.not_not] at this
    exact hne this
  · simp [bodyChecked, opOf, hrb, he, hv] at hb

/-! ### Non-vacuity: a concrete wiring on which the hypotheses hold and both sides are exercised -/

/-- a required integer query parameter `n` (form, explode) with maximum 6 at operation level, overriding a path-level
`n` of type boolean; a required header `h` at path level; a JSON body `{"a": integer}` with `a` required -/
def exWiring (nText : String) (hText : Option String) (bodyText : String) (bodyJson : Option Body.V) : Wiring :=
  { pathParams := [
      ⟨⟨.query, .form, true⟩, "n".toList, true, false, .leaf (.prim { t := .boolean })⟩,
      ⟨⟨.header, .simple, false⟩, "h".toList, true, false, .leaf (.prim { t := .string })⟩],
    opParams := some [⟨⟨.query, .form, true⟩, "n".toList, true, false, .leaf (.prim { t := .integer, max := some 6 })⟩],
    carry := fun _ => { query := [("n".toList, [nText.toList])], header := hText.map (fun t => [t.toList]) },
    body := some ⟨true, [("application/json".toList,
      ⟨some (Body.RS.leaf (some .object) false false false 0 none
        [("a".toList, Body.RS.leaf (some .integer) false false false 0 none [] [] none none)] ["a".toList] none none), []⟩)]⟩,
    reg := Body.registry, ct := "application/json".toList,
    bodyIn := { text := bodyText.toList, json := bodyJson, form := none, parts := none },
    exro := false, ds := false,
    opSecurity := none, docSecurity := [[⟨"k", ["read"]⟩]] }

def exEnvC : Env := { declared := fun _ => true, auth := some (fun s sc => s == "k" && sc == ["read"]) }

/-- accepted: `?n=5`, header `h: x`, body `{"a":1}`; the path-level boolean `n` is overridden and not consulted -/
example : (validateRequest {} (opOf (exWiring "5" (some "x") "{\"a\":1}" (some (.obj [("a".toList, .int 1)])))) exEnvC).isOk = true := by
  decide

/-- rejected: `?n=7` exceeds the operation parameter's maximum -/
example : validateRequest { multiError := true } (opOf (exWiring "7" (some "x") "{\"a\":1}" (some (.obj [("a".toList, .int 1)])))) exEnvC =
    .multi [.param ⟨"n", .query, false⟩] := by decide

/-- rejected on three parts at once: no header, the body lacks `a`, the callback is asked with the scopes `[read]` -/
example : validateRequest { multiError := true } (opOf (exWiring "5" none "{}" (some (.obj [])))) { exEnvC with auth := some (fun _ _ => false) } =
    .multi [.security, .param ⟨"h", .header, false⟩, .body] := by decide

/-- non-vacuity of the hypotheses of `composed_accept_iff_spec`: on this wiring (the same parameters, a required JSON
body whose media type declares no schema) both interface lemmas hold, and the request
`?n=5`, `h: x`, body `{"a":1}` is accepted -/
example :
    let w : Wiring := { exWiring "5" (some "x") "{\"a\":1}" (some (.obj [("a".toList, .int 1)])) with
      body := some ⟨true, [("application/json".toList, ⟨none, []⟩)]⟩ }
    (∀ p ∈ sEffective {} w, Style.validateParameter p (w.carry p) = Style.validateSpec p (w.carry p)) ∧
    (∀ rb, w.body = some rb →
      ((Body.validateRequestBodyD w.reg rb w.ct w.bodyIn w.exro w.ds).isOk = true ↔ Body.Accept w.reg rb w.ct w.bodyIn w.exro)) ∧
    (validateRequest {} (opOf w) exEnvC).isOk = true := by
  refine ⟨by decide, ?_, by decide⟩
  intro rb hrb
  simp only [Option.some.injEq] at hrb
  subst hrb
  constructor
  · intro _
    exact Or.inr ⟨by decide, Or.inr ⟨⟨none, []⟩, rfl, Or.inl rfl⟩⟩
  · intro _
    decide

end KinModel.RequestCompose
