namespace KinModel.Props.C20
theorem stub : True := trivial
end KinModel.Props.C20
