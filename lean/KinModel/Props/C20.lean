/-
C20 — loading and validating arbitrary bytes never panics or hangs.

Theorems about the abstract loader, the cycle-guarded, partly guarded and unguarded descents of
`KinModel.LoadSafety`, about the drill-down / world construction of `KinModel.LoadDoc` for EVERY parsed
document, and the obligations over the regenerated tables `Gen.C20Types` / `Gen.C20Loader`.
Full-strength statement:

    ∀ documents, the loader returns (a document or an error: no panic, no divergence) ∧
    every descent over the loaded document (validate, visitJSON, InternalizeRefs) terminates without panic.

What is proved at full strength after the repairs a04fe6c, 25200f7, ff23d67, cbb0d05, 6bd2b91, b68fdca,
1c81ad5, 9b25d89: termination of the loader with an explicit bound for every world (`load_total`);
absence of panics of the loader for every parsed document and file set (`doc_load_no_panic`: the
configuration read from the source has comma-ok assertions and the two nil guards, so no hypothesis is
left); termination of `(*Schema).validate` on every schema graph (`validate_total`); termination of
`InternalizeRefs` on every object graph (`internalize_total`, the call graph of its unguarded functions is
acyclic: `deref_cycles_guarded`).
What stays partial: `visitJSON` through compositions and `MarshalJSON` of an internalized document have no
visited set (findings CompositionCycle and CallbackCycle — the latter left by 1c81ad5: InternalizeRefs returns,
the serialisation after it does not; `descend_total_partial` under `Ranked`, witness `witness_unguarded_cycle`).
Repaired in the later rounds and now at full strength: the name-resolver calls of InternalizeRefs never panic
(`load_valued_pathed`, `addToSpec_total`, `doc_internalize_no_panic`; former findings Unresolved / UnwalkedRef,
05c5875 + 3c3716e + 7245059), `(*Header).Validate` keeps a stack (former finding HeaderCycle, 4c7d612). Each open
finding has a whole document on which the model's outcome differs from the spec's inside exactly its class
(`witness_documents`), each repaired one a whole document on which they agree (`regression_documents`) and on
which the model of the code before the repair fails (`old_code_panics_on_them`, `round2_code_failed_on_them`).
-/
import KinModel.LoadSafety
import KinModel.Lemmas.C20Descent
import KinModel.Lemmas.C20Load
import KinModel.Gen.C20Types
import KinModel.Gen.C20Loader
import KinModel.LoadDoc
import KinModel.Gen.C20Guards

namespace KinModel.Props.C20
open KinModel.LoadSafety KinModel.LoadTypes

/-! ## the loader terminates: explicit fuel bound, every world -/

/-- `resolve` on any wrapper, from any loader state: with `size + fresh·(S+1)` fuel the result is never
    `outOfFuel` — every recursive call either descends to a strictly smaller node or puts a new reference
    text in progress (`fresh` counts the texts not yet in progress; targets have size ≤ S). This covers the
    recursive call of `resolvePathItemRef` on the copied target (9b25d89): path-item `$ref` cycles a→b→a
    and self-references end at the in-progress test. -/
theorem resolve_total (cfg : Cfg) (w : World) (S : Nat) (hb : Bounded w S) (fuel : Nat) (n : Node) (st : St)
    (h : n.size + fresh w st * (S + 1) ≤ fuel) : resolve cfg w fuel n st ≠ .outOfFuel :=
  resolve_total_aux cfg w S hb fuel n st h

/-- `ResolveRefsIn` terminates for every document: cyclic, self-referential, dangling, wrong-kind references included. -/
theorem load_total (cfg : Cfg) (w : World) (S : Nat) (hb : Bounded w S) (roots : List Node) (fuel : Nat)
    (h : sizes roots + w.keys.length * (S + 1) ≤ fuel) : load cfg w fuel roots ≠ .outOfFuel := by
  unfold load
  apply stepKids_fuel
  · intro k _ s s' hk; exact resolve_sub cfg w fuel k s s' hk
  · intro k hk s hs
    apply resolve_total_aux cfg w S hb
    have h1 := size_le_sizes roots k hk
    have h2 : fresh w s ≤ w.keys.length := by unfold fresh; exact List.length_filter_le _ _
    have h3 : fresh w s * (S + 1) ≤ w.keys.length * (S + 1) := Nat.mul_le_mul_right _ h2
    omega

/-- more fuel never changes a result that is not `outOfFuel`: the fuel index is only a device to make the
    loader total and executable — together with `resolve_total` every wrapper has ONE outcome -/
theorem resolve_fuel_mono (cfg : Cfg) (w : World) (fuel : Nat) (n : Node) (st : St)
    (h : resolve cfg w fuel n st ≠ .outOfFuel) : resolve cfg w (fuel + 1) n st = resolve cfg w fuel n st :=
  resolve_fuel_mono_aux cfg w fuel n st h

/-- the in-progress set (`visitedRefs`) only grows along a successful walk: a text is removed only by the
    resolver that inserted it -/
theorem inprogress_only_grows (cfg : Cfg) (w : World) (fuel : Nat) (n : Node) (st st' : St)
    (h : resolve cfg w fuel n st = .ok st') : ∀ t ∈ st.inprog, t ∈ st'.inprog :=
  resolve_sub cfg w fuel n st st' (by simp [h, Res.st?])

/-! ## the loader does not panic — full strength (findings KindClash, NilTarget, DrillNil are repaired) -/

/-- every assertion in a backtrack callback is in comma-ok form and no drill-down ends at a typed nil
    pointer: the loader never panics, whatever the reference graph (one text met as two kinds included) -/
theorem load_no_panic (cfg : Cfg) (hc : cfg.assertsChecked) (w : World) (hn : NoNilTarget w)
    (roots : List Node) (fuel : Nat) (s : Site) : load cfg w fuel roots ≠ .panic s := by
  unfold load
  exact stepKids_safe (resolve cfg w fuel) roots St.init (fun k _ st => resolve_safe_aux cfg hc w hn fuel k st) s

/-- the same for a single wrapper from any state -/
theorem resolve_no_panic (cfg : Cfg) (hc : cfg.assertsChecked) (w : World) (hn : NoNilTarget w)
    (fuel : Nat) (n : Node) (st : St) (s : Site) : resolve cfg w fuel n st ≠ .panic s :=
  resolve_safe_aux cfg hc w hn fuel n st s

/-- the configuration read from loader.go: ten comma-ok assertions, `isNilPointer(cursor)` after every
    token, `c.Value != nil` before `c.Value.AdditionalProperties` (a regenerated-table obligation) -/
theorem code_cfg_checked :
    LoadDoc.codeCfg.assertsChecked ∧ LoadDoc.codeCfg.nilChecked = true ∧ LoadDoc.codeCfg.apGuarded = true ∧
    LoadDoc.codeCfg.keyedByKind = true ∧ LoadDoc.codeCfg.swallowOnlyEmpty = true ∧
    LoadDoc.codeCfg.internValueGuard = true ∧ LoadDoc.codeCfg.headerStack = true := by
  refine ⟨?_, by decide, by decide, by decide, by decide +kernel, by decide +kernel, by decide⟩
  intro k
  cases k <;> decide

/-- for EVERY parsed document, file set, entry point and switch setting: the world the driver builds has no
    panicking target (the drill-down model with the two nil guards never yields a typed nil pointer) and
    the loader model does not panic — no hypothesis left -/
theorem doc_load_no_panic (ds : LoadDoc.Docs) (fuel : Nat) (s : Site) :
    load LoadDoc.codeCfg (LoadDoc.build LoadDoc.codeCfg ds).world fuel (LoadDoc.build LoadDoc.codeCfg ds).roots ≠ .panic s :=
  load_no_panic LoadDoc.codeCfg code_cfg_checked.1 _
    (LoadDoc.build_noNilTarget LoadDoc.codeCfg code_cfg_checked.2.2.1 code_cfg_checked.2.1 ds) _ fuel s

/-- the outcome the driver reports for a case is never a panic -/
theorem doc_load_normal_or_fuel (ds : LoadDoc.Docs) :
    (LoadDoc.build LoadDoc.codeCfg ds).load.normal = true ∨ (LoadDoc.build LoadDoc.codeCfg ds).load = .outOfFuel := by
  have h := doc_load_no_panic ds LoadDoc.loadFuel
  unfold LoadDoc.Built.load
  simp only [show (LoadDoc.build LoadDoc.codeCfg ds).cfg = LoadDoc.codeCfg from rfl]
  cases hl : load LoadDoc.codeCfg (LoadDoc.build LoadDoc.codeCfg ds).world LoadDoc.loadFuel (LoadDoc.build LoadDoc.codeCfg ds).roots with
  | ok st => left; rfl
  | errMust k st => left; rfl
  | err => left; rfl
  | panic x => exact absurd hl (h x)
  | outOfFuel => right; rfl

/-! ### regression theorems for the repaired findings (model = spec on the former witnesses) and what the
    obligations protect against (the same inputs under the configuration of the code before the repair) -/

/-- the code after a04fe6c and 25200f7, before 7245059 (in-progress set keyed by the text alone) -/
def cfgChecked : Cfg where
  assertChecked := fun _ => true
  nilChecked := true
  apGuarded := true
  keyedByKind := false
  swallowOnlyEmpty := false
  internValueGuard := false
  headerStack := false
/-- the code after 7245059 -/
def cfgKeyed : Cfg := { cfgChecked with keyedByKind := true }
/-- the code after 3c3716e, 05c5875 and 4c7d612 -/
def cfgNow : Cfg := { cfgKeyed with swallowOnlyEmpty := true, internValueGuard := true, headerStack := true }

/-- former finding #12 / F-C20-1 (KindClash): `/a: {$ref: #/paths/~1b}`,
    `/b: {get: {responses: {200: {$ref: #/paths/~1b}}}}` — text 7 is in progress for the path-item resolver
    and met again by the response resolver; for the response resolver the target is "bad data" -/
def w12 : World where
  texts := [7]
  target := fun _ t k => if t = 7 ∧ k = .pathItem then .wrapper (.mk 4 0 .pathItem none false [.mk 6 0 .response (some 7) false []]) else .err

def roots12 : List Node := [.mk 2 0 .pathItem (some 7) false [], .mk 4 0 .pathItem none false [.mk 6 0 .response (some 7) false []]]

/-- a04fe6c: the callback of the response resolver ignores the `*PathItem`; the load ends with the "bad
    data" error of the second visit — a normal return -/
theorem regression_kind_clash : load cfgChecked w12 10 roots12 = .err ∧ (load cfgChecked w12 10 roots12).normal = true := by
  decide

/-- with an unchecked assertion (`component.Value = value.(*Response)`) the same input panics: this is what
    `code_cfg_checked` / `asserts_comma_ok` protect against -/
theorem unchecked_assertion_panics : load LoadDoc.oldCfg w12 10 roots12 = .panic .assertKind := by decide

/-- the swallowed callback leaves its wrapper without value and without location:
    `R: {$ref: '#/x-r'}`, `x-r: {headers: {h: {$ref: '#/x-r'}}}` — text 9 resolves (raw re-decoding) to a
    response whose header refers to text 9 again -/
def wMix : World where
  texts := [9]
  target := fun _ t k => if t = 9 ∧ k = .response then .raw (.mk 20 0 .response none false [.mk 22 0 .header (some 9) false []]) else .err

theorem kind_mismatch_leaves_pathless :
    (match load cfgChecked wMix 10 [.mk 2 0 .response (some 9) false []] with
     | .ok st => st.value.contains 2 && !st.value.contains 22 && !st.pathed.contains 22
     | _ => false) = true := by
  decide

/-- 7245059: with the in-progress set keyed by kind and text the header resolver does not wait for the response
    resolver but resolves the text itself (here: "bad data" for a header — a normal return); a reference that
    is registered as a callback is now always filled by a value of its own kind -/
theorem regression_kind_mismatch_keyed :
    load cfgKeyed wMix 10 [.mk 2 0 .response (some 9) false []] = .err := by
  decide

/-- former findings F-C20-2 (NilTarget) and F-C20-3 (DrillNil) at the level of the abstract loader: a world
    that reports these outcomes makes the loader panic … -/
def wNil : World where
  texts := [3]
  target := fun _ t _ => if t = 3 then .nilPtr else .err

def wDrill : World where
  texts := [3]
  target := fun _ t _ => if t = 3 then .drillPanic else .err

theorem nil_outcomes_would_panic :
    load cfgChecked wNil 10 [.mk 2 0 .schema (some 3) false []] = .panic .typedNil ∧
    load cfgChecked wDrill 10 [.mk 2 0 .schema (some 3) false []] = .panic .drill ∧
    ¬ NoNilTarget wNil ∧ ¬ NoNilTarget wDrill := by
  refine ⟨by decide, by decide, ?_, ?_⟩
  · intro h; have := h 0 3 .schema; simp [wNil, Tgt.panics] at this
  · intro h; have := h 0 3 .schema; simp [wDrill, Tgt.panics] at this

section DrillRegressions
open KinModel.LoadDoc

/-- `components: {schemas: {A: {type: object}, B: {$ref: '#/components/schemas/A/items'}}}` -/
def docNilTarget : JV := .obj [("components", .obj [("schemas", .obj [
  ("A", .obj [("type", .str "object")]), ("B", .obj [("$ref", .str "#/components/schemas/A/items")])])])]
def dsNilTarget : Docs := { root := docNilTarget, files := [], ext := false, hasPath := false }

/-- `A: {$ref: '#/components/schemas/B/additionalProperties'}`, `B: {$ref: '#/x-none'}` (never resolved) -/
def docDrillNil : JV := .obj [("components", .obj [("schemas", .obj [
  ("A", .obj [("$ref", .str "#/components/schemas/B/additionalProperties")]), ("B", .obj [("$ref", .str "#/x-none")])])])]
def dsDrillNil : Docs := { root := docDrillNil, files := [], ext := false, hasPath := false }

/-- a document without `paths`: `#/paths/~1a` passes through the nil `*Paths` -/
def docNoPaths : JV := .obj [("components", .obj [])]
def dsNoPaths : Docs := { root := docNoPaths, files := [], ext := false, hasPath := false }

def isErr : DrillOut → Bool | .err => true | _ => false
def isPanic : DrillOut → Bool | .panic => true | _ => false
def isNilFound : DrillOut → Bool | .found (.nilOf _) => true | _ => false

set_option maxRecDepth 100000 in
/-- 25200f7, F-C20-2: the absent `items` of `A` is a typed nil `*SchemaRef`; the repaired drill-down reports
    an error after that token, the code before the repair handed the nil pointer to `setRefPath` -/
theorem regression_nil_target :
    isErr (drillTokens codeCfg dsNilTarget 10 0 (.val (.ptr (.struct "T")) docNilTarget) ["components", "schemas", "A", "items"]) = true ∧
    isNilFound (drillTokens oldCfg dsNilTarget 10 0 (.val (.ptr (.struct "T")) docNilTarget) ["components", "schemas", "A", "items"]) = true := by
  decide +kernel

set_option maxRecDepth 100000 in
/-- 25200f7, F-C20-3: `additionalProperties` after a `*SchemaRef` whose `Value` is nil, and a token below the
    nil `*Paths` — errors now, nil dereferences before -/
theorem regression_drill_nil :
    isErr (drillTokens codeCfg dsDrillNil 10 0 (.val (.ptr (.struct "T")) docDrillNil) ["components", "schemas", "B", "additionalProperties"]) = true ∧
    isPanic (drillTokens oldCfg dsDrillNil 10 0 (.val (.ptr (.struct "T")) docDrillNil) ["components", "schemas", "B", "additionalProperties"]) = true ∧
    isErr (drillTokens codeCfg dsNoPaths 10 0 (.val (.ptr (.struct "T")) docNoPaths) ["paths", "/a"]) = true ∧
    isPanic (drillTokens oldCfg dsNoPaths 10 0 (.val (.ptr (.struct "T")) docNoPaths) ["paths", "/a"]) = true := by
  decide +kernel

/-- the general statement behind the two regressions: whatever the document, the tokens and the fuel, the
    drill-down of the repaired code neither panics nor ends at a typed nil pointer -/
theorem drill_never_panics (ds : Docs) (fuel doc : Nat) (text : String) :
    drillText codeCfg ds fuel doc text ≠ .panic ∧ ∀ c, drillText codeCfg ds fuel doc text = .found c → c.isNil = false :=
  drillText_safe codeCfg code_cfg_checked.2.2.1 code_cfg_checked.2.1 ds fuel doc text

/-- ff23d67, F-C20-5 (second drill): `components: {headers: null}` with `$ref: '#/components/headers/H'` — the
    raw re-read ends at `null` and fails (the first error is returned) -/
def docNullMember : JV := .obj [("components", .obj [("headers", .null)])]

set_option maxRecDepth 100000 in
theorem regression_raw_reread_null :
    (drillRaw { root := docNullMember, files := [], ext := false, hasPath := true } 0 ["components", "headers", "H"]).isNone = true := by
  decide +kernel

def jEncHeader : JV := .obj [("content", .obj [("multipart/form-data", .obj [("encoding", .obj [("f", .obj [("headers", .obj [("X", .obj [("$ref", .str "#/components/headers/H")])])])])])])]
def jParamExamples : JV := .obj [("name", .str "p"), ("examples", .obj [("e", .obj [("$ref", .str "#/components/examples/E")]), ("n", .null)])]
def jCompLinks : JV := .obj [("components", .obj [("links", .obj [("L", .obj [("$ref", .str "#/components/links/M")])])])]

set_option maxRecDepth 100000 in
/-- cbb0d05, F-C20-4 / F-C20-11 / F-C20-6: the loader's walk now visits the headers of an encoding, the
    examples of a parameter and `components.links`; a `null` example is an empty wrapper (`errMUSTExample`) -/
theorem regression_walk_positions :
    (refIdsOf (toNode 10 0 .requestBody 1 jEncHeader)).length = 1 ∧
    (refIdsOf (toNode 10 0 .parameter 1 jParamExamples)).length = 1 ∧
    ((toNode 10 0 .parameter 1 jParamExamples).kids.any (fun k => k.empty && k.kind == .example)) = true ∧
    (refIdsOfs (rootNodes 0 jCompLinks)).length = 1 := by
  decide +kernel

end DrillRegressions

/-- non-vacuity: a recursive schema (`Pet.parent → Pet`), a parameter and a response using it, a dangling
    text elsewhere — the hypotheses hold, the bound is met, the load succeeds, every reference gets its value
    and its location, nothing stays in progress -/
def wOk : World where
  texts := [1, 2]
  target := fun _ t k =>
    if t = 1 ∧ k = .schema then .wrapper (.mk 10 0 .schema none false [.mk 12 0 .schema (some 1) false [], .mk 14 0 .schema (some 2) false []])
    else if t = 2 ∧ k = .schema then .wrapper (.mk 20 0 .schema none false [])
    else .err

def rootsOk : List Node := [
  .mk 30 0 .parameter none false [.mk 32 0 .schema (some 1) false []],
  .mk 10 0 .schema none false [.mk 12 0 .schema (some 1) false [], .mk 14 0 .schema (some 2) false []],
  .mk 20 0 .schema none false [],
  .mk 40 0 .pathItem none false [.mk 42 0 .response none false [.mk 44 0 .schema (some 1) false []]]]

theorem nonvacuous_hypotheses : cfgChecked.assertsChecked ∧ NoNilTarget wOk ∧ Bounded wOk 3 := by
  refine ⟨fun _ => rfl, ?_, ?_, ?_⟩
  · intro d t k
    simp only [wOk]
    split <;> (try split) <;> simp [Tgt.panics]
  · intro d t k ht
    simp only [wOk, List.mem_cons, List.not_mem_nil, or_false, not_or] at ht ⊢
    simp [ht.1, ht.2]
  · intro d t k n h
    simp only [wOk] at h
    split at h
    · simp [Tgt.node?] at h; subst h; decide
    · split at h
      · simp [Tgt.node?] at h; subst h; decide
      · simp [Tgt.node?] at h

theorem nonvacuous_load :
    (match load cfgChecked wOk 20 rootsOk with
     | .ok st => [32, 12, 14, 44].all (fun i => st.value.contains i && st.pathed.contains i) && st.inprog.isEmpty
     | _ => false) = true := by
  decide

/-- the same under the keyed in-progress set of 7245059 -/
theorem nonvacuous_load_keyed :
    (match load cfgKeyed wOk 20 rootsOk with
     | .ok st => [32, 12, 14, 44].all (fun i => st.value.contains i && st.pathed.contains i) && st.inprog.isEmpty && st.pending.isEmpty
     | _ => false) = true := by
  decide

/-! ## `(*Schema).validate`: the threaded stack makes the descent total on every graph -/

/-- for every schema graph whose edges stay inside the finite list `nodes` (cycles allowed, e.g. through
    `not`), `validate` started anywhere with any stack returns with `#unvisited + 1` fuel, and the stack it
    returns extends the one it got -/
theorem validate_total (g : Graph) (nodes : List Nat) (hc : Closed g nodes) (fuel i : Nat) (stack : List Nat)
    (hi : i ∈ nodes) (hf : unvisitedCount nodes stack + 1 ≤ fuel) :
    ∃ s', validate g fuel i stack = some s' ∧ ∀ x ∈ stack, x ∈ s' :=
  validate_total_aux g nodes hc fuel i stack hi hf

/-- `Schema.Validate` (empty stack): `|nodes| + 1` fuel suffices -/
theorem validate_total_from_empty (g : Graph) (nodes : List Nat) (hc : Closed g nodes) (i : Nat) (hi : i ∈ nodes) :
    (validate g (nodes.length + 1) i []).isSome = true := by
  have hu : unvisitedCount nodes [] ≤ nodes.length := by unfold unvisitedCount; exact List.length_filter_le _ _
  obtain ⟨s', h, _⟩ := validate_total_aux g nodes hc (nodes.length + 1) i [] hi (by omega)
  simp [h]

/-- why the table obligation `validateEdges_thread_stack` matters: if one edge starts from a fresh stack
    (`v.Validate(ctx)` instead of `v.validate(ctx, stack)`), a cycle through that edge exhausts every fuel -/
theorem validate_needs_threading (fuel : Nat) :
    validateDropping (fun _ => [0]) (fun _ _ => true) fuel 0 [] = none :=
  validateDropping_selfloop fuel

/-- non-vacuity: a graph with a self-loop (`D: {not: {$ref: D}}`), a 2-cycle and a chain -/
theorem validate_example : validate (fun i => if i = 0 then [0] else if i = 1 then [2, 0] else if i = 2 then [1] else []) 4 1 [] = some [1, 2, 0] := by
  decide

/-! ## `InternalizeRefs` terminates on every object graph — full strength (1c81ad5; what is left of finding
    CallbackCycle is the serialisation AFTER it, see the unguarded descent below) -/

/-- the objects `InternalizeRefs` descends through, cyclic or not (a callback whose path item refers back to
    the path item of its operation, recursive schemas, headers whose content has encodings with headers):
    when the rank decreases along every edge out of an object whose function has no visited set, the
    descent returns with `#unvisited guarded · (R+2) + rank + 1` fuel. `derefSchema`, `derefHeaders`,
    `derefPaths` (1c81ad5) are guarded; the other `deref…` functions call each other without a cycle
    (`deref_cycles_guarded`), which is the rank. -/
theorem internalize_total (g : Graph) (guarded : Nat → Bool) (rank : Nat → Nat) (hr : UnguardedRanked g guarded rank)
    (nodes : List Nat) (hc : Closed g nodes) (R : Nat) (hR : ∀ i ∈ nodes, rank i ≤ R) (fuel i : Nat) (vis : List Nat)
    (hi : i ∈ nodes) (hf : unvisitedCount (nodes.filter guarded) vis * (R + 2) + rank i + 1 ≤ fuel) :
    ∃ s', gdescend g guarded fuel i vis = some s' ∧ ∀ x ∈ vis, x ∈ s' :=
  gdescend_total_aux g guarded rank hr nodes hc R hR fuel i vis hi hf

/-- finding F-C20-10 (CallbackCycle), the part repaired by 1c81ad5: `paths./a.get.callbacks.c = $ref C`, `C./cb = $ref #/paths/~1a` —
    object 0 is the path item `/a`, object 1 its operation's callback, whose path item is object 0 again
    (the loader's copy shares the operations). With `derefPaths` guarded the descent returns; without the
    visited set (the code before 1c81ad5) no amount of fuel suffices. -/
theorem regression_callback_cycle :
    gdescend (fun i => if i = 0 then [1] else [0]) (fun i => i == 0) 4 0 [] = some [0] ∧
    ∀ fuel, gdescend (fun _ => [0]) (fun _ => false) fuel 0 [] = none := by
  exact ⟨by decide, gdescend_selfloop⟩

/-- non-vacuity of `internalize_total`: the graph above satisfies its hypotheses -/
theorem internalize_example :
    UnguardedRanked (fun i => if i = 0 then [1] else [0]) (fun i => i == 0) (fun i => if i = 0 then 0 else 1) ∧
    Closed (fun i => if i = 0 then [1] else [0]) [0, 1] := by
  constructor
  · intro i hg c hc
    have h0 : i ≠ 0 := by intro h; subst h; simp at hg
    simp [h0] at hc; subst hc; simp [h0]
  · intro i hi c hc
    by_cases h0 : i = 0
    · subst h0; simp at hc; subst hc; simp
    · simp [h0] at hc; subst hc; simp

/-! ## unguarded descents: `visitJSON` through compositions, `(*Header).Validate` through content → encoding →
    headers, `MarshalJSON` through the path items of inline callbacks after InternalizeRefs cleared their `$ref`
    — partial (findings CompositionCycle, HeaderCycle, CallbackCycle) -/

/-- Full statement `∀ g stop i, ∃ fuel, (descend g stop fuel i).isSome` is false (witness below).
    Under `Ranked` (no cycle through non-stopping nodes) the descent terminates with `rank i + 1` fuel. -/
theorem descend_total_partial (g : Graph) (stop : Nat → Bool) (rank : Nat → Nat) (hr : Ranked g stop rank)
    (fuel i : Nat) (h : rank i + 1 ≤ fuel) : ∃ b, descend g stop fuel i = some b :=
  descend_total_aux g stop rank hr fuel i h

/-- finding CompositionCycle: `A: {allOf: [{$ref: A}], default: 1}` — `visitXOFOperations` calls `visitJSON`
    of the sub-schema with the same value and no visited set; finding CallbackCycle:
    `paths./a.get.callbacks.c./cb = {$ref: '#/paths/~1a'}` — after InternalizeRefs `PathItem.MarshalJSON` reaches
    the `*Operation` it came from; finding HeaderCycle: `H: {content: {m: {encoding: {f: {headers: {X: {$ref: H}}}}}}}` —
    `Header.Validate` reaches itself: no amount of fuel suffices, and no rank exists -/
theorem witness_unguarded_cycle :
    (∀ fuel, descend (fun _ => [0]) (fun _ => false) fuel 0 = none) ∧
    ¬ ∃ rank, Ranked (fun _ => [0]) (fun _ => false) rank := by
  refine ⟨descend_selfloop _ _ 0 rfl rfl, ?_⟩
  intro ⟨rank, hr⟩
  have := hr 0 rfl 0 (by simp)
  omega

/-- non-vacuity, and former finding F-C20-8 (EmptyCycle, repaired by 08457da): a descent that stops at once
    (`visitJSON` now asks `!hasSubSchemas()` BEFORE `IsEmpty()`, so `IsEmpty` is only entered for schemas
    without sub-schemas) terminates although the graph is cyclic -/
theorem descend_example :
    Ranked (fun i => if i = 0 then [1] else if i = 1 then [0] else []) (fun i => i == 1) (fun i => if i = 0 then 1 else 0) ∧
    descend (fun i => if i = 0 then [1] else if i = 1 then [0] else []) (fun i => i == 1) 2 0 = some false ∧
    descend (fun _ => [0]) (fun _ => true) 1 0 = some false := by
  refine ⟨?_, by decide, by decide⟩
  intro i hs c hc
  by_cases h0 : i = 0
  · subst h0; simp at hc; subst hc; simp
  · by_cases h1 : i = 1
    · subst h1; simp at hs
    · simp [h0, h1] at hc

/-! ## `InternalizeRefs` does not panic — full strength since 05c5875 (findings Unresolved, UnwalkedRef repaired) -/

section Internalize
open KinModel.LoadDoc

/-- the loader's invariant: a wrapper that has a value has a location (`refPath`) — `component.Value = …` is
    always followed by `setRefPath`, a callback sets both, `setPathRef(cursor)` only adds locations -/
theorem load_valued_pathed (cfg : Cfg) (w : World) (fuel : Nat) (roots : List Node) (st : St)
    (h : load cfg w fuel roots = .ok st) : ValuedPathed st := by
  unfold load at h
  have := stepKids_st (resolve cfg w fuel) Carries (fun _ x => x) (fun _ _ _ f g x => g (f x)) roots St.init st
    (fun k _ s s' hk => resolve_vp cfg w fuel k s s' hk) (by simp [h, Res.st?])
  exact this (by intro i hi; simp [St.init] at hi)

/-- `add<Kind>ToSpec` hands a wrapper to `DefaultRefNameResolver` (which panics when `RefPath() == nil`) only
    when it has a value (05c5875), and a wrapper with a value has a location: the call returns for every
    wrapper, every text and every `parentIsExternal` -/
theorem addToSpec_total (cfg : Cfg) (hg : cfg.internValueGuard = true) (st : St) (hv : ValuedPathed st)
    (doc h : Nat) (j : JV) (pe : Bool) : ∃ b, addToSpec cfg st doc h j pe = .ok b := by
  unfold addToSpec
  split
  · exact ⟨false, rfl⟩
  · simp only [hg, Bool.true_and]
    by_cases hval : st.value.contains (nodeId doc h) = true
    · have hp : st.pathed.contains (nodeId doc h) = true := by
        simp only [List.contains_iff_mem] at hval ⊢
        exact hv _ hval
      simp only [hval, Bool.not_true, Bool.false_eq_true, if_false, hp, if_true]
      split
      · exact ⟨true, rfl⟩
      · exact ⟨false, rfl⟩
    · simp only [Bool.not_eq_true] at hval
      simp only [hval, Bool.not_false, if_true]
      exact ⟨false, rfl⟩

/-- for EVERY parsed document: whatever state a successful load of the model ends in, no `add<Kind>ToSpec`
    call of InternalizeRefs panics -/
theorem doc_internalize_no_panic (ds : Docs) (st : St) (h : (build codeCfg ds).load = .ok st)
    (doc hh : Nat) (j : JV) (pe : Bool) : ∃ b, addToSpec codeCfg st doc hh j pe = .ok b :=
  addToSpec_total codeCfg code_cfg_checked.2.2.2.2.2.1 st
    (load_valued_pathed codeCfg _ loadFuel _ st (by unfold Built.load at h; exact h)) doc hh j pe

/-- former finding Unresolved (F-C20-5): `T: {$ref: "#"}` — the text resolves to the empty extension map,
    re-decoded into an empty wrapper: `errMUSTSchema`, swallowed BEFORE `setRefPath`; the load succeeds, `T` has
    neither value nor location (and the key stays in `visitedRefs`) — which 05c5875 made harmless -/
def wHash : World where
  texts := [5]
  target := fun _ t _ => if t = 5 then .raw (.mk 8 0 .schema none true []) else .err

theorem unresolved_pathless_still_loads :
    (match load cfgNow wHash 10 [.mk 2 0 .schema (some 5) false []] with
     | .ok st => !st.value.contains 2 && !st.pathed.contains 2 && st.inprog.contains (some .schema, 5)
     | _ => false) = true := by
  decide

/-- 3c3716e: the sentinel raised by a null member BELOW the re-decoded target (`B: {$ref: '#/x-z'}`,
    `x-z: {properties: {p: null}}`) is no longer swallowed: the load fails; before, `B` was left unresolved -/
def wSwallow : World where
  texts := [5]
  target := fun _ t _ => if t = 5 then .raw (.mk 8 0 .schema none false [.mk 10 0 .schema none true []]) else .err

theorem regression_swallow_only_empty :
    load cfgNow wSwallow 10 [.mk 2 0 .schema (some 5) false []] = .errMust .schema ⟨[], [], [(some .schema, 5)], []⟩ ∧
    (match load cfgKeyed wSwallow 10 [.mk 2 0 .schema (some 5) false []] with | .ok st => !st.value.contains 2 | _ => false) = true := by
  decide

set_option maxRecDepth 100000 in
/-- the name resolver was reached with such a wrapper before 05c5875 (the model's outcome was the panic); with the
    value test of the code as it is now the call returns -/
theorem regression_name_resolver :
    (match addToSpec oldCfg St.init 0 7 (.obj [("$ref", .str "#")]) false with | .error _ => true | .ok _ => false) = true ∧
    (match addToSpec oldCfg St.init 0 7 (.obj [("$ref", .str "#/components/parameters/P")]) true with | .error _ => true | .ok _ => false) = true ∧
    (match addToSpec codeCfg St.init 0 7 (.obj [("$ref", .str "#")]) false with | .error _ => false | .ok b => !b) = true ∧
    (match addToSpec codeCfg St.init 0 7 (.obj [("$ref", .str "#/components/parameters/P")]) true with | .error _ => false | .ok b => !b) = true := by
  refine ⟨by decide +kernel, by decide +kernel, by decide +kernel, by decide +kernel⟩

def jRefAndContent : JV := .obj [("$ref", .str "#/paths/~1b"), ("get", .obj [("parameters", .arr [.obj [("$ref", .str "#/components/parameters/P")]])])]

set_option maxRecDepth 100000 in
/-- former finding UnwalkedRef (F-C20-11): a path item with `$ref` AND content of its own —
    `resolvePathItemRef` returns at `!pathItem.isEmpty()`, the walk gives it no children, so the parameter
    reference below it is never resolved, while `derefPaths` does descend into it with `pathIsExternal` -/
theorem witness_unwalked_path_item :
    (toNode 10 0 .pathItem 1 jRefAndContent).kids.length = 0 ∧ (toNode 10 0 .pathItem 1 jRefAndContent).ref.isNone = true ∧
    (toNode 10 0 .pathItem 1 (.obj [("get", .obj [("parameters", .arr [.obj [("$ref", .str "#/components/parameters/P")]])])])).kids.length = 1 := by
  decide +kernel

end Internalize

/-! ## whole documents, kernel-evaluated: the former witnesses (regressions: model = spec), the witnesses of
    the open findings (model ≠ spec, inside the exclusion class), non-vacuity -/

section Documents
open KinModel.LoadDoc

def mkDs (root : JV) (hasPath : Bool := false) : Docs := { root := root, files := [], ext := false, hasPath := hasPath }
def isOk : Res → Bool | .ok _ => true | _ => false

/-- F-C20-1: `A: {$ref: R}`, `R: {headers: {h: {$ref: R}}}` — while `A` resolves the text of `R` as a response,
    the header `h` meets the same text (corpus f01_kindclash_in_progress) -/
def dKindClash : JV := .obj [("components", .obj [("responses", .obj [
  ("A", .obj [("$ref", .str "#/components/responses/R")]),
  ("R", .obj [("description", .str "r"), ("headers", .obj [("h", .obj [("$ref", .str "#/components/responses/R")])])])])]), ("paths", .obj [])]
/-- F-C20-4: an encoding header given by `$ref` (corpus f04_encoding_header_ref) -/
def dEncHeader : JV := .obj [
  ("components", .obj [("headers", .obj [("H", .obj [("schema", .obj [("type", .str "string")])])])]),
  ("paths", .obj [("/a", .obj [("post", .obj [("requestBody", jEncHeader), ("responses", .obj [("200", .obj [("description", .str "ok")])])])])])]
/-- F-C20-6: `examples: {e: null}` in a media type (corpus f06_null_example) -/
def dNullExample : JV := .obj [("paths", .obj [("/a", .obj [("post", .obj [("requestBody", .obj [("content", .obj [("application/json", .obj [("examples", .obj [("e", .null)])])])])])])])]
/-- F-C20-7: null members (corpus f07_null_members) -/
def dNullMembers : JV := .obj [("servers", .arr [.null]), ("tags", .arr [.null]),
  ("paths", .obj [("/a", .obj [("$ref", .str "#/paths/~1b"), ("parameters", .arr [.null])]), ("/b", .obj [("get", .obj [("responses", .obj [("200", .obj [("description", .str "ok")])])])])])]
/-- F-C20-10: a callback whose path item refers back to the path item of its operation (corpus f10_callback_cycle) -/
def dCallbackCycle : JV := .obj [
  ("components", .obj [("callbacks", .obj [("C", .obj [("/cb", .obj [("$ref", .str "#/paths/~1a")])])])]),
  ("paths", .obj [("/a", .obj [("get", .obj [("callbacks", .obj [("c", .obj [("$ref", .str "#/components/callbacks/C")])]),
     ("responses", .obj [("200", .obj [("description", .str "ok")])])])])])]
/-- F-C20-11: `components.links.L: {$ref: …}` (corpus f11_unwalked_components_links) -/
def dCompLinks : JV := .obj [("components", .obj [("links", .obj [("L", .obj [("$ref", .str "#/components/links/M")]), ("M", .obj [("operationId", .str "x")])])]), ("paths", .obj [])]
/-- F-C20-8: a cycle of schemas without own keywords below an example (corpus f08_empty_cycle_properties_example) -/
def dEmptyCycle : JV := .obj [("components", .obj [("schemas", .obj [("A", .obj [("properties", .obj [("n", .obj [("$ref", .str "#/components/schemas/A")])]), ("example", .obj [])])])]), ("paths", .obj [])]
/-- path-item references: a chain, a 2-cycle and a self-reference (9b25d89) -/
def dPathItemRefs : JV := .obj [("paths", .obj [
  ("/a", .obj [("$ref", .str "#/paths/~1b")]), ("/b", .obj [("$ref", .str "#/paths/~1c")]),
  ("/c", .obj [("get", .obj [("responses", .obj [("200", .obj [("description", .str "ok")])])])]),
  ("/d", .obj [("$ref", .str "#/paths/~1e")]), ("/e", .obj [("$ref", .str "#/paths/~1d")]), ("/f", .obj [("$ref", .str "#/paths/~1f")])])]

/-- former part of finding Unresolved, left by a04fe6c and repaired by 7245059: the callback of another kind
    (corpus f05_kind_mismatch_ignored) -/
def dMix : JV := .obj [("components", .obj [("responses", .obj [("R", .obj [("$ref", .str "#/x-r")])])]), ("paths", .obj []),
  ("x-r", .obj [("description", .str "d"), ("headers", .obj [("h", .obj [("$ref", .str "#/x-r")])])])]

/-- finding Unresolved: `T: {$ref: "#"}` (corpus f05_ref_hash) -/
def dHash : JV := .obj [("components", .obj [("schemas", .obj [("T", .obj [("$ref", .str "#")])])]), ("paths", .obj [])]
/-- finding Unresolved: a reference into an extension member whose sub-schema is null — the sentinel is swallowed
    before `setRefPath` (corpus f05_kind_mismatch_ignored, third case) -/
def dSwallow : JV := .obj [("components", .obj [("schemas", .obj [("B", .obj [("$ref", .str "#/x-z")])])]), ("paths", .obj []),
  ("x-z", .obj [("properties", .obj [("p", .null)])])]
/-- finding UnwalkedRef: a path item with `$ref` and content (corpus f11_pathitem_ref_and_content) -/
def dRefAndContent : JV := .obj [
  ("components", .obj [("parameters", .obj [("P", .obj [("name", .str "p"), ("in", .str "query"), ("schema", .obj [("type", .str "string")])])])]),
  ("paths", .obj [("/a", .obj [("$ref", .str "#/paths/~1b"), ("get", .obj [("parameters", .arr [.obj [("$ref", .str "#/components/parameters/P")]]),
      ("responses", .obj [("200", .obj [("description", .str "ok")])])])]),
    ("/b", .obj [("get", .obj [("responses", .obj [("200", .obj [("description", .str "ok")])])])])])]
/-- finding CompositionCycle: `A: {type: object, allOf: [{$ref: A}], default: {}}` (corpus f09_composition_cycle_default) -/
def dComposition : JV := .obj [("openapi", .str "3.0.0"), ("components", .obj [("schemas", .obj [("A", .obj [("type", .str "object"),
  ("allOf", .arr [.obj [("$ref", .str "#/components/schemas/A")]]), ("default", .obj [])])])]), ("paths", .obj [])]

/-- finding CallbackCycle, what 1c81ad5 left: an INLINE callback whose path item refers back to the path item of
    its operation (corpus f10_inline_callback_cycle) -/
def dInlineCallbackCycle : JV := .obj [("paths", .obj [("/a", .obj [("get", .obj [
  ("callbacks", .obj [("c", .obj [("/cb", .obj [("$ref", .str "#/paths/~1a")])])]),
  ("responses", .obj [("200", .obj [("description", .str "ok")])])])])])]

/-- finding HeaderCycle (new with 78418b3 + cbb0d05): a header that is a header of an encoding of its own content
    (corpus f12_header_cycle) -/
def dHeaderCycle : JV := .obj [("openapi", .str "3.0.0"), ("components", .obj [("headers", .obj [("H", .obj [("content", .obj [
  ("multipart/form-data", .obj [("encoding", .obj [("f", .obj [("headers", .obj [("X", .obj [("$ref", .str "#/components/headers/H")])])])])])])])])]), ("paths", .obj [])]

set_option maxRecDepth 1000000 in
/-- the repaired findings: on every former witness the model's outcome is the spec's (`[]`: every operation
    returns normally); what the load returns is stated next to it -/
theorem regression_documents :
    (outcome codeCfg (mkDs dKindClash)).abnormal = specAbnormal ∧ (outcome codeCfg (mkDs dKindClash)).load = .err ∧
    (outcome codeCfg dsNilTarget).abnormal = specAbnormal ∧ (outcome codeCfg dsNilTarget).load = .err ∧
    (outcome codeCfg dsDrillNil).abnormal = specAbnormal ∧ (outcome codeCfg dsDrillNil).load = .err ∧
    (outcome codeCfg (mkDs dEncHeader)).abnormal = specAbnormal ∧ isOk (outcome codeCfg (mkDs dEncHeader)).load = true ∧
    (outcome codeCfg (mkDs docNullMember true)).abnormal = specAbnormal ∧
    (outcome codeCfg (mkDs dNullExample)).abnormal = specAbnormal ∧ (outcome codeCfg (mkDs dNullExample)).load.normal = true ∧
    (outcome codeCfg (mkDs dNullMembers)).abnormal = specAbnormal ∧
    (outcome codeCfg (mkDs dCallbackCycle)).abnormal = specAbnormal ∧ isOk (outcome codeCfg (mkDs dCallbackCycle)).load = true ∧
    (outcome codeCfg (mkDs dCompLinks)).abnormal = specAbnormal ∧ isOk (outcome codeCfg (mkDs dCompLinks)).load = true ∧
    (outcome codeCfg (mkDs dEmptyCycle)).abnormal = specAbnormal ∧
    (outcome codeCfg (mkDs dPathItemRefs)).abnormal = specAbnormal ∧ isOk (outcome codeCfg (mkDs dPathItemRefs)).load = true ∧
    (outcome codeCfg (mkDs dMix)).abnormal = specAbnormal ∧ isOk (outcome codeCfg (mkDs dMix)).load = true ∧
    (outcome codeCfg (mkDs dHash)).abnormal = specAbnormal ∧ isOk (outcome codeCfg (mkDs dHash)).load = true ∧
    (outcome codeCfg (mkDs dSwallow)).abnormal = specAbnormal ∧ (outcome codeCfg (mkDs dSwallow)).load.normal = true ∧ isOk (outcome codeCfg (mkDs dSwallow)).load = false ∧
    (outcome codeCfg (mkDs dRefAndContent)).abnormal = specAbnormal ∧ isOk (outcome codeCfg (mkDs dRefAndContent)).load = true ∧
    (outcome codeCfg (mkDs dHeaderCycle)).abnormal = specAbnormal ∧ isOk (outcome codeCfg (mkDs dHeaderCycle)).load = true := by
  decide +kernel

set_option maxRecDepth 1000000 in
/-- the same documents under the configuration of the code before a04fe6c / 25200f7: the loader model panics —
    what the table obligations `asserts_comma_ok` and `code_cfg_checked` protect against -/
theorem old_code_panics_on_them :
    (match (outcome oldCfg (mkDs dKindClash)).load with | .panic .assertKind => true | _ => false) = true ∧
    (match (outcome oldCfg dsNilTarget).load with | .panic .typedNil => true | _ => false) = true ∧
    (match (outcome oldCfg dsDrillNil).load with | .panic .drill => true | _ => false) = true := by
  decide +kernel

set_option maxRecDepth 1000000 in
/-- the open findings: the load succeeds, the model's outcome is not the spec's, and exactly the class of the
    finding holds -/
theorem witness_documents :
    (outcome codeCfg (mkDs dComposition)).abnormal = ["crash:visit"] ∧ (outcome codeCfg (mkDs dComposition)).excl = ["CompositionCycle"] ∧
    isOk (outcome codeCfg (mkDs dInlineCallbackCycle)).load = true ∧ (outcome codeCfg (mkDs dInlineCallbackCycle)).hit.isNone = true ∧
    (outcome codeCfg (mkDs dInlineCallbackCycle)).abnormal = ["crash:marshal"] ∧ (outcome codeCfg (mkDs dInlineCallbackCycle)).excl = ["CallbackCycle"] ∧
    specAbnormal = [] := by
  decide +kernel

/-- the code of round 2 (before 3c3716e, 05c5875, 4c7d612) -/
def cfgRound2 : Cfg := { codeCfg with swallowOnlyEmpty := false, internValueGuard := false, headerStack := false }

set_option maxRecDepth 1000000 in
/-- what the three repairs of this round removed: on the former witnesses the model of the code before them
    ends abnormally inside exactly the former class — what `code_cfg_checked` protects against -/
theorem round2_code_failed_on_them :
    (outcome cfgRound2 (mkDs dHash)).abnormal = ["post"] ∧ (outcome cfgRound2 (mkDs dHash)).excl = ["Unresolved"] ∧
    (outcome cfgRound2 (mkDs dSwallow)).abnormal = ["post"] ∧ (outcome cfgRound2 (mkDs dSwallow)).excl = ["Unresolved"] ∧
    (outcome cfgRound2 (mkDs dRefAndContent)).abnormal = ["post"] ∧ (outcome cfgRound2 (mkDs dRefAndContent)).excl = ["UnwalkedRef"] ∧
    (outcome cfgRound2 (mkDs dHeaderCycle)).abnormal = ["crash:validate"] ∧ (outcome cfgRound2 (mkDs dHeaderCycle)).excl = ["HeaderCycle"] := by
  decide +kernel

/-- non-vacuity: a document with a recursive schema, a parameter, a response with a header, a link and an
    example by reference: no class holds, the load succeeds and resolves every reference -/
def dPlain : JV := .obj [
  ("components", .obj [
    ("schemas", .obj [("Pet", .obj [("type", .str "object"), ("properties", .obj [("parent", .obj [("$ref", .str "#/components/schemas/Pet")])])])]),
    ("headers", .obj [("H", .obj [("schema", .obj [("type", .str "string")])])]),
    ("examples", .obj [("E", .obj [("value", .num "nz")])]),
    ("links", .obj [("L", .obj [("operationId", .str "x")])]),
    ("parameters", .obj [("P", .obj [("name", .str "p"), ("in", .str "query"), ("schema", .obj [("$ref", .str "#/components/schemas/Pet")]),
        ("examples", .obj [("e", .obj [("$ref", .str "#/components/examples/E")])])])])]),
  ("paths", .obj [("/a", .obj [("get", .obj [("parameters", .arr [.obj [("$ref", .str "#/components/parameters/P")]]),
    ("responses", .obj [("200", .obj [("description", .str "ok"), ("headers", .obj [("h", .obj [("$ref", .str "#/components/headers/H")])]),
        ("links", .obj [("l", .obj [("$ref", .str "#/components/links/L")])])])])])])])]

set_option maxRecDepth 1000000 in
theorem nonvacuous_document :
    (outcome codeCfg (mkDs dPlain)).abnormal = specAbnormal ∧ (outcome codeCfg (mkDs dPlain)).excl = [] ∧
    (match (outcome codeCfg (mkDs dPlain)).load with
     | .ok st => (refIdsOfs (build codeCfg (mkDs dPlain)).roots).length == 6 &&
                 (refIdsOfs (build codeCfg (mkDs dPlain)).roots).all (fun i => st.value.contains i && st.pathed.contains i) && st.inprog.isEmpty
     | _ => false) = true := by
  decide +kernel

/-! ### typed decoding, the certain part (round 5): where a typed position of the root document holds a JSON kind its
Go type never accepts, the load ends with an error before any reference is resolved — no stage ends abnormally -/

/-- full strength, every configuration and document set: a certain decoding misfit makes the model's load an error,
    no exclusion class holds and no stage is abnormal (the crash classes need a loaded document) -/
theorem decode_misfit_fails_load (cfg : Cfg) (ds : Docs) (h : decodeMisfit (docPositions ds.root) = true) :
    (outcome cfg ds).load = .err ∧ (outcome cfg ds).abnormal = specAbnormal ∧ (outcome cfg ds).excl = [] := by
  simp [outcome, h, specAbnormal, unresolvedHit, unwalkedHit]

/-- without a misfit the load outcome is the loader model's -/
theorem decode_fit_load (cfg : Cfg) (ds : Docs) (h : decodeMisfit (docPositions ds.root) = false) :
    (outcome cfg ds).load = (build cfg ds).load := by
  simp [outcome, h]

/-- table obligations: every entry of the regenerated list of plain scalar fields is a tagged field of the struct
    table whose structural type is a scalar or a pointer to one; the fields the differential run met are in it -/
theorem plain_scalars_are_scalar_fields :
    Gen.c20PlainScalars.all (fun s => Gen.c20Fields.any (fun f => f.owner ++ "." ++ f.tag == s && (f.ty == .scalar || f.ty == .ptr .scalar))) = true := by
  decide +kernel

/-- the kind list names exactly the plain scalar fields, with one of the three kinds each -/
theorem scalar_kinds_cover :
    Gen.c20ScalarKinds.map (·.1) = Gen.c20PlainScalars ∧
    Gen.c20ScalarKinds.all (fun r => r.2 == "string" || r.2 == "bool" || r.2 == "num") = true := by
  decide +kernel

theorem plain_scalars_cover :
    ["T.openapi", "Info.title", "Info.version", "Info.description", "Response.description"].all Gen.c20PlainScalars.contains = true := by
  decide +kernel

/-- the composition cycle of finding CompositionCycle below an `info.version` that is an object: the real load fails
    in the typed decoding (`cannot unmarshal object into field Info.version of type string`), and so does the model's
    (before round 5 the model loaded the document and predicted the crash of Validate) -/
def dCompositionMisfit : JV := .obj [("openapi", .str "3.0.0"), ("info", .obj [("title", .str "t"), ("version", .obj [])]),
  ("components", .obj [("schemas", .obj [("A", .obj [("type", .str "object"),
  ("allOf", .arr [.obj [("$ref", .str "#/components/schemas/A")]]), ("default", .obj [])])])]), ("paths", .obj [])]

theorem decode_misfit_witness :
    decodeMisfit (docPositions dCompositionMisfit) = true ∧ (outcome codeCfg (mkDs dCompositionMisfit)).load = .err ∧
    (outcome codeCfg (mkDs dCompositionMisfit)).excl = [] ∧
    -- each rule: array at a map, string at an object struct, number at a wrapper, object at a pointer to a scalar
    decodeMisfit (docPositions (.obj [("components", .obj [("schemas", .arr [])])])) = true ∧
    decodeMisfit (docPositions (.obj [("paths", .str "x")])) = true ∧
    -- a number at a string, a string at a number, a string at a bool
    decodeMisfit (docPositions (.obj [("info", .obj [("version", .num "1")])])) = true ∧
    decodeMisfit (docPositions (.obj [("components", .obj [("schemas", .obj [("S", .obj [("minLength", .str "3")])])])])) = true ∧
    decodeMisfit (docPositions (.obj [("components", .obj [("schemas", .obj [("S", .obj [("nullable", .str "x")])])])])) = true ∧
    decodeMisfit (docPositions (.obj [("components", .obj [("headers", .obj [("H", .num "1")])])])) = true ∧
    decodeMisfit (docPositions (.obj [("components", .obj [("responses", .obj [("R", .obj [("description", .obj [])])])])])) = true := by
  decide +kernel

/-- non-vacuity of the other side: the witness of CompositionCycle itself, null members, a wrapper written as a
    reference, a boolean `additionalProperties` and a `type` written as a string are no misfit -/
example : decodeMisfit (docPositions dComposition) = false ∧
    decodeMisfit (docPositions (.obj [("info", .null), ("paths", .obj [("/a", .null)]), ("components", .obj [("schemas", .obj [
      ("A", .obj [("$ref", .str "#/x")]), ("B", .obj [("type", .str "object"), ("additionalProperties", .bool true), ("example", .arr [])])])])])) = false := by
  decide +kernel

end Documents

/-! ## obligations over the regenerated tables -/

/-- the extractor read every field type of every struct of package openapi3 -/
theorem types_all_recognised : Gen.c20Fields.all (fun f => f.ty.recognised) = true := by decide

/-- every resolver was read (one `var resolved T`, one assertion in its backtrack callback) -/
theorem resolvers_all_recognised :
    Gen.c20Resolvers.length = 10 ∧ Gen.c20Resolvers.all (fun r => r.resolved != "unrecognised") = true := by decide

/-- a04fe6c: the assertion in EVERY backtrack callback has the comma-ok form, and asserts the value type of
    its own resolver's wrapper -/
theorem asserts_comma_ok :
    Gen.c20Resolvers.all (fun r => r.commaOk &&
      ((r.asserted == "*PathItem" && r.resolved == "PathItem") ||
       (Gen.c20Wrappers.any (fun w => w.1 == r.resolved && w.2 == .ptr (.struct (r.asserted.drop 1).copy))))) = true := by decide

/-- every resolver starts with its `isEmpty()` / nil test (cbb0d05 added the one of `resolveExampleRef`):
    the model's `if empty then errMust` for every kind -/
theorem resolvers_check_empty :
    Gen.c20EmptyChecks.length = 10 ∧
    Gen.c20EmptyChecks.all (fun e => e.2 == "component.isEmpty()" || (e.1 == "resolvePathItemRef" && e.2 == "pathItem == nil")) = true := by decide

/-- every `resolved` argument handed to `resolveComponent` is a type `readableType` lists: its
    `panic("unreachable")` is unreachable -/
theorem resolved_types_readable :
    Gen.c20Resolvers.all (fun r => Gen.c20Readable.contains ("*" ++ r.resolved)) = true := by decide

/-- the only other unchecked assertion of loader.go reads `Extensions`, declared `map[string]any` in every struct that has it first -/
theorem other_asserts_known :
    Gen.c20OtherAsserts = [("drillIntoField", "val.Field(0).Interface().(map[string]any)")] := by decide

/-- explicit panics: `readableType` (unreachable by `resolved_types_readable`) and `DefaultRefNameResolver`
    (reached by the findings Unresolved / UnwalkedRef) — no other -/
theorem explicit_panics_known :
    Gen.c20ExplicitPanics = [("loader.go", "readableType"), ("internalize_refs.go", "DefaultRefNameResolver")] := by decide

/-- the conditions of the drill closure are the ones the drill-down model was written from -/
theorem drill_conditions_known :
    Gen.c20DrillConds = ["pathPart == \"\"", "pathPart == \"additionalProperties\" && c.Value != nil", "ap != nil",
      "!attempted", "err != nil", "cursor == nil || isNilPointer(cursor)"] := by decide

/-- every recursive call of `(*Schema).validate` on a sub-schema (`….Value`) is `validate`, passes the
    stack and assigns the returned stack back — the hypothesis under which `validate_total` models the code -/
theorem validateEdges_thread_stack :
    Gen.c20ValidateEdges.all (fun e => e.src != "Value" || (e.method == "validate" && e.threads && e.assigns)) = true ∧
    (Gen.c20ValidateEdges.filter (fun e => e.src == "Value")).length = 7 ∧
    Gen.c20ValidateEdges.all (fun e => e.src != "unrecognised") = true := by decide

/-- `internalizedPositions ⊆ walkedPositions` — full strength since cbb0d05 (`resolveContentRefs` walks the
    headers of the encodings): InternalizeRefs descends into no position the loader's walk does not select -/
theorem internalized_positions_walked :
    Gen.c20InternalizeSelectors.all (fun s => Gen.c20LoaderSelectors.contains s) = true := by decide

/-- the loader's walk is `ResolveRefsIn`, the ten resolvers and the two helpers the model's walk was written from -/
theorem walk_functions_known :
    Gen.c20WalkFuncs = ["ResolveRefsIn", "resolveCallbackRef", "resolveContentRefs", "resolveExampleRef", "resolveExampleRefs",
      "resolveHeaderRef", "resolveLinkRef", "resolveParameterRef", "resolvePathItemRef", "resolveRequestBodyRef",
      "resolveResponseRef", "resolveSchemaRef", "resolveSecuritySchemeRef"] := by decide

/-- the positions the model's walk (`LoadDoc.toNode`) descends into are fields the loader selects -/
theorem loader_selectors_cover_model_walk :
    ["Schema", "Content", "Examples", "Encoding", "Headers", "Links", "Items", "Properties", "AdditionalProperties", "Not", "AllOf", "AnyOf", "OneOf",
     "Parameters", "RequestBody", "Responses", "Callbacks", "Components", "Paths", "Schemas", "RequestBodies", "SecuritySchemes"].all
      (fun s => Gen.c20LoaderSelectors.contains s) = true := by decide

/-- `LoadDoc.pathItemIsEmpty` and `LoadDoc.methodNames` follow `(*PathItem).isEmpty` and `(*PathItem).Operations` -/
theorem path_item_shape_known :
    Gen.c20PathItemIsEmpty = ["Summary", "Description", "Connect", "Delete", "Get", "Head", "Options", "Patch", "Post", "Put", "Trace", "Servers", "Parameters"] ∧
    Gen.c20PathItemOps = ["Connect", "Delete", "Get", "Head", "Options", "Patch", "Post", "Put", "Trace"] ∧
    LoadDoc.methodNames = ["connect", "delete", "get", "head", "options", "patch", "post", "put", "trace"] := by decide

/-- 1c81ad5: every cycle of the call graph of InternalizeRefs' `deref…` functions passes through a function
    that consults a visited set — without the guarded functions the graph is acyclic (the rank of
    `internalize_total`); the guarded ones are exactly the three the walk model threads a set for -/
theorem deref_cycles_guarded :
    acyclicB (Gen.c20DerefCalls.filter (fun e => !Gen.c20DerefGuards.any (·.1 == e.1) && !Gen.c20DerefGuards.any (·.1 == e.2))) = true ∧
    acyclicB Gen.c20DerefCalls = false ∧
    Gen.c20DerefGuards = [("derefSchema", "isVisitedSchema"), ("derefHeaders", "isVisitedHeader"), ("derefPaths", "isVisitedPathItem")] := by
  decide

/-! ### side conditions read from the whole package (round 5, table C20Guards) -/

/-- every type assertion of package openapi3 outside a type switch is in comma-ok form, except the three reviewed ones:
    `ReferencesComponentInRootDocument` (reflect over a `Components` field: map keys are strings, values implement
    ComponentRef by the struct table) and `drillIntoField` (field 0 named `Extensions` has type map[string]any:
    `c20ExtensionsFirst`). A new unchecked assertion — e.g. on a decoded `example` — breaks this obligation. -/
theorem type_asserts_checked :
    Gen.c20TypeAsserts.filter (fun r => r.2.2 != "commaok") =
      [("ReferencesComponentInRootDocument", "string", "unchecked"), ("ReferencesComponentInRootDocument", "ComponentRef", "unchecked"),
       ("drillIntoField", "map[string]any", "unchecked")] := by
  decide +kernel

/-- the decoding of a schema and the value validator assert only in comma-ok form (the functions the typed-value block
    of the differential run reaches) -/
theorem schema_asserts_comma_ok :
    (Gen.c20TypeAsserts.filter (fun r => r.1.startsWith "Schema.")).all (fun r => r.2.2 == "commaok") = true ∧
    (Gen.c20TypeAsserts.any (fun r => r.1 == "Schema.UnmarshalJSON")) = true := by
  decide +kernel

/-- lock discipline of the process-wide reader cache (URIMapCache, the only place of the package that takes a lock):
    on every way out of the function nothing is held, and no statement shape was left unread -/
theorem locks_released_on_every_path :
    Gen.c20LockPaths.all (fun r => r.2.2 == "") = true ∧ Gen.c20LockPaths.length ≥ 4 ∧
    Gen.c20LockPaths.all (fun r => r.1.startsWith "URIMapCache.") = true := by
  decide +kernel

/-- a reader that releases on every path what it acquired leaves the lock as it found it after any history of reads:
    `held` after a sequence of calls, each of which ends on one of its balanced paths -/
def locksAfter (held : Nat) : List (Nat × Nat) → Nat
  | [] => held
  | (acq, rel) :: rest => locksAfter (held + acq - rel) rest

theorem balanced_history_holds_nothing (calls : List (Nat × Nat)) (h : ∀ c ∈ calls, c.1 = c.2) :
    locksAfter 0 calls = 0 := by
  induction calls with
  | nil => rfl
  | cons c rest ih =>
    have hc : c.1 = c.2 := h c (by simp)
    have hr : ∀ c ∈ rest, c.1 = c.2 := fun x hx => h x (by simp [hx])
    simp [locksAfter, hc, ih hr]

/-- non-vacuity / witness: one unbalanced call (a cache hit that keeps its read lock) leaves a lock held for ever -/
example : locksAfter 0 [(1, 1), (1, 0), (1, 1)] = 1 := by decide

/-- the rank behind `internalize_total`, function by function: a guarded function has rank 0, every other
    `deref…` function a rank above everything it calls -/
def derefRank (f : String) : Nat :=
  match [("derefExamples", 1), ("derefLinks", 1), ("derefContent", 2), ("derefParameter", 3), ("derefRequestBody", 3),
         ("derefResponse", 3), ("derefResponseBodies", 4), ("derefResponses", 5), ("InternalizeRefs", 6)].find? (·.1 == f) with
  | some p => p.2
  | none => 0

/-- along every call out of an unguarded function of internalize_refs.go the rank decreases -/
theorem deref_rank_decreases :
    Gen.c20DerefCalls.all (fun e => Gen.c20DerefGuards.any (·.1 == e.1) || decide (derefRank e.2 < derefRank e.1)) = true := by
  decide

/-- … which is the hypothesis `UnguardedRanked` of `internalize_total` for every object graph whose objects are
    labelled with the function that handles them (`fn`), whose edges are calls of the table, and whose guarded
    objects are those of the three guarded functions -/
theorem unguardedRanked_of_calls (g : Graph) (fn : Nat → String) (guarded : Nat → Bool)
    (hg : ∀ i, guarded i = Gen.c20DerefGuards.any (·.1 == fn i))
    (he : ∀ i, ∀ c ∈ g i, (fn i, fn c) ∈ Gen.c20DerefCalls) :
    UnguardedRanked g guarded (fun i => derefRank (fn i)) := by
  intro i hi c hc
  have hmem := he i c hc
  have hall := List.all_eq_true.1 deref_rank_decreases _ hmem
  simp only [Bool.or_eq_true, decide_eq_true_eq] at hall
  rcases hall with h | h
  · rw [hg i] at hi; simp [hi] at h
  · exact h

end KinModel.Props.C20
