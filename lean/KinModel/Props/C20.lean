/-
C20 — loading and validating arbitrary bytes never panics or hangs.

Theorems about the abstract loader, the cycle-guarded and the unguarded descents of
`KinModel.LoadSafety`, and the obligations over the regenerated tables `Gen.C20Types` / `Gen.C20Loader`.
Full-strength statement (NOT provable of the code as it is, see the witnesses):

    ∀ w roots fuel, load w fuel roots ≠ .outOfFuel ∧ ∀ s, load w fuel roots ≠ .panic s
    ∧ every descent over the loaded document (validate, IsEmpty / visitJSON, derefPaths) terminates.

What is proved: termination of the loader with an explicit bound for every world (`load_total`);
absence of panics under the exclusions `KindConsistent` (finding #12) and `NoNilTarget` (new findings:
typed-nil target, nil dereference in the drill-down) (`load_no_panic_partial`); termination of
`(*Schema).validate` for every schema graph, cyclic or not (`validate_total`); termination of the
unguarded descents under `Ranked` (no cycle through non-stopping nodes) with divergence witnesses.
-/
import KinModel.LoadSafety
import KinModel.Lemmas.C20Descent
import KinModel.Lemmas.C20Load
import KinModel.Gen.C20Types
import KinModel.Gen.C20Loader
import KinModel.LoadDoc

namespace KinModel.Props.C20
open KinModel.LoadSafety KinModel.LoadTypes

/-! ## the loader terminates: explicit fuel bound, every world -/

/-- `resolve` on any wrapper, from any loader state: with `size + fresh·(S+1)` fuel the result is never
    `outOfFuel` — every recursive call either descends to a strictly smaller node or puts a new reference
    text in progress (`fresh` counts the texts not yet in progress; targets have size ≤ S). -/
theorem resolve_total (w : World) (S : Nat) (hb : Bounded w S) (fuel : Nat) (n : Node) (st : St)
    (h : n.size + fresh w st * (S + 1) ≤ fuel) : resolve w fuel n st ≠ .outOfFuel :=
  resolve_total_aux w S hb fuel n st h

/-- `ResolveRefsIn` terminates for every document: cyclic, self-referential, dangling, wrong-kind references included. -/
theorem load_total (w : World) (S : Nat) (hb : Bounded w S) (roots : List Node) (fuel : Nat)
    (h : sizes roots + w.texts.length * (S + 1) ≤ fuel) : load w fuel roots ≠ .outOfFuel := by
  unfold load
  apply stepKids_fuel
  · intro k _ s s' hk; exact resolve_sub w fuel k s s' hk
  · intro k hk s hs
    apply resolve_total_aux w S hb
    have h1 := size_le_sizes roots k hk
    have h2 : fresh w s ≤ w.texts.length := by unfold fresh; exact List.length_filter_le _ _
    have h3 : fresh w s * (S + 1) ≤ w.texts.length * (S + 1) := Nat.mul_le_mul_right _ h2
    omega

/-- more fuel never changes a result that is not `outOfFuel`: the fuel index is only a device to make the
    loader total and executable — together with `resolve_total` every wrapper has ONE outcome -/
theorem resolve_fuel_mono (w : World) (fuel : Nat) (n : Node) (st : St)
    (h : resolve w fuel n st ≠ .outOfFuel) : resolve w (fuel + 1) n st = resolve w fuel n st :=
  resolve_fuel_mono_aux w fuel n st h

/-- the in-progress set (`visitedRefs`) only grows along a successful walk: a text is removed only by the
    resolver that inserted it -/
theorem inprogress_only_grows (w : World) (fuel : Nat) (n : Node) (st st' : St)
    (h : resolve w fuel n st = .ok st') : ∀ t ∈ st.inprog, t ∈ st'.inprog :=
  resolve_sub w fuel n st st' (by simp [h, Res.st?])

/-! ## the loader does not panic — partial: findings #12 (KindClash), NilTarget, DrillNil excluded -/

/-- Full statement `∀ w roots fuel s, load w fuel roots ≠ .panic s` is false (witnesses below).
    Under the exclusions — every reference text is met by resolvers of one kind only (`KindConsistent`),
    no drill-down ends at a typed nil pointer or dereferences nil (`NoNilTarget`) — every type assertion in
    a backtrack callback receives the kind it asserts and the loader never panics. -/
theorem load_no_panic_partial (w : World) (κ : Text → Kind) (roots : List Node)
    (hk : KindConsistent w κ roots) (hn : NoNilTarget w) (fuel : Nat) (s : Site) :
    load w fuel roots ≠ .panic s := by
  unfold load
  have hsafe := stepKids_safe (resolve w fuel) (PendingOK κ) roots St.init
    (by intro p hp; simp [St.init] at hp)
    (fun k hkm st hp => resolve_safe_aux w κ hk.2 hn fuel k st (kindOKs_mem κ roots k hk.1 hkm) hp)
  exact hsafe.1 s

/-- the same for a single wrapper from any state whose registered callbacks are consistent -/
theorem resolve_no_panic_partial (w : World) (κ : Text → Kind)
    (hk : ∀ d t k n, (w.target d t k).node? = some n → kindOK κ n = true) (hn : NoNilTarget w)
    (fuel : Nat) (n : Node) (st : St) (hn' : kindOK κ n = true) (hp : PendingOK κ st) (s : Site) :
    resolve w fuel n st ≠ .panic s :=
  (resolve_safe_aux w κ hk hn fuel n st hn' hp).1 s

/-! ### witnesses (kernel-evaluated) and non-vacuity -/

/-- finding #12: `/a: {$ref: #/paths/~1b}`, `/b: {get: {responses: {200: {$ref: #/paths/~1b}}}}` —
    text 7 is in progress for the path-item resolver and met again by the response resolver -/
def w12 : World where
  texts := [7]
  target := fun _ t _ => if t = 7 then .wrapper (.mk 4 0 .pathItem none false [.mk 6 0 .response (some 7) false []]) else .err

def roots12 : List Node := [.mk 2 0 .pathItem (some 7) false [], .mk 4 0 .pathItem none false [.mk 6 0 .response (some 7) false []]]

theorem witness_kind_clash : load w12 10 roots12 = .panic .assertKind := by decide

theorem witness_kind_clash_excluded (κ : Text → Kind) : ¬ KindConsistent w12 κ roots12 := by
  intro h
  have h1 := h.1
  simp only [roots12, kindOKs, kindOK, Bool.and_eq_true, beq_iff_eq, Bool.and_true] at h1
  have a := h1.1
  have b := h1.2
  rw [← a] at b
  exact absurd b (by decide)

/-- new finding (NilTarget): `B: {$ref: #/components/schemas/A/items}` where `A` has no `items` -/
def wNil : World where
  texts := [3]
  target := fun _ t _ => if t = 3 then .nilPtr else .err

theorem witness_nil_target : load wNil 10 [.mk 2 0 .schema (some 3) false []] = .panic .typedNil ∧ ¬ NoNilTarget wNil := by
  refine ⟨by decide, ?_⟩
  intro h
  have := h 0 3 .schema
  simp [wNil, Tgt.panics] at this

/-- new finding (DrillNil): `A: {$ref: #/components/schemas/B/additionalProperties}`, `B` a reference not resolved yet -/
def wDrill : World where
  texts := [3]
  target := fun _ t _ => if t = 3 then .drillPanic else .err

theorem witness_drill_nil : load wDrill 10 [.mk 2 0 .schema (some 3) false []] = .panic .drill ∧ ¬ NoNilTarget wDrill := by
  refine ⟨by decide, ?_⟩
  intro h
  have := h 0 3 .schema
  simp [wDrill, Tgt.panics] at this

/-- finding #34: `T: {$ref: #/components/schemas/T}` loads and stays without value (the model follows the code) -/
def w34 : World where
  texts := [5]
  target := fun _ t _ => if t = 5 then .wrapper (.mk 2 0 .schema (some 5) false []) else .err

theorem witness_unresolved : ∃ st, load w34 10 [.mk 2 0 .schema (some 5) false []] = .ok st ∧ 2 ∉ st.value := by
  refine ⟨⟨[], [], []⟩, by decide, by simp⟩

/-- non-vacuity: a recursive schema (`Pet.parent → Pet`), a parameter and a response using it, a dangling
    text elsewhere — the exclusions hold, the bound is met, the load succeeds and every reference gets its value -/
def wOk : World where
  texts := [1, 2]
  target := fun _ t k =>
    if t = 1 ∧ k = .schema then .wrapper (.mk 10 0 .schema none false [.mk 12 0 .schema (some 1) false [], .mk 14 0 .schema (some 2) false []])
    else if t = 2 ∧ k = .schema then .wrapper (.mk 20 0 .schema none false [])
    else .err

def rootsOk : List Node := [
  .mk 30 0 .parameter none false [.mk 32 0 .schema (some 1) false []],
  .mk 10 0 .schema none false [.mk 12 0 .schema (some 1) false [], .mk 14 0 .schema (some 2) false []],
  .mk 20 0 .schema none false [],
  .mk 40 0 .pathItem none false [.mk 42 0 .response none false [.mk 44 0 .schema (some 1) false []]]]

def κOk : Text → Kind := fun _ => .schema

theorem nonvacuous_exclusions : KindConsistent wOk κOk rootsOk ∧ NoNilTarget wOk ∧ Bounded wOk 3 := by
  refine ⟨⟨by decide, ?_⟩, ?_, ?_, ?_⟩
  · intro d t k n h
    simp only [wOk] at h
    split at h
    · simp [Tgt.node?] at h; subst h; decide
    · split at h
      · simp [Tgt.node?] at h; subst h; decide
      · simp [Tgt.node?] at h
  · intro d t k
    simp only [wOk]
    split <;> (try split) <;> simp [Tgt.panics]
  · intro d t k ht
    simp only [wOk, List.mem_cons, List.not_mem_nil, or_false, not_or] at ht ⊢
    simp [ht.1, ht.2]
  · intro d t k n h
    simp only [wOk] at h
    split at h
    · simp [Tgt.node?] at h; subst h; decide
    · split at h
      · simp [Tgt.node?] at h; subst h; decide
      · simp [Tgt.node?] at h

theorem nonvacuous_load :
    (match load wOk 20 rootsOk with | .ok st => st.value.contains 32 && st.value.contains 12 && st.value.contains 14 && st.value.contains 44 && st.inprog.isEmpty | _ => false) = true := by
  decide

/-! ## `(*Schema).validate`: the threaded stack makes the descent total on every graph -/

/-- for every schema graph whose edges stay inside the finite list `nodes` (cycles allowed, e.g. through
    `not`), `validate` started anywhere with any stack returns with `#unvisited + 1` fuel, and the stack it
    returns extends the one it got -/
theorem validate_total (g : Graph) (nodes : List Nat) (hc : Closed g nodes) (fuel i : Nat) (stack : List Nat)
    (hi : i ∈ nodes) (hf : unvisitedCount nodes stack + 1 ≤ fuel) :
    ∃ s', validate g fuel i stack = some s' ∧ ∀ x ∈ stack, x ∈ s' :=
  validate_total_aux g nodes hc fuel i stack hi hf

/-- `Schema.Validate` (empty stack): `|nodes| + 1` fuel suffices -/
theorem validate_total_from_empty (g : Graph) (nodes : List Nat) (hc : Closed g nodes) (i : Nat) (hi : i ∈ nodes) :
    (validate g (nodes.length + 1) i []).isSome = true := by
  have hu : unvisitedCount nodes [] ≤ nodes.length := by unfold unvisitedCount; exact List.length_filter_le _ _
  obtain ⟨s', h, _⟩ := validate_total_aux g nodes hc (nodes.length + 1) i [] hi (by omega)
  simp [h]

/-- why the table obligation `validateEdges_thread_stack` matters: if one edge starts from a fresh stack
    (`v.Validate(ctx)` instead of `v.validate(ctx, stack)`), a cycle through that edge exhausts every fuel -/
theorem validate_needs_threading (fuel : Nat) :
    validateDropping (fun _ => [0]) (fun _ _ => true) fuel 0 [] = none :=
  validateDropping_selfloop fuel

/-- non-vacuity: a graph with a self-loop (`D: {not: {$ref: D}}`), a 2-cycle and a chain -/
theorem validate_example : validate (fun i => if i = 0 then [0] else if i = 1 then [2, 0] else if i = 2 then [1] else []) 4 1 [] = some [1, 2, 0] := by
  decide

/-! ## unguarded descents (`IsEmpty`, `visitJSON` through compositions, `derefPaths`) — partial -/

/-- Full statement `∀ g stop i, ∃ fuel, (descend g stop fuel i).isSome` is false (witness below).
    Under `Ranked` (no cycle through non-stopping nodes) the descent terminates with `rank i + 1` fuel. -/
theorem descend_total_partial (g : Graph) (stop : Nat → Bool) (rank : Nat → Nat) (hr : Ranked g stop rank)
    (fuel i : Nat) (h : rank i + 1 ≤ fuel) : ∃ b, descend g stop fuel i = some b :=
  descend_total_aux g stop rank hr fuel i h

/-- findings EmptyCycle / CompositionCycle / CallbackCycle: `A: {allOf: [{$ref: A}]}` — no keyword of its
    own, one edge back to itself: no amount of fuel suffices, and no rank exists -/
theorem witness_unguarded_cycle :
    (∀ fuel, descend (fun _ => [0]) (fun _ => false) fuel 0 = none) ∧
    ¬ ∃ rank, Ranked (fun _ => [0]) (fun _ => false) rank := by
  refine ⟨descend_selfloop _ _ 0 rfl rfl, ?_⟩
  intro ⟨rank, hr⟩
  have := hr 0 rfl 0 (by simp)
  omega

/-- non-vacuity: a recursive schema with `type` (IsEmpty stops at once) terminates although the graph is cyclic -/
theorem descend_example :
    Ranked (fun i => if i = 0 then [1] else if i = 1 then [0] else []) (fun i => i == 1) (fun i => if i = 0 then 1 else 0) ∧
    descend (fun i => if i = 0 then [1] else if i = 1 then [0] else []) (fun i => i == 1) 2 0 = some false := by
  refine ⟨?_, by decide⟩
  intro i hs c hc
  by_cases h0 : i = 0
  · subst h0; simp at hc; subst hc; simp
  · by_cases h1 : i = 1
    · subst h1; simp at hs
    · simp [h0, h1] at hc

/-- `derefPaths` of InternalizeRefs (path item → callbacks of its operations → their path items, no visited
    set): total when that graph has no cycle. Full statement fails on `witness_unguarded_cycle`
    (finding CallbackCycle). -/
theorem internalize_total_partial (g : Graph) (rank : Nat → Nat) (hr : Ranked g (fun _ => false) rank)
    (i : Nat) : ∃ b, descend g (fun _ => false) (rank i + 1) i = some b :=
  descend_total_aux g _ rank hr (rank i + 1) i (Nat.le_refl _)

/-! ## document-level exclusion predicates are inhabited (kernel-evaluated on concrete documents) -/

section DocWitnesses
open KinModel.LoadDoc

/-- `requestBody.content.*.examples: {e: null}` -/
def docNullExample : JV := .obj [("paths", .obj [("/a", .obj [("post", .obj [("requestBody", .obj [("content", .obj [("application/json", .obj [("examples", .obj [("e", .null)])])])])])])])]
/-- `servers: [null]` -/
def docNullServer : JV := .obj [("servers", .arr [.null])]
/-- `components.links.L: {$ref: …}` -/
def docLinkRef : JV := .obj [("components", .obj [("links", .obj [("L", .obj [("$ref", .str "#/components/links/M")])])])]
/-- `encoding.f.headers.X: {$ref: …}` -/
def docEncodingHeader : JV := .obj [("paths", .obj [("/a", .obj [("post", .obj [("requestBody", .obj [("content", .obj [("multipart/form-data", .obj [("encoding", .obj [("f", .obj [("headers", .obj [("X", .obj [("$ref", .str "#/components/headers/H")])])])])])])])])])])]
/-- a plain valid skeleton: no class holds -/
def docPlain : JV := .obj [("components", .obj [("schemas", .obj [("A", .obj [("type", .str "object")])])]), ("paths", .obj [])]

set_option maxRecDepth 100000 in
theorem witness_null_wrapper : nullWrapper (docPositions docNullExample) = true := by decide +kernel
set_option maxRecDepth 100000 in
theorem witness_null_member : nullMember (docPositions docNullServer) = true := by decide +kernel
set_option maxRecDepth 100000 in
theorem witness_encoding_header : encodingHeader (docPositions docEncodingHeader) = true := by decide +kernel
set_option maxRecDepth 100000 in
/-- finding #13: the typed positions of the document contain a reference under `components.links`, a
    member `ResolveRefsIn` does not iterate (`rootNodes` has no `links` line) -/
theorem witness_unwalked_position :
    (docPositions docLinkRef).any (fun p => p.ty == .ptr (.struct "LinkRef") && p.ctx == "Components.links" && p.j.refText?.isSome) = true := by
  decide +kernel
set_option maxRecDepth 100000 in
theorem nonvacuous_doc_classes :
    nullWrapper (docPositions docPlain) = false ∧ nullMember (docPositions docPlain) = false ∧
    encodingHeader (docPositions docPlain) = false ∧ (docPositions docPlain).length ≥ 5 := by decide +kernel

end DocWitnesses

/-! ## obligations over the regenerated tables -/

/-- the extractor read every field type of every struct of package openapi3 -/
theorem types_all_recognised : Gen.c20Fields.all (fun f => f.ty.recognised) = true := by decide

/-- every resolver was read (one `var resolved T`, one assertion in its backtrack callback) -/
theorem resolvers_all_recognised :
    Gen.c20Resolvers.length = 10 ∧ Gen.c20Resolvers.all (fun r => r.resolved != "unrecognised") = true := by decide

/-- the assertion in each backtrack callback asserts exactly the value type of ITS resolver's wrapper
    (so it can only fail when the text was resolved by a resolver of another kind: finding #12),
    or is in comma-ok form -/
theorem asserts_own_kind :
    Gen.c20Resolvers.all (fun r => r.commaOk ||
      (r.asserted == "*PathItem" && r.resolved == "PathItem") ||
      (Gen.c20Wrappers.any (fun w => w.1 == r.resolved && w.2 == .ptr (.struct (r.asserted.drop 1).copy)))) = true := by decide

/-- every `resolved` argument handed to `resolveComponent` is a type `readableType` lists: its
    `panic("unreachable")` is unreachable -/
theorem resolved_types_readable :
    Gen.c20Resolvers.all (fun r => Gen.c20Readable.contains ("*" ++ r.resolved)) = true := by decide

/-- the only other unchecked assertion of loader.go reads `Extensions`, declared `map[string]any` in every struct that has it first -/
theorem other_asserts_known :
    Gen.c20OtherAsserts = [("drillIntoField", "val.Field(0).Interface().(map[string]any)")] := by decide

/-- explicit panics: `readableType` (unreachable by `resolved_types_readable`) and `DefaultRefNameResolver`
    (reached by finding #34, class `Unresolved`) — no other -/
theorem explicit_panics_known :
    Gen.c20ExplicitPanics = [("loader.go", "readableType"), ("internalize_refs.go", "DefaultRefNameResolver")] := by decide

/-- every recursive call of `(*Schema).validate` on a sub-schema (`….Value`) is `validate`, passes the
    stack and assigns the returned stack back — the hypothesis under which `validate_total` models the code -/
theorem validateEdges_thread_stack :
    Gen.c20ValidateEdges.all (fun e => e.src != "Value" || (e.method == "validate" && e.threads && e.assigns)) = true ∧
    (Gen.c20ValidateEdges.filter (fun e => e.src == "Value")).length = 7 ∧
    Gen.c20ValidateEdges.all (fun e => e.src != "unrecognised") = true := by decide

/-- `internalizedPositions ⊆ walkedPositions` — partial: full statement fails exactly at `Encoding`
    (finding #41, class `EncodingHeaderRef`): InternalizeRefs descends into a position the loader never walks -/
theorem internalized_positions_walked_partial :
    Gen.c20InternalizeSelectors.all (fun s => s == "Encoding" || Gen.c20LoaderSelectors.contains s) = true := by decide

theorem witness_encoding_unwalked :
    Gen.c20InternalizeSelectors.contains "Encoding" = true ∧ Gen.c20LoaderSelectors.contains "Encoding" = false := by decide

/-- the positions the model's walk (`LoadDoc.toNode`) descends into are fields the loader selects -/
theorem loader_selectors_cover_model_walk :
    ["Schema", "Content", "Examples", "Headers", "Links", "Items", "Properties", "AdditionalProperties", "Not", "AllOf", "AnyOf", "OneOf",
     "Parameters", "RequestBody", "Responses", "Callbacks", "Components", "Paths", "Schemas", "RequestBodies", "SecuritySchemes"].all
      (fun s => Gen.c20LoaderSelectors.contains s) = true := by decide

end KinModel.Props.C20
