/-
C08 — responses are checked against the entry chosen for their status code.
Property theorems only (model and spec: KinModel/Response.lean; helper lemmas: KinModel/Lemmas/C08.lean).

Full-strength statement (the goal shape):
    ∀ canon o i, (validateResponse canon reg o i).err = none ↔ Accept canon reg o i
It is proved below as `accept_iff_partial` outside two decidable exclusion classes in which the code
really deviates from the property text (each with a kernel-checked witness, replayed on the Go code):
  HdrDecodedNil     a present header whose decoding gives no value is validated as `null`
  HdrArrayNoItems   a present header whose schema is an array without `items` makes the decoder dereference nil
Three former classes were repaired in the repository; their exclusions are gone and the former witnesses are
regression theorems (model = spec on them, inputs kept in corpus/C08):
  WriteOnlyNull     (F-C08-4, commit e80060c) a write-only property carrying `null` in the body was not reported;
                    `visit_asrep_iff` holds at full strength; `writeOnly_null_rejected*`
  HdrNotAsResponse  (F-C08-2, commit 35101a0) headers were visited without VisitAsResponse;
                    `header_writeOnly_rejected`, `header_required_writeOnly_absent_accepted`
  EmptyMapStrict    (F-C08-3, commit c48114b) an empty responses map passed under IncludeResponseStatus;
                    `empty_map_strict_rejected`; `undefined_status` no longer needs a non-empty map
-/
import KinModel.Lemmas.C08
import KinModel.ResponseReg
import KinModel.Gen.RespConsts
import KinModel.ResponseFlow
namespace KinModel.Response

/-! ### Selection of the response entry -/

/-- **Status selection.** The entry used is the first one present among: the exact status code, the class
pattern of the code (`1XX`…`5XX`, defined for 100–599 only), `default`. -/
theorem statusLookup_spec (m : List (String × α)) (status : Int) :
    statusLookup m status = selected m status := firstSome_statusKeys m status

/-- An entry under the exact status code is the one used, whatever else is declared. -/
theorem status_exact_wins (m : List (String × α)) (status : Int) (v : α)
    (h : lookup (codeKey status) m = some v) : statusLookup m status = some v := by
  simp [statusLookup, h]

/-- Without an exact entry the class pattern is used before `default`. -/
theorem status_class_before_default (m : List (String × α)) (status : Int) (k : String) (v : α)
    (h : lookup (codeKey status) m = none) (hk : classKey status = some k) (hv : lookup k m = some v) :
    statusLookup m status = some v := by
  simp [statusLookup, h, hk, hv]

/-- Without an exact entry and without a matching class pattern `default` decides. -/
theorem status_default_last (m : List (String × α)) (status : Int)
    (h : lookup (codeKey status) m = none)
    (hk : ∀ k, classKey status = some k → lookup k m = none) :
    statusLookup m status = lookup "default" m := by
  unfold statusLookup
  simp only [h]
  cases hc : classKey status with
  | none => simp
  | some k => simp [hk k hc]

/-- The class pattern exists exactly for the codes 100–599. -/
theorem classKey_defined_iff (status : Int) : (classKey status).isSome = true ↔ 100 ≤ status ∧ status ≤ 599 := by
  unfold classKey
  split
  · simp; omega
  · simp; omega

/-- **Media-type selection** (`Content.Get`): the first declared entry in the documented precedence — the
Content-Type as given, without parameters, `type/*`, `*/*`; only `*/*` for an absent Content-Type; no wildcard
when the type has no `/`. -/
theorem contentGet_spec (c : List (String × α)) (mime : String) :
    contentGet c mime = firstSome c (mimeCandidates mime) := contentGet_eq_firstSome c mime

/-! ### The response-side reading of a schema -/

/-- The executable oracle computes the declarative specification. -/
theorem satRepB_spec (w : Bool) (v : J) (s : Sch) : satRepB w v s = true ↔ SatRep w v s := satRepB_iff w v s

/-- **Response-side reading, full strength.** The visitor run as a response accepts exactly the values the
response-side reading admits: write-only properties absent (unless the option switches that check off) and not
required, read-only ones unconstrained. For every schema and value of the fragment, any depth. -/
theorem visit_asrep_iff (w : Bool) (v : J) (s : Sch) : visit ⟨true, w⟩ v s = true ↔ SatRep w v s := by
  rw [visit_asrep_eq_satRepB w v s]; exact satRepB_iff w v s

/-- A value that reaches no write-only declaration is judged the same with and without VisitAsResponse
(what made the repair of F-C08-2 invisible for headers of primitive type). -/
theorem visit_plain_eq_asrep_untouched (w : Bool) (v : J) (s : Sch) (h : woTouched v s = false) :
    visit ⟨false, w⟩ v s = visit ⟨true, w⟩ v s := visit_plain_eq_asrep w v s h

def pwSchema (nullable : Bool) : Sch :=
  .mk { ty := .object, required := ["pw"] }
    (.cons "pw" (.mk { ty := .string, writeOnly := true, nullable := nullable } .nil .none .none)
      (.cons "id" (.mk { ty := .integer, readOnly := true } .nil .none .none) .nil)) .none .none

/-- a write-only property is forbidden in a response, and not required; a read-only one is allowed -/
example : visit ⟨true, false⟩ (.obj (.cons "pw" (.str "x") .nil)) (pwSchema false) = false := by decide
example : visit ⟨true, false⟩ (.obj (.cons "id" (.num 1) .nil)) (pwSchema false) = true := by decide
example : visit ⟨false, false⟩ (.obj (.cons "id" (.num 1) .nil)) (pwSchema false) = false := by decide
example : visit ⟨true, true⟩ (.obj (.cons "pw" (.str "x") .nil)) (pwSchema false) = true := by decide
example : SatRep false (.obj (.cons "id" (.num 1) .nil)) (pwSchema false) :=
  (satRepB_iff _ _ _).mp (by decide)

/-- Regression (finding F-C08-4, fixed in e80060c): `{"pw": null}` with `pw` write-only and nullable is rejected
by the visitor, as the response-side reading demands; with the write-only checks off it is accepted. -/
theorem writeOnly_null_rejected :
    visit ⟨true, false⟩ (.obj (.cons "pw" .null .nil)) (pwSchema true) = false ∧
    satRepB false (.obj (.cons "pw" .null .nil)) (pwSchema true) = false ∧
    visit ⟨true, true⟩ (.obj (.cons "pw" .null .nil)) (pwSchema true) = true := by decide

/-! ### Decoding of a response header (decodeValue with the header decoder, simple style) -/

/-- A header schema without `type` never yields a value (the origin of finding F-C08-1). -/
theorem decodeHeader_untyped (s : Sch) (ex : Bool) (raw : String) (c : Dec) (h : s.core.ty = .any) :
    decodeHeader s ex raw c = .nil := by
  simp [decodeHeader, h]

/-- A header of primitive type yields no value exactly when its text is empty. -/
theorem decodeHeader_prim_nil_iff (s : Sch) (ex : Bool) (raw : String) (c : Dec)
    (h : s.core.ty = .integer ∨ s.core.ty = .boolean ∨ s.core.ty = .string) :
    decodeHeader s ex raw c = .nil ↔ raw = "" := by
  unfold decodeHeader parsePrim
  rcases h with h | h | h <;> simp only [h] <;> by_cases hr : raw = "" <;> simp [hr] <;> split <;> simp

/-- A non-empty header of type string is its text. -/
theorem decodeHeader_string (s : Sch) (ex : Bool) (raw : String) (c : Dec) (h : s.core.ty = .string) (hr : raw ≠ "") :
    decodeHeader s ex raw c = .val (.str raw) := by
  simp [decodeHeader, parsePrim, h, hr]

/-- The decoded value of a typed header has the declared type. -/
theorem decodeHeader_typed (s : Sch) (ex : Bool) (raw : String) (c : Dec) (v : J) (h : decodeHeader s ex raw c = .val v) :
    (s.core.ty = .integer → ∃ n, v = .num n) ∧ (s.core.ty = .boolean → ∃ b, v = .bool b) ∧
    (s.core.ty = .string → v = .str raw) ∧ s.core.ty ≠ .any := by
  unfold decodeHeader parsePrim at h
  refine ⟨?_, ?_, ?_, ?_⟩
  · intro ht
    simp only [ht] at h
    by_cases hr : raw = ""
    · simp [hr] at h
    · simp only [hr, if_false] at h
      cases hp : parseInt64 raw.toList with
      | none => simp [hp] at h
      | some n => simp [hp] at h; exact ⟨n, h.symm⟩
  · intro ht
    simp only [ht] at h
    by_cases hr : raw = ""
    · simp [hr] at h
    · simp only [hr, if_false] at h
      cases hp : parseBoolWord raw with
      | none => simp [hp] at h
      | some b => simp [hp] at h; exact ⟨b, h.symm⟩
  · intro ht
    simp only [ht] at h
    by_cases hr : raw = ""
    · simp [hr] at h
    · simp [hr] at h; exact h.symm
  · intro ht
    simp [ht] at h

/-- On a document that passes validation (array schemas carry `items`) the header decoder dereferences no nil. -/
theorem decodeHeader_no_panic (s : Sch) (ex : Bool) (raw : String) (c : Dec)
    (hi : s.core.ty = .array → s.items ≠ .none) (hc : c ≠ .panic) : decodeHeader s ex raw c ≠ .panic := by
  unfold decodeHeader
  cases ht : s.core.ty with
  | any => simp
  | object => simpa using decodeObject_ne_panic s ex raw c hc
  | array =>
    cases hit : s.items with
    | none => exact absurd hit (hi ht)
    | some it =>
      have := parseArr_some_ne_panic it (splitComma raw)
      simp only
      split
      · simp
      · assumption
  | integer => simpa using parsePrim_ne_panic _ _
  | boolean => simpa using parsePrim_ne_panic _ _
  | string => simpa using parsePrim_ne_panic _ _

/-- **Array headers**: when every comma-separated item parses as a primitive of the items type, the value is the
array of the parsed items. -/
theorem decodeHeader_array_vals (s it : Sch) (ex : Bool) (raw : String) (c : Dec) (x : J) (xs : List J)
    (ht : s.core.ty = .array) (hit : s.items = .some it) (h : ItemsParse it.core.ty (splitComma raw) (x :: xs)) :
    decodeHeader s ex raw c = .val (.arr (JL.ofList (x :: xs))) := by
  unfold decodeHeader
  simp only [ht, hit, parseArr_vals it _ _ h, JL.ofList]

/-- **Array headers**: the first item that does not parse to a value decides — an empty or untyped item makes the
whole header "no value", an unparsable one a decoding error. -/
theorem decodeHeader_array_first_bad (s it : Sch) (ex : Bool) (raw : String) (c : Dec) (pre : List String) (xs : List J)
    (v : String) (post : List String) (b : Dec)
    (ht : s.core.ty = .array) (hit : s.items = .some it) (hsplit : splitComma raw = pre ++ v :: post)
    (hpre : ItemsParse it.core.ty pre xs) (hv : parsePrim it.core.ty v = b) (hb : ∀ x, b ≠ .val x) :
    decodeHeader s ex raw c = b := by
  unfold decodeHeader
  simp only [ht, hit, hsplit, parseArr_first_bad it pre xs v post b hpre hv hb]
  cases b with
  | val x => exact absurd rfl (hb x)
  | err => rfl
  | nil => rfl
  | panic => rfl

/-- **Object headers**: a text that is not a list of name/value pairs (an odd number of comma-separated pieces, or,
exploded, a piece that is not `name=value`) is a decoding error. -/
theorem decodeObject_malformed (s : Sch) (ex : Bool) (raw : String) (c : Dec)
    (h : propsFromString ex raw = none) : decodeObject s ex raw c = .err := by
  simp [decodeObject, h]

/-- Not exploded, the pieces alternate between names and values: malformed exactly when their number is odd
(in particular for the empty text, which is one empty piece). -/
theorem propsFromString_plain_none_iff (raw : String) :
    propsFromString false raw = none ↔ (splitComma raw).length % 2 = 1 := by
  simp [propsFromString, pairUp_none_iff_odd]

/-- Of a repeated name the last value counts (the pairs are stored into a Go map). -/
theorem last_duplicate_wins (k v : String) (ps : List (String × String)) : lastVal k (ps ++ [(k, v)]) = some v :=
  lastVal_append_same k v ps

/-- Without an additionalProperties schema the decoded object has entries for declared properties only: names
outside the schema are dropped before validation (so `additionalProperties: false` never fires on a header). -/
theorem decodeObject_undeclared_dropped (s : Sch) (ex : Bool) (raw : String) (c : Dec) (pairs : List (String × String))
    (kvs : KVs) (hp : propsFromString ex raw = some pairs) (hc : emptyNameCorner s pairs = false) (ha : s.addl = .none)
    (h : decodeObject s ex raw c = .val (.obj kvs)) (k : String) (hk : (kvs.get k).isSome = true) :
    (s.props.lookup k).isSome = true := by
  unfold decodeObject at h
  simp only [hp, hc, Bool.false_eq_true, if_false] at h
  cases hb : buildDeclared pairs s.props [] with
  | none => simp [hb] at h
  | some d =>
    simp only [hb, ha, Dec.val.injEq, J.obj.injEq] at h
    subst h
    exact buildDeclared_keys pairs s.props [] d hb k hk

/-- An object-valued header always decodes to an object or to an error, never to "no value": finding F-C08-1
(a present header validated as `null`) does not concern object headers. -/
theorem decodeHeader_object_ne_nil (s : Sch) (ex : Bool) (raw : String) (c : Dec) (h : s.core.ty = .object)
    (hc : c ≠ .nil) : decodeHeader s ex raw c ≠ .nil := by
  simpa [decodeHeader, h] using decodeObject_ne_nil s ex raw c hc

/-- **Integers round-trip.** The decimal text of every 64-bit integer (strconv.FormatInt) is read back as that
integer by the model of strconv.ParseInt. -/
theorem parseInt64_showInt (n : Int) (h : -9223372036854775808 ≤ n ∧ n ≤ 9223372036854775807) :
    parseInt64 (showInt n) = some n := by
  cases n with
  | ofNat k =>
    have : k ≤ 9223372036854775807 := by have := h.2; simp only [Int.ofNat_eq_natCast] at this; omega
    exact parseInt64_showNat k this
  | negSucc k =>
    have hk : k + 1 ≤ 9223372036854775808 := by have := h.1; omega
    have := parseInt64_neg_showNat (k + 1) hk
    simpa [showInt, Int.negSucc_eq] using this

/-- An integer-typed header carrying the decimal text of a 64-bit integer decodes to that integer. -/
theorem decodeHeader_integer_roundtrip (s : Sch) (ex : Bool) (c : Dec) (n : Int) (ht : s.core.ty = .integer)
    (h : -9223372036854775808 ≤ n ∧ n ≤ 9223372036854775807) :
    decodeHeader s ex (String.ofList (showInt n)) c = .val (.num n) := by
  have hne : String.ofList (showInt n) ≠ "" := by
    intro he
    have := congrArg String.toList he
    simp only [String.toList_ofList] at this
    have hp := parseInt64_showInt n h
    rw [this] at hp
    simp [parseInt64, splitSign] at hp
  simp [decodeHeader, parsePrim, ht, hne, String.toList_ofList, parseInt64_showInt n h]

def intHdrSchema : Sch := .mk { ty := .integer } .nil .none .none
def arrHdrSchema (it : OSch) : Sch := .mk { ty := .array } .nil .none it

def Dec.isNum (n : Int) : Dec → Bool | .val (.num m) => m == n | _ => false
def Dec.isErr : Dec → Bool | .err => true | _ => false
def Dec.isNil : Dec → Bool | .nil => true | _ => false
def Dec.isPanic : Dec → Bool | .panic => true | _ => false
def JL.nums : JL → List (Option Int)
  | .nil => []
  | .cons (.num n) r => some n :: JL.nums r
  | .cons _ r => none :: JL.nums r
def Dec.isNums (ns : List Int) : Dec → Bool | .val (.arr xs) => xs.nums == ns.map some | _ => false

/-- A header key that is present without any value is found and yields no value — except under an object schema,
where the decoder's nil map reaches the validator as an empty object. -/
theorem decodeHdrVal_no_value (s : Sch) (ex : Bool) (c : Dec) :
    (s.core.ty = .object → ∃ kvs, decodeHdrVal s ex none c = .val (.obj kvs) ∧ ∀ k, kvs.get k = none) ∧
    (s.core.ty ≠ .object → (decodeHdrVal s ex none c).isNil = true) := by
  constructor
  · intro h; exact ⟨.nil, by simp [decodeHdrVal, h], fun _ => rfl⟩
  · intro h; unfold decodeHdrVal; cases ht : s.core.ty <;> simp_all [Dec.isNil]

/-- strconv.ParseInt base 10 / 64 bit and strconv.ParseBool on the texts the differential run also replays -/
example : ([("5", 5), ("+5", 5), ("-0", 0), ("007", 7), ("-3", -3), ("9223372036854775807", 9223372036854775807),
    ("-9223372036854775808", -9223372036854775808)].all
    (fun rn => (decodeHeader intHdrSchema false rn.1 .err).isNum rn.2)) = true := by decide
example : (["1_0", "0x10", " 5", "5 ", "-", "+", "1e3", "9223372036854775808", "-9223372036854775809"].all
    (fun r => (decodeHeader intHdrSchema false r .err).isErr)) = true := by decide
example : (["1", "t", "T", "TRUE", "true", "True"].map parseBoolWord) = List.replicate 6 (some true) ∧
    (["0", "f", "F", "FALSE", "false", "False"].map parseBoolWord) = List.replicate 6 (some false) ∧
    (["tRue", "yes", " true", "01"].map parseBoolWord) = List.replicate 4 none := by decide
example : (decodeHeader (arrHdrSchema (.some intHdrSchema)) false "1,2" .err).isNums [1, 2] = true ∧
    (decodeHeader (arrHdrSchema (.some intHdrSchema)) false "1,,2" .err).isNil = true ∧
    (decodeHeader (arrHdrSchema (.some intHdrSchema)) false "x," .err).isErr = true ∧
    (decodeHeader (arrHdrSchema (.some intHdrSchema)) false ",x" .err).isNil = true ∧
    (decodeHeader (arrHdrSchema (.some intHdrSchema)) false "" .err).isNil = true ∧
    (decodeHeader (arrHdrSchema (.some (.mk {} .nil .none .none))) false "1,2" .err).isNil = true ∧
    (decodeHeader (arrHdrSchema .none) false "1,2" .err).isPanic = true ∧
    (decodeHeader (arrHdrSchema .none) false ",1" .err).isNil = true := by decide

def Dec.objIs (want : List (String × J)) : Dec → Bool
  | .val (.obj kvs) => want.all (fun kw => match kvs.get kw.1, kw.2 with
      | some (.str a), .str b => a == b | some (.num a), .num b => a == b | some (.bool a), .bool b => a == b
      | _, _ => false) && KVs.len kvs == want.length
  | _ => false
where KVs.len : KVs → Nat | .nil => 0 | .cons _ _ r => KVs.len r + 1

def objHdrSchema : Sch :=
  .mk { ty := .object }
    (.cons "m" (.mk { ty := .integer } .nil .none .none) (.cons "n" (.mk { ty := .string } .nil .none .none)
      (.cons "u" (.mk {} .nil .none .none) (.cons "o" (.mk { ty := .object } .nil .none .none)
        (.cons "a" (.mk { ty := .array } .nil .none .none) .nil))))) .none .none
def objAddlSchema : Sch :=
  .mk { ty := .object } (.cons "m" (.mk { ty := .integer } .nil .none .none) .nil)
    (.some (.mk { ty := .integer } .nil .none .none)) .none

/-- DecodeObject on the texts the differential run also replays -/
example : (decodeHeader objHdrSchema false "m,4,n,x" .err).objIs [("m", .num 4), ("n", .str "x")] = true ∧
    (decodeHeader objHdrSchema false "n,x,n,y" .err).objIs [("n", .str "y")] = true ∧
    (decodeHeader objHdrSchema false "q,1" .err).objIs [] = true ∧
    (decodeHeader objHdrSchema false "u,1,n," .err).objIs [] = true ∧
    (decodeHeader objHdrSchema false "o,1" .err).objIs [("o", .str "1")] = true ∧
    (decodeHeader objHdrSchema false "a,1" .err).isErr = true ∧
    (decodeHeader objHdrSchema false "m,zz" .err).isErr = true ∧
    (decodeHeader objHdrSchema false "m" .err).isErr = true ∧
    (decodeHeader objHdrSchema false "" .err).isErr = true ∧
    (decodeHeader objHdrSchema false "," .err).objIs [] = true ∧
    (decodeHeader objHdrSchema true "m=4,n=x" .err).objIs [("m", .num 4), ("n", .str "x")] = true ∧
    (decodeHeader objHdrSchema true "m=4=5" .err).isErr = true ∧
    (decodeHeader objAddlSchema false "m,4,q,7" .err).objIs [("m", .num 4), ("q", .num 7)] = true ∧
    (decodeHeader objAddlSchema false "q,x" .err).isErr = true ∧
    (decodeHeader objAddlSchema false "," .err).isErr = true := by decide

/-! ### ValidateResponse -/

/-- HEAD requests are not checked. -/
theorem head_not_checked (canon : String → String) (reg : List (String × String)) (o : Opts) (i : Input) (h : i.method = "HEAD") :
    validateResponse canon reg o i = ⟨none, some i.body⟩ := by
  simp [validateResponse, h]

/-- 301, 304, 307 and 308 responses are not checked. -/
theorem redirects_not_checked (canon : String → String) (reg : List (String × String)) (o : Opts) (i : Input)
    (h : i.status = 301 ∨ i.status = 304 ∨ i.status = 307 ∨ i.status = 308) :
    validateResponse canon reg o i = ⟨none, some i.body⟩ := by
  have := (skipStatus_iff i.status).mpr h
  unfold validateResponse
  by_cases hm : i.method = "HEAD" <;> simp [hm, this]

/-- A status without definition passes unless strict status checking is requested. -/
theorem undefined_status (canon : String → String) (reg : List (String × String)) (o : Opts) (i : Input)
    (hm : i.method ≠ "HEAD") (hs : skipStatus i.status = false)
    (hn : selected i.responses i.status = none) :
    (validateResponse canon reg o i).err = if o.strict then some .statusNotSupported else none := by
  unfold validateResponse
  rw [firstSome_statusKeys, hn]
  cases o.strict <;> cases i.responses.isEmpty <;> simp [hm, hs]

/-- An entry whose reference was never resolved (`Value == nil`) is an error whatever the response looks like. -/
theorem unresolved_entry_rejected (canon : String → String) (reg : List (String × String)) (o : Opts) (i : Input)
    (r : Resp) (hm : i.method ≠ "HEAD") (hs : skipStatus i.status = false)
    (hsel : selected i.responses i.status = some r) (hr : r.resolved = false) :
    validateResponse canon reg o i = ⟨some .respUnresolved, some i.body⟩ ∧ ¬ Accept canon reg o i := by
  have he : i.responses.isEmpty = false := by
    cases h : i.responses.isEmpty with
    | false => rfl
    | true =>
      have hnil : i.responses = [] := List.isEmpty_iff.mp h
      have : selected i.responses i.status = none := by
        rw [hnil]; unfold selected statusKeys
        cases classKey i.status <;> simp [firstSome, lookup]
      simp [hsel] at this
  constructor
  · unfold validateResponse
    rw [firstSome_statusKeys, hsel]
    simp [hm, hs, he, hr]
  · intro h
    unfold Accept at h
    rcases h with h | h
    · rcases h with h | h
      · exact hm h
      · have := (skipStatus_iff _).mpr h; simp [hs] at this
    · rw [hsel] at h; simp [hr] at h

theorem acceptB_iff (canon : String → String) (reg : List (String × String)) (o : Opts) (i : Input) :
    acceptB canon reg o i = true ↔ Accept canon reg o i := by
  unfold acceptB Accept
  have hsk : skippedB i = true ↔ Skipped i := by simp [skippedB, Skipped, or_assoc]
  simp only [Bool.or_eq_true, hsk]
  apply or_congr Iff.rfl
  cases selected i.responses i.status with
  | none => simp
  | some r =>
    simp only [Bool.and_eq_true, List.all_eq_true, Bool.or_eq_true, decide_eq_true_eq, headerOKB_iff, bodyOKB_iff]
    rw [and_assoc]
    apply and_congr Iff.rfl
    apply and_congr
    · constructor
      · intro h x hx hn
        exact (h x hx).resolve_left hn
      · intro h x hx
        by_cases hn : x.name = "Content-Type"
        · exact Or.inl hn
        · exact Or.inr (h x hx hn)
    · cases o.excludeBody <;> simp

/-- **C08 main theorem.** Full strength: `(validateResponse canon reg o i).err = none ↔ Accept canon reg o i` for every
response map, status, header set, content type, body, decoding outcome and option set. Proved outside the two
exclusion classes (each has a witness below): the response passes exactly when it is skipped (HEAD, 301/304/307/308),
or no entry is selected and strictness is off, or — against the entry selected by exact code, class pattern,
default — every declared header other than Content-Type is present-and-valid or absent-and-optional, and
(unless the body is excluded) the content map is empty or the media type selected for the Content-Type has no
schema or the decoded body satisfies the response-side reading of its schema. -/
theorem accept_iff_partial (canon : String → String) (reg : List (String × String)) (o : Opts) (i : Input)
    (hx : Excluded canon o i = false) :
    (validateResponse canon reg o i).err = none ↔ Accept canon reg o i := by
  simp only [Excluded, Bool.or_eq_false_iff] at hx
  obtain ⟨hx1, hx2⟩ := hx
  by_cases hm : i.method = "HEAD"
  · simp [validateResponse, Accept, hm, Skipped]
  · cases hs : skipStatus i.status with
    | true =>
      have := (skipStatus_iff _).mp hs
      simp [validateResponse, Accept, hm, hs, Skipped, this]
    | false =>
      have hns : ¬ Skipped i := by
        intro h
        rcases h with h | h
        · exact hm h
        · have := (skipStatus_iff _).mpr h; simp [hs] at this
      unfold Accept
      simp only [hns, false_or]
      have hempty : i.responses.isEmpty = true → selected i.responses i.status = none := by
        intro he
        have hnil : i.responses = [] := List.isEmpty_iff.mp he
        rw [hnil]; unfold selected statusKeys
        cases classKey i.status <;> simp [firstSome, lookup]
      cases hsel : selected i.responses i.status with
      | none =>
          have := undefined_status canon reg o i hm hs hsel
          rw [this]; cases o.strict <;> simp
      | some r =>
          have he : i.responses.isEmpty = false := by
            cases h : i.responses.isEmpty with
            | false => rfl
            | true => have := hempty h; simp [hsel] at this
          cases hr : r.resolved with
          | false =>
            constructor
            · intro h
              unfold validateResponse at h
              rw [firstSome_statusKeys, hsel] at h
              simp [hm, hs, he, hr] at h
            · intro h; exact absurd h.1 (by simp [hr])
          | true =>
          simp only [hr, true_and]
          have hr' : r.resolved = true := hr
          rw [validateResponse_selected canon reg o i r hm hs he hsel hr']
          have hex : ∀ h, h ∈ r.headers → h.name ≠ "Content-Type" →
              hdrDecodedNil canon i.hdrs h = false ∧ hdrArrayNoItems canon i.hdrs h = false := by
            intro h hmem hn
            constructor
            · simp only [HdrDecodedNil, anyHdr, hsel, List.any_eq_false] at hx1
              have := hx1 h hmem
              simpa [hn] using this
            · simp only [HdrArrayNoItems, anyHdr, hsel, List.any_eq_false] at hx2
              have := hx2 h hmem
              simpa [hn] using this
          have hh : firstErr (checkHeader canon o.woOff i.hdrs) (checkedHeaders r) = none ↔
              ∀ h, h ∈ r.headers → h.name ≠ "Content-Type" → HeaderOK canon o.woOff i.hdrs h := by
            rw [firstErr_none_iff]
            constructor
            · intro hall h hmem hn
              obtain ⟨e1, e2⟩ := hex h hmem hn
              exact (checkHeader_iff canon o.woOff i.hdrs h e1 e2).mp
                (hall h ((mem_checkedHeaders r h).mpr ⟨hmem, hn⟩))
            · intro hall h hmem
              obtain ⟨hmem, hn⟩ := (mem_checkedHeaders r h).mp hmem
              obtain ⟨e1, e2⟩ := hex h hmem hn
              exact (checkHeader_iff canon o.woOff i.hdrs h e1 e2).mpr (hall h hmem hn)
          cases hf : firstErr (checkHeader canon o.woOff i.hdrs) (checkedHeaders r) with
          | some e =>
            have hne : ¬ (∀ h, h ∈ r.headers → h.name ≠ "Content-Type" → HeaderOK canon o.woOff i.hdrs h) := by
              intro h; have := hh.mpr h; simp [hf] at this
            constructor
            · intro h; simp at h
            · intro h; exact absurd h.1 hne
          | none =>
            have hok := hh.mp hf
            show (checkBody reg o i r).err = none ↔ _
            cases heb : o.excludeBody with
            | true =>
              have hc : (checkBody reg o i r).err = none := by simp [checkBody, heb]
              constructor
              · intro _; exact ⟨hok, fun h => by simp at h⟩
              · intro _; exact hc
            | false =>
              have hb := checkBody_iff reg o i r heb
              constructor
              · intro h; exact ⟨hok, fun _ => hb.mp h⟩
              · intro h; exact hb.mpr (h.2 rfl)

/-- **The body stays readable.** Whatever the verdict, when the body reader does not fail, what can be read from
`input.Body` afterwards is what could be read before (the bytes are re-installed with SetBodyBytes). -/
theorem body_readable_after (canon : String → String) (reg : List (String × String)) (o : Opts) (i : Input) (h : i.readFails = false) :
    (validateResponse canon reg o i).bodyAfter = some i.body := by
  have hb : ∀ r, (checkBody reg o i r).bodyAfter = some i.body := by
    intro r
    unfold checkBody
    simp only [h, Bool.false_eq_true, if_false]
    repeat' split
    all_goals rfl
  unfold validateResponse
  repeat' split
  all_goals first | rfl | exact hb _

/-- MultiError changes the report only, never the verdict nor the body. -/
theorem multiError_irrelevant (canon : String → String) (reg : List (String × String)) (o : Opts) (i : Input) (m : Bool) :
    validateResponse canon reg { o with multi := m } i = validateResponse canon reg o i := rfl

/-- ExcludeResponseBody removes exactly the body check: the headers decide. -/
theorem excludeBody_headers_decide (canon : String → String) (reg : List (String × String)) (o : Opts) (i : Input) (r : Resp)
    (hb : o.excludeBody = true) (hm : i.method ≠ "HEAD") (hs : skipStatus i.status = false)
    (he : i.responses ≠ []) (hsel : selected i.responses i.status = some r) (hr : r.resolved = true) :
    (validateResponse canon reg o i).err = firstErr (checkHeader canon o.woOff i.hdrs) (checkedHeaders r) := by
  unfold validateResponse
  have : i.responses.isEmpty = false := by cases h : i.responses <;> simp_all
  rw [firstSome_statusKeys, hsel]
  simp only [hm, hs, this, hr, if_false, Bool.false_eq_true, Bool.not_true, Bool.false_and]
  cases firstErr (checkHeader canon o.woOff i.hdrs) (checkedHeaders r) <;> simp [checkBody, hb]

/-- The header error reported is the one of a declared header other than Content-Type. -/
theorem header_error_names_declared (canon : String → String) (w : Bool) (hdrs : List (String × Option String))
    (r : Resp) (e : Err) (h : firstErr (checkHeader canon w hdrs) (checkedHeaders r) = some e) :
    ∃ x, x ∈ r.headers ∧ x.name ≠ "Content-Type" ∧ checkHeader canon w hdrs x = some e := by
  have : ∀ l : List Hdr, firstErr (checkHeader canon w hdrs) l = some e → ∃ x, x ∈ l ∧ checkHeader canon w hdrs x = some e := by
    intro l
    induction l with
    | nil => simp [firstErr]
    | cons y ys ih =>
      unfold firstErr
      cases hy : checkHeader canon w hdrs y with
      | some e' => intro h; simp at h; exact ⟨y, by simp, by rw [hy, h]⟩
      | none => intro h; obtain ⟨x, hx, hc⟩ := ih h; exact ⟨x, by simp [hx], hc⟩
  obtain ⟨x, hx, hc⟩ := this _ h
  obtain ⟨h1, h2⟩ := (mem_checkedHeaders r x).mp hx
  exact ⟨x, h1, h2, hc⟩

/-- **Order of the header loop.** The header error reported is the one of the failing declared header with the
least name (`sort.Strings`): every declared header that fails has a name at least as large. -/
theorem header_error_is_least_failing (canon : String → String) (w : Bool) (hdrs : List (String × Option String))
    (r : Resp) (e : Err) (h : firstErr (checkHeader canon w hdrs) (checkedHeaders r) = some e) :
    ∃ x, x ∈ r.headers ∧ x.name ≠ "Content-Type" ∧ checkHeader canon w hdrs x = some e ∧
      ∀ y, y ∈ r.headers → y.name ≠ "Content-Type" → checkHeader canon w hdrs y ≠ none → x.name ≤ y.name := by
  obtain ⟨pre, x, post, hl, hp, hx⟩ := firstErr_some_split _ _ _ h
  have hxm : x ∈ checkedHeaders r := by rw [hl]; simp
  obtain ⟨h1, h2⟩ := (mem_checkedHeaders r x).mp hxm
  refine ⟨x, h1, h2, hx, ?_⟩
  intro y hy hyn hye
  have hym : y ∈ checkedHeaders r := (mem_checkedHeaders r y).mpr ⟨hy, hyn⟩
  have hs : (pre ++ x :: post).Pairwise (fun a b => a.name ≤ b.name) := by
    rw [← hl]; exact sortHdrs_sorted _
  rw [hl] at hym
  rcases List.mem_append.mp hym with hpre | hrest
  · exact absurd (hp y hpre) hye
  · rcases List.mem_cons.mp hrest with rfl | hpost
    · exact String.le_refl _
    · have := (List.pairwise_append.mp hs).2.1
      exact (List.pairwise_cons.mp this).1 y hpost

/-- A header described by `content` is only checked for presence (finding #22, fixed). -/
theorem header_by_content_presence_only (canon : String → String) (w : Bool) (hdrs : List (String × Option String))
    (h : Hdr) (hs : h.schema = none) :
    checkHeader canon w hdrs h = none ↔ (present canon hdrs h = true ∨ h.required = false) := by
  unfold checkHeader
  cases hp : present canon hdrs h <;> cases hr : h.required <;> simp [hs]

/-! ### The constants of the skips and of the status-class key are the ones the source spells (table RespConsts) -/

open KinModel.Gen in
/-- Table obligation: every switch / range shape of ValidateResponse and Responses.Status was read. -/
theorem respConsts_recognised :
    respConsts.all (fun r => match r with | .unrecognised _ => false | _ => true) = true := by decide

open KinModel.Gen in
/-- The status codes the model skips are exactly the cases of the source's `switch status`. -/
theorem skipStatus_from_source (st : Int) : skipStatus st = true ↔ RespConstRow.skipStatus st ∈ respConsts := by
  rw [skipStatus_iff]
  simp only [respConsts, List.mem_cons, RespConstRow.skipStatus.injEq, reduceCtorEq, false_or, or_false,
    List.not_mem_nil]
  constructor
  · rintro (h | h | h | h) <;> simp [h]
  · rintro (h | h | h | h) <;> simp [h]

open KinModel.Gen in
/-- The only method the source skips is HEAD. -/
theorem skipMethod_from_source (m : String) : m = "HEAD" ↔ RespConstRow.skipMethod m ∈ respConsts := by
  simp [respConsts]

open KinModel.Gen in
/-- The class key exists exactly inside the source's range condition, … -/
theorem classRange_from_source (status : Int) :
    (classKey status).isSome = true ↔ ∃ lo hi, RespConstRow.classRange lo hi ∈ respConsts ∧ lo < status ∧ status < hi := by
  rw [classKey_defined_iff]
  simp only [respConsts, List.mem_cons, RespConstRow.classRange.injEq, reduceCtorEq, false_or, or_false,
    List.not_mem_nil]
  constructor
  · intro h; exact ⟨99, 600, ⟨rfl, rfl⟩, by omega, by omega⟩
  · rintro ⟨lo, hi, ⟨rfl, rfl⟩, h1, h2⟩; omega

open KinModel.Gen in
/-- … it is the hundreds digit followed by the source's suffix, and always one of the source's five case labels
(so the `switch st` inside the range branch never filters anything out). -/
theorem classKey_from_source (status : Int) (k : String) (h : classKey status = some k) :
    RespConstRow.classKey k ∈ respConsts ∧ RespConstRow.classSuffix "XX" ∈ respConsts ∧
      k = toString (status / 100) ++ "XX" := by
  unfold classKey at h
  split at h
  · rename_i hr
    simp only [Option.some.injEq] at h
    refine ⟨?_, by simp [respConsts], h.symm⟩
    have hd : status / 100 = 1 ∨ status / 100 = 2 ∨ status / 100 = 3 ∨ status / 100 = 4 ∨ status / 100 = 5 := by omega
    subst h
    rcases hd with hd | hd | hd | hd | hd <;> rw [hd] <;> decide
  · simp at h

/-! ### decodeBody: the decoder registered for the media type -/

/-- A body whose media type (the Content-Type before its first ';') has no registered decoder fails to decode,
also when a wildcard entry of the content map declares it. -/
theorem unregistered_media_type_rejected (reg : List (String × String)) (o : Opts) (i : Input) (r : Resp)
    (mt : MediaType) (s : Sch) (he : o.excludeBody = false) (hc : r.content ≠ [])
    (hg : contentGet r.content (ctOf i) = some mt) (hs : mt.schema = some s) (hr : i.readFails = false)
    (hu : lookup (parseMediaType (ctOf i)) reg = none) :
    checkBody reg o i r = ⟨some .bodyDecode, some i.body⟩ := by
  have : r.content.isEmpty = false := by cases h : r.content <;> simp_all
  simp [checkBody, he, this, hg, hs, hr, decodeBody, hu]

/-- Under a text decoder (plain, file) the value checked is the body text itself, whatever `bodyDec` says. -/
theorem text_body_is_its_text (reg : List (String × String)) (i : Input) (d : String)
    (hl : lookup (parseMediaType (ctOf i)) reg = some d) (ht : textDecoder d = true) :
    decodeBody reg i = .val (.str i.body) := by
  simp [decodeBody, hl, ht]

/-- Table obligation: every registration statement of the package was read. -/
theorem bodyDecoders_recognised :
    KinModel.Gen.bodyDecoders.all (fun r => match r with | .unrecognised _ => false | _ => true) = true := by decide

/-- Table obligation: no media type is registered twice, so the order of the rows is immaterial. -/
theorem genReg_keys_distinct : (genReg.map (·.1)).Nodup := by decide

/-- Table obligation: which registered media types get a text decoder, and that JSON has its decoder. -/
theorem genReg_text_decoders :
    (genReg.filter (fun kv => textDecoder kv.2)).map (·.1) = ["text/plain", "application/octet-stream"] ∧
    lookup "application/json" genReg = some "JSONBodyDecoder" ∧
    lookup "application/problem+json" genReg = some "JSONBodyDecoder" ∧
    lookup "application/xml" genReg = none := by decide

/-! ### Witnesses of the exclusion classes (model ≠ spec on a concrete input inside the class) -/

def strHdr (s : Sch) : Hdr := { name := "X-A", required := false, schema := some s, explode := false }
def inp (resps : List (String × Resp)) (hdrs : List (String × Option String)) (d : Dec) : Input :=
  { method := "GET", status := 200, responses := resps, hdrs := hdrs, body := "", readFails := false, bodyDec := d }

/-- `X-A: abc` against the header schema `{}`: rejected ("Value is not nullable") although every value satisfies `{}`. -/
theorem witness_HdrDecodedNil :
    let i := inp [("200", ⟨[strHdr (.mk {} .nil .none .none)], [], true⟩)] [("X-A", "abc")] .err
    HdrDecodedNil id i = true ∧ (validateResponse id genReg {} i).err = some (.hdrSchema "X-A") ∧ acceptB id genReg {} i = true := by
  decide

def pwHdrSchema : Sch :=
  .mk { ty := .object } (.cons "pw" (.mk { ty := .string, writeOnly := true } .nil .none .none) .nil) .none .none

/-- Regression (F-C08-2, fixed in 35101a0): `X-A: pw,x` against an object header schema whose property `pw` is
write-only is rejected by the model and by the spec, lies in no exclusion class, and is accepted again when the
write-only checks are switched off. -/
theorem header_writeOnly_rejected :
    let i := inp [("200", ⟨[strHdr pwHdrSchema], [], true⟩)] [("X-A", "pw,x")] .err
    Excluded id {} i = false ∧ (validateResponse id genReg {} i).err = some (.hdrSchema "X-A") ∧ acceptB id genReg {} i = false ∧
      (validateResponse id genReg { woOff := true } i).err = none ∧ acceptB id genReg { woOff := true } i = true := by
  decide

def pwReqHdrSchema : Sch :=
  .mk { ty := .object, required := ["pw"] }
    (.cons "n" (.mk { ty := .string } .nil .none .none)
      (.cons "pw" (.mk { ty := .string, writeOnly := true } .nil .none .none) .nil)) .none .none

/-- Regression (F-C08-2, second half): a header object that (rightly) omits its required write-only property is
accepted by the model and by the spec. -/
theorem header_required_writeOnly_absent_accepted :
    let i := inp [("200", ⟨[strHdr pwReqHdrSchema], [], true⟩)] [("X-A", "n,x")] .err
    Excluded id {} i = false ∧ (validateResponse id genReg {} i).err = none ∧ acceptB id genReg {} i = true := by
  decide

/-- `X-A: 1,2` against the header schema `{type: array}` (no `items`): nil dereference. -/
theorem witness_HdrArrayNoItems :
    let i := inp [("200", ⟨[strHdr (arrHdrSchema .none)], [], true⟩)] [("X-A", "1,2")] .err
    HdrArrayNoItems id i = true ∧ (validateResponse id genReg {} i).err = some (.hdrPanic "X-A") ∧
      acceptB id genReg {} i = false := by
  decide

/-- Regression (F-C08-3, fixed): an empty responses map under IncludeResponseStatus is rejected by the model and by
the spec ("status is not supported") and lies in no exclusion class; without strictness it passes. -/
theorem empty_map_strict_rejected :
    let i := inp [] [] .err
    Excluded id { strict := true } i = false ∧
      (validateResponse id genReg { strict := true } i).err = some .statusNotSupported ∧
      acceptB id genReg { strict := true } i = false ∧
      (validateResponse id genReg {} i).err = none ∧ acceptB id genReg {} i = true := by
  decide

/-- Regression (F-C08-4, fixed): body `{"pw": null}` against a schema whose nullable property `pw` is write-only
is rejected by the model and by the spec, and lies in no exclusion class. -/
theorem writeOnly_null_rejected_in_body :
    let i := inp [("200", ⟨[], [("application/json", ⟨some (pwSchema true)⟩)], true⟩)] [("Content-Type", "application/json")]
              (.val (.obj (.cons "pw" .null .nil)))
    Excluded id {} i = false ∧ (validateResponse id genReg {} i).err = some .bodySchema ∧ acceptB id genReg {} i = false := by
  decide

/-! ### The control flow of ValidateResponse / validateResponseHeader, tied to the source (table C08Flow) -/

open KinModel.Gen in
/-- every top-level statement of the two functions was recognised by the translator -/
theorem c08flow_recognised :
    (c08ValidateResponse ++ c08ValidateHeader).all (fun r => match r with | .unrecognised _ => false | _ => true) = true := by
  decide

/-- the regenerated statement table of `ValidateResponse` IS the program the model was transcribed from
(statement groups, their order, the skip lists, the conditions of the empty-map shortcut, which option appends which
validation option, VisitAsResponse on the header loop and on the body visit, the reasons) -/
theorem c08flow_resp_is_expected : KinModel.Gen.c08ValidateResponse = expectedRespProgram := by decide

/-- the regenerated statement table of `validateResponseHeader` IS the program `checkHeader` was transcribed from -/
theorem c08flow_hdr_is_expected : KinModel.Gen.c08ValidateHeader = expectedHdrProgram := by decide

/-- **`checkHeader` is the meaning of the source's statement table** of validateResponseHeader, for every header
definition and every header set. -/
theorem checkHeader_is_table_program (canon : String → String) (woOff : Bool) (hdrs : List (String × Option String)) (h : Hdr) :
    runHdr canon true woOff hdrs h KinModel.Gen.c08ValidateHeader .start = checkHeader canon woOff hdrs h := by
  rw [c08flow_hdr_is_expected]; exact runHdr_expected canon woOff hdrs h

/-- dropping `VisitAsResponse()` from the header loop changes the verdict (the interpreter is sensitive to the row's
parameter): a required write-only property absent from an object header -/
example :
    let s : Sch := .mk { ty := .object, required := ["pw"] } (.cons "pw" (.mk { ty := .string, writeOnly := true } .nil .none .none) .nil) .none .none
    let h : Hdr := { name := "X-O", required := true, schema := some s }
    runHdr id true false [("X-O", some "a,b")] h expectedHdrProgram .start = none ∧
    runHdr id false false [("X-O", some "a,b")] h expectedHdrProgram .start = some (.hdrSchema "X-O") := by decide


/-- **`validateResponse` is the meaning of the source's statement table** of ValidateResponse (with the header program
of validateResponseHeader), for every response map, status, header set, body and option combination: the hand-written
model is no longer a free transcription — it equals the interpretation of the regenerated table. -/
theorem validateResponse_is_table_program (canon : String → String) (reg : List (String × String)) (o : Opts) (i : Input) :
    runResp canon reg o i KinModel.Gen.c08ValidateHeader KinModel.Gen.c08ValidateResponse { bodyAfter := some i.body }
      = validateResponse canon reg o i := by
  rw [c08flow_hdr_is_expected, c08flow_resp_is_expected]; exact runResp_expected canon reg o i

/-- the interpreter is sensitive to the order of the statements: with the ExcludeResponseBody exit moved before the
header loop, a missing required header would pass under that option -/
example :
    let i : Input := { method := "GET", status := 200, responses := [("200", ⟨[{ name := "X-R", required := true, schema := none }], [], true⟩)],
                       hdrs := [], body := "", readFails := false, bodyDec := .err }
    let o : Opts := { excludeBody := true }
    (runResp id genReg o i expectedHdrProgram expectedRespProgram { bodyAfter := some i.body }).err = some (.hdrMissing "X-R") ∧
    (runResp id genReg o i expectedHdrProgram
      [.lookupStatus, .fallbackDefault, .undefinedStatus "", .unresolvedFails "", .sortedHeaderNames, .excludeBodyOk, .headerLoop true, .retNil]
      { bodyAfter := some i.body }).err = none := by decide

/-! ### Histories: the same ResponseValidationInput validated again -/

/-- the input as the next call of ValidateResponse on the same object sees it: the bytes now readable from input.Body -/
def afterCall (i : Input) (out : Out) : Option Input := out.bodyAfter.map (fun b => { i with body := b })

/-- the outcomes of `n` successive calls on one input object (the sequence ends when input.Body is left nil) -/
def validateTimes (canon : String → String) (reg : List (String × String)) (o : Opts) : Nat → Input → List Out
  | 0, _ => []
  | n + 1, i =>
    let out := validateResponse canon reg o i
    out :: (match afterCall i out with | some i' => validateTimes canon reg o n i' | none => [])

/-- **Re-validation.** When the body reader does not fail, any number of successive calls on the same input object give
the same outcome each time (verdict, error class, and the body still readable). -/
theorem validate_history (canon : String → String) (reg : List (String × String)) (o : Opts) (i : Input)
    (h : i.readFails = false) (n : Nat) :
    validateTimes canon reg o n i = List.replicate n (validateResponse canon reg o i) := by
  induction n with
  | zero => rfl
  | succ n ih =>
    simp only [validateTimes, afterCall, body_readable_after canon reg o i h, Option.map_some, ih, List.replicate_succ]

/-! ### Non-vacuity: inputs outside every exclusion class on which both directions are exercised -/

def exResp : Resp :=
  ⟨[{ name := "X-B", required := true, schema := some (.mk { ty := .integer, maxI := some 9 } .nil .none .none) },
    { name := "X-A", required := false, schema := some (.mk { ty := .string } .nil .none .none) }],
   [("application/json", ⟨some (pwSchema false)⟩)], true⟩

def exIn (status : Int) (body : J) : Input :=
  { method := "GET", status := status, responses := [("2XX", exResp), ("default", ⟨[], [], true⟩)],
    hdrs := [("X-B", some "5"), ("Content-Type", some "application/json; charset=utf-8")], body := "…", readFails := false,
    bodyDec := .val body }

example : Excluded id {} (exIn 201 (.obj (.cons "id" (.num 1) .nil))) = false := by decide
example : (validateResponse id genReg {} (exIn 201 (.obj (.cons "id" (.num 1) .nil)))).err = none := by decide
example : Accept id genReg {} (exIn 201 (.obj (.cons "id" (.num 1) .nil))) :=
  (accept_iff_partial id genReg {} _ (by decide)).mp (by decide)
example : Excluded id {} (exIn 201 (.obj (.cons "pw" (.str "x") .nil))) = false := by decide
example : (validateResponse id genReg {} (exIn 201 (.obj (.cons "pw" (.str "x") .nil)))).err = some .bodySchema := by decide
example : ¬ Accept id genReg {} (exIn 201 (.obj (.cons "pw" (.str "x") .nil))) :=
  fun h => by have := (accept_iff_partial id genReg {} _ (by decide)).mpr h; revert this; decide
example : (validateResponse id genReg {} (exIn 404 .null)).err = none := by decide
example : classKey 201 = some "2XX" ∧ classKey 99 = none ∧ classKey 600 = none ∧ classKey 599 = some "5XX" := by decide

/-- not vacuous, and the read failure is a real boundary: after a failed read input.Body is nil and the history ends -/
example : validateTimes id genReg {} 3 (exIn 201 (.obj (.cons "pw" (.str "x") .nil)))
    = List.replicate 3 ⟨some .bodySchema, some "…"⟩ := by decide
example : validateTimes id genReg {} 3 { exIn 201 .null with readFails := true } = [⟨some .bodyRead, none⟩] := by decide

end KinModel.Response
