/-
C08 — responses are checked against the entry chosen for their status code.
Property theorems only (model and spec: KinModel/Response.lean; helper lemmas: KinModel/Lemmas/C08.lean).
-/
import KinModel.Response
namespace KinModel.Response

/-- An entry under the exact status code is the one used. -/
theorem status_exact_wins (m : List (String × α)) (status : Int) (v : α)
    (h : lookup (codeKey status) m = some v) : statusLookup m status = some v := by
  simp [statusLookup, h]

end KinModel.Response
