/-
C14 — obligations on the translator tables (regenerated from openapi3filter/middleware.go, validation_handler.go,
validation_error_encoder.go on every run; row types and accessors: KinModel/MiddlewareSrc.lean). Each theorem is a
`decide` over a complete generated table: the facts about the source that the model in KinModel/Middleware.lean is
written from. A change of the code's shape breaks the obligation — that is intended.
-/
import KinModel.Middleware
import KinModel.MiddlewareSrc
import KinModel.Gen.WrapperMethods
import KinModel.Gen.ValidatorConfig
import KinModel.Gen.ValidatorState
import KinModel.Gen.ConvertStatus
namespace KinModel.Middleware
open KinModel.MiddlewareSrc KinModel.Gen

/-- every shape of the source the translators met was one they can read; the underlying writer never leaves a
wrapper method -/
theorem tables_recognised :
    bad wrapperMethods = [] ∧ cUnrecognised validatorConfig = [] ∧ sUnrecognised validatorState = [] ∧
    kUnrecognised convertStatus = [] := by decide

/-- the response wrappers: two struct types, no embedded field (no promoted methods) -/
theorem wrapper_types :
    wrapperTypes wrapperMethods = ["strictResponseWrapper", "warnResponseWrapper"] ∧
    embeddedFields wrapperMethods = [] := by decide

/-- **strict_wrapper_offers_no_optional_interface.** The strict wrapper satisfies none of http.Flusher,
FlushError, http.Hijacker, http.Pusher, http.CloseNotifier, io.ReaderFrom, io.StringWriter, Unwrap, the
ResponseController deadline / full-duplex methods: a handler has no way round the buffer (its Flush type
assertion fails, http.NewResponseController finds nothing, io.Copy falls back to Write). -/
theorem strict_wrapper_offers_no_optional_interface (i : Iface) :
    offers wrapperMethods "strictResponseWrapper" i = false := by
  cases i <;> decide

/-- the warn wrapper is an http.Flusher and nothing else -/
theorem warn_wrapper_offers_flusher_only (i : Iface) :
    offers wrapperMethods "warnResponseWrapper" i = (i == Iface.flusher) := by
  cases i <;> decide

/-- what the handler-visible methods of the strict wrapper do to the underlying writer: Header() hands out its
header map, Write and WriteHeader do not touch it; only the middleware's flushBodyContents forwards
WriteHeader then Write — and modifies no field (nothing to carry into a reuse) -/
theorem strict_methods_as_modelled :
    exportedOf wrapperMethods "strictResponseWrapper" = ["Write", "WriteHeader", "Header"] ∧
    writerCalls wrapperMethods "strictResponseWrapper" 3 "Write" = [] ∧
    writerCalls wrapperMethods "strictResponseWrapper" 3 "WriteHeader" = [] ∧
    writerCalls wrapperMethods "strictResponseWrapper" 3 "Header" = ["Header"] ∧
    writerCalls wrapperMethods "strictResponseWrapper" 3 "flushBodyContents" = ["WriteHeader", "Write"] ∧
    bodyOf wrapperMethods "strictResponseWrapper" "WriteHeader" =
      [.write "strictResponseWrapper" "WriteHeader" "status", .write "strictResponseWrapper" "WriteHeader" "headerWritten"] ∧
    bodyOf wrapperMethods "strictResponseWrapper" "Write" =
      [.self "strictResponseWrapper" "Write" "WriteHeader", .pass "strictResponseWrapper" "Write" "body" "Write"] ∧
    bodyOf wrapperMethods "strictResponseWrapper" "flushBodyContents" =
      [.pass "strictResponseWrapper" "flushBodyContents" "w" "WriteHeader",
       .pass "strictResponseWrapper" "flushBodyContents" "w" "Write",
       .pass "strictResponseWrapper" "flushBodyContents" "body" "Bytes"] := by decide

/-- the model's strict step touches the client's writer only where the source's method does: a call whose
method makes no call on the underlying writer (or does not exist on the wrapper) leaves the client as it is -/
theorem strict_step_touches_client_only_as_source_does (w : Strict) (op : Op) (hop : op ≠ .panic)
    (h : writerCalls wrapperMethods "strictResponseWrapper" 3 op.method = []) :
    (w.step op).client = w.client := by
  cases op with
  | setHdr k v => simp only [Op.method] at h; exact absurd h (by decide)
  | delHdr k => simp only [Op.method] at h; exact absurd h (by decide)
  | writeHeader n => simp only [Strict.step]; (repeat' split) <;> rfl
  | write bs => simp only [Strict.step]; split <;> rfl
  | flush => rfl
  | panic => exact absurd rfl hop

/-- the warn wrapper's methods: WriteHeader records and forwards WriteHeader, Write goes (after the implied
WriteHeader) to the tee of underlying writer and buffer, Flush passes through the http.Flusher assertion -/
theorem warn_methods_as_modelled :
    exportedOf wrapperMethods "warnResponseWrapper" = ["Write", "WriteHeader", "Header", "Flush"] ∧
    -- WriteHeader forwards in two places: the informational branch and the recording branch
    writerCalls wrapperMethods "warnResponseWrapper" 3 "Write" = ["WriteHeader", "WriteHeader", "tee.Write"] ∧
    writerCalls wrapperMethods "warnResponseWrapper" 3 "WriteHeader" = ["WriteHeader", "WriteHeader"] ∧
    writerCalls wrapperMethods "warnResponseWrapper" 3 "Header" = ["Header"] ∧
    writerCalls wrapperMethods "warnResponseWrapper" 3 "Flush" = ["Flush"] ∧
    writerCalls wrapperMethods "warnResponseWrapper" 3 "flushBodyContents" = [] ∧
    WRow.tee "warnResponseWrapper" "tee" ["w", "&wr.body"] ∈ wrapperMethods ∧
    WRow.assert "warnResponseWrapper" "Flush" "w" "http.Flusher" ∈ wrapperMethods := by decide

/-- **validator_keeps_no_state.** In the serving code of Validator and ValidationHandler every use of an
instance field is one that cannot carry anything to the next request (read, call of a function value, `&v.options`
handed to the validation calls, FindRoute / ServeHTTP of the router / wrapped handler); no package-level variable is
referenced; the wrapper is a fresh object per request, in both modes. This is what `VState` (no field) stands on. -/
theorem validator_keeps_no_state :
    (usesOf validatorState "Validator").all statelessUse = true ∧
    (usesOf validatorState "ValidationHandler").all statelessUse = true ∧
    pkgvarsOf validatorState = [] ∧
    wrappersOf validatorState =
      [("v.strict", "strictResponseWrapper", true, ["w"]), ("!v.strict", "warnResponseWrapper", true, ["w", "tee"])] := by
  decide

theorem validator_fields :
    fieldsOf validatorState "Validator" = ["router", "errFunc", "logFunc", "strict", "options"] ∧
    fieldsOf validatorState "ValidationHandler" = ["Handler", "AuthenticationFunc", "File", "ErrorEncoder", "router"] := by
  decide

/-- ErrCode values, the HTTP status handed to ErrFunc with each, the raw writer `w` (not the wrapper) as its
target, the default texts and the log messages are the ones the model uses -/
theorem errcodes_as_modelled (e : ErrCode) :
    (e.constName, e.num) ∈ constsOf validatorConfig ∧
    (e.statusConst, e.constName, "w") ∈ errCallsOf validatorConfig ∧
    httpConst e.statusConst = some e.httpStatus ∧
    ((e.constName, e.text) ∈ textsOf validatorConfig ∨
      (("default", e.text) ∈ textsOf validatorConfig ∧ (textsOf validatorConfig).all (fun p => p.1 != e.constName) = true)) := by
  cases e <;> decide

theorem errfunc_called_three_times_in_source :
    (errCallsOf validatorConfig).length = 3 ∧
    logCallsOf validatorConfig = ["validation error: failed to find route for ", "invalid request", "invalid response",
                                  "failed to write response"] := by decide

/-- the option functions: one field each, applied in order over the documented defaults (the shape
`newValidator` / `applyOpt` model) -/
theorem options_as_modelled :
    optionsOf validatorConfig = [("OnErr", "errFunc"), ("OnLog", "logFunc"), ("Strict", "strict"), ("ValidationOptions", "options")] ∧
    CRow.applyInOrder ∈ validatorConfig ∧
    dfltsOf validatorConfig = [("router", "param"), ("errFunc", "http.Error(w, code.responseText(), status)"), ("logFunc", "log.Printf")] := by
  decide

/-- the statuses `ReqFail.convStatus` assigns are statuses the source's converters produce, and every status in
the source is a known net/http constant -/
theorem convert_statuses_as_modelled (f : ReqFail) :
    (∀ fn ∈ f.converters, some f.convStatus ∈ statusesOf convertStatus fn) ∧
    (convertStatus.all (fun r => match r with | .status _ c => (httpConst c).isSome | _ => true)) = true := by
  cases f <;> decide

/-- the serving path of ValidationErrorEncoder: Encode hands `ConvertErrors(err)` to the wrapped encoder, and
ConvertErrors dispatches in this order — route errors first; anything that is not a *RequestError (a
SecurityRequirementsError among them) is returned unconverted; then by the wrapped cause. Every converter the
model names for a failure kind is one the dispatch reaches. -/
theorem convert_dispatch_as_modelled :
    KRow.encode "enc.Encoder(ctx, ConvertErrors(err), w)" ∈ convertStatus ∧
    dispatchOf convertStatus =
      [("err.(*routers.RouteError)", "convertRouteError"), ("!ok", "return err"),
       ("e.Err == nil", "convertBasicRequestError"), ("e.Err == ErrInvalidRequired", "convertErrInvalidRequired"),
       ("e.Err == ErrInvalidEmptyValue", "convertErrInvalidEmptyValue"), ("e.Err.(*ParseError)", "convertParseError"),
       ("e.Err.(*openapi3.SchemaError)", "convertSchemaError"), ("cErr != nil", "return cErr")] ∧
    (∀ f : ReqFail, ∀ fn ∈ f.converters, fn ∈ (dispatchOf convertStatus).map (·.2)) := by
  refine ⟨by decide, by decide, ?_⟩
  intro f; cases f <;> decide

end KinModel.Middleware
