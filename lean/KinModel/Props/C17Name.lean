/-
C17 — FromV3's error outcome at document level: on the round-trip fragment, for documents whose body parameters have
names and whose form operations consume form media types only (both required of a valid OpenAPI 2 document), no
converted operation needs the free body-parameter name, so FromV3 as a whole (`fromV3Full`: error / panic / ok)
returns the document of `api2_roundtrip_inputs`. Theorems only.
-/
import KinModel.Props.C17Refs
namespace KinModel.Conv

/-- every request body ToV3Parameter builds from a parameter list with named body parameters needs no name -/
theorem splitP3_noNeed {V : Type} (env : Env3 V) (cs : List String) (l : List (PRef2 V))
    (h : l.all namedBody = true) :
    ∀ b ∈ (splitP3 (l.map (toV3P env cs))).2.1, needsBodyName (some b) = false := by
  induction l with
  | nil => intro b hb; simp [splitP3] at hb
  | cons q rest ih =>
    simp only [List.all_cons, Bool.and_eq_true] at h
    have ih' := ih h.2
    simp only [List.map_cons]
    cases hx : toV3P env cs q with
    | param x => simpa [splitP3] using ih'
    | form n s => simpa [splitP3] using ih'
    | body y =>
      simp only [splitP3]
      intro b hb
      simp only [List.mem_cons] at hb
      rcases hb with rfl | hb
      · cases q with
        | ref k n =>
          simp only [toV3P] at hx
          split at hx
          · split at hx
            · simp only [P3.body.injEq] at hx; subst hx; rfl
            · split at hx <;> simp at hx
          · simp at hx
        | val p =>
          simp only [toV3P] at hx
          split at hx
          · rename_i hl
            simp only [P3.body.injEq] at hx
            subst hx
            have hn : p.name ≠ "" := by
              have := h.1
              simpa [namedBody, hl] using this
            simp [needsBodyName, hn]
          · split at hx <;> simp at hx
      · exact ih' b hb

/-- a converted operation of the fragment never needs the free body-parameter name -/
theorem toV3Op_noNeed {V : Type} (cbs : List (String × BRef3 V)) (bks : List String)
    (hcb : ∀ n, (alookup n cbs).isSome = bks.contains n) (dc : List String) (o : Op2 V) (o3 : Op3 V)
    (h : opInputsOK bks dc o = true) (hnm : opNamed dc o = true)
    (he : toV3Op { cbodies := cbs, cschemas := [] } dc o = .ok o3) :
    needsBodyName o3.body = false := by
  simp only [opInputsOK, Bool.and_eq_true, Bool.or_eq_true, decide_eq_true_eq] at h
  obtain ⟨⟨hin, hshape⟩, _⟩ := h
  simp only [opNamed, Bool.and_eq_true, Bool.or_eq_true] at hnm
  obtain ⟨hnamed, hformOnly⟩ := hnm
  obtain ⟨s1, s2, _, _⟩ := inputs_split3 cbs bks hcb (effConsumes dc o) o.params hin
  have hnn := splitP3_noNeed ({ cbodies := cbs, cschemas := [] } : Env3 V) (effConsumes dc o) o.params hnamed
  unfold toV3Op at he
  simp only [effConsumes] at s1 s2 hnn hshape hformOnly he
  generalize hsp : splitP3 (o.params.map (toV3P { cbodies := cbs, cschemas := [] } (if o.consumes.isEmpty then dc else o.consumes))) = sp at s1 s2 hnn he
  obtain ⟨ps, bodies, forms⟩ := sp
  simp only at s1 s2 hnn he
  subst s1
  rcases hshape with ⟨hnf, hone⟩ | ⟨⟨hnb, _⟩, hmime⟩
  · have hfv : formVals o.params = [] := by simpa using hnf
    simp only [hfv, List.map_nil] at he
    have hlen : bodies.length ≤ 1 := by omega
    cases bodies with
    | nil =>
      simp only [List.length_nil, gt_iff_lt, Nat.not_lt_zero, if_false, ne_eq, not_true_eq_false, false_and,
        List.isEmpty_nil, if_true, Res.ok.injEq] at he
      subst he; rfl
    | cons b rest =>
      cases rest with
      | cons _ _ => simp at hlen
      | nil =>
        simp only [List.length_cons, List.length_nil, Nat.zero_add, gt_iff_lt, Nat.lt_irrefl, if_false, ne_eq,
          not_true_eq_false, and_false, Res.ok.injEq] at he
        subst he
        exact hnn b (by simp)
  · have hb0 : bodies = [] := by
      have : (o.params.filter (isBodyIn bks)) = [] := by simpa using hnb
      rw [this] at s2
      simpa using s2
    subst hb0
    cases hfv : formVals o.params with
    | nil =>
      simp only [hfv, List.map_nil, List.length_nil, gt_iff_lt, Nat.not_lt_zero, if_false, ne_eq, not_true_eq_false,
        false_and, List.isEmpty_nil, if_true, Res.ok.injEq] at he
      subst he; rfl
    | cons f fs =>
      simp only [hfv, List.map_cons, List.length_nil, gt_iff_lt, Nat.not_lt_zero, if_false, ne_eq, not_true_eq_false,
        false_and, List.isEmpty_cons, Bool.false_eq_true, Res.ok.injEq] at he
      subst he
      have hall : (if o.consumes.isEmpty then dc else o.consumes).all isFormMime = true := by
        rcases hformOnly with h1 | h1
        · simp [hfv] at h1
        · exact h1
      have hne : (if o.consumes.isEmpty then dc else o.consumes) ≠ [] := by
        intro hc; rw [hc] at hmime; simp at hmime
      exact needsBodyName_formBody _ _ _ hne hall

/-- **FromV3 as a whole on the round-trip fragment**: no error for want of a body parameter name, no panic — it
    returns a document that describes the API of the input again -/
theorem fromV3Full_roundtrip {V : Type} (d : Doc2 V) (h : docInputsBack d = true) (hnm : docNamed d = true) :
    ∃ d3 d2, toV3 d = .ok d3 ∧ fromV3Full d3 = .ok d2 ∧
      rel2 OpA.sim (api2 d2).ops (api2 d).ops ∧ (api2 d2).pathParams = (api2 d).pathParams ∧
      (api2 d2).shared.Perm (api2 d).shared ∧ (api2 d2).sharedResponses = (api2 d).sharedResponses ∧
      (api2 d2).defs = (api2 d).defs ∧ (api2 d2).security = (api2 d).security ∧
      (api2 d2).securityReq = (api2 d).securityReq ∧
      (∀ x, x ∈ (api2 d2).servers ↔ x ∈ (api2 d).servers) := by
  obtain ⟨d3, d2, h1, h2, hrest⟩ := api2_roundtrip_toV3 d h
  refine ⟨d3, d2, h1, ?_, hrest⟩
  have hfrag : docInputs d = true := by
    simp only [docInputsBack, Bool.and_eq_true] at h
    exact h.1.1.1.1.1.1
  have hraw : toV3Raw d = .ok d3 := by rw [← toV3_resolves d hfrag]; exact h1
  have hno : ∀ p ∈ d3.paths, ∀ o ∈ p.ops, needsBodyName o.body = false := by
    simp only [docInputs, Bool.and_eq_true] at hfrag
    obtain ⟨⟨⟨⟨⟨⟨hparams, hpaths⟩, _⟩, _⟩, _⟩, _⟩, _⟩ := hfrag
    obtain ⟨sh1, sh2, _⟩ := sharedP3_body d.consumes d.params hparams
    unfold toV3Raw at hraw
    generalize hsp : sharedP3 d.consumes d.params = sp at sh1 sh2 hraw
    obtain ⟨cps, cbs, cfs⟩ := sp
    simp only at sh1 sh2 hraw
    subst sh1
    split at hraw
    · simp at hraw
    · rename_i paths hpaths3
      split at hraw
      · simp at hraw
      · simp only [Res.ok.injEq] at hraw
        subst hraw
        intro p3 hp3 o3 ho3
        obtain ⟨p2, hp2, hpe⟩ := mapRes_mem _ d.paths paths hpaths3 p3 hp3
        have hpok := List.all_eq_true.mp hpaths p2 hp2
        simp only [pathInputsOK, Bool.and_eq_true] at hpok
        have hpn := List.all_eq_true.mp (by simpa [docNamed] using hnm : d.paths.all (fun p => p.ops.all (opNamed d.consumes)) = true) p2 hp2
        unfold toV3Path at hpe
        split at hpe
        · simp at hpe
        · rename_i ops hops
          split at hpe
          · simp at hpe
          · simp only [Res.ok.injEq] at hpe
            subst hpe
            obtain ⟨o2, ho2, hoe⟩ := mapRes_mem _ p2.ops ops hops o3 ho3
            exact toV3Op_noNeed cbs (bodyKeys d.params) sh2 d.consumes o2 o3
              (List.all_eq_true.mp hpok.2 o2 ho2) (List.all_eq_true.mp hpn o2 ho2) hoe
  rw [fromV3Full_no_error d3 hno, h2]

/-- non-vacuity of `fromV3Full_roundtrip`: a form operation and a body operation whose other parameters take the
    names `body` and `requestBody` -/
example :
    let q (n : String) : Param2 Nat := { name := n, loc := "query", required := false, cons := { ty := some "string" },
                                          items := none, schema := none }
    let f : Param2 Nat := { name := "f", loc := "formData", required := true, cons := { ty := some "string", fmt := some "date" },
                            items := none, schema := none }
    let b : Param2 Nat := { name := "payload", loc := "body", required := true, cons := {}, items := none,
                            schema := some (.node { ty := some "object" } []) }
    let ok : RRef2 Nat := .val { desc := "ok", headers := [], schema := none }
    let d : Doc2 Nat := {
      loc := { host := "h", basePath := "", schemes := [] }, consumes := [], produces := [],
      params := [], responses := [], defs := [], secs := [],
      paths := [{ path := "/x", params := [],
                  ops := [{ method := "post", opId := "a", consumes := ["multipart/form-data"], produces := [],
                            params := [.val f, .val (q "body"), .val (q "requestBody")], responses := [("200", ok)] },
                          { method := "put", opId := "b", consumes := [], produces := [],
                            params := [.val (q "requestBody"), .val b, .val (q "body")], responses := [("200", ok)] }] }] }
    docInputsBack d = true ∧ docNamed d = true := by
  decide

end KinModel.Conv
