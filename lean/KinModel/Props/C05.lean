import KinModel.Style
namespace KinModel.Style

theorem placeholder : splitOn [','] "a,b".toList = ["a".toList, "b".toList] := by decide

end KinModel.Style
