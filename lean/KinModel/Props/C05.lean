/-
C05 — parameters are decoded as the inverse of OpenAPI style serialisation.
Property theorems only (models and specification: KinModel/Style.lean, StyleNest.lean, StyleContent.lean; helper
lemmas: KinModel/Lemmas/C05*.lean).

Full-strength goal (kept visible):
  ∀ legal cell c, schema s, texts t with `encodable c name t`:
      decodeStyled impl c name req (encode c name t) s = ⟨the value t stands for, true, none⟩
  ∧ ∀ p r, validateParameter p r = validateSpec p r.
What is proved:
  * the round trip per location and shape for *both* flavours (code / specification) under the explicit `Encodable`
    side conditions, lifted through allOf / anyOf / oneOf (`decodeStyled_anyOf_first`, `…_oneOf_last`, `…_allOf_*`),
    and for nested deepObject at every depth (`nest_roundtrip`);
  * `validateParameter = validateSpec` is NOT a theorem of the pinned code: it fails inside three decidable exclusion
    classes, each with a kernel-checked witness below (CookieExplode #31, EnumGoType #42, UntypedSchema). Outside them it
    IS proved: `decodeStyled_impl_eq_spec_partial` (every schema, compositions included), `validate_eq_spec_partial`
    (every single-leaf schema), `validate_eq_spec_enumfree_partial` (every composition without enums),
    `respHeader_eq_spec_partial`;
  * repaired and therefore class-free (former witnesses are regression theorems): primitive texts (`parsePrim_eq_specPrim`,
    F-C05-3 / 53dfa1b), the object builder (`makeObject_lookup_addl`, `addl_shadow_regression`, F-C05-4 / 997bea5), exploded
    form objects that are not sent (`queryObj_absent`, `query_obj_absent_regression`, F-C05-5 / 404949f), free-form map query
    parameters (`query_obj_noprops_regression`, F-C05-6 / aa57be9), deepObject keys with junk text (`deep_key_junk_regression`,
    F-C05-7 / f73e4f9), content-described parameters (`content_absent`, `content_regression`, F-C05-9 / ea25ec8, F-C05-10 /
    c3da93a).
-/
import KinModel.Style
import KinModel.Lemmas.C05Str
import KinModel.Lemmas.C05Dec
import KinModel.Lemmas.C05Cells
import KinModel.Lemmas.C05Eq
import KinModel.Lemmas.C05Req
import KinModel.Lemmas.C05Nest
import KinModel.StyleContent
import KinModel.Gen.StyleCells
import KinModel.Gen.DecoderFmt
import KinModel.Gen.RequestLoops
namespace KinModel.Style

/-! ### primitive texts -/

/-- integer text round trip through the model of strconv.ParseInt(·, 0, 64) -/
theorem parsePrim_integer_showInt (i : Int) (hlo : -(2 ^ 63 : Int) ≤ i) (hhi : i < (2 ^ 63 : Int)) :
    parsePrim .integer (showInt i) = .val (.int i) := by
  have h := parseInt10_showInt 64 i (by simpa using hlo) (by simpa using hhi)
  simp [parsePrim, showInt_ne_nil, h, optPR]

theorem parsePrim_int32_showInt (i : Int) (hlo : -(2 ^ 31 : Int) ≤ i) (hhi : i < (2 ^ 31 : Int)) :
    parsePrim .int32 (showInt i) = .val (.int32 i) := by
  have h := parseInt10_showInt 32 i (by simpa using hlo) (by simpa using hhi)
  simp [parsePrim, showInt_ne_nil, h, optPR]

/-- the same for the specification's base-ten reader -/
theorem specPrim_integer_showInt (i : Int) (hlo : -(2 ^ 63 : Int) ≤ i) (hhi : i < (2 ^ 63 : Int)) :
    specPrim .integer (showInt i) = .val (.int i) := by
  have h := readDecInt_showInt 64 i (by simpa using hlo) (by simpa using hhi)
  simp [specPrim, showInt_ne_nil, h, optPR]

theorem parsePrim_boolean_show (b : Bool) : parsePrim .boolean (showPV (.bool b)) = .val (.bool b) := by
  cases b <;> decide

theorem parsePrim_string (s : Str) (h : s ≠ []) : parsePrim .string s = .val (.str s) := by
  simp [parsePrim, h]

/-- the empty text is "no value" for every type (parsePrimitive's first line) -/
theorem parsePrim_empty (t : PT) : parsePrim t [] = .nil := by
  simp [parsePrim]

/-- an `int32` value can only come from a schema with format int32 -/
theorem parsePrim_int32_only (t : PT) (s : Str) (i : Int) (h : parsePrim t s = .val (.int32 i)) : t = .int32 := by
  unfold parsePrim at h
  split at h
  · cases h
  · cases t <;> simp only [optPR] at h
    · cases hp : parseInt10 64 s <;> simp [hp] at h
    · rfl
    · cases hp : parseDec s <;> simp [hp] at h
    · cases hp : parseBoolText s <;> simp [hp] at h
    · cases h

/-! ### code vs specification on one primitive text -/

/-- The code's primitive parser is the specification's, on every text and for every type (full strength since the
repair of finding F-C05-3: `strconv.ParseInt(raw, 10, …)`; before, base 0 read "010" as 8 and "0x1F" as 31). -/
theorem parsePrim_eq_specPrim (t : PT) (s : Str) : parsePrim t s = specPrim t s := by
  unfold parsePrim specPrim
  cases t <;> simp [parseInt10_eq_readDecInt]

/-- regression (former witness of F-C05-3): non-decimal spellings are decimal or parse errors now -/
theorem parsePrim_nondecimal_regression :
    parsePrim .integer "010".toList = .val (.int 10) ∧ parsePrim .integer "0x1F".toList = .err ∧
    parsePrim .integer "0b11".toList = .err ∧ parsePrim .integer "0o17".toList = .err ∧
    parsePrim .integer "1_0".toList = .err ∧ parsePrim .int32 "+5".toList = .val (.int32 5) ∧
    parsePrim .integer "-0".toList = .val (.int 0) ∧ parsePrim .integer "-".toList = .err := by
  decide

/-! ### the decision of ValidateParameter -/

/-- decode errors are reported with their kind, before anything else -/
theorem decide_error (visit : Sch → Val → Bool) (p : Param) (o : Out) (e : DErr) (h : o.err = some e) :
    decide' visit p o = errVerdict e := by
  simp [decide', h]

/-- accept ⇔ (found ∨ ¬required) ∧ (value nil → ¬found ∨ allowEmptyValue) ∧ (value ≠ nil → schema accepts) -/
theorem decide_accept_iff (visit : Sch → Val → Bool) (p : Param) (o : Out) (h : o.err = none) :
    decide' visit p o = .accept ↔
      (o.found = true ∨ p.required = false) ∧
      (o.val.isNilValue = true → o.found = false ∨ p.allowEmpty = true) ∧
      (o.val.isNilValue = false → visit p.schema o.val = true) := by
  unfold decide'
  simp only [h]
  cases hr : p.required <;> cases hf : o.found <;> cases hn : o.val.isNilValue <;> cases ha : p.allowEmpty <;>
    cases hv : visit p.schema o.val <;> simp

/-- the error kind is determined: missing / empty / schema -/
theorem decide_missing_iff (visit : Sch → Val → Bool) (p : Param) (o : Out) (h : o.err = none) :
    decide' visit p o = .missing ↔ (p.required = true ∧ o.found = false) := by
  unfold decide'
  simp only [h]
  cases hr : p.required <;> cases hf : o.found <;> cases hn : o.val.isNilValue <;> cases ha : p.allowEmpty <;>
    cases hv : visit p.schema o.val <;> simp

theorem decide_empty_iff (visit : Sch → Val → Bool) (p : Param) (o : Out) (h : o.err = none) :
    decide' visit p o = .empty ↔ (o.found = true ∧ o.val.isNilValue = true ∧ p.allowEmpty = false) := by
  unfold decide'
  simp only [h]
  cases hr : p.required <;> cases hf : o.found <;> cases hn : o.val.isNilValue <;> cases ha : p.allowEmpty <;>
    cases hv : visit p.schema o.val <;> simp

theorem decide_schema_iff (visit : Sch → Val → Bool) (p : Param) (o : Out) (h : o.err = none) :
    decide' visit p o = .schema ↔
      ((o.found = true ∨ p.required = false) ∧ o.val.isNilValue = false ∧ visit p.schema o.val = false) := by
  unfold decide'
  simp only [h]
  cases hr : p.required <;> cases hf : o.found <;> cases hn : o.val.isNilValue <;> cases ha : p.allowEmpty <;>
    cases hv : visit p.schema o.val <;> simp

/-- an absent optional parameter is accepted, an absent required one is missing — in every cell, for every schema
whose decoder reports plain absence -/
theorem absent_decision (visit : Sch → Val → Bool) (p : Param) :
    decide' visit p absent = (if p.required then .missing else .accept) := by
  unfold decide' absent
  cases p.required <;> simp [Val.isNilValue]

/-! ### decode ∘ encode, primitives: every location, every flavour -/

theorem path_prim_roundtrip (fl : Flavour) (name : Str) (st : Sty) (ex req : Bool)
    (hst : st = .simple ∨ st = .label ∨ st = .matrix) (ps : PS) (s : Str) (hs : encodable ⟨.path, st, ex⟩ name (.prim s) = true) :
    ∃ r, encode ⟨.path, st, ex⟩ name (.prim s) = some r ∧
      decodeStyled fl ⟨.path, st, ex⟩ name req r (.leaf (.prim ps)) = primOut true (fl.prim ps.t s) := by
  have hs' : s ≠ [] := by simpa [encodable] using hs
  obtain ⟨pre, hf⟩ : ∃ pre, pathPrimPrefix name st = some pre := by
    rcases hst with rfl | rfl | rfl <;> exact ⟨_, rfl⟩
  refine ⟨{ path := some (pre ++ s) }, by simp [encode, encPath, hf], ?_⟩
  simp [decodeStyled, earlyAbsent, decodeValue, decodeLeaf, pathPrim_fmt fl.prim name st pre hf s hs']

theorem query_prim_roundtrip (fl : Flavour) (name : Str) (ex req : Bool) (ps : PS) (s : Str) :
    ∃ r, encode ⟨.query, .form, ex⟩ name (.prim s) = some r ∧
      decodeStyled fl ⟨.query, .form, ex⟩ name req r (.leaf (.prim ps)) = primOut true (fl.prim ps.t s) := by
  refine ⟨{ query := [(name, [s])] }, by simp [encode, encQuery], ?_⟩
  simp [decodeStyled, earlyAbsent, decodeValue, decodeLeaf, queryPrim, qLookup]

theorem header_prim_roundtrip (fl : Flavour) (name : Str) (ex req : Bool) (ps : PS) (s : Str) :
    ∃ r, encode ⟨.header, .simple, ex⟩ name (.prim s) = some r ∧
      decodeStyled fl ⟨.header, .simple, ex⟩ name req r (.leaf (.prim ps)) = primOut true (fl.prim ps.t s) := by
  refine ⟨{ header := some [s] }, by simp [encode, encHeader], ?_⟩
  simp [decodeStyled, earlyAbsent, decodeValue, decodeLeaf, headerPrim, headerRaw]

theorem cookie_prim_roundtrip (fl : Flavour) (name : Str) (ex req : Bool) (ps : PS) (s : Str) :
    ∃ r, encode ⟨.cookie, .form, ex⟩ name (.prim s) = some r ∧
      decodeStyled fl ⟨.cookie, .form, ex⟩ name req r (.leaf (.prim ps)) = primOut true (fl.prim ps.t s) := by
  refine ⟨{ cookie := some s }, by simp [encode, encCookie], ?_⟩
  simp [decodeStyled, earlyAbsent, decodeValue, decodeLeaf, cookiePrim]

/-- integers survive the whole trip: matrix style, the code's decoder, any parameter name -/
theorem path_matrix_integer_roundtrip (name : Str) (ex req : Bool) (i : Int) (hlo : -(2 ^ 63 : Int) ≤ i) (hhi : i < (2 ^ 63 : Int)) :
    decodeStyled impl ⟨.path, .matrix, ex⟩ name req { path := some (semi name ++ showInt i) } (.leaf (.prim { t := .integer })) =
      ⟨.prim (.int i), true, none⟩ := by
  have h := pathPrim_fmt parsePrim name .matrix (semi name) rfl (showInt i) (showInt_ne_nil i) .integer
  simp [decodeStyled, earlyAbsent, decodeValue, decodeLeaf, impl, h, parsePrim_integer_showInt i hlo hhi, primOut]

/-! ### decode ∘ encode, arrays -/

/-- the six path cells: the decoder returns exactly the items that were joined -/
theorem path_array_roundtrip (fl : Flavour) (name : Str) (st : Sty) (ex req : Bool)
    (hst : st = .simple ∨ st = .label ∨ st = .matrix) (items : PS) (mn mx : Option Nat) (en : List (List EV))
    (xs : List Str) (henc : encodable ⟨.path, st, ex⟩ name (.arr xs) = true) :
    ∃ r, encode ⟨.path, st, ex⟩ name (.arr xs) = some r ∧
      decodeStyled fl ⟨.path, st, ex⟩ name req r (.leaf (.arr items mn mx en)) = arrOut true (parseArr fl.prim items.t xs) := by
  obtain ⟨pre, d0, dr, hf⟩ := pathArrFmt_some name st ex hst
  have henc' : encodableArr ⟨.path, st, ex⟩ name xs = true := by simpa [encodable] using henc
  obtain ⟨hne, hnn⟩ := encodableArr_elim0 _ _ _ henc'
  have hfree := encodableArr_elim ⟨.path, st, ex⟩ name xs d0 dr (by simp [arrDelim, hf]) henc'
  refine ⟨{ path := some (pre ++ joinL (d0 :: dr) xs) }, by simp [encode, encPath_arr name st ex pre _ hf], ?_⟩
  simp [decodeStyled, earlyAbsent, decodeValue, decodeLeaf, pathArr_fmt fl.prim name st ex pre d0 dr hf xs hne hnn hfree]

/-- query, explode=false: form ",", spaceDelimited " ", pipeDelimited "|" -/
theorem query_array_roundtrip (fl : Flavour) (name : Str) (st : Sty) (req : Bool)
    (hst : st = .form ∨ st = .spaceDelimited ∨ st = .pipeDelimited) (items : PS) (mn mx : Option Nat) (en : List (List EV))
    (xs : List Str) (henc : encodable ⟨.query, st, false⟩ name (.arr xs) = true) :
    ∃ r, encode ⟨.query, st, false⟩ name (.arr xs) = some r ∧
      decodeStyled fl ⟨.query, st, false⟩ name req r (.leaf (.arr items mn mx en)) = arrOut true (parseArr fl.prim items.t xs) := by
  have henc' : encodableArr ⟨.query, st, false⟩ name xs = true := by simpa [encodable] using henc
  obtain ⟨hne, hnn⟩ := encodableArr_elim0 _ _ _ henc'
  rcases hst with rfl | rfl | rfl
  · have hfree := encodableArr_elim _ name xs ',' [] (by simp [arrDelim, queryDelim]) henc'
    refine ⟨{ query := [(name, [joinL [','] xs])] }, by simp [encode, encQuery], ?_⟩
    simp [decodeStyled, earlyAbsent, decodeValue, decodeLeaf, queryArr, qLookup, queryDelim, splitOn_joinL ',' [] xs hne hfree]
  · have hfree := encodableArr_elim _ name xs ' ' [] (by simp [arrDelim, queryDelim]) henc'
    refine ⟨{ query := [(name, [joinL [' '] xs])] }, by simp [encode, encQuery], ?_⟩
    simp [decodeStyled, earlyAbsent, decodeValue, decodeLeaf, queryArr, qLookup, queryDelim, splitOn_joinL ' ' [] xs hne hfree]
  · have hfree := encodableArr_elim _ name xs '|' [] (by simp [arrDelim, queryDelim]) henc'
    refine ⟨{ query := [(name, [joinL ['|'] xs])] }, by simp [encode, encQuery], ?_⟩
    simp [decodeStyled, earlyAbsent, decodeValue, decodeLeaf, queryArr, qLookup, queryDelim, splitOn_joinL '|' [] xs hne hfree]

/-- query, explode=true: one value per item, no delimiter at all (items may contain anything) -/
theorem query_array_explode_roundtrip (fl : Flavour) (name : Str) (st : Sty) (req : Bool)
    (hst : st = .form ∨ st = .spaceDelimited ∨ st = .pipeDelimited) (items : PS) (mn mx : Option Nat) (en : List (List EV))
    (xs : List Str) (hne : xs ≠ []) :
    ∃ r, encode ⟨.query, st, true⟩ name (.arr xs) = some r ∧
      decodeStyled fl ⟨.query, st, true⟩ name req r (.leaf (.arr items mn mx en)) = arrOut true (parseArr fl.prim items.t xs) := by
  cases xs with
  | nil => contradiction
  | cons x rest =>
    refine ⟨{ query := [(name, x :: rest)] }, by rcases hst with rfl | rfl | rfl <;> simp [encode, encQuery, explodedQ], ?_⟩
    rcases hst with rfl | rfl | rfl <;>
      simp [decodeStyled, earlyAbsent, decodeValue, decodeLeaf, queryArr, qLookup]

theorem header_array_roundtrip (fl : Flavour) (name : Str) (ex req : Bool) (items : PS) (mn mx : Option Nat) (en : List (List EV))
    (xs : List Str) (henc : encodable ⟨.header, .simple, ex⟩ name (.arr xs) = true) :
    ∃ r, encode ⟨.header, .simple, ex⟩ name (.arr xs) = some r ∧
      decodeStyled fl ⟨.header, .simple, ex⟩ name req r (.leaf (.arr items mn mx en)) = arrOut true (parseArr fl.prim items.t xs) := by
  have henc' : encodableArr ⟨.header, .simple, ex⟩ name xs = true := by simpa [encodable] using henc
  obtain ⟨hne, hnn⟩ := encodableArr_elim0 _ _ _ henc'
  have hfree := encodableArr_elim _ name xs ',' [] (by simp [arrDelim]) henc'
  refine ⟨{ header := some [joinL [','] xs] }, by simp [encode, encHeader], ?_⟩
  simp [decodeStyled, earlyAbsent, decodeValue, decodeLeaf, headerArr, headerRaw, splitOn_joinL ',' [] xs hne hfree]

/-- cookie: round trip whenever the decoder does not refuse the cell (`CookieExplode`, finding #31, is exactly the
refused part: explode=true under the code's flavour). Full statement (no `hck`) is false: `cookie_explode_witness`. -/
theorem cookie_array_roundtrip_partial (fl : Flavour) (name : Str) (ex req : Bool) (hck : (fl.cookieExplodeBad && ex) = false)
    (items : PS) (mn mx : Option Nat) (en : List (List EV))
    (xs : List Str) (henc : encodable ⟨.cookie, .form, ex⟩ name (.arr xs) = true) :
    ∃ r, encode ⟨.cookie, .form, ex⟩ name (.arr xs) = some r ∧
      decodeStyled fl ⟨.cookie, .form, ex⟩ name req r (.leaf (.arr items mn mx en)) = arrOut true (parseArr fl.prim items.t xs) := by
  have henc' : encodableArr ⟨.cookie, .form, ex⟩ name xs = true := by simpa [encodable] using henc
  obtain ⟨hne, hnn⟩ := encodableArr_elim0 _ _ _ henc'
  have hfree := encodableArr_elim _ name xs ',' [] (by simp [arrDelim]) henc'
  refine ⟨{ cookie := some (joinL [','] xs) }, by simp [encode, encCookie], ?_⟩
  simp [decodeStyled, earlyAbsent, decodeValue, decodeLeaf, cookieArr, hck, splitOn_joinL ',' [] xs hne hfree]

/-- item texts that all read as values give back exactly those values, in order -/
theorem parseArr_vals (prim : PT → Str → PR) (t : PT) :
    ∀ (xs : List Str) (vs : List PV), Reads prim t xs vs → parseArr prim t xs = .vals vs
  | _, _, .nil => rfl
  | _, _, .cons h1 h2 => by simp [parseArr, h1, parseArr_vals prim t _ _ h2, arCons]

/-- a text that is not a serialisation of the item type makes the whole parameter a parse error -/
theorem parseArr_err (prim : PT → Str → PR) (t : PT) (pre : List Str) (vs : List PV) (bad : Str) (post : List Str)
    (hpre : Reads prim t pre vs) (hbad : prim t bad = .err) :
    parseArr prim t (pre ++ bad :: post) = .err := by
  induction hpre with
  | nil => simp [parseArr, hbad]
  | cons h1 _ ih => simp [parseArr, h1, ih, arCons]

/-! ### decode ∘ encode, objects -/

/-- "a,1,b,x" (explode=false in every location, path simple/label/matrix, header, cookie, query form) -/
theorem objOut_flat_roundtrip (prim : PT → Str → PR) (kvs : List (Str × Str)) (hne : kvs ≠ [])
    (hfree : ∀ kv ∈ kvs, ',' ∉ kv.1 ∧ ',' ∉ kv.2) (sprops : List (Str × PS)) (addl : Option PS) :
    objOut prim true (joinL [','] (flatKV kvs)) [','] [','] sprops addl =
      match makeObject prim kvs sprops addl with
      | none => ⟨.nilObj, true, some .parse⟩
      | some res => ⟨.obj res, true, none⟩ := by
  unfold objOut
  rw [propsFromString_flat kvs hne hfree]
  rfl

/-- "a=1,b=x" / ".a=1.b=x" / ";a=1;b=x" (explode=true: path simple/label/matrix, header) -/
theorem objOut_eq_roundtrip (prim : PT → Str → PR) (p0 : Char) (hp : p0 ≠ '=') (kvs : List (Str × Str)) (hne : kvs ≠ [])
    (hfree : ∀ kv ∈ kvs, p0 ∉ kv.1 ∧ p0 ∉ kv.2 ∧ '=' ∉ kv.1 ∧ '=' ∉ kv.2) (sprops : List (Str × PS)) (addl : Option PS) :
    objOut prim true (joinL [p0] (eqKV kvs)) [p0] ['='] sprops addl =
      match makeObject prim kvs sprops addl with
      | none => ⟨.nilObj, true, some .parse⟩
      | some res => ⟨.obj res, true, none⟩ := by
  unfold objOut
  rw [propsFromString_eq p0 hp kvs hne hfree]
  rfl

/-- without an additionalProperties schema the decoded object holds, for every declared property, the value
its text stands for — independent of the order in which the pairs were written -/
theorem makeObject_lookup (prim : PT → Str → PR) (props : List (Str × Str)) (sprops : List (Str × PS))
    (res : List (Str × PV)) (hnd : (sprops.map Prod.fst).Nodup) (h : makeObject prim props sprops none = some res) (k : Str) :
    res.lookup k = propVal prim props sprops k := by
  unfold makeObject at h
  cases hb : buildProps prim props sprops with
  | none => simp [hb] at h
  | some base =>
    simp [hb] at h; subst h
    exact buildProps_lookup prim props sprops base hnd hb k

/-- … and with an additionalProperties schema (full strength since the repair of F-C05-4): a declared key holds the
value decoded with its *own* schema, an undeclared key the value decoded with the additionalProperties schema — for
every schema, every request, every order of the pairs -/
theorem makeObject_lookup_addl (prim : PT → Str → PR) (props : List (Str × Str)) (sprops : List (Str × PS)) (a : PS)
    (res : List (Str × PV)) (hnd : (sprops.map Prod.fst).Nodup) (h : makeObject prim props sprops (some a) = some res) (k : Str) :
    res.lookup k = if hasKey k sprops then propVal prim props sprops k else addlVal prim props a k := by
  unfold makeObject at h
  cases hb : buildProps prim props sprops with
  | none => simp [hb] at h
  | some base =>
    simp only [hb] at h
    cases he : buildAddl prim props a ((dedup (props.map Prod.fst)).filter (fun k => !hasKey k sprops)) with
    | none => simp [he] at h
    | some extra =>
      simp [he] at h; subst h
      have hbase := buildProps_lookup prim props sprops base hnd hb k
      have hextra := buildAddl_lookup prim props a _ extra ((dedup_nodup _).filter _) he k
      rw [List.lookup_append, hbase, hextra]
      cases hk : hasKey k sprops with
      | true => simp [hk]
      | false =>
        have hpv : propVal prim props sprops k = none := by
          simp [propVal, lookup_none_of_not_hasKey k sprops hk]
        simp only [hpv, Option.none_or, List.mem_filter, mem_dedup, hk, Bool.not_false, and_true, Bool.false_eq_true, if_false]
        split
        · rfl
        · next hm => simp [addlVal, lookupLast_none_of_not_mem k props hm]

/-- in particular a declared property never depends on the additionalProperties schema (the general form of the
former witness of F-C05-4) -/
theorem makeObject_declared_ignores_addl (prim : PT → Str → PR) (props : List (Str × Str)) (sprops : List (Str × PS)) (a : PS)
    (res : List (Str × PV)) (hnd : (sprops.map Prod.fst).Nodup) (h : makeObject prim props sprops (some a) = some res)
    (k : Str) (hk : hasKey k sprops = true) : res.lookup k = propVal prim props sprops k := by
  rw [makeObject_lookup_addl prim props sprops a res hnd h k, if_pos hk]

/-- an odd number of comma-separated items is never an object (explode=false): ParseError -/
theorem objOut_odd_is_parse_error (prim : PT → Str → PR) (found : Bool) (src : Str) (sprops : List (Str × PS)) (addl : Option PS)
    (h : (splitOn [','] src).length % 2 = 1) :
    objOut prim found src [','] [','] sprops addl = ⟨.nilObj, found, some .parse⟩ := by
  unfold objOut propsFromString
  simp [pairUp_none_of_odd _ h]

/-- a path value without its style prefix is a ParseError -/
theorem path_missing_prefix_is_parse_error (prim : PT → Str → PR) (name : Str) (st : Sty) (pre raw : Str) (t : PT)
    (hf : pathPrimPrefix name st = some pre) (hraw : raw ≠ []) (hp : pre.isPrefixOf raw = false) :
    pathPrim prim name st { path := some raw } t = ⟨.nil, true, some .parse⟩ := by
  unfold pathPrim
  rw [hf]
  simp [pathRaw_some raw hraw, cutPrefix, hp]

/-- query form, explode=true: every pair travels as its own query entry; when nothing of the object is found and there is
no additionalProperties schema the parameter is absent (commit 404949f) -/
theorem query_object_explode_roundtrip (fl : Flavour) (name : Str) (req : Bool) (kvs : List (Str × Str)) (hne : kvs ≠ [])
    (sprops : List (Str × PS)) (rq : List Str) (addl : Option PS) :
    ∃ r, encode ⟨.query, .form, true⟩ name (.obj kvs) = some r ∧
      decodeStyled fl ⟨.query, .form, true⟩ name req r (.leaf (.obj sprops rq addl)) =
        match makeObject fl.prim kvs sprops addl with
        | none => ⟨.nilObj, false, some .parse⟩
        | some res => if !queryObjFound sprops kvs res && true && addl.isNone then absentObj
                      else ⟨.obj res, queryObjFound sprops kvs res, none⟩ := by
  have hfv : ∀ l : List (Str × Str), firstVals (l.map (fun kv => (kv.1, [kv.2]))) = l := by
    intro l
    induction l with
    | nil => rfl
    | cons kv rest ih => simp [firstVals, ih]
  have hq : (kvs.map (fun kv => (kv.1, [kv.2]))).isEmpty = false := by
    cases kvs with
    | nil => contradiction
    | cons kv rest => rfl
  refine ⟨{ query := kvs.map (fun kv => (kv.1, [kv.2])) }, by simp [encode, encQuery], ?_⟩
  simp only [decodeStyled, earlyAbsent, hq, decodeValue, decodeLeaf, queryObj, hfv kvs]
  cases hm : makeObject fl.prim kvs sprops addl <;> simp [hm]

/-- the three path styles, explode=false: "a,1,b,x" behind the style prefix -/
theorem path_object_roundtrip (fl : Flavour) (name : Str) (st : Sty) (req : Bool)
    (hst : st = .simple ∨ st = .label ∨ st = .matrix) (sprops : List (Str × PS)) (rq : List Str) (addl : Option PS)
    (kvs : List (Str × Str)) (henc : encodable ⟨.path, st, false⟩ name (.obj kvs) = true) :
    ∃ r, encode ⟨.path, st, false⟩ name (.obj kvs) = some r ∧
      decodeStyled fl ⟨.path, st, false⟩ name req r (.leaf (.obj sprops rq addl)) =
        match makeObject fl.prim kvs sprops addl with
        | none => ⟨.nilObj, true, some .parse⟩
        | some res => ⟨.obj res, true, none⟩ := by
  have hne : kvs ≠ [] := by
    intro e; subst e; simp [encodable, encodableObj] at henc
  have hk1 : ∀ kv ∈ kvs, kv.1 ≠ [] := by
    intro kv hkv
    rcases hst with rfl | rfl | rfl <;>
      simp [encodable, encodableObj, objDelims, pathObjFmt, List.all_eq_true] at henc <;>
      exact (henc.1.2 kv.1 kv.2 hkv).1
  have hfree : ∀ kv ∈ kvs, ',' ∉ kv.1 ∧ ',' ∉ kv.2 := by
    intro kv hkv
    rcases hst with rfl | rfl | rfl <;>
      simp [encodable, encodableObj, objDelims, pathObjFmt, List.all_eq_true, freeOf] at henc <;>
      exact ⟨(henc.2 kv.1 kv.2 hkv).1.1.1, (henc.2 kv.1 kv.2 hkv).1.1.2⟩
  have hj : joinL [','] (flatKV kvs) ≠ [] := by
    cases kvs with
    | nil => contradiction
    | cons kv rest =>
      obtain ⟨k, v⟩ := kv
      have : k ≠ [] := hk1 (k, v) (by simp)
      cases rest with
      | nil => simp [flatKV, joinL, this]
      | cons kv2 r2 => simp [flatKV, joinL, this]
  rcases hst with rfl | rfl | rfl
  · refine ⟨{ path := some (joinL [','] (flatKV kvs)) }, by simp [encode, encPath], ?_⟩
    simp only [decodeStyled, earlyAbsent, decodeValue, decodeLeaf, pathObj, pathObjFmt, pathRaw_some _ hj, cutPrefix,
      List.isPrefixOf, List.length_nil, List.drop_zero]
    simpa using objOut_flat_roundtrip fl.prim kvs hne hfree sprops addl
  · have hraw : ['.'] ++ joinL [','] (flatKV kvs) ≠ [] := by simp
    refine ⟨{ path := some (['.'] ++ joinL [','] (flatKV kvs)) }, by simp [encode, encPath], ?_⟩
    simp only [decodeStyled, earlyAbsent, decodeValue, decodeLeaf, pathObj, pathObjFmt, pathRaw_some _ hraw, cutPrefix_append]
    simpa using objOut_flat_roundtrip fl.prim kvs hne hfree sprops addl
  · have hraw : semi name ++ joinL [','] (flatKV kvs) ≠ [] := by simp [semi]
    refine ⟨{ path := some (semi name ++ joinL [','] (flatKV kvs)) }, by simp [encode, encPath], ?_⟩
    simp only [decodeStyled, earlyAbsent, decodeValue, decodeLeaf, pathObj, pathObjFmt, pathRaw_some _ hraw, cutPrefix_append]
    simpa using objOut_flat_roundtrip fl.prim kvs hne hfree sprops addl

/-- header, explode=true: "a=1,b=x" -/
theorem header_object_explode_roundtrip (fl : Flavour) (name : Str) (req : Bool)
    (sprops : List (Str × PS)) (rq : List Str) (addl : Option PS)
    (kvs : List (Str × Str)) (henc : encodable ⟨.header, .simple, true⟩ name (.obj kvs) = true) :
    ∃ r, encode ⟨.header, .simple, true⟩ name (.obj kvs) = some r ∧
      decodeStyled fl ⟨.header, .simple, true⟩ name req r (.leaf (.obj sprops rq addl)) =
        match makeObject fl.prim kvs sprops addl with
        | none => ⟨.nilObj, true, some .parse⟩
        | some res => ⟨.obj res, true, none⟩ := by
  have hne : kvs ≠ [] := by
    intro e; subst e; simp [encodable, encodableObj] at henc
  have hfree : ∀ kv ∈ kvs, ',' ∉ kv.1 ∧ ',' ∉ kv.2 ∧ '=' ∉ kv.1 ∧ '=' ∉ kv.2 := by
    intro kv hkv
    simp [encodable, encodableObj, objDelims, List.all_eq_true, freeOf] at henc
    have := henc.2 kv.1 kv.2 hkv
    exact ⟨this.1.1.1, this.1.1.2, this.1.2, this.2⟩
  refine ⟨{ header := some [joinL [','] (eqKV kvs)] }, by simp [encode, encHeader], ?_⟩
  simp only [decodeStyled, earlyAbsent, decodeValue, decodeLeaf, headerObj, headerRaw]
  simpa using objOut_eq_roundtrip fl.prim ',' (by decide) kvs hne hfree sprops addl

/-- header explode=false, cookie (where the decoder does not refuse the cell) and query form explode=false: "a,1,b,x" -/
theorem header_object_roundtrip (fl : Flavour) (name : Str) (req : Bool)
    (sprops : List (Str × PS)) (rq : List Str) (addl : Option PS)
    (kvs : List (Str × Str)) (henc : encodable ⟨.header, .simple, false⟩ name (.obj kvs) = true) :
    ∃ r, encode ⟨.header, .simple, false⟩ name (.obj kvs) = some r ∧
      decodeStyled fl ⟨.header, .simple, false⟩ name req r (.leaf (.obj sprops rq addl)) =
        match makeObject fl.prim kvs sprops addl with
        | none => ⟨.nilObj, true, some .parse⟩
        | some res => ⟨.obj res, true, none⟩ := by
  have hne : kvs ≠ [] := by
    intro e; subst e; simp [encodable, encodableObj] at henc
  have hfree : ∀ kv ∈ kvs, ',' ∉ kv.1 ∧ ',' ∉ kv.2 := by
    intro kv hkv
    simp [encodable, encodableObj, objDelims, List.all_eq_true, freeOf] at henc
    have := henc.2 kv.1 kv.2 hkv
    exact ⟨this.1.1.1, this.1.1.2⟩
  refine ⟨{ header := some [joinL [','] (flatKV kvs)] }, by simp [encode, encHeader], ?_⟩
  simp only [decodeStyled, earlyAbsent, decodeValue, decodeLeaf, headerObj, headerRaw]
  simpa using objOut_flat_roundtrip fl.prim kvs hne hfree sprops addl

theorem cookie_object_roundtrip_partial (fl : Flavour) (name : Str) (ex req : Bool) (hck : (fl.cookieExplodeBad && ex) = false)
    (sprops : List (Str × PS)) (rq : List Str) (addl : Option PS)
    (kvs : List (Str × Str)) (henc : encodable ⟨.cookie, .form, ex⟩ name (.obj kvs) = true) :
    ∃ r, encode ⟨.cookie, .form, ex⟩ name (.obj kvs) = some r ∧
      decodeStyled fl ⟨.cookie, .form, ex⟩ name req r (.leaf (.obj sprops rq addl)) =
        match makeObject fl.prim kvs sprops addl with
        | none => ⟨.nilObj, true, some .parse⟩
        | some res => ⟨.obj res, true, none⟩ := by
  have hne : kvs ≠ [] := by
    intro e; subst e; simp [encodable, encodableObj] at henc
  have hfree : ∀ kv ∈ kvs, ',' ∉ kv.1 ∧ ',' ∉ kv.2 := by
    intro kv hkv
    simp [encodable, encodableObj, objDelims, List.all_eq_true, freeOf] at henc
    have := henc.2 kv.1 kv.2 hkv
    exact ⟨this.1.1.1, this.1.1.2⟩
  refine ⟨{ cookie := some (joinL [','] (flatKV kvs)) }, by simp [encode, encCookie], ?_⟩
  simp only [decodeStyled, earlyAbsent, decodeValue, decodeLeaf, cookieObj, hck]
  simpa using objOut_flat_roundtrip fl.prim kvs hne hfree sprops addl

/-- the three path styles, explode=true: "a=1,b=x", ".a=1.b=x", ";a=1;b=x" -/
theorem path_object_explode_roundtrip (fl : Flavour) (name : Str) (st : Sty) (req : Bool)
    (hst : st = .simple ∨ st = .label ∨ st = .matrix) (sprops : List (Str × PS)) (rq : List Str) (addl : Option PS)
    (kvs : List (Str × Str)) (henc : encodable ⟨.path, st, true⟩ name (.obj kvs) = true) :
    ∃ r, encode ⟨.path, st, true⟩ name (.obj kvs) = some r ∧
      decodeStyled fl ⟨.path, st, true⟩ name req r (.leaf (.obj sprops rq addl)) =
        match makeObject fl.prim kvs sprops addl with
        | none => ⟨.nilObj, true, some .parse⟩
        | some res => ⟨.obj res, true, none⟩ := by
  have hne : kvs ≠ [] := by
    intro e; subst e; simp [encodable, encodableObj] at henc
  have hj : ∀ p0 : Char, joinL [p0] (eqKV kvs) ≠ [] := by
    intro p0
    cases kvs with
    | nil => contradiction
    | cons kv rest =>
      cases rest with
      | nil => simp [eqKV, joinL]
      | cons kv2 r2 => simp [eqKV, joinL]
  rcases hst with rfl | rfl | rfl
  · have hfree : ∀ kv ∈ kvs, ',' ∉ kv.1 ∧ ',' ∉ kv.2 ∧ '=' ∉ kv.1 ∧ '=' ∉ kv.2 := by
      intro kv hkv
      simp [encodable, encodableObj, objDelims, pathObjFmt, List.all_eq_true, freeOf] at henc
      have := henc.2 kv.1 kv.2 hkv
      exact ⟨this.1.1.1, this.1.1.2, this.1.2, this.2⟩
    refine ⟨{ path := some (joinL [','] (eqKV kvs)) }, by simp [encode, encPath], ?_⟩
    simp only [decodeStyled, earlyAbsent, decodeValue, decodeLeaf, pathObj, pathObjFmt, pathRaw_some _ (hj ','), cutPrefix,
      List.isPrefixOf, List.length_nil, List.drop_zero]
    simpa using objOut_eq_roundtrip fl.prim ',' (by decide) kvs hne hfree sprops addl
  · have hfree : ∀ kv ∈ kvs, '.' ∉ kv.1 ∧ '.' ∉ kv.2 ∧ '=' ∉ kv.1 ∧ '=' ∉ kv.2 := by
      intro kv hkv
      simp [encodable, encodableObj, objDelims, pathObjFmt, List.all_eq_true, freeOf] at henc
      have := henc.2 kv.1 kv.2 hkv
      exact ⟨this.1.1.1, this.1.1.2, this.1.2, this.2⟩
    have hraw : ['.'] ++ joinL ['.'] (eqKV kvs) ≠ [] := by simp
    refine ⟨{ path := some (['.'] ++ joinL ['.'] (eqKV kvs)) }, by simp [encode, encPath], ?_⟩
    simp only [decodeStyled, earlyAbsent, decodeValue, decodeLeaf, pathObj, pathObjFmt, pathRaw_some _ hraw, cutPrefix_append]
    simpa using objOut_eq_roundtrip fl.prim '.' (by decide) kvs hne hfree sprops addl
  · have hfree : ∀ kv ∈ kvs, ';' ∉ kv.1 ∧ ';' ∉ kv.2 ∧ '=' ∉ kv.1 ∧ '=' ∉ kv.2 := by
      intro kv hkv
      simp [encodable, encodableObj, objDelims, pathObjFmt, List.all_eq_true, freeOf] at henc
      have := henc.2 kv.1 kv.2 hkv
      exact ⟨this.1.1.1, this.1.1.2, this.1.2, this.2⟩
    have hraw : [';'] ++ joinL [';'] (eqKV kvs) ≠ [] := by simp
    refine ⟨{ path := some ([';'] ++ joinL [';'] (eqKV kvs)) }, by simp [encode, encPath], ?_⟩
    simp only [decodeStyled, earlyAbsent, decodeValue, decodeLeaf, pathObj, pathObjFmt, pathRaw_some _ hraw, cutPrefix_append]
    simpa using objOut_eq_roundtrip fl.prim ';' (by decide) kvs hne hfree sprops addl

/-- end to end, no side condition left: every non-empty list of int64 values, written in decimal and joined with
commas, is decoded from a header back to exactly that list by the code's decoder -/
theorem header_int_array_end_to_end (name : Str) (ex req : Bool) (mn mx : Option Nat) (en : List (List EV))
    (is : List Int) (hne : is ≠ []) (hr : ∀ i ∈ is, -(2 ^ 63 : Int) ≤ i ∧ i < (2 ^ 63 : Int)) :
    decodeStyled impl ⟨.header, .simple, ex⟩ name req { header := some [joinL [','] (is.map showInt)] }
      (.leaf (.arr { t := .integer } mn mx en)) = ⟨.arr (is.map PV.int), true, none⟩ := by
  have hreads : ∀ l : List Int, (∀ i ∈ l, -(2 ^ 63 : Int) ≤ i ∧ i < (2 ^ 63 : Int)) →
      Reads parsePrim .integer (l.map showInt) (l.map PV.int) := by
    intro l
    induction l with
    | nil => intro _; exact .nil
    | cons i rest ih =>
      intro h
      exact .cons (parsePrim_integer_showInt i (h i (by simp)).1 (h i (by simp)).2) (ih (fun j hj => h j (by simp [hj])))
  have henc : encodable ⟨.header, .simple, ex⟩ name (.arr (is.map showInt)) = true := by
    simp only [encodable, encodableArr, arrDelim, Bool.and_eq_true, List.all_eq_true, Bool.not_eq_true',
      List.isEmpty_eq_false_iff]
    refine ⟨⟨by simpa using hne, ?_⟩, ?_⟩
    · intro x hx
      obtain ⟨i, _, rfl⟩ := List.mem_map.mp hx
      simpa using showInt_ne_nil i
    · intro x hx
      obtain ⟨i, _, rfl⟩ := List.mem_map.mp hx
      exact (freeOf_iff ',' _).mpr (showInt_free i ',' (by decide) comma_not_digit)
  obtain ⟨r, hr1, hr2⟩ := header_array_roundtrip impl name ex req { t := .integer } mn mx en (is.map showInt) henc
  have : r = { header := some [joinL [','] (is.map showInt)] } := by
    simp [encode, encHeader] at hr1; exact hr1.symm
  subst this
  rw [hr2]
  have hv := parseArr_vals parsePrim .integer _ _ (hreads is hr)
  simp only [impl] at hv ⊢
  rw [hv]
  cases is with
  | nil => contradiction
  | cons i rest => simp [arrOut]

/-- query, form, explode=false: "p=a,1,b,x" (`found` is the decoder's own computation over the decoded pairs) -/
theorem query_object_roundtrip (fl : Flavour) (name : Str) (req : Bool)
    (sprops : List (Str × PS)) (rq : List Str) (addl : Option PS)
    (kvs : List (Str × Str)) (henc : encodable ⟨.query, .form, false⟩ name (.obj kvs) = true) :
    ∃ r, encode ⟨.query, .form, false⟩ name (.obj kvs) = some r ∧
      decodeStyled fl ⟨.query, .form, false⟩ name req r (.leaf (.obj sprops rq addl)) =
        match makeObject fl.prim kvs sprops addl with
        | none => ⟨.nilObj, false, some .parse⟩
        | some res => ⟨.obj res, queryObjFound sprops kvs res, none⟩ := by
  have hne : kvs ≠ [] := by
    intro e; subst e; simp [encodable, encodableObj] at henc
  have hfree : ∀ kv ∈ kvs, ',' ∉ kv.1 ∧ ',' ∉ kv.2 := by
    intro kv hkv
    simp [encodable, encodableObj, objDelims, List.all_eq_true, freeOf] at henc
    have := henc.2 kv.1 kv.2 hkv
    exact ⟨this.1.1.1, this.1.1.2⟩
  refine ⟨{ query := [(name, [joinL [','] (flatKV kvs)])] }, by simp [encode, encQuery], ?_⟩
  simp [decodeStyled, earlyAbsent, decodeValue, decodeLeaf, queryObj, qLookup, propsFromString_flat kvs hne hfree]
  cases makeObject fl.prim kvs sprops addl <;> rfl

/-- query, deepObject: `p[a]=1&p[b]=x` — every key is read back as its single segment, no clash error can arise,
and the declared properties are then built from exactly the pairs that were encoded -/
theorem deep_object_roundtrip (fl : Flavour) (name : Str) (req : Bool)
    (sprops : List (Str × PS)) (rq : List Str)
    (kvs : List (Str × Str)) (henc : encodable ⟨.query, .deepObject, true⟩ name (.obj kvs) = true) :
    ∃ r, encode ⟨.query, .deepObject, true⟩ name (.obj kvs) = some r ∧
      decodeStyled fl ⟨.query, .deepObject, true⟩ name req r (.leaf (.obj sprops rq none)) =
        match buildDeep fl.prim (deepPairs kvs) (sprops.map (fun kv => (kv.1, DS.prim kv.2))) with
        | none => ⟨.nilObj, false, some .parse⟩
        | some res => ⟨.obj (dvPrims res), deepFound (sprops.map (fun kv => (kv.1, DS.prim kv.2))) (deepPairs kvs) res, none⟩ := by
  have hne : kvs ≠ [] := by
    intro e; subst e; simp [encodable, encodableObj] at henc
  have hk : ∀ kv ∈ kvs, ']' ∉ kv.1 := by
    intro kv hkv
    simp [encodable, encodableObj, objDelims, List.all_eq_true, freeOf] at henc
    exact (henc.1.2 kv.1 kv.2 hkv).2
  have hn : '[' ∉ name := by
    simp [encodable, encodableObj, objDelims, List.all_eq_true, freeOf] at henc
    exact henc.2
  refine ⟨{ query := deepEnc name kvs }, by simp [encode, encQuery, deepEnc], ?_⟩
  have hdp := deepProps_enc name hn kvs hk
  obtain ⟨kv0, rest, rfl⟩ : ∃ kv0 rest, kvs = kv0 :: rest := by
    cases kvs with
    | nil => contradiction
    | cons a b => exact ⟨a, b, rfl⟩
  have hq : (deepEnc name (kv0 :: rest)).isEmpty = false := by simp [deepEnc]
  have hcl := deepClash_pairs (kv0 :: rest)
  simp only [decodeStyled, earlyAbsent, hq, decodeValue, decodeLeaf, strictReq_deepEnc name hn _ hk, queryDeepFlat, queryDeep, hdp]
  simp only [deepPairs, List.map_cons] at hcl ⊢
  simp only [hcl]
  cases hb : buildDeep fl.prim (([kv0.1], [kv0.2]) :: List.map (fun kv => ([kv.1], [kv.2])) rest)
      (sprops.map (fun kv => (kv.1, DS.prim kv.2))) <;> simp

/-- … and that builder is the flat-object builder of every other cell (`makeObject`, so `makeObject_lookup` gives the
value of each declared property): deepObject decodes a flat object exactly like form / simple / label / matrix do -/
theorem deep_object_roundtrip_makeObject (fl : Flavour) (name : Str) (req : Bool)
    (sprops : List (Str × PS)) (rq : List Str)
    (kvs : List (Str × Str)) (henc : encodable ⟨.query, .deepObject, true⟩ name (.obj kvs) = true) :
    ∃ r, encode ⟨.query, .deepObject, true⟩ name (.obj kvs) = some r ∧
      decodeStyled fl ⟨.query, .deepObject, true⟩ name req r (.leaf (.obj sprops rq none)) =
        match makeObject fl.prim kvs sprops none with
        | none => ⟨.nilObj, false, some .parse⟩
        | some res => ⟨.obj res, deepFound (sprops.map (fun kv => (kv.1, DS.prim kv.2))) (deepPairs kvs) (liftP res), none⟩ := by
  have hd : distinctKeys kvs = true := by
    simp [encodable, encodableObj] at henc
    exact henc.1.1.1.2
  obtain ⟨r, h1, h2⟩ := deep_object_roundtrip fl name req sprops rq kvs henc
  refine ⟨r, h1, ?_⟩
  rw [h2, buildDeep_flat fl.prim kvs hd sprops]
  cases hb : buildProps fl.prim kvs sprops <;> simp [makeObject, hb, dvPrims_liftP]

/-! ### decodeValue's composition loops -/

/-- anyOf: when no alternative decodes to a value the result is nil; it is an error exactly for a required parameter -/
theorem decAnyOf_none (f : Leaf → Out) (req : Bool) :
    ∀ (ls : List Leaf) (fnd : Bool), (∀ l ∈ ls, (f l).val.isNil = true) →
      decAnyOf f req ls fnd = ⟨.nil, fnd || ls.any (fun l => (f l).found), if req then some .other else none⟩
  | [], fnd, _ => by simp [decAnyOf]
  | l :: rest, fnd, h => by
    have h1 : (f l).val.isNil = true := h l (by simp)
    have ih := decAnyOf_none f req rest (fnd || (f l).found) (fun x hx => h x (by simp [hx]))
    simp [decAnyOf, h1, ih, Bool.or_assoc]

/-- anyOf: the first alternative that decodes to a value wins; its error (and every earlier one) is dropped -/
theorem decAnyOf_first (f : Leaf → Out) (req : Bool) (l : Leaf) (post : List Leaf) (hl : (f l).val.isNil = false) :
    ∀ (pre : List Leaf) (fnd : Bool), (∀ x ∈ pre, (f x).val.isNil = true) →
      decAnyOf f req (pre ++ l :: post) fnd = ⟨(f l).val, fnd || pre.any (fun x => (f x).found) || (f l).found, none⟩
  | [], fnd, _ => by simp [decAnyOf, hl]
  | x :: pre, fnd, h => by
    have h1 : (f x).val.isNil = true := h x (by simp)
    have ih := decAnyOf_first f req l post hl pre (fnd || (f x).found) (fun y hy => h y (by simp [hy]))
    simp [decAnyOf, h1, ih, Bool.or_assoc]

/-- oneOf: `found` accumulates over all alternatives; the value is the last non-nil one (or the carried one) -/
theorem decOneOf_found (f : Leaf → Out) (req : Bool) :
    ∀ (ls : List Leaf) (fnd : Bool) (cur : Option Val),
      (decOneOf f req ls fnd cur).found = (fnd || ls.any (fun l => (f l).found))
  | [], fnd, some v => by simp [decOneOf]
  | [], fnd, none => by simp [decOneOf]
  | l :: rest, fnd, cur => by
    simp [decOneOf, decOneOf_found f req rest, Bool.or_assoc]

theorem decOneOf_last (f : Leaf → Out) (req : Bool) (l : Leaf) (hl : (f l).val.isNil = false) :
    ∀ (post : List Leaf), (∀ x ∈ post, (f x).val.isNil = true) → ∀ (pre : List Leaf) (fnd : Bool) (cur : Option Val),
      (decOneOf f req (pre ++ l :: post) fnd cur).val = (f l).val ∧ (decOneOf f req (pre ++ l :: post) fnd cur).err = none := by
  intro post hpost
  have tail : ∀ (post : List Leaf), (∀ x ∈ post, (f x).val.isNil = true) → ∀ (fnd : Bool) (v : Val),
      (decOneOf f req post fnd (some v)).val = v ∧ (decOneOf f req post fnd (some v)).err = none := by
    intro post
    induction post with
    | nil => intro _ fnd v; simp [decOneOf]
    | cons x xs ih =>
      intro h fnd v
      have hx : (f x).val.isNil = true := h x (by simp)
      simpa [decOneOf, hx] using ih (fun y hy => h y (by simp [hy])) (fnd || (f x).found) v
  intro pre
  induction pre with
  | nil => intro fnd cur; simpa [decOneOf, hl] using tail post hpost (fnd || (f l).found) (f l).val
  | cons x xs ih => intro fnd cur; simpa [decOneOf] using ih (fnd || (f x).found) _

/-- oneOf with no decodable alternative: nil, an error exactly for a required parameter -/
theorem decOneOf_none (f : Leaf → Out) (req : Bool) :
    ∀ (ls : List Leaf) (fnd : Bool), (∀ l ∈ ls, (f l).val.isNil = true) →
      decOneOf f req ls fnd none = ⟨.nil, fnd || ls.any (fun l => (f l).found), if req then some .other else none⟩
  | [], fnd, _ => by simp [decOneOf]
  | l :: rest, fnd, h => by
    have h1 : (f l).val.isNil = true := h l (by simp)
    have ih := decOneOf_none f req rest (fnd || (f l).found) (fun x hx => h x (by simp [hx]))
    simp [decOneOf, h1, ih, Bool.or_assoc]

/-- allOf: the loop stops at the first alternative that is nil or fails and returns that result -/
theorem decAllOf_stop (f : Leaf → Out) (l : Leaf) (post : List Leaf) (hl : (f l).val.isNil = true ∨ (f l).err.isSome = true) :
    ∀ (pre : List Leaf) (fnd : Bool) (last : Out), (∀ x ∈ pre, (f x).val.isNil = false ∧ (f x).err = none) →
      decAllOf f (pre ++ l :: post) fnd last = ⟨(f l).val, fnd || pre.any (fun x => (f x).found) || (f l).found, (f l).err⟩
  | [], fnd, last, _ => by
    rcases hl with h | h <;> simp [decAllOf, h]
  | x :: pre, fnd, last, h => by
    have hx := h x (by simp)
    have ih := decAllOf_stop f l post hl pre (fnd || (f x).found) ⟨(f x).val, fnd || (f x).found, (f x).err⟩
      (fun y hy => h y (by simp [hy]))
    rw [hx.2] at ih
    simpa [decAllOf, hx.1, hx.2, Bool.or_assoc] using ih

/-- allOf: when every alternative decodes to a value the last one's value is returned -/
theorem decAllOf_all (f : Leaf → Out) (l : Leaf) (hl : (f l).val.isNil = false ∧ (f l).err = none) :
    ∀ (pre : List Leaf) (fnd : Bool) (last : Out), (∀ x ∈ pre, (f x).val.isNil = false ∧ (f x).err = none) →
      decAllOf f (pre ++ [l]) fnd last = ⟨(f l).val, fnd || pre.any (fun x => (f x).found) || (f l).found, none⟩
  | [], fnd, last, _ => by simp [decAllOf, hl.1, hl.2]
  | x :: pre, fnd, last, h => by
    have hx := h x (by simp)
    have ih := decAllOf_all f l hl pre (fnd || (f x).found) ⟨(f x).val, fnd || (f x).found, (f x).err⟩
      (fun y hy => h y (by simp [hy]))
    rw [hx.2] at ih
    simpa [decAllOf, hx.1, hx.2, Bool.or_assoc] using ih

/-- a composition with one alternative decodes like that alternative whenever it yields a value without error:
every leaf round trip above lifts to `allOf: [l]`, `anyOf: [l]`, `oneOf: [l]` -/
theorem decodeValue_singleton (fl : Flavour) (c : Cell) (name : Str) (req : Bool) (r : Req) (l : Leaf)
    (h : (decodeLeaf fl c name r l).val.isNil = false ∧ (decodeLeaf fl c name r l).err = none) :
    decodeValue fl c name req r (.allOf [l]) = decodeLeaf fl c name r l ∧
    decodeValue fl c name req r (.anyOf [l]) = decodeLeaf fl c name r l ∧
    decodeValue fl c name req r (.oneOf [l]) = decodeLeaf fl c name r l := by
  obtain ⟨h1, h2⟩ := h
  cases ho : decodeLeaf fl c name r l with
  | mk v fd e =>
    simp only [ho] at h1 h2
    subst h2
    simp [decodeValue, decAllOf, decAnyOf, decOneOf, ho, h1]

/-! ### compositions with several alternatives: the loops at the level of decodeStyledParameter, and complete trips -/

/-- anyOf: the first alternative whose decoder yields a value gives the parameter's value; what the earlier ones
answered (nil, or an error — dropped by the loop) only feeds `found` -/
theorem decodeStyled_anyOf_first (fl : Flavour) (c : Cell) (name : Str) (req : Bool) (r : Req) (hea : earlyAbsent c r = false)
    (pre : List Leaf) (l : Leaf) (post : List Leaf)
    (hpre : ∀ x ∈ pre, (decodeLeaf fl c name r x).val.isNil = true) (hl : (decodeLeaf fl c name r l).val.isNil = false) :
    decodeStyled fl c name req r (.anyOf (pre ++ l :: post)) =
      ⟨(decodeLeaf fl c name r l).val, pre.any (fun x => (decodeLeaf fl c name r x).found) || (decodeLeaf fl c name r l).found, none⟩ := by
  simp only [decodeStyled, hea, Bool.false_eq_true, if_false, decodeValue]
  simpa using decAnyOf_first (decodeLeaf fl c name r) req l post hl pre false hpre

/-- oneOf: the last alternative whose decoder yields a value gives the parameter's value, without error -/
theorem decodeStyled_oneOf_last (fl : Flavour) (c : Cell) (name : Str) (req : Bool) (r : Req) (hea : earlyAbsent c r = false)
    (pre : List Leaf) (l : Leaf) (post : List Leaf)
    (hpost : ∀ x ∈ post, (decodeLeaf fl c name r x).val.isNil = true) (hl : (decodeLeaf fl c name r l).val.isNil = false) :
    (decodeStyled fl c name req r (.oneOf (pre ++ l :: post))).val = (decodeLeaf fl c name r l).val ∧
    (decodeStyled fl c name req r (.oneOf (pre ++ l :: post))).err = none ∧
    (decodeStyled fl c name req r (.oneOf (pre ++ l :: post))).found =
      (pre ++ l :: post).any (fun x => (decodeLeaf fl c name r x).found) := by
  simp only [decodeStyled, hea, Bool.false_eq_true, if_false, decodeValue]
  have h := decOneOf_last (decodeLeaf fl c name r) req l hl post hpost pre false none
  refine ⟨h.1, h.2, ?_⟩
  simpa using decOneOf_found (decodeLeaf fl c name r) req (pre ++ l :: post) false none

/-- allOf: when every alternative decodes the request to a value, the last alternative's value is the parameter's -/
theorem decodeStyled_allOf_all (fl : Flavour) (c : Cell) (name : Str) (req : Bool) (r : Req) (hea : earlyAbsent c r = false)
    (pre : List Leaf) (l : Leaf)
    (hpre : ∀ x ∈ pre, (decodeLeaf fl c name r x).val.isNil = false ∧ (decodeLeaf fl c name r x).err = none)
    (hl : (decodeLeaf fl c name r l).val.isNil = false ∧ (decodeLeaf fl c name r l).err = none) :
    decodeStyled fl c name req r (.allOf (pre ++ [l])) =
      ⟨(decodeLeaf fl c name r l).val, pre.any (fun x => (decodeLeaf fl c name r x).found) || (decodeLeaf fl c name r l).found, none⟩ := by
  simp only [decodeStyled, hea, Bool.false_eq_true, if_false, decodeValue]
  simpa using decAllOf_all (decodeLeaf fl c name r) l hl pre false ⟨.nil, false, none⟩ hpre

/-- allOf: the first alternative that fails to decode decides: its error is the parameter's error -/
theorem decodeStyled_allOf_stop (fl : Flavour) (c : Cell) (name : Str) (req : Bool) (r : Req) (hea : earlyAbsent c r = false)
    (pre : List Leaf) (l : Leaf) (post : List Leaf)
    (hpre : ∀ x ∈ pre, (decodeLeaf fl c name r x).val.isNil = false ∧ (decodeLeaf fl c name r x).err = none)
    (hl : (decodeLeaf fl c name r l).val.isNil = true ∨ (decodeLeaf fl c name r l).err.isSome = true) :
    decodeStyled fl c name req r (.allOf (pre ++ l :: post)) =
      ⟨(decodeLeaf fl c name r l).val, pre.any (fun x => (decodeLeaf fl c name r x).found) || (decodeLeaf fl c name r l).found,
        (decodeLeaf fl c name r l).err⟩ := by
  simp only [decodeStyled, hea, Bool.false_eq_true, if_false, decodeValue]
  simpa using decAllOf_stop (decodeLeaf fl c name r) l post hl pre false ⟨.nil, false, none⟩ hpre

/-- a complete multi-alternative trip, no side condition left: `anyOf: [integer, array of integer]` in a header.
Every list of two or more int64 values, comma-joined, fails the first alternative (the comma is no digit; the
loop drops that ParseError) and is decoded by the second to exactly the list that was sent — for every name,
explode flag and `required` -/
theorem header_anyOf_int_or_array_end_to_end (name : Str) (ex req : Bool)
    (is : List Int) (h2 : 2 ≤ is.length) (hr : ∀ i ∈ is, -(2 ^ 63 : Int) ≤ i ∧ i < (2 ^ 63 : Int)) :
    decodeStyled impl ⟨.header, .simple, ex⟩ name req { header := some [joinL [','] (is.map showInt)] }
      (.anyOf [.prim { t := .integer }, .arr { t := .integer } none none []]) = ⟨.arr (is.map PV.int), true, none⟩ := by
  have hne : is ≠ [] := by intro e; subst e; simp at h2
  have harr := header_int_array_end_to_end name ex req none none [] is hne hr
  have hraw : joinL [','] (is.map showInt) ≠ [] := by
    apply joinL_ne_nil
    · simpa using hne
    · intro x hx
      obtain ⟨i, _, rfl⟩ := List.mem_map.mp hx
      exact showInt_ne_nil i
  have hcomma : ',' ∈ joinL [','] (is.map showInt) := mem_joinL_sep ',' _ (by simpa using h2)
  have hprim : decodeLeaf impl ⟨.header, .simple, ex⟩ name { header := some [joinL [','] (is.map showInt)] } (.prim { t := .integer }) =
      ⟨.nil, true, some .parse⟩ := by
    simp [decodeLeaf, headerPrim, headerRaw, impl, parsePrim, hraw, parseInt10_none_of_comma 64 _ hcomma, optPR, primOut]
  have hleaf : decodeLeaf impl ⟨.header, .simple, ex⟩ name { header := some [joinL [','] (is.map showInt)] }
      (.arr { t := .integer } none none []) = ⟨.arr (is.map PV.int), true, none⟩ := by
    simpa [decodeStyled, earlyAbsent, decodeValue] using harr
  have h := decodeStyled_anyOf_first impl ⟨.header, .simple, ex⟩ name req { header := some [joinL [','] (is.map showInt)] }
    (by simp [earlyAbsent]) [.prim { t := .integer }] (.arr { t := .integer } none none []) []
    (by intro x hx; simp at hx; subst hx; simp [hprim, Val.isNil])
    (by
      rw [hleaf]
      cases is with
      | nil => contradiction
      | cons i rest => simp [Val.isNil])
  simpa [hprim, hleaf] using h

/-! ### parameter names are literal text; absence with other parameters around -/

/-- deepObject selects exactly the query keys that literally start with `name[` — the name is never a pattern
(`$filter`, `a.b`, `x+y` select their own keys and nothing else) -/
theorem deepKey_none_of_not_prefix (name k : Str) (h : (name ++ ['[']).isPrefixOf k = false) : deepKey name k = none := by
  simp [deepKey, h]

theorem deepKey_literal_names :
    deepKey "$filter".toList "$filter[n]".toList = some ["n".toList] ∧
    deepKey "a.b".toList "a.b[n]".toList = some ["n".toList] ∧ deepKey "a.b".toList "axb[n]".toList = none ∧
    deepKey "x+y".toList "x+y[n]".toList = some ["n".toList] ∧ deepKey "x+y".toList "xxy[n]".toList = none ∧
    deepKey "q*".toList "q*[n]".toList = some ["n".toList] ∧ deepKey "q*".toList "[n]".toList = none ∧
    deepKey "k(1)".toList "k(1)[n]".toList = some ["n".toList] ∧ deepKey "n|m".toList "n[x]".toList = none := by
  decide

/-- `$filter[n]=5` is decoded (regression for the class "name with a regex metacharacter") -/
theorem deep_metachar_name_decodes :
    decodeStyled impl ⟨.query, .deepObject, true⟩ "$filter".toList true { query := [("$filter[n]".toList, [['5']])] }
      (.leaf (.deep [(['n'], .prim { t := .integer })] [])) = ⟨.dobj [(['n'], .p (.int 5))], true, none⟩ := by
  decide

/-- a typed-nil map (absent object) is decided like plain absence -/
theorem absentObj_decision (visit : Sch → Val → Bool) (p : Param) :
    decide' visit p absentObj = (if p.required then .missing else .accept) := by
  unfold decide' absentObj
  cases p.required <;> simp [Val.isNilValue]

/-- a path parameter that is absent while other path parameters are present is absent (nil or typed-nil map) for
every leaf schema and every path style: missing if required, accepted otherwise -/
theorem path_absent_with_others (fl : Flavour) (name : Str) (st : Sty) (ex req : Bool)
    (hst : st = .simple ∨ st = .label ∨ st = .matrix) (l : Leaf) (hl : ∀ sp rq, l ≠ .deep sp rq) :
    let o := decodeStyled fl ⟨.path, st, ex⟩ name req { pathOthers := true } (.leaf l)
    (o = absent ∨ o = absentObj) := by
  cases l with
  | prim ps =>
    rcases hst with rfl | rfl | rfl <;>
      simp [decodeStyled, earlyAbsent, decodeValue, decodeLeaf, pathPrim, pathPrimPrefix, pathRaw]
  | arr it mn mx en =>
    rcases hst with rfl | rfl | rfl <;> cases ex <;>
      simp [decodeStyled, earlyAbsent, decodeValue, decodeLeaf, pathArr, pathArrFmt, pathRaw]
  | obj sp rq ad =>
    rcases hst with rfl | rfl | rfl <;> cases ex <;>
      simp [decodeStyled, earlyAbsent, decodeValue, decodeLeaf, pathObj, pathObjFmt, pathRaw]
  | deep sp rq => exact absurd rfl (hl sp rq)
  | untyped en =>
    cases hu : fl.untypedAsString <;> rcases hst with rfl | rfl | rfl <;>
      simp [decodeStyled, earlyAbsent, decodeValue, decodeLeaf, hu, present, pathPrim, pathPrimPrefix, pathRaw, absent]

/-! ### deepObject with nested objects and arrays (tied by the differential run; concrete behaviour pinned here) -/

def nestedSch : Sch := .leaf (.deep [(['a'], .prim { t := .integer }), (['l'], .arr { t := .integer }),
  (['o'], .obj [(['x'], { t := .integer }), (['y'], { t := .string })] [['x']])] [])

theorem deep_nested_examples :
    -- a nested object and an array with a hole
    decodeStyled impl ⟨.query, .deepObject, true⟩ ['p'] false
      { query := [("p[o][x]".toList, [['5']]), ("p[o][y]".toList, [['w']]), ("p[l][1]".toList, [['2']])] } nestedSch
      = ⟨.dobj [(['l'], .a [none, some (.int 2)]), (['o'], .o [(['x'], .int 5), (['y'], .str ['w'])])], true, none⟩ ∧
    -- a path used both as a value and as an object: ParseError (deepSet)
    (decodeStyled impl ⟨.query, .deepObject, true⟩ ['p'] false
      { query := [("p[o]".toList, [['1']]), ("p[o][x]".toList, [['2']])] } nestedSch).err = some .parse ∧
    (decodeStyled impl ⟨.query, .deepObject, true⟩ ['p'] false
      { query := [("p[o][x]".toList, [['1']]), ("p[o][x][q]".toList, [['2']])] } nestedSch).err = some .parse ∧
    -- a primitive property of the nested object that does not parse: ParseError
    (decodeStyled impl ⟨.query, .deepObject, true⟩ ['p'] false { query := [("p[o][x]".toList, [['z']])] } nestedSch).err = some .parse ∧
    -- the nested object's own `required` is enforced by validation
    validateParameter ⟨⟨.query, .deepObject, true⟩, ['p'], false, false, nestedSch⟩ { query := [("p[o][y]".toList, [['w']])] } = .schema ∧
    validateParameter ⟨⟨.query, .deepObject, true⟩, ['p'], false, false, nestedSch⟩ { query := [("p[o][x]".toList, [['3']])] } = .accept ∧
    -- a scalar where an object is declared is handed to validation as a string and rejected there
    validateParameter ⟨⟨.query, .deepObject, true⟩, ['p'], false, false, nestedSch⟩ { query := [("p[o]".toList, [['3']])] } = .schema := by
  decide

/-! ### deepObject at every depth (KinModel/StyleNest.lean: the recursion of makeObject / buildResObj) -/

/-- the node-level round trip, any depth: buildResObj's recursion rebuilds a value from its entries -/
theorem nest_entries_roundtrip (prim : PT → Str → PR) (f : Nat) (ns : NS) (v : NV) (h : fitsB prim f ns v = true) :
    nbuild prim f ns (encN v) = some (some v) :=
  nbuild_encN prim f ns v h

/-- **decode ∘ encode for nested deepObject at every depth**: take any object schema (objects in objects, arrays of
objects, arrays of arrays … to any depth; no additionalProperties schema) and any value that fits it (`fitsB`: primitive
texts that read back, arrays without holes, objects selecting declared properties; keys without `]`). Write every
primitive leaf as `name[k1][k2]…[kn]=text` (`encQ`). Then urlValuesDecoder.DecodeObject — regexp key selection, bracket
groups, deepSet clash check, buildResObj's recursion with sliceMapToSlice for arrays, the `found` loop — returns exactly
that value, found, without error: for every parameter name without `[`, both flavours. -/
theorem nest_roundtrip (prim : PT → Str → PR) (name : Str) (hn : '[' ∉ name)
    (props : List (Str × NS)) (req : List Str) (kvs : List (Str × NV))
    (hfit : fitsB prim ((NS.obj props req none).depth + 1) (.obj props req none) (.o kvs) = true) :
    let o := queryNest prim name { query := encQ name (encO kvs) } props req none
    o.val = some kvs ∧ o.found = true ∧ o.err = none := by
  have hb := nbuild_encN prim _ _ _ hfit
  have hnc := noClash_encN prim _ _ _ hfit
  have hsf := segsFree_encN prim _ _ _ hfit
  have hne := encN_ne_nil prim _ _ _ hfit
  simp only [encN] at hb hnc hsf hne
  have hpaths : ∀ a ∈ encO kvs, a.1 ≠ [] := by
    intro a ha
    obtain ⟨h1, t1, e1, _⟩ := headsIn_encO kvs a ha
    simp [e1]
  have hdp := deepProps_encQ name hn (encO kvs) hpaths hsf
  have hcl := deepClash_of_noClash (encO kvs) hnc
  have hmap : (List.map (fun a => (a.1, [a.2])) (encO kvs)).map (fun kv => (kv.1, kv.2.headD [])) = encO kvs := by
    simp [List.map_map, Function.comp_def]
  have hfit' := hfit
  simp only [fitsB, Bool.and_eq_true, Bool.not_eq_true', List.isEmpty_eq_false_iff] at hfit'
  have hok := kvsOK_of_fitsOB _ props kvs hfit'.2
  have hprops : props.isEmpty = false := by
    cases props with
    | nil =>
      cases kvs with
      | nil => exact absurd rfl hfit'.1
      | cons a b => simp [fitsOB] at hfit'
    | cons a b => rfl
  have hfound : nFound props (List.map (fun a => (a.1, [a.2])) (encO kvs)) kvs = true := by
    cases he : encO kvs with
    | nil => exact absurd he hne
    | cons a rest =>
      have hg := nget_encO prim _ kvs hok a (by rw [he]; simp)
      simp [nFound, hprops, hg]
  have hb' : nbuild prim ((NS.obj props req none).depth + 1) (.obj props req none)
      ((List.map (fun a => (a.1, [a.2])) (encO kvs)).map (fun kv => (kv.1, kv.2.headD []))) = some (some (.o kvs)) := by
    rw [hmap]; exact hb
  have hdne : List.map (fun a => (a.1, [a.2])) (encO kvs) ≠ [] := by
    intro e
    exact hne (List.map_eq_nil_iff.mp e)
  simp only [queryNest, hdp]
  generalize List.map (fun a => (a.1, [a.2])) (encO kvs) = dp at hcl hb' hdne hfound ⊢
  cases dp with
  | nil => contradiction
  | cons d ds =>
    simp only [hcl, Bool.false_eq_true, if_false]
    rw [hb']
    simp [hfound]

/-- a schema of depth 5 and a value with objects in objects, an array of objects and an array of arrays: the hypotheses
of `nest_roundtrip` hold, the keys are the ones a client writes, and the code's flavour decodes them back -/
def nsDemo : List (Str × NS) :=
  [(['a'], .prim { t := .integer }),
   (['o'], .obj [(['x'], .prim { t := .integer }), (['q'], .obj [(['z'], .prim { t := .string }), (['w'], .arr (.prim { t := .integer }))] [] none)] [] none),
   (['l'], .arr (.obj [(['k'], .prim { t := .integer }), (['s'], .prim { t := .string })] [] none)),
   (['m'], .arr (.arr (.prim { t := .integer })))]

def nvDemo : List (Str × NV) :=
  [(['a'], .p (.int 7)),
   (['o'], .o [(['x'], .p (.int 5)), (['q'], .o [(['z'], .p (.str "dave".toList)), (['w'], .a [.p (.int 1), .p (.int 2)])])]),
   (['l'], .a [.o [(['k'], .p (.int 3))], .o [(['k'], .p (.int 4)), (['s'], .p (.str ['v']))]]),
   (['m'], .a [.a [.p (.int 1), .p (.int 2)], .a [.p (.int 3)]])]

theorem nest_demo :
    fitsB parsePrim ((NS.obj nsDemo [] none).depth + 1) (.obj nsDemo [] none) (.o nvDemo) = true ∧
    (encQ ['p'] (encO nvDemo)).map (fun kv => kv.1) =
      ["p[a]", "p[o][x]", "p[o][q][z]", "p[o][q][w][0]", "p[o][q][w][1]", "p[l][0][k]", "p[l][1][k]", "p[l][1][s]",
       "p[m][0][0]", "p[m][0][1]", "p[m][1][0]"].map String.toList ∧
    validateNest impl enumHitImpl ⟨['p'], true, false, nsDemo, [], none⟩ { query := encQ ['p'] (encO nvDemo) } = .accept ∧
    -- a hole in an array of objects is a nil item and rejected by validation; a scalar where an array is declared is a ParseError
    validateNest impl enumHitImpl ⟨['p'], false, false, nsDemo, [], none⟩ { query := [("p[l][1][k]".toList, [['4']])] } = .schema ∧
    validateNest impl enumHitImpl ⟨['p'], false, false, nsDemo, [], none⟩ { query := [("p[m][0]".toList, [['4']])] } = .parse ∧
    validateNest impl enumHitImpl ⟨['p'], false, false, nsDemo, [], none⟩
      { query := [("p[o][q][w][0]".toList, [['1']]), ("p[o][q]".toList, [['x']])] } = .parse := by
  decide

/-- on two-level schemas the recursive model and the two-level model of Style.lean (`Leaf.deep`, which the other theorems
and the generator's D1/D2 streams use) give the same verdicts: the requests of `deep_nested_examples`, both models -/
theorem nest_agrees_with_deep_examples :
    let np : NParam := ⟨['p'], false, false,
      [(['a'], .prim { t := .integer }), (['l'], .arr (.prim { t := .integer })),
       (['o'], .obj [(['x'], .prim { t := .integer }), (['y'], .prim { t := .string })] [['x']] none)], [], none⟩
    let dp : Param := ⟨⟨.query, .deepObject, true⟩, ['p'], false, false, nestedSch⟩
    [ ({ query := [("p[o][x]".toList, [['5']]), ("p[o][y]".toList, [['w']]), ("p[l][1]".toList, [['2']])] } : Req),
      { query := [("p[o]".toList, [['1']]), ("p[o][x]".toList, [['2']])] },
      { query := [("p[o][x]".toList, [['1']]), ("p[o][x][q]".toList, [['2']])] },
      { query := [("p[o][x]".toList, [['z']])] },
      { query := [("p[o][y]".toList, [['w']])] },
      { query := [("p[o][x]".toList, [['3']])] },
      { query := [("p[o]".toList, [['3']])] },
      { query := [("p[a]".toList, [['1']]), ("p[a]zz".toList, [['x']])] },
      { query := [("zz".toList, [['1']])] } ].all
      (fun r => validateNest impl enumHitImpl np r = validateParameter dp r && validateNest spec enumHitSpec np r = validateSpec dp r) = true := by
  decide

/-! ### content-described parameters (KinModel/StyleContent.lean; json.Unmarshal is the parameter `unm`) -/

/-- one value under a JSON media type: a text that is JSON is decoded to its JSON value, whatever the schema says -/
theorem content_json_value (unm : Str → Option Val) (p : CParam) (r : Req) (t : Str) (v : Val)
    (hv : contentValues p.loc p.name r = some [t]) (hm : ∃ k, p.media = [k] ∧ mediaIsJSON k = true) (hj : unm t = some v) :
    decodeContent unm p r = .val v := by
  obtain ⟨k, hk, hkj⟩ := hm
  simp [decodeContent, hv, hk, hkj, unmarshalC, hj]

/-- a text that is not JSON is taken as the string it is — exactly when a schema is given and it is not an object
schema; otherwise the parameter is an error -/
theorem content_not_json (unm : Str → Option Val) (p : CParam) (r : Req) (t : Str)
    (hv : contentValues p.loc p.name r = some [t]) (hm : ∃ k, p.media = [k] ∧ mediaIsJSON k = true) (hj : unm t = none) :
    decodeContent unm p r =
      match p.schema with
      | some s => if schIsObject s then .err else .val (.prim (.str t))
      | none => .err := by
  obtain ⟨k, hk, hkj⟩ := hm
  cases hs : p.schema with
  | none => simp [decodeContent, hv, hk, hkj, unmarshalC, hj, hs]
  | some s => cases ho : schIsObject s <;> simp [decodeContent, hv, hk, hkj, unmarshalC, hj, hs, ho]

/-- several values are an error everywhere but in the query; the `content` map must hold exactly one JSON-like key -/
theorem content_structural_errors (unm : Str → Option Val) (p : CParam) (r : Req) (vs : List Str)
    (hv : contentValues p.loc p.name r = some vs)
    (h : (1 < vs.length ∧ p.loc ≠ .query) ∨ p.media.length ≠ 1 ∨ p.media.all mediaIsJSON = false) :
    decodeContent unm p r = .err := by
  unfold decodeContent
  rw [hv]
  rcases h with ⟨h1, h2⟩ | h | h
  · have : decide (vs.length > 1) = true := by simpa using h1
    simp [this, h2]
  · by_cases h1 : (decide (vs.length > 1) && decide (p.loc ≠ .query)) = true
    · simp only [h1, if_true]
    · simp only [h1, if_false, Bool.false_eq_true]
      simp [h]
  · by_cases h1 : (decide (vs.length > 1) && decide (p.loc ≠ .query)) = true
    · simp only [h1, if_true]
    · by_cases h2 : p.media.length ≠ 1
      · simp [h1, h2]
      · simp [h1, h2, h]

/-- the decision after decoding: null is an empty value (rejected unless allowEmptyValue), no schema accepts, otherwise
the schema decides -/
theorem content_decision (unm : Str → Option Val) (visit : Sch → Val → Bool) (p : CParam) (r : Req) (v : Val)
    (h : decodeContent unm p r = .val v) :
    validateContent unm visit p r =
      if v.isNilValue then (if p.allowEmpty then .accept else .empty)
      else match p.schema with
        | none => .accept
        | some s => if visit s v then .accept else .schema := by
  unfold validateContent
  rw [h]
  cases hn : v.isNilValue <;> cases ha : p.allowEmpty <;> cases p.schema <;> simp [hn, ha]

/-- an absent content-described parameter, in every location and whatever json.Unmarshal does: missing iff required
(full strength since ea25ec8 and c3da93a; the former classes ContentMissing, F-C05-9, and ContentCookieAbsent, F-C05-10,
are deleted) -/
theorem content_absent (unm : Str → Option Val) (visit : Sch → Val → Bool) (p : CParam) (r : Req)
    (h : contentValues p.loc p.name r = none) :
    validateContent unm visit p r = if p.required then .missing else .accept := by
  simp [validateContent, decodeContent, h]

/-- regression (former witnesses of F-C05-9 and F-C05-10): a required content parameter that is absent is `missing`
(ErrInvalidRequired); an optional content *cookie* that is absent is accepted, like the same parameter in the query -/
theorem content_regression (unm : Str → Option Val) (visit : Sch → Val → Bool) :
    let pq : CParam := ⟨.query, ['p'], true, false, ["application/json".toList], some (.leaf (.prim { t := .integer }))⟩
    let pc : CParam := ⟨.cookie, ['p'], false, false, ["application/json".toList], some (.leaf (.prim { t := .integer }))⟩
    let pc2 : CParam := ⟨.cookie, ['p'], true, false, ["application/json".toList], some (.leaf (.prim { t := .integer }))⟩
    let pq2 : CParam := ⟨.query, ['p'], false, false, ["application/json".toList], some (.leaf (.prim { t := .integer }))⟩
    let r : Req := { query := [("zz".toList, [['1']])] }
    validateContent unm visit pq r = .missing ∧ validateContent unm visit pc r = .accept ∧
    validateContent unm visit pc2 r = .missing ∧ validateContent unm visit pq2 r = .accept := by
  simp [validateContent, decodeContent, contentValues, qLookup]

/-! ### where the code and the specification part (exclusion classes), and that they part nowhere else -/

/-- #42 at its root. Full statement `visitPS enumHitImpl ps v = visitPS enumHitSpec ps v` is false for an int32
with an enum (`enum_gotype_witness`); it holds when there is no enum or the value is not an int32. -/
theorem visitPS_impl_eq_spec_partial (ps : PS) (v : PV) (h : ps.enum = [] ∨ ∀ i, v ≠ .int32 i) :
    visitPS enumHitImpl ps v = visitPS enumHitSpec ps v := by
  rcases h with h | h
  · simp [visitPS, h]
  · have : ∀ e, enumHitImpl e v = enumHitSpec e v := by
      intro e
      cases e <;> cases v <;> simp_all [enumHitImpl, enumHitSpec]
    simp [visitPS, this]

/-- array-level enums: `reflect.DeepEqual` is JSON equality as long as no item is an integer -/
theorem listEq_impl_eq_spec_partial (es : List EV) (xs : List PV) (h : ∀ x ∈ xs, (∀ i, x ≠ .int i) ∧ (∀ i, x ≠ .int32 i)) :
    listEq deepEqImpl es xs = listEq enumHitSpec es xs := by
  induction es generalizing xs with
  | nil => cases xs <;> rfl
  | cons e es ih =>
    cases xs with
    | nil => rfl
    | cons x rest =>
      have hx := h x (by simp)
      have : deepEqImpl e x = enumHitSpec e x := by
        cases e <;> cases x <;> simp_all [deepEqImpl, enumHitSpec]
      simp [listEq, this, ih rest (fun y hy => h y (by simp [hy]))]

/-- #31 is the only place where the cookie decoders depend on the flavour -/
theorem cookieArr_flavour_partial (prim : PT → Str → PR) (st : Sty) (ex : Bool) (r : Req) (t : PT) (h : ex = false) :
    cookieArr prim true st ex r t = cookieArr prim false st ex r t := by
  subst h; simp [cookieArr]

/-! ### code = specification outside the classes: every single-leaf schema, every cell, every request -/

/-- one leaf: the code's decoder is the specification's outside CookieExplode and UntypedSchema (stated per leaf) -/
theorem decodeLeaf_flavour_partial (c : Cell) (name : Str) (r : Req) (l : Leaf) (hea : earlyAbsent c r = false)
    (hdeep : ∀ sp rq, l = .deep sp rq → c.loc = .query ∧ c.style = .deepObject)
    (hck : c.loc = .cookie → c.explode = true → leafIsPrim l = true)
    (hunt : leafUntyped l = false) :
    decodeLeaf impl c name r l = decodeLeaf spec c name r l := by
  obtain ⟨loc, st, ex⟩ := c
  simp only at hdeep hck
  cases l with
  | untyped en => simp [leafUntyped] at hunt
  | prim ps =>
    cases loc <;> simp [decodeLeaf, impl, spec, specPrim_eq_parsePrim]
  | arr items mn mx en =>
    cases loc <;> simp only [decodeLeaf, impl, spec, specPrim_eq_parsePrim]
    have hex : ex = false := by
      cases ex with
      | false => rfl
      | true => simpa [leafIsPrim] using hck rfl rfl
    subst hex
    simp [cookieArr]
  | obj sprops rq addl =>
    cases loc <;> simp only [decodeLeaf, impl, spec, specPrim_eq_parsePrim]
    have hex : ex = false := by
      cases ex with
      | false => rfl
      | true => simpa [leafIsPrim] using hck rfl rfl
    subst hex
    simp [cookieObj]
  | deep sprops rq =>
    obtain ⟨hl, hst⟩ := hdeep sprops rq rfl
    subst hl hst
    simp [decodeLeaf, impl, spec, specPrim_eq_parsePrim]

/-- **the decoders agree**: for every schema of the model — a leaf or an allOf / anyOf / oneOf over leaves — the code's
decoder returns exactly what the specification's returns (value, found flag, error) on every request outside the two
decoder-level classes CookieExplode and UntypedSchema (the classes QueryObjAbsent, QueryObjNoProps, DeepKeyJunk of the
earlier rounds are repaired: 404949f, aa57be9, f73e4f9 — their hypotheses are gone). `hdeep` is the model's domain (nested property schemas are only modelled under style deepObject). -/
theorem decodeStyled_impl_eq_spec_partial (p : Param) (r : Req)
    (hdeep : ∀ l ∈ schLeaves p.schema, ∀ sp rq, l = .deep sp rq → p.cell.loc = .query ∧ p.cell.style = .deepObject)
    (h1 : CookieExplode p = false) (h6 : UntypedSchema p = false) :
    decodeStyled impl p.cell p.name p.required r p.schema = decodeStyled spec p.cell p.name p.required r p.schema := by
  obtain ⟨c, name, req, ae, sch⟩ := p
  simp only at hdeep ⊢
  unfold decodeStyled
  cases hea : earlyAbsent c r with
  | true => simp
  | false =>
    simp only [Bool.false_eq_true, if_false]
    have hleaf : ∀ l ∈ schLeaves sch, decodeLeaf impl c name r l = decodeLeaf spec c name r l := by
      intro l hl
      apply decodeLeaf_flavour_partial c name r l hea (hdeep l hl)
      · intro hloc hex
        simp only [CookieExplode, hloc, hex, Bool.and_true, decide_true, Bool.true_and] at h1
        have := any_false_mem _ _ h1 l hl
        simpa using this
      · exact any_false_mem _ _ h6 l hl
    cases sch with
    | leaf l => exact hleaf l (by simp [schLeaves])
    | allOf ls => exact decAllOf_congr _ _ ls _ _ hleaf
    | anyOf ls => exact decAnyOf_congr _ _ _ ls _ hleaf
    | oneOf ls => exact decOneOf_congr _ _ _ ls _ _ hleaf

/-- **code = specification** (the full-strength statement `∀ p r, validateParameter p r = validateSpec p r` is false:
the four witnesses below). For every parameter with a single-leaf schema — every cell, every name, every request,
every primitive / array / flat-object / deepObject schema with distinct property names — the verdict of
ValidateParameter is the specification's verdict outside CookieExplode, EnumGoType and UntypedSchema. -/
theorem validate_eq_spec_partial (p : Param) (r : Req) (l : Leaf) (hs : p.schema = .leaf l) (hwf : leafWF l)
    (hdeep : ∀ sp rq, l = .deep sp rq → p.cell.loc = .query ∧ p.cell.style = .deepObject)
    (h1 : CookieExplode p = false) (h2 : EnumGoType p = false) (h6 : UntypedSchema p = false) :
    validateParameter p r = validateSpec p r := by
  unfold validateParameter validateSpec
  rw [decodeStyled_impl_eq_spec_partial p r (by rw [hs]; intro l' hl'; simp [schLeaves] at hl'; subst hl'; exact hdeep) h1 h6]
  have hg : leafEnumGoType l = false := by
    simpa [EnumGoType, hs, schLeaves, isComposition] using h2
  obtain ⟨c, name, req, ae, sch⟩ := p
  simp only at hs ⊢
  subst hs
  have hty : TypedVal l (decodeStyled spec c name req r (.leaf l)).val := by
    unfold decodeStyled
    split
    · exact typed_nil l
    · exact decodeLeaf_typed spec (by simp [spec, specPrim_eq_parsePrim]) c name r l hwf
  have hv : visitSch enumHitImpl deepEqImpl (.leaf l) (decodeStyled spec c name req r (.leaf l)).val =
      visitSch enumHitSpec enumHitSpec (.leaf l) (decodeStyled spec c name req r (.leaf l)).val :=
    visitLeaf_eq l _ hwf hg hty
  simp only [decide', hv]

/-- … and for **every composition** (allOf / anyOf / oneOf over leaves, as well as single leaves) whose leaves carry
no `enum`: code = specification outside the three decoder-level classes, for every value the decoder may hand over —
EnumGoType cannot arise. (With enums in a composition a value read by one alternative is compared with another
alternative's enum; that case is tied by the differential run.) -/
theorem validate_eq_spec_enumfree_partial (p : Param) (r : Req)
    (hfree : (schLeaves p.schema).all leafEnumFree = true)
    (hdeep : ∀ l ∈ schLeaves p.schema, ∀ sp rq, l = .deep sp rq → p.cell.loc = .query ∧ p.cell.style = .deepObject)
    (h1 : CookieExplode p = false) (h6 : UntypedSchema p = false) :
    validateParameter p r = validateSpec p r := by
  unfold validateParameter validateSpec
  rw [decodeStyled_impl_eq_spec_partial p r hdeep h1 h6]
  simp only [decide', visitSch_enumFree enumHitImpl deepEqImpl enumHitSpec enumHitSpec p.schema _ hfree]

example : let p : Param := ⟨⟨.query, .pipeDelimited, false⟩, ['p'], true, false,
      .oneOf [.arr { t := .integer } (some 2) none [], .prim { t := .string }]⟩
    (schLeaves p.schema).all leafEnumFree = true ∧ CookieExplode p = false ∧
    UntypedSchema p = false ∧
    validateParameter p { query := [(['p'], ["1|2".toList])] } = .accept := by decide

/-- **compositions with enums.** For every allOf / anyOf / oneOf over non-nested leaves (primitives, arrays, flat objects,
untyped — enums allowed everywhere) the verdict of ValidateParameter is the specification's outside CookieExplode,
EnumGoType and UntypedSchema. The value is the one some alternative's decoder read (`decodeValue_val`); it carries that
alternative's Go types (`decodeLeaf_typed`, with the kind invariant: only an array schema yields an array, …); outside
EnumGoType either no alternative yields an int32 (`typed_no32`) or no alternative has an enum, and an array enum never
meets integer items (`typed_noIntItems`) — so every alternative's validation agrees (`visitLeaf_eq_val`). -/
theorem validate_eq_spec_comp_partial (p : Param) (r : Req)
    (hcomp : isComposition p.schema = true)
    (hwf : ∀ l ∈ schLeaves p.schema, leafWF l) (hnd : ∀ l ∈ schLeaves p.schema, leafIsDeep l = false)
    (h1 : CookieExplode p = false) (h2 : EnumGoType p = false) (h6 : UntypedSchema p = false) :
    validateParameter p r = validateSpec p r := by
  unfold validateParameter validateSpec
  have hdeep : ∀ l ∈ schLeaves p.schema, ∀ sp rq, l = .deep sp rq → p.cell.loc = .query ∧ p.cell.style = .deepObject := by
    intro l hl sp rq e
    have := hnd l hl
    simp [e, leafIsDeep] at this
  rw [decodeStyled_impl_eq_spec_partial p r hdeep h1 h6]
  obtain ⟨c, name, req, ae, sch⟩ := p
  simp only at hcomp hwf hnd h2 ⊢
  -- the class, unfolded for a composition
  simp only [EnumGoType, hcomp, Bool.true_and, Bool.or_eq_false_iff, Bool.and_eq_false_iff] at h2
  obtain ⟨_, hB, hC⟩ := h2
  -- the decoded value comes from some alternative (or is nil) and is typed by it
  have hfrom : FromLeaf (decodeLeaf spec c name r) (schLeaves sch) (decodeStyled spec c name req r sch).val := by
    unfold decodeStyled
    split
    · exact Or.inl rfl
    · exact decodeValue_val spec c name req r sch
  have hleaf : ∀ lj ∈ schLeaves sch,
      visitLeaf enumHitImpl deepEqImpl lj (decodeStyled spec c name req r sch).val =
        visitLeaf enumHitSpec enumHitSpec lj (decodeStyled spec c name req r sch).val := by
    intro lj hlj
    generalize (decodeStyled spec c name req r sch).val = v at hfrom
    have hv : (valNo32 v ∨ leafHasEnum lj = false) ∧ (leafArrEnum lj = false ∨ valNoIntItems v) := by
      rcases hfrom with rfl | ⟨li, hli, rfl⟩
      · exact ⟨Or.inl trivial, Or.inr trivial⟩
      · have hty := decodeLeaf_typed spec (by simp [spec, specPrim_eq_parsePrim]) c name r li (hwf li hli)
        constructor
        · rcases hB with h | h
          · exact Or.inl (typed_no32 li _ (hnd li hli) hty (any_false_mem _ _ h li hli))
          · exact Or.inr (any_false_mem _ _ h lj hlj)
        · rcases hC with h | h
          · exact Or.inr (typed_noIntItems li _ hty (any_false_mem _ _ h li hli))
          · exact Or.inl (any_false_mem _ _ h lj hlj)
    exact visitLeaf_eq_val lj v (hnd lj hlj) hv.1 hv.2
  have hvis : visitSch enumHitImpl deepEqImpl sch (decodeStyled spec c name req r sch).val =
      visitSch enumHitSpec enumHitSpec sch (decodeStyled spec c name req r sch).val := by
    cases sch with
    | leaf l => simp [isComposition] at hcomp
    | allOf ls => exact all_congr' _ _ ls hleaf
    | anyOf ls => exact any_congr' _ _ ls hleaf
    | oneOf ls =>
      have hl' : ∀ l ∈ ls, visitLeaf enumHitImpl deepEqImpl l (decodeStyled spec c name req r (.oneOf ls)).val =
          visitLeaf enumHitSpec enumHitSpec l (decodeStyled spec c name req r (.oneOf ls)).val := hleaf
      simp only [visitSch]
      rw [List.map_congr_left hl']
  simp only [decide', hvis]

/-- non-vacuity for `validate_eq_spec_comp_partial`: an anyOf with enums in both alternatives -/
example : let p : Param := ⟨⟨.query, .form, true⟩, ['p'], true, false,
      .anyOf [.prim { t := .integer, enum := [.num 5 0, .num 12 0] }, .prim { t := .string, enum := [.str "dave".toList] }]⟩
    isComposition p.schema = true ∧ CookieExplode p = false ∧ EnumGoType p = false ∧ UntypedSchema p = false ∧
    validateParameter p { query := [(['p'], ["12".toList])] } = .accept ∧
    validateParameter p { query := [(['p'], ["13".toList])] } = .schema := by decide

/-- non-vacuity: the hypotheses hold for a required matrix-style object parameter with an additionalProperties schema -/
example : let p : Param := ⟨⟨.path, .matrix, true⟩, "id".toList, true, false,
      .leaf (.obj [(['a'], { t := .int32, max := some 6 }), (['b'], { t := .string, enum := [.str ['x']] })] [['a']] (some { t := .integer }))⟩
    CookieExplode p = false ∧ EnumGoType p = false ∧ UntypedSchema p = false ∧ validateParameter p { path := some ";a=5;b=x;z=7".toList } = .accept ∧
    validateParameter p { path := some ";a=7;b=x".toList } = .schema := by decide

/-! ### response headers: the same decoder behind validateResponseHeader -/

/-- the decision of validateResponseHeader once the header decoded without error: accepted iff (found and the decoded
value — whatever it is, nil included — satisfies the schema) or (not found and not required); missing iff not found
and required; a schema error iff found and the value does not satisfy the schema -/
theorem respHeader_decision (fl : Flavour) (visit : Sch → Val → Bool) (name : Str) (st : Sty) (ex required : Bool) (r : Req) (s : Sch)
    (h : (decodeValue fl ⟨.header, st, ex⟩ name required r s).err = none) :
    (validateRespHeader fl visit name st ex required r s = .accept ↔
      ((decodeValue fl ⟨.header, st, ex⟩ name required r s).found = true ∧ visit s (decodeValue fl ⟨.header, st, ex⟩ name required r s).val = true) ∨
      ((decodeValue fl ⟨.header, st, ex⟩ name required r s).found = false ∧ required = false)) ∧
    (validateRespHeader fl visit name st ex required r s = .missing ↔
      ((decodeValue fl ⟨.header, st, ex⟩ name required r s).found = false ∧ required = true)) ∧
    (validateRespHeader fl visit name st ex required r s = .schema ↔
      ((decodeValue fl ⟨.header, st, ex⟩ name required r s).found = true ∧ visit s (decodeValue fl ⟨.header, st, ex⟩ name required r s).val = false)) := by
  unfold validateRespHeader
  generalize decodeValue fl ⟨.header, st, ex⟩ name required r s = o at h ⊢
  obtain ⟨v, f, e⟩ := o
  simp only at h
  subst h
  cases f <;> cases required <;> cases hv : visit s v <;> simp [hv]

/-- a decode error is reported with its kind -/
theorem respHeader_error (fl : Flavour) (visit : Sch → Val → Bool) (name : Str) (st : Sty) (ex required : Bool) (r : Req) (s : Sch) (e : DErr)
    (h : (decodeValue fl ⟨.header, st, ex⟩ name required r s).err = some e) :
    validateRespHeader fl visit name st ex required r s = errVerdict e := by
  simp [validateRespHeader, h]

/-- an absent response header: missing iff required, for every leaf schema and both explode settings -/
theorem respHeader_absent (fl : Flavour) (visit : Sch → Val → Bool) (name : Str) (ex required : Bool) (l : Leaf) :
    validateRespHeader fl visit name .simple ex required {} (.leaf l) = if required then .missing else .accept := by
  cases l <;> cases required <;> cases hu : fl.untypedAsString <;>
    simp [validateRespHeader, decodeValue, decodeLeaf, hu, present, headerPrim, headerArr, headerObj, headerRaw, headerFound]

/-- a response header that is present with an empty value decodes to nil and is validated as null: every primitive
or array schema rejects it (the request side answers `empty`, or accepts under allowEmptyValue) -/
theorem respHeader_empty_value_rejected (fl : Flavour) (hit arrEq : EV → PV → Bool) (name : Str) (ex required : Bool) (l : Leaf)
    (hl : (∃ ps, l = .prim ps) ∨ (∃ it mn mx en, l = .arr it mn mx en)) (hp : fl.prim = parsePrim ∨ fl.prim = specPrim) :
    validateRespHeader fl (visitSch hit arrEq) name .simple ex required { header := some [[]] } (.leaf l) = .schema := by
  have hnil : fl.prim = parsePrim := by
    rcases hp with h | h
    · exact h
    · rw [h, specPrim_eq_parsePrim]
  rcases hl with ⟨ps, rfl⟩ | ⟨it, mn, mx, en, rfl⟩
  · simp [validateRespHeader, decodeValue, decodeLeaf, headerPrim, headerRaw, hnil, parsePrim, primOut, visitSch, visitLeaf]
  · simp [validateRespHeader, decodeValue, decodeLeaf, headerArr, headerRaw, hnil, splitOn, splitS, parseArr, parsePrim, arrOut,
      visitSch, visitLeaf]

/-- a header that is present and decodes to a value is judged exactly as the request-side header parameter with the same
schema: one decoder, one schema check -/
theorem respHeader_eq_param (name : Str) (st : Sty) (ex required ae : Bool) (r : Req) (s : Sch)
    (hf : (decodeValue impl ⟨.header, st, ex⟩ name required r s).found = true)
    (hn : (decodeValue impl ⟨.header, st, ex⟩ name required r s).val.isNilValue = false) :
    respHeaderImpl name st ex required r s = validateParameter ⟨⟨.header, st, ex⟩, name, required, ae, s⟩ r := by
  unfold respHeaderImpl validateRespHeader validateParameter decide' decodeStyled
  simp only [earlyAbsent, Bool.false_eq_true, if_false, hf, hn, Bool.not_true, Bool.and_false, if_true]

/-- code = specification for response headers: every single-leaf schema outside EnumGoType (the decoder-level classes do
not touch headers) -/
theorem respHeader_eq_spec_partial (name : Str) (st : Sty) (ex required : Bool) (r : Req) (l : Leaf) (hwf : leafWF l)
    (hdeep : ∀ sp rq, l ≠ .deep sp rq) (h2 : leafEnumGoType l = false) (h6 : leafUntyped l = false) :
    respHeaderImpl name st ex required r (.leaf l) = respHeaderSpec name st ex required r (.leaf l) := by
  unfold respHeaderImpl respHeaderSpec validateRespHeader
  have hd : decodeLeaf impl ⟨.header, st, ex⟩ name r l = decodeLeaf spec ⟨.header, st, ex⟩ name r l :=
    decodeLeaf_flavour_partial ⟨.header, st, ex⟩ name r l (by simp [earlyAbsent])
      (fun sp rq e => absurd e (hdeep sp rq)) (by simp) h6
  have hty : TypedVal l (decodeLeaf spec ⟨.header, st, ex⟩ name r l).val :=
    decodeLeaf_typed spec (by simp [spec, specPrim_eq_parsePrim]) _ name r l hwf
  simp only [decodeValue, hd, visitSch]
  rw [visitLeaf_eq l _ hwf h2 hty]
  rfl

/-! ### witnesses: inside each class the code's verdict differs from the specification's -/

def intArr : Sch := .leaf (.arr { t := .integer } none none [])

/-- #31: Cookie: p=1,2 — array, form, explode=true -/
theorem cookie_explode_witness :
    let p : Param := ⟨⟨.cookie, .form, true⟩, ['p'], false, false, intArr⟩
    let r : Req := { cookie := some "1,2".toList }
    CookieExplode p = true ∧ validateParameter p r = .badMethod ∧ validateSpec p r = .accept ∧
    (decodeStyled spec p.cell p.name false r p.schema).val = .arr [.int 1, .int 2] := by
  decide

/-- #42: ?a=1 with `type: integer, format: int32, enum: [1, 2]`, and ?e=1&e=2 with `enum: [[1, 2]]` -/
theorem enum_gotype_witness :
    let p1 : Param := ⟨⟨.query, .form, true⟩, ['a'], false, false, .leaf (.prim { t := .int32, enum := [.num 1 0, .num 2 0] })⟩
    let r1 : Req := { query := [(['a'], [['1']])] }
    let p2 : Param := ⟨⟨.query, .form, true⟩, ['e'], false, false, .leaf (.arr { t := .integer } none none [[.num 1 0, .num 2 0]])⟩
    let r2 : Req := { query := [(['e'], [['1'], ['2']])] }
    EnumGoType p1 = true ∧ validateParameter p1 r1 = .schema ∧ validateSpec p1 r1 = .accept ∧
    EnumGoType p2 = true ∧ validateParameter p2 r2 = .schema ∧ validateSpec p2 r2 = .accept := by
  decide

/-- #42 across alternatives: `allOf: [{type: integer, enum: [5, 12]}, {type: integer, format: int32}]` with the path
value `5`: the value is the int32 read by the last alternative, the first alternative's enum holds float64s -/
theorem enum_gotype_cross_witness :
    let p : Param := ⟨⟨.path, .simple, false⟩, ['p'], true, false,
      .allOf [.prim { t := .integer, enum := [.num 5 0, .num 12 0] }, .prim { t := .int32 }]⟩
    let r : Req := { path := some ['5'] }
    EnumGoType p = true ∧ (schLeaves p.schema).any leafEnumGoType = false ∧
    validateParameter p r = .schema ∧ validateSpec p r = .accept := by
  decide

/-- regression (former witness of F-C05-3): ?id=010 against `maximum: 9` is ten and is rejected by both sides -/
theorem nondecimal_int_regression :
    let p : Param := ⟨⟨.query, .form, true⟩, "id".toList, false, false, .leaf (.prim { t := .integer, max := some 9 })⟩
    let r : Req := { query := [("id".toList, ["010".toList])] }
    validateParameter p r = .schema ∧ validateSpec p r = .schema ∧
    (decodeStyled impl p.cell p.name false r p.schema).val = .prim (.int 10) := by
  decide

/-- regression (former witness of F-C05-4, class AddlShadow, repaired in 997bea5): header `p: n,1.5` with properties
{n: number} and additionalProperties {integer}: the declared property keeps the value decoded with its own schema
(before: re-decoded as an integer → ParseError; `n,2` came out as the int64 2); an undeclared key still goes through
the additionalProperties schema. Code and specification agree on all of them. -/
theorem addl_shadow_regression :
    let p : Param := ⟨⟨.header, .simple, false⟩, ['p'], false, false,
      .leaf (.obj [(['n'], { t := .number })] [] (some { t := .integer }))⟩
    let r : Req := { header := some ["n,1.5".toList] }
    let r2 : Req := { header := some ["n,2,z,7".toList] }
    let r3 : Req := { header := some ["n,2,z,1.5".toList] }
    validateParameter p r = .accept ∧ validateSpec p r = .accept ∧
    (decodeStyled impl p.cell p.name false r p.schema).val = .obj [(['n'], .num 15 (-1))] ∧
    decodeStyled impl p.cell p.name false r2 p.schema = ⟨.obj [(['n'], .num 2 0), (['z'], .int 7)], true, none⟩ ∧
    decodeStyled spec p.cell p.name false r2 p.schema = decodeStyled impl p.cell p.name false r2 p.schema ∧
    validateParameter p r3 = .parse ∧ validateSpec p r3 = .parse := by
  decide

/-- regression (former witness of F-C05-5, class QueryObjAbsent, repaired in 404949f): `?zz=1`, optional exploded object
`{required: [a], properties: {a: integer}}`: none of the object's properties is sent, the parameter is absent and
accepted (before: the empty object built from the unrelated query parameter was validated and rejected); a required
one is missing; with `?a=5&zz=1` the object is `{a: 5}` -/
theorem query_obj_absent_regression :
    let p : Param := ⟨⟨.query, .form, true⟩, ['p'], false, false, .leaf (.obj [(['a'], { t := .integer })] [['a']] none)⟩
    let r : Req := { query := [("zz".toList, [['1']])] }
    validateParameter p r = .accept ∧ validateSpec p r = .accept ∧
    decodeStyled impl p.cell p.name false r p.schema = absentObj ∧
    validateParameter { p with required := true } r = .missing ∧
    decodeStyled impl p.cell p.name false { query := [(['a'], [['5']]), ("zz".toList, [['1']])] } p.schema =
      ⟨.obj [(['a'], .int 5)], true, none⟩ := by
  decide

/-- regression (former witness of F-C05-6, class QueryObjNoProps, repaired in aa57be9): a free-form map
`{type: object, additionalProperties: {type: string}}` as a required query parameter — `?filter[name]=x` (deepObject),
`?p=k,v` (form, explode=false), `?k=v` (form, explode=true) — is found and accepted, as it always was in a header -/
theorem query_obj_noprops_regression :
    let sch : Sch := .leaf (.obj [] [] (some { t := .string }))
    let p : Param := ⟨⟨.query, .deepObject, true⟩, "filter".toList, true, false, sch⟩
    let r : Req := { query := [("filter[name]".toList, ["x".toList])] }
    let p2 : Param := ⟨⟨.query, .form, false⟩, ['p'], true, false, sch⟩
    let r2 : Req := { query := [(['p'], ["k,v".toList])] }
    let p3 : Param := ⟨⟨.header, .simple, false⟩, ['p'], true, false, sch⟩
    let p4 : Param := ⟨⟨.query, .form, true⟩, ['p'], true, false, sch⟩
    validateParameter p r = .accept ∧ validateSpec p r = .accept ∧
    decodeStyled impl p.cell p.name true r sch = ⟨.obj [("name".toList, .str ['x'])], true, none⟩ ∧
    validateParameter p2 r2 = .accept ∧ validateSpec p2 r2 = .accept ∧
    decodeStyled impl p2.cell p2.name true r2 sch = ⟨.obj [(['k'], .str ['v'])], true, none⟩ ∧
    validateParameter p3 { header := some ["k,v".toList] } = .accept ∧
    validateParameter p4 { query := [(['k'], [['v']])] } = .accept := by
  decide

/-- regression (former witness of F-C05-7, class DeepKeyJunk, repaired in f73e4f9): `?p[a]=1&p[a]zz=x` against
`{a: integer}`, style deepObject. `p[a]zz` is not a key of `p`: it is skipped, the value is `{a: 1}` in either order of
the query (before: both keys landed on the map key "a" and the iteration order decided between accept and ParseError);
a junk key alone leaves the parameter absent -/
theorem deep_key_junk_regression :
    let sch : Sch := .leaf (.deep [(['a'], .prim { t := .integer })] [])
    let p : Param := ⟨⟨.query, .deepObject, true⟩, ['p'], false, false, sch⟩
    let r1 : Req := { query := [("p[a]".toList, [['1']]), ("p[a]zz".toList, [['x']])] }
    let r2 : Req := { query := [("p[a]zz".toList, [['x']]), ("p[a]".toList, [['1']])] }
    let r3 : Req := { query := [("p[a]zz".toList, [['5']])] }
    validateParameter p r1 = .accept ∧ validateParameter p r2 = .accept ∧
    validateSpec p r1 = .accept ∧ validateSpec p r2 = .accept ∧
    (decodeStyled impl p.cell p.name false r1 sch).val = .dobj [(['a'], .p (.int 1))] ∧
    (decodeStyled impl p.cell p.name false r2 sch).val = .dobj [(['a'], .p (.int 1))] ∧
    decodeStyled impl p.cell p.name false r3 sch = absentObj := by
  decide

/-- well-formed keys are exactly `name[s1]…[sn]`; text after, between or instead of the closing bracket is junk -/
theorem wellFormedKey_examples :
    wellFormedKey ['p'] "p[a]".toList = true ∧ wellFormedKey ['p'] "p[o][x]".toList = true ∧
    wellFormedKey ['p'] "p[a]zz".toList = false ∧ wellFormedKey ['p'] "p[a][".toList = false ∧
    wellFormedKey ['p'] "p[a]x[b]".toList = false ∧ wellFormedKey ['p'] "p[a]]".toList = false ∧
    wellFormedKey ['p'] "pq[a]".toList = true ∧ wellFormedKey ['p'] "zz".toList = true := by
  decide

/-- the general form of the former class QueryObjAbsent, now a theorem about the code: an exploded form object without
additionalProperties schema none of whose declared properties occurs among the query parameters is absent — for every
schema, every other query parameter, both flavours -/
theorem queryObj_absent (prim : PT → Str → PR) (name : Str) (r : Req) (sprops : List (Str × PS))
    (h : (firstVals r.query).any (fun kv => hasKey kv.1 sprops) = false) :
    queryObj prim name .form true r sprops none = absentObj := by
  have hb : buildProps prim (firstVals r.query) sprops = some [] := buildProps_none_present prim _ sprops h
  have hf : queryObjFound sprops (firstVals r.query) ([] : List (Str × PV)) = false := by
    cases sprops with
    | nil => simp [queryObjFound]
    | cons a b =>
      simp only [queryObjFound, List.isEmpty_cons, Bool.false_and, Bool.false_or, Bool.not_false, Bool.true_and]
      rw [List.any_eq_false] at h ⊢
      intro kv hkv
      have := h kv hkv
      simpa [hasKey] using this
  simp [queryObj, makeObject, hb, hf]

/-! ### non-vacuity: the hypotheses of the round-trip theorems are satisfiable in every location -/

example : encodable ⟨.path, .matrix, true⟩ "id".toList (.arr ["3".toList, "-4".toList, "dave".toList]) = true := by decide
example : encodable ⟨.path, .label, true⟩ ['p'] (.arr ["a".toList, "b,c".toList]) = true := by decide
example : encodable ⟨.query, .pipeDelimited, false⟩ ['p'] (.arr ["1".toList, "2 3".toList]) = true := by decide
example : encodable ⟨.header, .simple, true⟩ ['p'] (.obj [("a".toList, "1".toList), ("b".toList, "x.y".toList)]) = true := by decide
example : encodable ⟨.path, .simple, false⟩ ['p'] (.obj [("b".toList, "x".toList), ("a".toList, "-1".toList)]) = true := by decide
/-- and outside `Encodable` the specification's own encoding is ambiguous: label/explode with a dot inside an item -/
example : encodable ⟨.path, .label, true⟩ ['p'] (.arr ["a.b".toList]) = false ∧
    encPath ['p'] .label true (.arr ["a.b".toList]) = encPath ['p'] .label true (.arr ["a".toList, "b".toList]) := by decide
/-- a complete concrete trip through the code's flavour -/
example : decodeStyled impl ⟨.path, .matrix, true⟩ "id".toList true { path := some ";id=3;id=-4".toList } intArr
    = ⟨.arr [.int 3, .int (-4)], true, none⟩ := by decide
example : (decodeStyled impl ⟨.query, .deepObject, true⟩ ['p'] false
    { query := [("p[a]".toList, [['7']]), ("p[l][1]".toList, [['2']])] }
    (.leaf (.deep [(['a'], .prim { t := .integer }), (['l'], .arr { t := .integer })] []))).val
    = .dobj [(['a'], .p (.int 7)), (['l'], .a [none, some (.int 2)])] := by decide

/-! ### translator table (regenerated from openapi3/parameter.go on every run) -/

/-- the extractor understood every case of the `smSupported` switch and every default clause -/
theorem styleCells_recognised : Gen.styleCells.all Gen.CellRow.ok = true := by decide
theorem styleDefaults_recognised : Gen.styleDefaults.all Gen.DefaultRow.ok = true := by decide

/-- the cells document validation accepts are exactly the 17 cells the theorems and the generator range over -/
theorem styleCells_eq_legalCells :
    legalCells.all (fun c => Gen.styleCells.contains (.cell c)) = true ∧
    Gen.styleCells.all (fun r => match r with | .cell c => legalCells.contains c | .unrecognised _ => false) = true := by
  decide

/-- SerializationMethod's defaults are the model's for all four locations, nothing else is listed, and every
default is a legal cell -/
theorem styleDefaults_eq_model :
    [Loc.path, .query, .header, .cookie].all (fun l =>
      Gen.styleDefaults.contains (.dflt l (defaultMethod l).1 (defaultMethod l).2) &&
      legalCells.contains ⟨l, (defaultMethod l).1, (defaultMethod l).2⟩) = true ∧
    Gen.styleDefaults.all (fun r => match r with
      | .dflt l st ex => decide (defaultMethod l = (st, ex))
      | .unrecognised _ => false) = true := by
  decide

/-- style and explode are defaulted independently: `style: form` without `explode` explodes (query, cookie), `explode: true`
without `style` is the location's default style, and what the document spells out is kept — every such cell is legal -/
theorem smOf_defaults :
    [Loc.path, .query, .header, .cookie].all (fun l =>
      decide (smOf l none none = ⟨l, (defaultMethod l).1, (defaultMethod l).2⟩) &&
      allStyles.all (fun st => decide (smOf l (some st) none = ⟨l, st, (defaultMethod l).2⟩)) &&
      [false, true].all (fun ex => decide (smOf l none (some ex) = ⟨l, (defaultMethod l).1, ex⟩) &&
        allStyles.all (fun st => decide (smOf l (some st) (some ex) = ⟨l, st, ex⟩)))) = true ∧
    smOf .query (some .form) none = ⟨.query, .form, true⟩ ∧ smOf .cookie (some .form) none = ⟨.cookie, .form, true⟩ ∧
    smOf .query (some .pipeDelimited) none = ⟨.query, .pipeDelimited, true⟩ ∧ smOf .path none (some true) = ⟨.path, .simple, true⟩ := by
  decide

/-! ### translator table DecoderFmt (regenerated from openapi3filter/req_resp_decoder.go on every run) -/

/-- the extractor understood every case, guard and argument it met -/
theorem decoderFmt_recognised : Gen.decoderFmt.all FmtRow.ok = true := by decide

/-- the prefixes and delimiters of pathParamDecoder (DecodePrimitive / DecodeArray / DecodeObject) in the source are the
model's, for every style and explode flag — styles the switches do not list end in "invalid serialization method" in
both. With `pathPrimPrefix_sym`, `pathArrFmt_sym`, `pathObjFmt_sym` (the model's functions are these symbols evaluated at
the parameter name) the constants of every path round-trip theorem above are the code's, for every name. -/
theorem decoderFmt_path_eq_model :
    allStyles.all (fun st => decide (tblPathPrim Gen.decoderFmt st = symPathPrim st) &&
      [false, true].all (fun ex => decide (tblPathArr Gen.decoderFmt st ex = symPathArr st ex) &&
        decide (tblPathObj Gen.decoderFmt st ex = symPathObj st ex))) = true := by
  decide

/-- the delimiters of urlValuesDecoder.DecodeArray (explode=false) are the model's `queryDelim` -/
theorem decoderFmt_query_delim_eq_model :
    allStyles.all (fun st => decide (tblQueryDelim Gen.decoderFmt st = symQueryDelim st)) = true := by
  decide

/-- the style guards of the query / header / cookie decoders, and the comma / equals constants of their strings.Split and
propsFromString calls, are the ones the model uses (`queryPrim`: form only; `queryArr`: not deepObject; header: simple only,
"," and valueDelim "," / "="; cookie: form only, "," — and the `|| sm.Explode` of F-C05-1 is present exactly where the
code's flavour `impl.cookieExplodeBad` says) -/
theorem decoderFmt_guards_and_calls :
    [ FmtRow.guard "urlValuesDecoder.DecodePrimitive" "form" true false,
      .guard "urlValuesDecoder.DecodeArray" "deepObject" false false,
      .call "urlValuesDecoder.DecodeObject" "propsFromString" [.lit ",", .lit ","],
      .guard "headerParamDecoder.DecodePrimitive" "simple" true false,
      .guard "headerParamDecoder.DecodeArray" "simple" true false,
      .call "headerParamDecoder.DecodeArray" "strings.Split" [.lit ","],
      .guard "headerParamDecoder.DecodeObject" "simple" true false,
      .assign "headerParamDecoder.DecodeObject" "valueDelim" (.lit ","),
      .assign "headerParamDecoder.DecodeObject" "valueDelim" (.lit "="),
      .call "headerParamDecoder.DecodeObject" "propsFromString" [.lit ",", .ident "valueDelim"],
      .guard "cookieParamDecoder.DecodePrimitive" "form" true false,
      .guard "cookieParamDecoder.DecodeArray" "form" true impl.cookieExplodeBad,
      .call "cookieParamDecoder.DecodeArray" "strings.Split" [.lit ","],
      .guard "cookieParamDecoder.DecodeObject" "form" true impl.cookieExplodeBad,
      .call "cookieParamDecoder.DecodeObject" "propsFromString" [.lit ",", .lit ","] ].all
      (fun r => Gen.decoderFmt.contains r) = true ∧
    -- nothing else guards, splits or assigns in these methods
    (Gen.decoderFmt.filter (fun r => match r with | .guard _ _ _ _ => true | _ => false)).length = 8 ∧
    (Gen.decoderFmt.filter (fun r => match r with | .assign _ _ _ => true | _ => false)).length = 2 := by
  decide

/-! ### ValidateRequest: which parameters of a route are checked, and what a sequence of calls does (StyleRequest.lean) -/

/-- **history**: any sequence of ValidateRequest calls (any options, any requests) on one loaded document leaves the
document as it was, and every call answers as if it were the first one. -/
theorem runCalls_history_free (d : Doc) (cs : List (CallOpts × FullReq)) :
    runCalls d cs = (d, cs.map (fun c => validateRequestParams d c.1 c.2)) := by
  induction cs with
  | nil => rfl
  | cons c cs ih => simp [runCalls, stepCall, ih]

/-- a call made after any history answers like a call on the freshly loaded document (corollary) -/
theorem runCalls_last_call (d : Doc) (cs : List (CallOpts × FullReq)) (c : CallOpts × FullReq) :
    (runCalls d (cs ++ [c])).2 = (runCalls d cs).2 ++ [validateRequestParams d c.1 c.2] := by
  simp [runCalls_history_free]

/-- the code accepts the parameters of a request exactly when every applicable parameter (the operation's own and
the path item's that the operation does not redeclare) that the options do not exclude is accepted by
ValidateParameter — for every document, option set and request. -/
theorem request_ok_iff (d : Doc) (o : CallOpts) (fr : FullReq) :
    validateRequestParams d o fr = .ok ↔
      ∀ p ∈ effective d, excluded o p = true ∨ validateParameter p (reqFor p fr) = .accept := by
  unfold validateRequestParams requestErrors
  rw [outOf_ok, List.filterMap_eq_nil_iff]
  constructor
  · intro h p hp
    cases hx : excluded o p
    · exact Or.inr ((errOf_none _ _ _).1 (h p ((mem_visited d o p).2 ⟨hp, hx⟩)))
    · exact Or.inl rfl
  · intro h p hp
    obtain ⟨h1, h2⟩ := (mem_visited d o p).1 hp
    rcases h p h1 with h3 | h3
    · rw [h2] at h3; cases h3
    · exact (errOf_none _ _ _).2 h3

/-- **override**: a path-item parameter that the operation redeclares (same location and name) is never validated:
the result is that of the document without it. -/
theorem override_replaces (pi ops : List Param) (o : CallOpts) (fr : FullReq) :
    validateRequestParams ⟨pi, ops⟩ o fr =
      validateRequestParams ⟨pi.filter (fun p => !declares ops p.cell.loc p.name), ops⟩ o fr := by
  unfold validateRequestParams requestErrors visited
  simp only [List.filter_filter, pathItemKept]
  congr 3
  apply List.filter_congr
  intro p _
  cases h1 : excluded o p <;> cases h2 : declares ops p.cell.loc p.name <;> simp [pathItemKept, h1, h2]

/-- an error the code reports for a location and name comes from the *operation's* declaration whenever the operation
declares that location and name -/
theorem override_error_source (d : Doc) (o : CallOpts) (fr : FullReq) (p : Param)
    (hp : p ∈ visited d o) (hd : declares d.operation p.cell.loc p.name = true) : p ∈ d.operation := by
  simp only [visited, pathItemKept, operationKept, List.mem_append, List.mem_filter, Bool.and_eq_true] at hp
  rcases hp with ⟨_, _, h3⟩ | ⟨h1, _⟩
  · rw [hd] at h3; cases h3
  · exact h1

/-- ExcludeRequestQueryParams: no error of a query parameter, whatever the document and the request -/
theorem excludeQuery_no_query_error (val : Param → Req → Verdict) (d : Doc) (o : CallOpts) (fr : FullReq)
    (ho : o.excludeQuery = true) : ∀ e ∈ requestErrors val d o fr, e.1 ≠ .query := by
  intro e he
  simp only [requestErrors, List.mem_filterMap] at he
  obtain ⟨p, hp, hpe⟩ := he
  obtain ⟨_, hx⟩ := (mem_visited d o p).1 hp
  unfold errOf at hpe
  by_cases hv : val p (reqFor p fr) = .accept
  · simp [hv] at hpe
  · simp only [hv, if_false, Option.some.injEq] at hpe
    subst hpe
    intro hq
    simp [excluded, ho] at hx
    exact hx hq

/-- **code = specification for whole requests** (the full-strength statement, without `hs`, is false:
`request_eq_spec_witness`). When every applicable parameter is in the scope of `validate_eq_spec_partial`, the set of
errors of both loops is the set of failures the specification names — every document (path item and operation lists
of any length, with any overrides), every option set, every request. -/
theorem request_errors_eq_spec_partial (d : Doc) (o : CallOpts) (fr : FullReq)
    (hs : ∀ p ∈ effective d, ParamInScope p) :
    ∀ e, e ∈ requestErrors validateParameter d o fr ↔ e ∈ specFailures d o fr := by
  intro e
  simp only [requestErrors, specFailures, List.mem_filterMap, List.mem_filter]
  have key : ∀ p ∈ effective d, errOf validateParameter fr p = errOf validateSpec fr p := by
    intro p hp
    obtain ⟨l, h1, h2, h3, h4, h5, h6⟩ := hs p hp
    unfold errOf
    rw [validate_eq_spec_partial p (reqFor p fr) l h1 h2 h3 h4 h5 h6]
  constructor
  · rintro ⟨p, hp, he⟩
    obtain ⟨h1, h2⟩ := (mem_visited d o p).1 hp
    exact ⟨p, ⟨h1, by simp [h2]⟩, by rw [← key p h1]; exact he⟩
  · rintro ⟨p, ⟨h1, h2⟩, he⟩
    refine ⟨p, (mem_visited d o p).2 ⟨h1, by simpa using h2⟩, by rw [key p h1]; exact he⟩

/-- … as lists: the errors the code collects (MultiError) are a permutation of the specification's failures — same
parameters, same kinds, same multiplicities (a parameter validated twice would break this) -/
theorem request_errors_perm_spec_partial (d : Doc) (o : CallOpts) (fr : FullReq)
    (hs : ∀ p ∈ effective d, ParamInScope p) :
    (requestErrors validateParameter d o fr).Perm (specFailures d o fr) := by
  have key : ∀ p ∈ effective d, errOf validateParameter fr p = errOf validateSpec fr p := by
    intro p hp
    obtain ⟨l, h1, h2, h3, h4, h5, h6⟩ := hs p hp
    unfold errOf
    rw [validate_eq_spec_partial p (reqFor p fr) l h1 h2 h3 h4 h5 h6]
  have hv : (visited d o).Perm ((effective d).filter (fun p => !excluded o p)) := by
    unfold visited effective
    rw [List.filter_append, List.filter_filter]
    refine List.Perm.trans List.perm_append_comm ?_
    apply List.Perm.of_eq
    congr 1
  unfold requestErrors specFailures
  refine List.Perm.trans (List.Perm.filterMap _ hv) ?_
  apply List.Perm.of_eq
  apply filterMap_congr'
  intro p hp
  exact key p (List.mem_filter.1 hp).1

/-- MultiError does not change acceptance: the request passes with `MultiError` exactly when it passes without, and
the single error returned without it is the first of the collected ones -/
theorem request_multi_same_acceptance (d : Doc) (ex : Bool) (fr : FullReq) :
    (validateRequestParams d ⟨ex, true⟩ fr = .ok ↔ validateRequestParams d ⟨ex, false⟩ fr = .ok) ∧
    (∀ e, validateRequestParams d ⟨ex, false⟩ fr = .first e →
      ∃ es, validateRequestParams d ⟨ex, true⟩ fr = .multi (e :: es)) := by
  have hre : requestErrors validateParameter d ⟨ex, true⟩ fr = requestErrors validateParameter d ⟨ex, false⟩ fr := by
    rfl
  unfold validateRequestParams
  rw [hre]
  constructor
  · rw [outOf_ok, outOf_ok]
  · intro e h
    cases hl : requestErrors validateParameter d ⟨ex, false⟩ fr with
    | nil => rw [hl] at h; simp [outOf] at h
    | cons a as =>
      rw [hl] at h
      simp [outOf] at h
      exact ⟨as, by simp [outOf, h]⟩

/-- loop order: with MultiError the errors of path-item parameters come before those of operation parameters -/
theorem request_errors_order (val : Param → Req → Verdict) (d : Doc) (o : CallOpts) (fr : FullReq) :
    requestErrors val d o fr =
      (d.pathItem.filter (pathItemKept o d.operation)).filterMap (errOf val fr) ++
      (d.operation.filter (operationKept o)).filterMap (errOf val fr) := by
  simp [requestErrors, visited, List.filterMap_append]

/-- identity of a parameter is location AND name: a path-item parameter is not replaced by an operation parameter of
the same name in another location (`id` in the path, `id` in the query) -/
theorem override_needs_same_location :
    let pid : Param := ⟨⟨.path, .simple, false⟩, "id".toList, true, false, .leaf (.prim { t := .integer })⟩
    let qid : Param := ⟨⟨.query, .form, true⟩, "id".toList, false, false, .leaf (.prim { t := .string })⟩
    visited ⟨[pid], [qid]⟩ ⟨false, false⟩ = [pid, qid] ∧ effective ⟨[pid], [qid]⟩ = [qid, pid] ∧
    validateRequestParams ⟨[pid], [qid]⟩ ⟨false, false⟩ { pathParams := [("id".toList, ['x'])], query := [("id".toList, [['x']])] }
      = .first (.path, "id".toList, .parse) := by
  decide

/-- … and therefore the code accepts exactly the requests the specification accepts -/
theorem request_ok_iff_spec_partial (d : Doc) (o : CallOpts) (fr : FullReq)
    (hs : ∀ p ∈ effective d, ParamInScope p) :
    validateRequestParams d o fr = .ok ↔ SpecAccepts d o fr := by
  rw [request_ok_iff]
  unfold SpecAccepts
  constructor
  · intro h p hp
    obtain ⟨l, h1, h2, h3, h4, h5, h6⟩ := hs p hp
    rw [← validate_eq_spec_partial p (reqFor p fr) l h1 h2 h3 h4 h5 h6]
    exact h p hp
  · intro h p hp
    obtain ⟨l, h1, h2, h3, h4, h5, h6⟩ := hs p hp
    rw [validate_eq_spec_partial p (reqFor p fr) l h1 h2 h3 h4 h5 h6]
    exact h p hp

/-- … for every history: the answers of a call sequence are the specification's, call by call -/
theorem runCalls_eq_spec_partial (d : Doc) (cs : List (CallOpts × FullReq))
    (hs : ∀ p ∈ effective d, ParamInScope p) :
    (runCalls d cs).1 = d ∧
    ∀ c ∈ cs, (validateRequestParams d c.1 c.2 = .ok ↔ SpecAccepts d c.1 c.2) := by
  rw [runCalls_history_free]
  exact ⟨rfl, fun c _ => request_ok_iff_spec_partial d c.1 c.2 hs⟩

/-- witness (outside `hs`): the CookieExplode parameter of `cookie_explode_witness` as an operation parameter — the
code refuses a request the specification accepts -/
theorem request_eq_spec_witness :
    let p : Param := ⟨⟨.cookie, .form, true⟩, ['p'], false, false, intArr⟩
    let d : Doc := ⟨[], [p]⟩
    let fr : FullReq := { cookies := [(['p'], "1,2".toList)] }
    validateRequestParams d ⟨false, false⟩ fr = .first (.cookie, ['p'], .badMethod) ∧
    specAcceptsB d ⟨false, false⟩ fr = true := by
  decide

/-- the operation's `limit` (optional, maximum 100) replaces the path item's (required, maximum 10); `seq` comes from
the path item only: kernel-checked on the model and the specification, with and without ExcludeRequestQueryParams -/
theorem request_override_example :
    let lim (req : Bool) (mx : Int) : Param := ⟨⟨.query, .form, true⟩, "limit".toList, req, false, .leaf (.prim { t := .integer, max := some mx })⟩
    let seq : Param := ⟨⟨.header, .simple, false⟩, "X-Seq".toList, true, false, .leaf (.prim { t := .integer })⟩
    let d : Doc := ⟨[lim true 10, seq], [lim false 100]⟩
    let q (v : String) : FullReq := { query := [("limit".toList, [v.toList])], headers := [("X-Seq".toList, [['1']])] }
    validateRequestParams d ⟨false, true⟩ (q "50") = .ok ∧
    validateRequestParams d ⟨false, true⟩ (q "500") = .multi [(.query, "limit".toList, .schema)] ∧
    validateRequestParams d ⟨false, false⟩ { headers := [("X-Seq".toList, [['1']])] } = .ok ∧
    validateRequestParams d ⟨false, false⟩ { query := [("limit".toList, [['5']])] } = .first (.header, "X-Seq".toList, .missing) ∧
    validateRequestParams d ⟨true, true⟩ (q "abc") = .ok ∧
    specFailures d ⟨false, true⟩ (q "500") = [(.query, "limit".toList, .schema)] ∧
    (runCalls d [(⟨true, false⟩, q "abc"), (⟨false, false⟩, q "abc")]).2 = [.ok, .first (.query, "limit".toList, .parse)] := by
  decide

/-- non-vacuity of `request_errors_eq_spec_partial`: a document with an override whose applicable parameters are all in scope -/
example :
    let lim (req : Bool) (mx : Int) : Param := ⟨⟨.query, .form, true⟩, "limit".toList, req, false, .leaf (.prim { t := .integer, max := some mx })⟩
    let seq : Param := ⟨⟨.header, .simple, false⟩, "X-Seq".toList, true, false, .leaf (.prim { t := .integer })⟩
    ∀ p ∈ effective ⟨[lim true 10, seq], [lim false 100]⟩, ParamInScope p := by
  intro lim seq p hp
  have hp' : p = lim false 100 ∨ p = seq := by
    have : effective ⟨[lim true 10, seq], [lim false 100]⟩ = [lim false 100, seq] := by decide
    rw [this] at hp
    simpa using hp
  rcases hp' with rfl | rfl
  · exact ⟨_, rfl, trivial, (by intro sp rq h; cases h), by decide, by decide, by decide⟩
  · exact ⟨_, rfl, trivial, (by intro sp rq h; cases h), by decide, by decide, by decide⟩

/-! ### the regenerated table Gen.RequestLoops ties `visited` to ValidateRequest's source -/

/-- every statement of the two parameter loops, every binding or write of a parameter list and every call that is
handed one was read by the extractor -/
theorem requestLoops_recognised : ∀ r ∈ Gen.requestLoops, r.ok = true := by decide

/-- ValidateRequest's parameter loops are the ones the model was written against: the lists ranged over (the
document's own, not copies or helper results), the two `continue` guards of loop 1, the one of loop 2, the argument
order of GetByInAndName, the ValidateParameter calls -/
theorem requestLoops_expected : Gen.requestLoops = expectedLoops := by decide

/-- **tie**: the symbolic reading of the regenerated table is the model's `visited`, for every document and option set -/
theorem requestLoops_visited :
    ∃ f, visitedSem Gen.requestLoops = some f ∧ ∀ d o, f d o = visited d o := by
  rw [requestLoops_expected]
  refine ⟨_, rfl, ?_⟩
  intro d o
  simp only [visited]
  congr 1
  · apply List.filter_congr
    intro p _
    simp [pathItemKept, anyGuard]
  · apply List.filter_congr
    intro p _
    simp [operationKept, anyGuard]

/-- the reading refuses the shapes of the two seeded changes: GetByInAndName with its arguments exchanged, and a loop
over a helper's result instead of the document's list -/
theorem requestLoops_refuses :
    visitedSem (expectedLoops.map (fun r => match r with
      | .skipIf l (.overridden rv [a, b]) => .skipIf l (.overridden rv [b, a]) | r => r)) = none ∧
    visitedSem (expectedLoops.map (fun r => match r with
      | .range v "pathItemParameters" => .range v "parametersToValidate(pathItemParameters, options)" | r => r)) = none := by
  constructor <;> rfl

end KinModel.Style
