import KinModel.DocValidate
namespace KinModel.DocValidate

theorem table_recognised : Gen.descentUnrecognised = [] := by decide

end KinModel.DocValidate
