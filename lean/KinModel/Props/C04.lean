/-
C04 — document validation accepts conforming documents, rejects each violation.
Property theorems only. Model and specification: KinModel/DocValidate.lean; helper lemmas:
KinModel/Lemmas/C04Local*.lean, C04Reach.lean; regenerated tables: KinModel/Gen/Descent.lean, ParamStyles.lean.

Full-strength statements (what the property says):

  conforming_accepted :  conformingB o d = true → validate codeTable o d = true              (PROVED below, no exclusion)
  violation_rejected  :  Reach specAct d n → rulesOK o n = false → validate codeTable o d = false
  edges_cover         :  ∀ e ∈ specEdges, the table has an unconditional, error-propagating edge for e

The last two do not hold of the code as it is: four exclusion classes (each with a kernel-checked witness
below, each replayed against the real code from corpus/C04/):
  * excl7Node          (DESIGN §7 #7)   template variable names compared only when the counts differ;
  * exclBelow [(schema, xml), (schema, discriminator)]  (§7 #28, what is left of it) `xml` and `discriminator`
                        objects are never validated;
  * exclInnerNode      sibling keys of a `$ref` inside a schema are never looked at;
  * exclBelow [(encoding, headers)]  what is left of F-C04-6 after 7cd29a9: a header of an encoding object is
                        validated, but its error is dropped (`continue`).
Repaired (classes deleted, witnesses turned into regression theorems): header extra fields / encoding objects
never validated (78418b3), external-only examples validated as null (9d56ffd), header examples never checked
(3a27745), servers of path items / operations never validated (1f4197d), a failing encoding header ending
`Encoding.Validate` with success and masking the object's own violations (7cd29a9).
Round 4: option LISTS (left fold over the settings record, constructors from table OptionCtors) and history
independence (table PatternCache: document validation neither reads nor writes the process-wide pattern cache).
-/
import KinModel.Lemmas.C04Reach
import KinModel.Lemmas.C04Witness
import KinModel.Lemmas.C04Options
import KinModel.DocValidateMode
import KinModel.Gen.ParamStyles
namespace KinModel.DocValidate

/-! ### Obligations on the regenerated table -/

/-- all closed facts about the regenerated table and the witness documents, decided by the kernel in one
evaluation of the table (the named theorems below are its components) -/
theorem code_facts :
    -- 1
    (Gen.descentUnrecognised = [] ∧ (Gen.descent.all (fun r => (interp r).isSome)) = true) ∧
    -- 2
    TableOK codeTable = true ∧
    -- 3
    uncovered codeTable = knownUncovered ∧
    -- 4
    (validate codeTable {} W.d7 = true ∧ specVerdict {} W.d7 = .reject ∧ anyNode excl7Node W.d7 = true) ∧
    -- 5
    (validate codeTable {} W.d28b = true ∧ specVerdict {} W.d28b = .reject ∧
      anyNode (exclBelow knownUncovered {}) W.d28b = true) ∧
    -- 6
    (validate codeTable {} W.dInner = true ∧ specVerdict {} W.dInner = .reject ∧
      anyNode (exclInnerNode {}) W.dInner = true) ∧
    -- 7
    (validate codeTable {} W.dEncHeader = true ∧ specVerdict {} W.dEncHeader = .reject ∧
      anyNode (exclBelow knownUncovered {}) W.dEncHeader = true ∧ anyNode (exclLocal {}) W.dEncHeader = false) := by
  decide +kernel

/-- the closed facts about the former witnesses (repaired defects) and the non-vacuity documents -/
theorem code_facts_regress :
    -- 7d
    (validate codeTable {} W.dCyclicHeader = true ∧ specVerdict {} W.dCyclicHeader = .accept ∧
      validate codeTable {} W.dCyclicHeaderExtra = false ∧ specVerdict {} W.dCyclicHeaderExtra = .reject ∧
      anyNode (exclNode knownUncovered {}) W.dCyclicHeaderExtra = false ∧
      validate codeTable {} W.dCyclicHeaderStyle = false ∧ specVerdict {} W.dCyclicHeaderStyle = .reject ∧
      anyNode (exclNode knownUncovered {}) W.dCyclicHeaderStyle = false) ∧
    -- 7c
    (validate codeTable {} W.dEncMasked = false ∧ specVerdict {} W.dEncMasked = .reject ∧
      validate codeTable {} W.dEncBadKey = false ∧ specVerdict {} W.dEncBadKey = .reject ∧
      validate codeTable {} W.dOpServer = false ∧ specVerdict {} W.dOpServer = .reject ∧
      anyNode (exclNode knownUncovered {}) W.dOpServer = false ∧
      validate codeTable {} W.dPathItemServer = false ∧ specVerdict {} W.dPathItemServer = .reject ∧
      anyNode (exclNode knownUncovered {}) W.dPathItemServer = false) ∧
    -- 8
    (validate codeTable {} W.dExternal = true ∧ specVerdict {} W.dExternal = .accept ∧
      validate codeTable { exDisabled := true } W.dExternal = true ∧
      validate codeTable {} W.dExternalBad = false ∧ specVerdict {} W.dExternalBad = .reject ∧
      validate codeTable { exDisabled := true } W.dExternalBad = true) ∧
    -- 9
    (validate codeTable {} W.d28a = false ∧ specVerdict {} W.d28a = .reject ∧
      anyNode (exclNode knownUncovered {}) W.d28a = false) ∧
    -- 10
    (validate codeTable {} W.dHeaderExample = false ∧ specVerdict {} W.dHeaderExample = .reject ∧
      anyNode (exclNode knownUncovered {}) W.dHeaderExample = false ∧
      validate codeTable { exDisabled := true } W.dHeaderExample = true ∧
      specVerdict { exDisabled := true } W.dHeaderExample = .accept ∧
      validate codeTable {} W.dHeaderExampleOK = true ∧ specVerdict {} W.dHeaderExampleOK = .accept) ∧
    -- 11
    (validate codeTable {} W.dEncStyle = false ∧ specVerdict {} W.dEncStyle = .reject ∧
      anyNode (exclNode knownUncovered {}) W.dEncStyle = false ∧
      validate codeTable {} W.dEncExtra = false ∧ specVerdict {} W.dEncExtra = .reject ∧
      anyNode (exclNode knownUncovered {}) W.dEncExtra = false ∧
      validate codeTable {} W.dEncOK = true ∧ specVerdict {} W.dEncOK = .accept) ∧
    -- 12
    (validate codeTable {} W.dHeaderBoth = false ∧ specVerdict {} W.dHeaderBoth = .reject ∧
      validate codeTable { exDisabled := true } W.dHeaderBoth = false ∧
      specVerdict { exDisabled := true } W.dHeaderBoth = .reject) ∧
    -- 13
    (conformingB {} W.good = true ∧ anyNode (exclNode knownUncovered {}) W.good = false ∧
      validate codeTable {} W.good = true) ∧
    -- 14
    (specVerdict {} W.dDeepDefault = .reject ∧ anyNode (exclNode knownUncovered {}) W.dDeepDefault = false ∧
      validate codeTable {} W.dDeepDefault = false ∧
      validate codeTable { defDisabled := true } W.dDeepDefault = true ∧
      validate codeTable { exDisabled := true } W.dDeepDefault = false ∧
      validate codeTable { patDisabled := true, fmtEnabled := true, extProhibited := true } W.dDeepDefault = false) ∧
    -- 15
    (validate codeTable {} W.dMissing = false ∧ specVerdict {} W.dMissing = .reject ∧
      validate codeTable {} W.d28aOK = true ∧ specVerdict {} W.d28aOK = .accept) ∧
    -- 16
    (validate codeTable {} W.dSecondOp = false ∧ specVerdict {} W.dSecondOp = .reject ∧
      anyNode (exclNode knownUncovered {}) W.dSecondOp = false) := by
  decide +kernel

/-- every `Validate` method, every child call, every option guard and the fate of every returned error was
read and is interpreted by the model (no `unrecognised` row) -/
theorem table_recognised :
    Gen.descentUnrecognised = [] ∧ (Gen.descent.all (fun r => (interp r).isSome)) = true := code_facts.1

/-- the calls to `validateExtensions`, `ValidateIdentifier`, `VisitJSON(default)`, `validateExampleValue` and
the visits of example objects are where the theorems need them, under exactly the option guards they name;
no error ends a method with success; the only error dropped is that of a header of an encoding object -/
theorem table_ok : TableOK codeTable = true := code_facts.2.1

/-- `edges_cover` (partial): of the containment edges named by the property, the code lacks exactly
`schema → xml`, `schema → discriminator` (never called) and `encoding → headers` (called, error dropped);
every other one is followed unconditionally and its error returned -/
theorem edges_cover_partial : uncovered codeTable = knownUncovered := code_facts.2.2.1

/-- the finite domain over which the style tables are compared: every `in` and style name of the OpenAPI
specification, plus a foreign and an empty one -/
def styleDomain : List (String × String × Bool) :=
  (["path", "query", "header", "cookie", "body", ""].flatMap fun l =>
    ["form", "simple", "label", "matrix", "spaceDelimited", "pipeDelimited", "deepObject", "weird", ""].flatMap fun s =>
      [(l, s, true), (l, s, false)])

/-- the (in, style, explode) case list of `Parameter.Validate`, regenerated from the source, is the table
of the OpenAPI 3.0 specification (`smSupported`, which the rule `badStyle` of the specification uses): same
verdict on the whole domain, no row outside it, nothing unread -/
theorem style_table_is_oas_table :
    Gen.paramStylesUnrecognised = [] ∧
    Gen.paramStyles.all (fun x => styleDomain.contains x) = true ∧
    styleDomain.all (fun x => Gen.paramStyles.contains x == smSupported x.1 x.2.1 x.2.2) = true := by
  decide +kernel

/-- the defaults of `Parameter.SerializationMethod`, regenerated from the source, are those of the
specification (`smOf`): `simple`/no explode for path and header, `form`/explode for query and cookie -/
theorem style_defaults_are_oas_defaults :
    (["path", "query", "header", "cookie"].all fun l =>
      (Gen.paramStyleDefaults.lookup l == some (smOf { strs := [("in", l)] }))) = true ∧
    Gen.paramStyleDefaults.length = 4 := by
  decide +kernel

/-- the (style, explode) disjunction of `Header.Validate` and the defaults of `Header.SerializationMethod`,
regenerated from the source, say what the model's header check says: the effective style (`simple` when
none is given) must be `simple`, whatever `explode` is -/
theorem header_style_table_is_oas_table :
    Gen.headerStyleDefault = ("simple", false) ∧
    (["form", "simple", "label", "matrix", "spaceDelimited", "pipeDelimited", "deepObject", "weird"].all fun s =>
      [true, false].all fun e => Gen.headerStyles.contains (s, e) == decide (s = "simple")) = true ∧
    Gen.headerStyles.all (fun x => x.1 == "simple") = true := by
  decide +kernel

/-- the (style, explode) case list of `Encoding.Validate` and the defaults of `Encoding.SerializationMethod`,
regenerated from the source, are what the model and the rule `badStyle` of the specification use for an
encoding object (`encodingStyleOK`): the styles of a query parameter, default `form` with explode -/
theorem encoding_style_table_is_oas_table :
    Gen.encodingStyleDefault = encSmOf {} ∧
    (["form", "simple", "label", "matrix", "spaceDelimited", "pipeDelimited", "deepObject", "weird"].all fun s =>
      [true, false].all fun e =>
        Gen.encodingStyles.contains (s, e) ==
          encodingStyleOK { strs := [("style", s), ("explode", if e then "true" else "false")] }) = true ∧
    Gen.encodingStyles.all (fun x => smSupported "query" x.1 x.2) = true := by
  decide +kernel

/-! ### The descent -/

/-- the model of `Validate` accepts exactly when every node reached through the code's own edges (under
the given options) passes the code's local checks (`localOKV`: fed with the verdicts of the node's kids,
which only the check of an encoding object looks at) -/
theorem validate_iff (T : Table) (o : Opts) (d : Doc) :
    validate T o d = true ↔ ∀ n, Reach (active T o) d n → localOKV T o n = true :=
  descend_iff _ _ d

/-! ### Local checks = rules -/

/-- at every node outside the exclusion classes, the code's local checks (transcribed in the code's
order, with their `validateExtensions` / example / default calls read off the table) hold exactly when
no rule that is in force under the options is violated. `examplesWFor`: the example objects the code
visits under the node are well-formed — not an exclusion, it holds at every node of an accepted document
(`examplesWFor_of_valid`) and of a conforming one (`examplesWFor_of_rules`). -/
theorem local_checks_eq_rules_partial (T : Table) (o : Opts) (d : Doc) (hT : TableOK T = true)
    (hex : exclLocal o d = false) (hwf : examplesWFor o d = true) : localOKV T o d = rulesOK o d :=
  localOKV_eq_rules T o d hT hex hwf

/-- the code's local checks are never stricter than the rules: a node whose example objects are
well-formed and that violates no rule in force passes, whatever the verdicts of its kids -/
theorem local_checks_not_stricter (T : Table) (o : Opts) (d : Doc) (vs : List Bool) (hT : TableOK T = true)
    (hwf : examplesWFor o d = true) (h : rulesOK o d = true) : localOK T o d vs = true :=
  localOK_of_rulesOK T o d vs hT hwf h

/-! ### Conforming documents are accepted -/

/-- **C04 (a), full strength.** A document all of whose nodes satisfy every rule in force is accepted,
under every option set. (Until 9d56ffd this needed the exclusion of external-only examples.) -/
theorem conforming_accepted (T : Table) (o : Opts) (d : Doc) (hT : TableOK T = true)
    (h : conformingB o d = true) : validate T o d = true := by
  have hall := (descend_plain_iff _ _ d).mp h
  unfold validate
  rw [descend_iff]
  intro n hr
  have hr' : Reach allAct d n := hr.mono (fun _ _ _ _ => rfl)
  exact localOK_of_rulesOK T o n _ hT
    (examplesWFor_of_rules o n (fun m hm => hall m (hr'.trans hm))) (hall n hr')

/-! ### Each violation at a reachable place is rejected -/

/-- **C04 (b), partial.** If some node reachable through the property's containment relation violates a
rule that is in force, the document is rejected — provided no node reachable that way is in an exclusion
class (`exclNode`: #7, xml / discriminator objects, inner `$ref` siblings, headers of encoding objects). Holds for every document, every location and every option set. -/
theorem violation_rejected_partial (T : Table) (o : Opts) (d n : Doc) (hT : TableOK T = true)
    (hr : Reach specAct d n) (hbad : rulesOK o n = false)
    (hex : ∀ m, Reach specAct d m → exclNode (uncovered T) o m = false) : validate T o d = false := by
  cases hv : validate T o d with
  | false => rfl
  | true => rw [reach_rules T o hT hr hex hv] at hbad; cases hbad

/-- the executable oracle used by the differential run, on the code's table: verdict `accept` (full strength) -/
theorem specVerdict_accept (o : Opts) (d : Doc) (h : specVerdict o d = .accept) : validate codeTable o d = true := by
  apply conforming_accepted codeTable o d code_facts.2.1
  unfold specVerdict at h
  cases hc : conformingB o d with
  | true => rfl
  | false => simp [hc] at h; split at h <;> cases h

/-- the executable oracle used by the differential run, on the code's table: verdict `reject` -/
theorem specVerdict_reject_partial (o : Opts) (d : Doc)
    (hex : ∀ m, Reach specAct d m → exclNode knownUncovered o m = false)
    (h : specVerdict o d = .reject) : validate codeTable o d = false := by
  have hclean : specCleanB o d = false := by
    unfold specVerdict at h
    cases hc : conformingB o d with
    | true => simp [hc] at h
    | false =>
      cases hs : specCleanB o d with
      | false => rfl
      | true => simp [hc, hs] at h
  cases hv : validate codeTable o d with
  | false => rfl
  | true =>
    have : specCleanB o d = true := by
      unfold specCleanB
      rw [descend_plain_iff]
      intro n hr
      exact reach_rules codeTable o code_facts.2.1 hr (by rw [code_facts.2.2.1]; exact hex) hv
    rw [this] at hclean; cases hclean

/-- `conformingB` is the executable twin of "every node satisfies every rule in force" -/
theorem conformingB_iff (o : Opts) (d : Doc) :
    conformingB o d = true ↔ ∀ n, Reach allAct d n → rulesOK o n = true := descend_plain_iff _ _ d

/-- `specCleanB` is the executable twin of "no violation at a place the property reaches" -/
theorem specCleanB_iff (o : Opts) (d : Doc) :
    specCleanB o d = true ↔ ∀ n, Reach specAct d n → rulesOK o n = true := descend_plain_iff _ _ d

/-! ### Each option switches off only the check it names -/

/-- `DisableExamplesValidation` changes the status of the example rule only -/
theorem option_examples_only (o : Opts) (b : Bool) (v : Viol) (h : v.rule ≠ "exampleMismatch") :
    enabled { o with exDisabled := b } v = enabled o v := by
  unfold enabled; split <;> simp_all

/-- `DisableSchemaDefaultsValidation` changes the status of the default rule only -/
theorem option_defaults_only (o : Opts) (b : Bool) (v : Viol) (h : v.rule ≠ "defaultMismatch") :
    enabled { o with defDisabled := b } v = enabled o v := by
  unfold enabled; split <;> simp_all

/-- `EnableSchemaFormatValidation` changes the status of the format rule only -/
theorem option_format_only (o : Opts) (b : Bool) (v : Viol) (h : v.rule ≠ "unknownFormat") :
    enabled { o with fmtEnabled := b } v = enabled o v := by
  unfold enabled; split <;> simp_all

/-- `DisableSchemaPatternValidation` changes the status of the pattern rule only -/
theorem option_pattern_only (o : Opts) (b : Bool) (v : Viol) (h : v.rule ≠ "badPattern") :
    enabled { o with patDisabled := b } v = enabled o v := by
  unfold enabled; split <;> simp_all

/-- `ProhibitExtensionsWithRef` changes the status of the `x-` sibling rule only -/
theorem option_refext_only (o : Opts) (b : Bool) (v : Viol) (h : v.rule ≠ "refExtension") :
    enabled { o with extProhibited := b } v = enabled o v := by
  unfold enabled; split <;> simp_all

/-- `AllowExtraSiblingFields` concerns the three extra-field rules only, and only the listed names -/
theorem option_allowed_only (o : Opts) (l : List String) (v : Viol)
    (h : (v.rule ≠ "extraField" ∧ v.rule ≠ "refSibling" ∧ v.rule ≠ "refExtension") ∨ (v.key ∉ l ∧ v.key ∉ o.allowed)) :
    enabled { o with allowed := l } v = enabled o v := by
  unfold enabled; split <;> simp_all

/-- with examples validation switched off, a node passes exactly when each of its violations is either
not in force anyway or is the example rule -/
theorem rulesOK_examples_off (o : Opts) (d : Doc) :
    rulesOK { o with exDisabled := true } d =
      (violations d).all (fun v => v.rule == "exampleMismatch" || !enabled o v) := by
  unfold rulesOK
  apply all_congr_mem
  intro v _
  by_cases h : v.rule = "exampleMismatch"
  · simp [h, enabled]
  · rw [option_examples_only o true v h]; simp [h]

/-- **C04, characterisation.** For every option set, the model of `Validate` accepts a document exactly
when no violation that is in force sits at a node the code reaches — provided no node the code reaches is
in one of the three local exclusion classes. With the `option_*_only` theorems above (an option changes the
status of its own rule only) this is "each validation option switches off only the check it names" for all
six options at once. -/
theorem accepted_iff_no_violation_in_force (T : Table) (o : Opts) (d : Doc) (hT : TableOK T = true)
    (hex : ∀ n, Reach (active T o) d n → exclLocal o n = false) :
    validate T o d = true ↔ ∀ n, Reach (active T o) d n → ∀ v ∈ violations n, enabled o v = false := by
  have hr : ∀ n, rulesOK o n = true ↔ ∀ v ∈ violations n, enabled o v = false := by
    intro n; unfold rulesOK; rw [List.all_eq_true]; simp
  constructor
  · intro hv n hn
    have hall := (validate_iff T o d).mp hv
    have hwf := examplesWFor_of_valid T o hT n (fun m hm => hall m (hn.trans hm))
    rw [← hr, ← localOKV_eq_rules T o n hT (hex n hn) hwf]
    exact hall n hn
  · intro h
    rw [validate_iff]
    intro n hn
    have hwf := examplesWFor_of_reached_rules T o hT n (fun m hm => (hr m).mpr (h m (hn.trans hm)))
    exact localOK_of_rulesOK T o n _ hT hwf ((hr n).mpr (h n hn))

/-- **C04 (c), partial.** `option_only_its_check` for `DisableExamplesValidation`: with the option set,
the document is accepted exactly when every violation at a node the code reaches is either not in force
under the other options or is the example rule. -/
theorem option_only_its_check_partial (T : Table) (o : Opts) (d : Doc) (hT : TableOK T = true)
    (hex : ∀ n, exclLocal { o with exDisabled := true } n = false) :
    validate T { o with exDisabled := true } d = true ↔
      ∀ n, Reach (active T { o with exDisabled := true }) d n →
        ∀ v ∈ violations n, v.rule = "exampleMismatch" ∨ enabled o v = false := by
  have hwf : ∀ n, examplesWFor { o with exDisabled := true } n = true := fun n => by simp [examplesWFor]
  rw [validate_iff]
  constructor
  · intro h n hr v hv
    have := h n hr
    rw [localOKV_eq_rules T _ n hT (hex n) (hwf n), rulesOK_examples_off, List.all_eq_true] at this
    simpa using this v hv
  · intro h n hr
    rw [localOKV_eq_rules T _ n hT (hex n) (hwf n), rulesOK_examples_off, List.all_eq_true]
    intro v hv
    simpa using h n hr v hv

/-! ### Option lists -/

/-- every constructor of validation_options.go was read; `WithValidationOptions` is a left fold from the zero
settings record; each constructor writes the field, and the value, that its name says (`specOptionRows`) -/
theorem option_ctors_as_named :
    Gen.optionCtorsUnrecognised = [] ∧ Gen.optionFold = "foldl-from-zero" ∧ Gen.optionCtors = specOptionRows ∧
    Gen.optionCtors.all (fun r => fieldKnown r.field r.value) = true := by
  decide +kernel

/-- for every option list (any length, any repetition) the settings the code computes are the settings the
property assigns to the list -/
theorem options_model_is_spec (l : List OptCall) : optsOf Gen.optionCtors l = specOptsOf l := by
  unfold specOptsOf; rw [option_ctors_as_named.2.2.1]

/-- in an option list the last constructor that writes a check decides it; a check no constructor of the list
writes keeps its default (`false`). Stated for the five flags, for any constructor table. -/
theorem options_last_writer_wins (rows : List Gen.OptionCtorRow) (l : List OptCall) :
    (optsOf rows l).exDisabled = (l.reverse.findSome? (callWrites rows "examplesValidationDisabled")).getD false ∧
    (optsOf rows l).defDisabled = (l.reverse.findSome? (callWrites rows "schemaDefaultsValidationDisabled")).getD false ∧
    (optsOf rows l).fmtEnabled = (l.reverse.findSome? (callWrites rows "schemaFormatValidationEnabled")).getD false ∧
    (optsOf rows l).patDisabled = (l.reverse.findSome? (callWrites rows "schemaPatternValidationDisabled")).getD false ∧
    (optsOf rows l).extProhibited = (l.reverse.findSome? (callWrites rows "schemaExtensionsInRefProhibited")).getD false := by
  unfold optsOf
  refine ⟨?_, ?_, ?_, ?_, ?_⟩
  · exact foldl_last (stepWith rows) (fun o => o.exDisabled) _
      (stepWith_flag rows (fun o => o.exDisabled) "examplesValidationDisabled" setField_ex) l {}
  · exact foldl_last (stepWith rows) (fun o => o.defDisabled) _
      (stepWith_flag rows (fun o => o.defDisabled) "schemaDefaultsValidationDisabled" setField_def) l {}
  · exact foldl_last (stepWith rows) (fun o => o.fmtEnabled) _
      (stepWith_flag rows (fun o => o.fmtEnabled) "schemaFormatValidationEnabled" setField_fmt) l {}
  · exact foldl_last (stepWith rows) (fun o => o.patDisabled) _
      (stepWith_flag rows (fun o => o.patDisabled) "schemaPatternValidationDisabled" setField_pat) l {}
  · exact foldl_last (stepWith rows) (fun o => o.extProhibited) _
      (stepWith_flag rows (fun o => o.extProhibited) "schemaExtensionsInRefProhibited" setField_ext) l {}

/-- the instances a copy-paste slip would break: an `Enable` after a `Disable` of the same check switches it
back on, and leaves every other check alone -/
theorem options_enable_after_disable :
    specOptsOf [("DisableSchemaDefaultsValidation", []), ("EnableSchemaDefaultsValidation", [])] = {} ∧
    specOptsOf [("DisableSchemaPatternValidation", []), ("EnableSchemaDefaultsValidation", [])] = { patDisabled := true } ∧
    optsOf Gen.optionCtors [("DisableSchemaDefaultsValidation", []), ("EnableSchemaDefaultsValidation", [])] = {} ∧
    optsOf Gen.optionCtors [("DisableSchemaPatternValidation", []), ("EnableSchemaDefaultsValidation", [])] = { patDisabled := true } := by
  decide +kernel

/-- `SetRegexCompiler` changes the status of the pattern rule only -/
theorem option_regex_only (o : Opts) (b : Bool) (v : Viol) (h : v.rule ≠ "badPattern") :
    enabled { o with customRegex := b } v = enabled o v := by
  unfold enabled; split <;> simp_all

/-! ### History independence -/

/-- every use of the process-wide cache of compiled patterns (table `C04PatternCache`) was read; document validation (everything but
`Schema.visitJSONString`, the value validation of C01) never consults it, and nothing creates an entry -/
theorem pattern_cache_unused :
    Gen.c04PatternCacheUnrecognised = [] ∧ codeTable.cacheRead = false ∧ codeTable.cacheWrite = false := by
  decide +kernel

/-- **C04, history independence.** The verdict of a `Validate` call is a function of its own document and
options: whatever the cache of compiled patterns holds when the call starts — that is, whatever calls (with
whatever regular-expression engine) were made before in the process — the verdict is that of a fresh process. -/
theorem history_independent (cache : List String) (o : Opts) (d : Doc) :
    validateIn codeTable cache o d = validate codeTable o d :=
  validateIn_eq codeTable pattern_cache_unused.2.1 cache o d

/-- a sequence of calls in one process: each verdict is the verdict the call has on its own -/
theorem sequence_history_independent (calls : List (Opts × Doc)) (cache : List String) :
    runSeq codeTable calls cache = calls.map (fun c => validate codeTable c.1 c.2) :=
  runSeq_eq codeTable pattern_cache_unused.2.1 calls cache

/-- the hypothesis is needed: for a table in which document validation reads the cache (the shape of the code
after a "cache the compiled pattern and skip recompilation" change), a pattern the default engine cannot
compile is accepted once it is in the cache -/
theorem history_matters_if_cache_is_read :
    validate { codeTable with cacheRead := true } {} W.dLookahead = false ∧
    validateIn { codeTable with cacheRead := true } ["(?!a)"] {} W.dLookahead = true ∧
    validate codeTable { customRegex := true } W.dLookahead = true ∧ specVerdict { customRegex := true } W.dLookahead = .accept ∧
    validate codeTable {} W.dLookahead = false ∧ specVerdict {} W.dLookahead = .reject ∧
    validate codeTable { patDisabled := true } W.dLookahead = true := by
  decide +kernel

/-! ### History independence, second carrier: the settings record itself -/

/-- the settings record is per call (table `C04OptionState`): without options `getValidationOptions` returns a new zero
record each time, no package-level variable holds settings, and the only writes to settings fields outside the option
constructors are the example readings set by `RequestBody.Validate` (request) and `Response.Validate` (response),
read by `validateExampleValue` only -/
theorem option_record_is_per_call :
    Gen.c04OptionStateUnrecognised = [] ∧ codeOrigin.fallbackFresh = true ∧ codeOrigin.globals = 0 ∧
    codeOrigin.perCall = true ∧
    modeWriters Gen.c04OptionState = ["RequestBody.Validate", "Response.Validate"] ∧
    modeWrittenBy Gen.c04OptionState "RequestBody.Validate" = some (some .req) ∧
    modeWrittenBy Gen.c04OptionState "Response.Validate" = some (some .res) ∧
    modeReaders Gen.c04OptionState = ["validateExampleValue"] := by
  decide +kernel

/-- **C04, history independence of the example reading.** For every run (list of settings accesses: every document,
every traversal order), with or without options: the readings its example checks see do not depend on what earlier
calls of the process left behind, and the call leaves nothing behind itself. -/
theorem example_reading_history_independent (hasOpts : Bool) (evs : List Ev) (s1 s2 : Mode) :
    (runCall codeOrigin.perCall hasOpts evs s1).1 = (runCall codeOrigin.perCall hasOpts evs s2).1 ∧
    (runCall codeOrigin.perCall hasOpts evs s1).2 = s1 := by
  rw [option_record_is_per_call.2.2.2.1]
  exact ⟨runCall_perCall_fst hasOpts evs s1 s2, runCall_perCall_snd hasOpts evs s1⟩

/-- a sequence of calls on one process (same or different documents, with or without options): each call sees the
readings it sees as the first call of a fresh process -/
theorem sequence_example_reading_independent (calls : List (Bool × List Ev)) (sh : Mode) :
    runCalls codeOrigin.perCall calls sh = calls.map (fun c => (runCall codeOrigin.perCall c.1 c.2 .plain).1) := by
  rw [option_record_is_per_call.2.2.2.1]; exact runCalls_perCall calls sh

/-- a call without options reads every example plainly (this is the reading `accepts` fixes for document validation) -/
theorem optionless_examples_read_plainly (evs : List Ev) (sh : Mode) :
    ∀ m ∈ (runCall codeOrigin.perCall false evs sh).1, m = Mode.plain := by
  rw [option_record_is_per_call.2.2.2.1]
  intro m hm
  simp only [runCall, Bool.false_eq_true, if_false, if_true, List.mem_map] at hm
  obtain ⟨_, _, h⟩ := hm
  exact h.symm

/-- the hypothesis is needed: with a fallback record that lives as long as the process (the shape of the code after a
"do not allocate a settings record per call" change) the second of two identical option-less calls reads its
parameter example as a response — and an example that carries a writeOnly property, accepted by the first call, is
rejected by the second; one lacking a required writeOnly property is rejected first and accepted afterwards -/
theorem history_matters_if_record_is_shared :
    runCalls false [(false, [.read, .set .res]), (false, [.read, .set .res])] .plain = [[.plain], [.res]] ∧
    runCalls true [(false, [.read, .set .res]), (false, [.read, .set .res])] .plain = [[.plain], [.plain]] ∧
    acceptsIn .plain W.aSecret (.obj ["id", "pw"]) = .yes ∧ acceptsIn .res W.aSecret (.obj ["id", "pw"]) = .no ∧
    acceptsIn .plain W.aSecret (.obj ["id"]) = .no ∧ acceptsIn .res W.aSecret (.obj ["id"]) = .yes ∧
    acceptsIn .req W.aSecret (.obj ["id", "pw"]) = .yes := by
  decide +kernel

/-- non-vacuity: a run with options in which a request body precedes an example check does see the request reading -/
example : (runCall codeOrigin.perCall true [.read, .set .req, .read, .set .res, .read] .plain).1 = [.plain, .req, .res] := by
  decide +kernel

/-- **F-C04-8 (open), class `ExclExampleModeLeaks`.** With options one settings record serves the whole run, so the response
reading set by `components.responses.R` is still there when the parameter example of `/p` is checked (`seen_all_res`): the
conforming document is rejected (`writeOnly property in response`) although the same call without options accepts it and
the property accepts it; the twin whose example lacks the required writeOnly property is accepted although it violates
its schema. `conforming_accepted` / `violation_rejected_partial` speak about calls without options and about documents
without object examples; inside this class the differential run reports KNOWN-FINDING. -/
theorem witness_example_mode_leaks :
    leakClass true {} (W.dLeak (.obj ["id", "pw"])) = true ∧
    validateRes codeTable {} (W.dLeak (.obj ["id", "pw"])) = false ∧
    validate codeTable {} (W.dLeak (.obj ["id", "pw"])) = true ∧ specVerdict {} (W.dLeak (.obj ["id", "pw"])) = .accept ∧
    validateRes codeTable {} (W.dLeak (.obj ["id"])) = true ∧ specVerdict {} (W.dLeak (.obj ["id"])) = .reject ∧
    leakClass false {} (W.dLeak (.obj ["id", "pw"])) = false ∧ leakClass true { exDisabled := true } (W.dLeak (.obj ["id", "pw"])) = false := by
  decide +kernel

/-- inside the class every run is one whose `set`s are all the response reading, and such a run shows its example checks
that reading only -/
theorem leak_class_reading (evs : List Ev) (h : ∀ e ∈ evs, e = .read ∨ e = .set .res) :
    ∀ m ∈ (runCall codeOrigin.perCall true (.set .res :: evs) .plain).1, m = Mode.res := by
  intro m hm
  simp only [runCall, if_true, seen] at hm
  exact seen_all_res evs h m hm

/-! ### Witnesses: inside each exclusion class the code deviates (kernel-checked, replayed from corpus/C04) -/

/-- #7: `/r/{n}` with path parameter `m` is accepted, the property rejects it -/
theorem witness_template_names :
    validate codeTable {} W.d7 = true ∧ specVerdict {} W.d7 = .reject ∧ anyNode excl7Node W.d7 = true :=
  code_facts.2.2.2.1

/-- #28, what is left: an `xml` object with `"bogus": 1` is accepted (no edge), the property rejects it -/
theorem witness_xml_extra :
    validate codeTable {} W.d28b = true ∧ specVerdict {} W.d28b = .reject ∧
      anyNode (exclBelow knownUncovered {}) W.d28b = true := code_facts.2.2.2.2.1

/-- `$ref` with sibling `"bogus": 1` inside `properties` is accepted, the property rejects it -/
theorem witness_inner_ref_sibling :
    validate codeTable {} W.dInner = true ∧ specVerdict {} W.dInner = .reject ∧
      anyNode (exclInnerNode {}) W.dInner = true := code_facts.2.2.2.2.2.1

/-- what is left of F-C04-6: a header of an encoding object that carries `name` is accepted (`Encoding.Validate`
drops the header's error by `continue`), the property rejects it; no local exclusion class is involved -/
theorem witness_encoding_header_error_dropped :
    validate codeTable {} W.dEncHeader = true ∧ specVerdict {} W.dEncHeader = .reject ∧
      anyNode (exclBelow knownUncovered {}) W.dEncHeader = true ∧ anyNode (exclLocal {}) W.dEncHeader = false :=
  code_facts.2.2.2.2.2.2

/-! ### Headers that contain themselves (4c7d612) -/

/-- a header met again below itself (through the encoding headers of its own content) is accepted at once by
`Header.Validate`, under every option set and whatever it carries, and the specification counts no violation at
that occurrence: the object is judged where it is met first, which is an ancestor on the same path. The guard
every call of `Header.Validate` carries in the table fails there (no child is visited, no check made), and the
containment relation of the property does not continue below the mark either -/
theorem header_met_again_is_silent (T : Table) (o : Opts) (a : Attrs) (kids : List (String × Doc)) (vs : List Bool)
    (h : a.flag "again" = true) :
    localOK T o (.node .header a kids) vs = true ∧ rulesOK o (.node .header a kids) = true ∧
    litHolds o a "@not:cond:h == header" = false ∧ (∀ pos, specAct .header a pos = false) := by
  exact ⟨by simp [localOK, localOKp, Doc.kind, Doc.attrs, headerOKCode, h],
         by simp [rulesOK, violations, Doc.kind, Doc.attrs, h], by simp [litHolds, h], by simp [specAct, h]⟩

/-- what this means for `violation_rejected`: on a document with such a cycle the model tree holds the header
once with its content, and the mark below it carries nothing; a violation in the header or in what it contains is
found at the first occurrence — rejected, outside every exclusion class — while the cycle alone is accepted -/
theorem regression_cyclic_header :
    validate codeTable {} W.dCyclicHeader = true ∧ specVerdict {} W.dCyclicHeader = .accept ∧
      validate codeTable {} W.dCyclicHeaderExtra = false ∧ specVerdict {} W.dCyclicHeaderExtra = .reject ∧
      anyNode (exclNode knownUncovered {}) W.dCyclicHeaderExtra = false ∧
      validate codeTable {} W.dCyclicHeaderStyle = false ∧ specVerdict {} W.dCyclicHeaderStyle = .reject ∧
      anyNode (exclNode knownUncovered {}) W.dCyclicHeaderStyle = false := code_facts_regress.1

/-! ### Regression theorems: former witnesses of repaired defects (model = specification on them; the inputs
stay in corpus/C04, so a regression of the code is reported with that input) -/

/-- 7cd29a9: a failing header no longer hides an unsupported style / an extra field of the encoding object, and
a header key that is not an identifier is rejected; 1f4197d: an ill-formed server under an operation or a path
item is rejected, outside every exclusion class -/
theorem regression_encoding_not_masked_and_nested_servers :
    validate codeTable {} W.dEncMasked = false ∧ specVerdict {} W.dEncMasked = .reject ∧
      validate codeTable {} W.dEncBadKey = false ∧ specVerdict {} W.dEncBadKey = .reject ∧
      validate codeTable {} W.dOpServer = false ∧ specVerdict {} W.dOpServer = .reject ∧
      anyNode (exclNode knownUncovered {}) W.dOpServer = false ∧
      validate codeTable {} W.dPathItemServer = false ∧ specVerdict {} W.dPathItemServer = .reject ∧
      anyNode (exclNode knownUncovered {}) W.dPathItemServer = false := code_facts_regress.2.1

/-- 9d56ffd: an example that gives only `externalValue` under a string schema is accepted; an example next to
it whose value violates the schema is still rejected (and accepted once examples validation is switched off) -/
theorem regression_external_example :
    validate codeTable {} W.dExternal = true ∧ specVerdict {} W.dExternal = .accept ∧
      validate codeTable { exDisabled := true } W.dExternal = true ∧
      validate codeTable {} W.dExternalBad = false ∧ specVerdict {} W.dExternalBad = .reject ∧
      validate codeTable { exDisabled := true } W.dExternalBad = true := code_facts_regress.2.2.1

/-- 78418b3: a header object with `"bogus": 1` is rejected -/
theorem regression_header_extra :
    validate codeTable {} W.d28a = false ∧ specVerdict {} W.d28a = .reject ∧
      anyNode (exclNode knownUncovered {}) W.d28a = false := code_facts_regress.2.2.2.1

/-- 3a27745: a header whose example violates its schema is rejected, accepted once examples validation is
switched off; the matching example is accepted -/
theorem regression_header_example :
    validate codeTable {} W.dHeaderExample = false ∧ specVerdict {} W.dHeaderExample = .reject ∧
      anyNode (exclNode knownUncovered {}) W.dHeaderExample = false ∧
      validate codeTable { exDisabled := true } W.dHeaderExample = true ∧
      specVerdict { exDisabled := true } W.dHeaderExample = .accept ∧
      validate codeTable {} W.dHeaderExampleOK = true ∧ specVerdict {} W.dHeaderExampleOK = .accept :=
  code_facts_regress.2.2.2.2.1

/-- 78418b3: an encoding object with an unsupported style, or with an extra field, is rejected; a supported
style with an extension field is accepted -/
theorem regression_encoding_validated :
    validate codeTable {} W.dEncStyle = false ∧ specVerdict {} W.dEncStyle = .reject ∧
      anyNode (exclNode knownUncovered {}) W.dEncStyle = false ∧
      validate codeTable {} W.dEncExtra = false ∧ specVerdict {} W.dEncExtra = .reject ∧
      anyNode (exclNode knownUncovered {}) W.dEncExtra = false ∧
      validate codeTable {} W.dEncOK = true ∧ specVerdict {} W.dEncOK = .accept :=
  code_facts_regress.2.2.2.2.2.1

/-- 3a27745: `example` next to `examples` in a header object is rejected, whatever the examples option -/
theorem regression_header_example_and_examples :
    validate codeTable {} W.dHeaderBoth = false ∧ specVerdict {} W.dHeaderBoth = .reject ∧
      validate codeTable { exDisabled := true } W.dHeaderBoth = false ∧
      specVerdict { exDisabled := true } W.dHeaderBoth = .reject :=
  code_facts_regress.2.2.2.2.2.2.1

/-! ### Non-vacuity -/

/-- a conforming document outside every exclusion class: accepted, by model and specification -/
example : conformingB {} W.good = true ∧ anyNode (exclNode knownUncovered {}) W.good = false ∧
    validate codeTable {} W.good = true := code_facts_regress.2.2.2.2.2.2.2.1

/-- a violation outside the exclusion classes, three containers deep (a default that violates its schema,
under `items` of a schema without `type`): rejected under the default options, accepted once the option
that names its rule is set, still rejected under the other options -/
example : specVerdict {} W.dDeepDefault = .reject ∧ anyNode (exclNode knownUncovered {}) W.dDeepDefault = false ∧
    validate codeTable {} W.dDeepDefault = false ∧
    validate codeTable { defDisabled := true } W.dDeepDefault = true ∧
    validate codeTable { exDisabled := true } W.dDeepDefault = false ∧
    validate codeTable { patDisabled := true, fmtEnabled := true, extProhibited := true } W.dDeepDefault = false :=
  code_facts_regress.2.2.2.2.2.2.2.2.1

/-- the template rule does fire when the counts differ, and the benign twin of the header extra field passes -/
example : validate codeTable {} W.dMissing = false ∧ specVerdict {} W.dMissing = .reject ∧
    validate codeTable {} W.d28aOK = true ∧ specVerdict {} W.d28aOK = .accept :=
  code_facts_regress.2.2.2.2.2.2.2.2.2.1

/-- the template rule is applied to every operation of a path item separately: `get` declares the
variable, `put` does not — rejected, outside every exclusion class -/
example : validate codeTable {} W.dSecondOp = false ∧ specVerdict {} W.dSecondOp = .reject ∧
    anyNode (exclNode knownUncovered {}) W.dSecondOp = false :=
  code_facts_regress.2.2.2.2.2.2.2.2.2.2

end KinModel.DocValidate
