/-
C04 — document validation accepts conforming documents, rejects each violation.
Property theorems only. Model and specification: KinModel/DocValidate.lean; helper lemmas:
KinModel/Lemmas/C04Local*.lean; regenerated table: KinModel/Gen/Descent.lean.

Full-strength statements (what the property says), kept here as the goal shape:

  conforming_accepted :  conformingB o d = true → validate codeTable o d = true
  violation_rejected  :  Reach specAct d n → rulesOK o n = false → validate codeTable o d = false
  edges_cover         :  ∀ e ∈ specEdges, the table has an unconditional edge for e

They do not hold of the code as it is: four exclusion classes (each with a kernel-checked witness below,
each replayed against the real code from corpus/C04/):
  * excl7Node          (DESIGN §7 #7)   template variable names compared only when the counts differ;
  * exclHeaderNode / exclBelow knownUncovered (§7 #28) extra fields in header / xml / discriminator /
                        encoding objects are never looked at;
  * exclInnerNode      sibling keys of a `$ref` inside a schema are never looked at;
  * exclExternalNode   an example that gives only `externalValue` is validated as the value `null`
                        (a conforming document is rejected);
  * exclHeaderExampleNode  the example / examples of a header object are never checked against its schema.
-/
import KinModel.Lemmas.C04Reach
import KinModel.Lemmas.C04Witness
import KinModel.Gen.ParamStyles
namespace KinModel.DocValidate

/-! ### Obligations on the regenerated table -/

/-- all closed facts about the regenerated table and the witness documents, decided by the kernel in one
evaluation of the table (the named theorems below are its components) -/
theorem code_facts :
    (Gen.descentUnrecognised = [] ∧ (Gen.descent.all (fun r => (interp r).isSome)) = true) ∧
    TableOK codeTable = true ∧
    uncovered codeTable = knownUncovered ∧
    (validate codeTable {} W.d7 = true ∧ specVerdict {} W.d7 = .reject ∧ anyNode excl7Node W.d7 = true) ∧
    (validate codeTable {} W.d28a = true ∧ specVerdict {} W.d28a = .reject ∧ anyNode (exclHeaderNode {}) W.d28a = true) ∧
    (validate codeTable {} W.d28b = true ∧ specVerdict {} W.d28b = .reject ∧
      anyNode (exclBelow knownUncovered {}) W.d28b = true) ∧
    (validate codeTable {} W.dInner = true ∧ specVerdict {} W.dInner = .reject ∧
      anyNode (exclInnerNode {}) W.dInner = true) ∧
    (validate codeTable {} W.dExternal = false ∧ specVerdict {} W.dExternal = .accept ∧
      anyNode (exclExternalNode {}) W.dExternal = true ∧
      validate codeTable { exDisabled := true } W.dExternal = true) ∧
    (conformingB {} W.good = true ∧ anyNode (exclNode knownUncovered {}) W.good = false ∧
      validate codeTable {} W.good = true) ∧
    (specVerdict {} W.dDeepDefault = .reject ∧ anyNode (exclNode knownUncovered {}) W.dDeepDefault = false ∧
      validate codeTable {} W.dDeepDefault = false ∧
      validate codeTable { defDisabled := true } W.dDeepDefault = true ∧
      validate codeTable { exDisabled := true } W.dDeepDefault = false ∧
      validate codeTable { patDisabled := true, fmtEnabled := true, extProhibited := true } W.dDeepDefault = false) ∧
    (validate codeTable {} W.dMissing = false ∧ specVerdict {} W.dMissing = .reject ∧
      validate codeTable {} W.d28aOK = true ∧ specVerdict {} W.d28aOK = .accept) ∧
    (validate codeTable {} W.dHeaderExample = true ∧ specVerdict {} W.dHeaderExample = .reject ∧
      anyNode (exclHeaderExampleNode {}) W.dHeaderExample = true ∧
      specVerdict { exDisabled := true } W.dHeaderExample = .accept ∧
      validate codeTable {} W.dHeaderExampleOK = true ∧ specVerdict {} W.dHeaderExampleOK = .accept) ∧
    (validate codeTable {} W.dSecondOp = false ∧ specVerdict {} W.dSecondOp = .reject ∧
      anyNode (exclNode knownUncovered {}) W.dSecondOp = false) := by
  decide +kernel

/-- every `Validate` method, every child call and every option guard of the code was read and is
interpreted by the model (no `unrecognised` row) -/
theorem table_recognised :
    Gen.descentUnrecognised = [] ∧ (Gen.descent.all (fun r => (interp r).isSome)) = true := code_facts.1

/-- the calls to `validateExtensions`, `ValidateIdentifier`, `VisitJSON(default)`, `validateExampleValue`
are where the theorems need them, under exactly the option guards they name -/
theorem table_ok : TableOK codeTable = true := code_facts.2.1

/-- `edges_cover` (partial): of the containment edges named by the property, the code lacks exactly
`mediaType → encoding`, `schema → xml`, `schema → discriminator`; every other one is followed
unconditionally -/
theorem edges_cover_partial : uncovered codeTable = knownUncovered := code_facts.2.2.1

/-- the finite domain over which the style tables are compared: every `in` and style name of the OpenAPI
specification, plus a foreign and an empty one -/
def styleDomain : List (String × String × Bool) :=
  (["path", "query", "header", "cookie", "body", ""].flatMap fun l =>
    ["form", "simple", "label", "matrix", "spaceDelimited", "pipeDelimited", "deepObject", "weird", ""].flatMap fun s =>
      [(l, s, true), (l, s, false)])

/-- the (in, style, explode) case list of `Parameter.Validate`, regenerated from the source, is the table
of the OpenAPI 3.0 specification (`smSupported`, which the rule `badStyle` of the specification uses): same
verdict on the whole domain, no row outside it, nothing unread -/
theorem style_table_is_oas_table :
    Gen.paramStylesUnrecognised = [] ∧
    Gen.paramStyles.all (fun x => styleDomain.contains x) = true ∧
    styleDomain.all (fun x => Gen.paramStyles.contains x == smSupported x.1 x.2.1 x.2.2) = true := by
  decide +kernel

/-- the defaults of `Parameter.SerializationMethod`, regenerated from the source, are those of the
specification (`smOf`): `simple`/no explode for path and header, `form`/explode for query and cookie -/
theorem style_defaults_are_oas_defaults :
    (["path", "query", "header", "cookie"].all fun l =>
      (Gen.paramStyleDefaults.lookup l == some (smOf { strs := [("in", l)] }))) = true ∧
    Gen.paramStyleDefaults.length = 4 := by
  decide +kernel

/-- the (style, explode) disjunction of `Header.Validate` and the defaults of `Header.SerializationMethod`,
regenerated from the source, say what the model's header check says: the effective style (`simple` when
none is given) must be `simple`, whatever `explode` is -/
theorem header_style_table_is_oas_table :
    Gen.headerStyleDefault = ("simple", false) ∧
    (["form", "simple", "label", "matrix", "spaceDelimited", "pipeDelimited", "deepObject", "weird"].all fun s =>
      [true, false].all fun e => Gen.headerStyles.contains (s, e) == decide (s = "simple")) = true ∧
    Gen.headerStyles.all (fun x => x.1 == "simple") = true := by
  decide +kernel

/-! ### The descent -/

/-- the model of `Validate` accepts exactly when every node reached through the code's own edges (under
the given options) passes the code's local checks -/
theorem validate_iff (T : Table) (o : Opts) (d : Doc) :
    validate T o d = true ↔ ∀ n, Reach (active T o) d n → localOK T o n = true :=
  descend_iff _ _ d

/-! ### Local checks = rules -/

/-- at every node outside the exclusion classes, the code's local checks (transcribed in the code's
order, with their `validateExtensions` / example / default calls read off the table) hold exactly when
no rule that is in force under the options is violated -/
theorem local_checks_eq_rules_partial (T : Table) (o : Opts) (d : Doc) (hT : TableOK T = true)
    (hex : exclLocal o d = false) : localOK T o d = rulesOK o d :=
  localOK_eq_rules T o d hT hex

/-! ### Conforming documents are accepted -/

/-- **C04 (a), partial.** A document all of whose nodes satisfy every rule in force is accepted —
provided no parameter / media type carries an example without a value (class `exclExternalNode`). -/
theorem conforming_accepted_partial (T : Table) (o : Opts) (d : Doc) (hT : TableOK T = true)
    (hex : ∀ n, Reach allAct d n → exclExternalNode o n = false)
    (h : conformingB o d = true) : validate T o d = true := by
  unfold validate
  rw [descend_iff]
  intro n hr
  have hr' : Reach allAct d n := hr.mono (fun _ _ _ _ => rfl)
  exact localOK_of_rulesOK T o n hT (hex n hr') ((descend_iff _ _ d).mp h n hr')

/-! ### Each violation at a reachable place is rejected -/

/-- **C04 (b), partial.** If some node reachable through the property's containment relation violates a
rule that is in force, the document is rejected — provided no node reachable that way is in an exclusion
class (`exclNode`: #7, #28, inner `$ref` siblings, external-only examples). Holds for every document,
every location and every option set. -/
theorem violation_rejected_partial (T : Table) (o : Opts) (d n : Doc) (hT : TableOK T = true)
    (hr : Reach specAct d n) (hbad : rulesOK o n = false)
    (hex : ∀ m, Reach specAct d m → exclNode (uncovered T) o m = false) : validate T o d = false := by
  cases hv : validate T o d with
  | false => rfl
  | true => rw [reach_rules T o hT hr hex hv] at hbad; cases hbad

/-- the executable oracle used by the differential run, on the code's table: verdict `accept` -/
theorem specVerdict_accept_partial (o : Opts) (d : Doc)
    (hex : ∀ n, Reach allAct d n → exclExternalNode o n = false)
    (h : specVerdict o d = .accept) : validate codeTable o d = true := by
  apply conforming_accepted_partial codeTable o d table_ok hex
  unfold specVerdict at h
  cases hc : conformingB o d with
  | true => rfl
  | false => simp [hc] at h; split at h <;> cases h

/-- the executable oracle used by the differential run, on the code's table: verdict `reject` -/
theorem specVerdict_reject_partial (o : Opts) (d : Doc)
    (hex : ∀ m, Reach specAct d m → exclNode knownUncovered o m = false)
    (h : specVerdict o d = .reject) : validate codeTable o d = false := by
  have hclean : specCleanB o d = false := by
    unfold specVerdict at h
    cases hc : conformingB o d with
    | true => simp [hc] at h
    | false =>
      cases hs : specCleanB o d with
      | false => rfl
      | true => simp [hc, hs] at h
  cases hv : validate codeTable o d with
  | false => rfl
  | true =>
    have : specCleanB o d = true := by
      unfold specCleanB
      rw [descend_iff]
      intro n hr
      exact reach_rules codeTable o table_ok hr (by rw [edges_cover_partial]; exact hex) hv
    rw [this] at hclean; cases hclean

/-- `conformingB` is the executable twin of "every node satisfies every rule in force" -/
theorem conformingB_iff (o : Opts) (d : Doc) :
    conformingB o d = true ↔ ∀ n, Reach allAct d n → rulesOK o n = true := descend_iff _ _ d

/-- `specCleanB` is the executable twin of "no violation at a place the property reaches" -/
theorem specCleanB_iff (o : Opts) (d : Doc) :
    specCleanB o d = true ↔ ∀ n, Reach specAct d n → rulesOK o n = true := descend_iff _ _ d

/-! ### Each option switches off only the check it names -/

/-- `DisableExamplesValidation` changes the status of the example rule only -/
theorem option_examples_only (o : Opts) (b : Bool) (v : Viol) (h : v.rule ≠ "exampleMismatch") :
    enabled { o with exDisabled := b } v = enabled o v := by
  unfold enabled; split <;> simp_all

/-- `DisableSchemaDefaultsValidation` changes the status of the default rule only -/
theorem option_defaults_only (o : Opts) (b : Bool) (v : Viol) (h : v.rule ≠ "defaultMismatch") :
    enabled { o with defDisabled := b } v = enabled o v := by
  unfold enabled; split <;> simp_all

/-- `EnableSchemaFormatValidation` changes the status of the format rule only -/
theorem option_format_only (o : Opts) (b : Bool) (v : Viol) (h : v.rule ≠ "unknownFormat") :
    enabled { o with fmtEnabled := b } v = enabled o v := by
  unfold enabled; split <;> simp_all

/-- `DisableSchemaPatternValidation` changes the status of the pattern rule only -/
theorem option_pattern_only (o : Opts) (b : Bool) (v : Viol) (h : v.rule ≠ "badPattern") :
    enabled { o with patDisabled := b } v = enabled o v := by
  unfold enabled; split <;> simp_all

/-- `ProhibitExtensionsWithRef` changes the status of the `x-` sibling rule only -/
theorem option_refext_only (o : Opts) (b : Bool) (v : Viol) (h : v.rule ≠ "refExtension") :
    enabled { o with extProhibited := b } v = enabled o v := by
  unfold enabled; split <;> simp_all

/-- `AllowExtraSiblingFields` concerns the three extra-field rules only, and only the listed names -/
theorem option_allowed_only (o : Opts) (l : List String) (v : Viol)
    (h : (v.rule ≠ "extraField" ∧ v.rule ≠ "refSibling" ∧ v.rule ≠ "refExtension") ∨ (v.key ∉ l ∧ v.key ∉ o.allowed)) :
    enabled { o with allowed := l } v = enabled o v := by
  unfold enabled; split <;> simp_all

/-- with examples validation switched off, a node passes exactly when each of its violations is either
not in force anyway or is the example rule -/
theorem rulesOK_examples_off (o : Opts) (d : Doc) :
    rulesOK { o with exDisabled := true } d =
      (violations d).all (fun v => v.rule == "exampleMismatch" || !enabled o v) := by
  unfold rulesOK
  apply all_congr_mem
  intro v _
  by_cases h : v.rule = "exampleMismatch"
  · simp [h, enabled]
  · rw [option_examples_only o true v h]; simp [h]

/-- **C04 (c), partial.** `option_only_its_check` for `DisableExamplesValidation`: with the option set,
the document is accepted exactly when every violation at a node the code reaches is either not in force
under the other options or is the example rule. -/
theorem option_only_its_check_partial (T : Table) (o : Opts) (d : Doc) (hT : TableOK T = true)
    (hex : ∀ n, exclLocal { o with exDisabled := true } n = false) :
    validate T { o with exDisabled := true } d = true ↔
      ∀ n, Reach (active T { o with exDisabled := true }) d n →
        ∀ v ∈ violations n, v.rule = "exampleMismatch" ∨ enabled o v = false := by
  rw [validate_iff]
  constructor
  · intro h n hr v hv
    have := h n hr
    rw [localOK_eq_rules T _ n hT (hex n), rulesOK_examples_off, List.all_eq_true] at this
    simpa using this v hv
  · intro h n hr
    rw [localOK_eq_rules T _ n hT (hex n), rulesOK_examples_off, List.all_eq_true]
    intro v hv
    simpa using h n hr v hv

/-! ### Witnesses: inside each exclusion class the code deviates (kernel-checked, replayed from corpus/C04) -/

/-- #7: `/r/{n}` with path parameter `m` is accepted, the property rejects it -/
theorem witness_template_names :
    validate codeTable {} W.d7 = true ∧ specVerdict {} W.d7 = .reject ∧ anyNode excl7Node W.d7 = true :=
  code_facts.2.2.2.1

/-- #28 (a): a header object with `"bogus": 1` is accepted, the property rejects it -/
theorem witness_header_extra :
    validate codeTable {} W.d28a = true ∧ specVerdict {} W.d28a = .reject ∧
      anyNode (exclHeaderNode {}) W.d28a = true := code_facts.2.2.2.2.1

/-- #28 (b): an `xml` object with `"bogus": 1` is accepted (no edge), the property rejects it -/
theorem witness_xml_extra :
    validate codeTable {} W.d28b = true ∧ specVerdict {} W.d28b = .reject ∧
      anyNode (exclBelow knownUncovered {}) W.d28b = true := code_facts.2.2.2.2.2.1

/-- `$ref` with sibling `"bogus": 1` inside `properties` is accepted, the property rejects it -/
theorem witness_inner_ref_sibling :
    validate codeTable {} W.dInner = true ∧ specVerdict {} W.dInner = .reject ∧
      anyNode (exclInnerNode {}) W.dInner = true := code_facts.2.2.2.2.2.2.1

/-- a conforming document (example with `externalValue` only) is rejected; with examples validation
switched off it is accepted -/
theorem witness_external_example :
    validate codeTable {} W.dExternal = false ∧ specVerdict {} W.dExternal = .accept ∧
      anyNode (exclExternalNode {}) W.dExternal = true ∧
      validate codeTable { exDisabled := true } W.dExternal = true := code_facts.2.2.2.2.2.2.2.1

/-- a header whose example violates its schema is accepted, the property rejects it (and accepts it once
examples validation is switched off); the matching example is accepted by both -/
theorem witness_header_example :
    validate codeTable {} W.dHeaderExample = true ∧ specVerdict {} W.dHeaderExample = .reject ∧
      anyNode (exclHeaderExampleNode {}) W.dHeaderExample = true ∧
      specVerdict { exDisabled := true } W.dHeaderExample = .accept ∧
      validate codeTable {} W.dHeaderExampleOK = true ∧ specVerdict {} W.dHeaderExampleOK = .accept :=
  code_facts.2.2.2.2.2.2.2.2.2.2.2.1

/-! ### Non-vacuity -/

/-- a conforming document outside every exclusion class: accepted, by model and specification -/
example : conformingB {} W.good = true ∧ anyNode (exclNode knownUncovered {}) W.good = false ∧
    validate codeTable {} W.good = true := code_facts.2.2.2.2.2.2.2.2.1

/-- a violation outside the exclusion classes, three containers deep (a default that violates its schema,
under `items` of a schema without `type`): rejected under the default options, accepted once the option
that names its rule is set, still rejected under the other options -/
example : specVerdict {} W.dDeepDefault = .reject ∧ anyNode (exclNode knownUncovered {}) W.dDeepDefault = false ∧
    validate codeTable {} W.dDeepDefault = false ∧
    validate codeTable { defDisabled := true } W.dDeepDefault = true ∧
    validate codeTable { exDisabled := true } W.dDeepDefault = false ∧
    validate codeTable { patDisabled := true, fmtEnabled := true, extProhibited := true } W.dDeepDefault = false :=
  code_facts.2.2.2.2.2.2.2.2.2.1

/-- the template rule does fire when the counts differ, and the benign twin of #28 passes -/
example : validate codeTable {} W.dMissing = false ∧ specVerdict {} W.dMissing = .reject ∧
    validate codeTable {} W.d28aOK = true ∧ specVerdict {} W.d28aOK = .accept := code_facts.2.2.2.2.2.2.2.2.2.2.1

/-- the template rule is applied to every operation of a path item separately: `get` declares the
variable, `put` does not — rejected, outside every exclusion class -/
example : validate codeTable {} W.dSecondOp = false ∧ specVerdict {} W.dSecondOp = .reject ∧
    anyNode (exclNode knownUncovered {}) W.dSecondOp = false := code_facts.2.2.2.2.2.2.2.2.2.2.2.2

end KinModel.DocValidate
